From BT Require Import Base.ListX SduBuf.SduBufModel SduBuf.SduBufSpec SduBuf.SduBufProofs.
From Coq Require Import Lia ZifyBool.
Local Open Scope N_scope.

(* ------------------------------------------------------------------ receive *)
Definition llid_ok (p : pdu) : Prop := fst p = 1 \/ fst p = 2 \/ fst p = 3.

Definition justified (m : N) (consumed : list pdu) (rs : rstate) : Prop :=
  match rs with
  | Idle => True
  | Coll L acc =>
      exists pre b0 mid, consumed = pre ++ (2, b0) :: mid /\ no_start mid /\ acc = b0 ++ bodies_of 1 mid /\
                         4 <= lenN b0 /\ read16 b0 = L /\ L <= m
  | Done sdu =>
      exists pre b0 mid, consumed = pre ++ (2, b0) :: mid /\ no_start mid /\ sdu = b0 ++ bodies_of 1 mid /\
                         4 <= lenN b0 /\ lenN sdu = read16 b0 + 4 /\ read16 b0 <= m
  end.

Lemma bodies_of_app llid a b : bodies_of llid (a ++ b) = bodies_of llid a ++ bodies_of llid b.
Proof. unfold bodies_of. now rewrite filter_app, map_app, concat_app. Qed.

Lemma no_start_app a b : no_start a -> no_start b -> no_start (a ++ b).
Proof. unfold no_start. intros. apply Forall_app. auto. Qed.

Lemma justified_ctrl m consumed rs p :
  fst p = 3 -> justified m consumed rs -> justified m (consumed ++ [p]) rs.
Proof.
  intros E. destruct rs as [|L acc|x]; simpl; auto.
  - intros (pre & b0 & mid & H1 & H2 & H3 & H4).
    exists pre, b0, (mid ++ [p]). split; [|split; [|split]]; auto.
    + rewrite H1, <- app_assoc. reflexivity.
    + apply no_start_app; auto. constructor; auto. rewrite E. discriminate.
    + rewrite bodies_of_app. unfold bodies_of at 2. simpl. rewrite E. simpl. now rewrite app_nil_r.
  - intros (pre & b0 & mid & H1 & H2 & H3 & H4).
    exists pre, b0, (mid ++ [p]). split; [|split; [|split]]; auto.
    + rewrite H1, <- app_assoc. reflexivity.
    + apply no_start_app; auto. constructor; auto. rewrite E. discriminate.
    + rewrite bodies_of_app. unfold bodies_of at 2. simpl. rewrite E. simpl. now rewrite app_nil_r.
Qed.

Definition head_is (e : expect) (rs' : rstate) (pend' : list pdu) : Prop :=
  match e with
  | ESdu x => rs' = Done x
  | EPdu p => exists t, pend' = p :: t /\ (fst p = 3 \/ rs' = Idle)
  | ENone => pend' = []
  end.

Lemma spec_loop_justified m : forall pend consumed rs rs' pend' e,
  Forall llid_ok pend -> justified m consumed rs -> (forall x, rs <> Done x) ->
  spec_loop m rs pend = (rs', pend', e) ->
  exists consumed', consumed ++ pend = consumed' ++ pend' /\ justified m consumed' rs' /\ head_is e rs' pend' /\
                    (forall x, rs' = Done x -> e = ESdu x).
Proof.
  induction pend as [|p pend IH]; intros consumed rs rs' pend' e OK HJ ND E.
  - simpl in E. inversion E; subst. exists consumed. repeat split; auto. intros x ->. destruct (ND x eq_refl).
  - inversion OK as [|? ? OKp OKt]; subst. cbn [spec_loop] in E.
    assert (AppE : forall l, (consumed ++ [p]) ++ l = consumed ++ p :: l) by (intros; now rewrite <- app_assoc).
    destruct (N.eqb_spec (fst p) 3) as [E3|N3].
    + inversion E; subst. exists consumed. repeat split; auto.
      * simpl. eauto.
      * intros x ->. destruct (ND x eq_refl).
    + destruct (N.eqb_spec (fst p) 2) as [E2|N2].
      * assert (Ep : p = (2, snd p)) by (destruct p; simpl in *; congruence).
        destruct (classify_start m (snd p)) eqn:CL.
        -- inversion E; subst. exists consumed. repeat split; auto.
           ++ simpl. eauto.
           ++ intros ? ?; discriminate.
        -- unfold classify_start in CL.
           destruct (N.leb_spec 4 (lenN (snd p))); [|discriminate].
           destruct (N.eqb_spec (read16 (snd p) + 4) (lenN (snd p))); [discriminate|].
           destruct ((read16 (snd p) <=? m) && (lenN (snd p) <? read16 (snd p) + 4))%bool eqn:C; [|discriminate].
           inversion CL; subst L.
           destruct (IH (consumed ++ [p]) (Coll (read16 (snd p)) (snd p)) rs' pend' e) as (c' & A1 & A2 & A3 & A4); auto.
           ++ simpl. exists consumed, (snd p), []. rewrite <- Ep.
              repeat split; auto; try lia. constructor. unfold bodies_of; simpl. now rewrite app_nil_r.
           ++ discriminate.
           ++ exists c'. rewrite <- A1, AppE. auto.
        -- destruct (IH (consumed ++ [p]) Idle rs' pend' e) as (c' & A1 & A2 & A3 & A4); simpl; auto.
           ++ discriminate.
           ++ exists c'. rewrite <- A1, AppE. auto.
      * assert (E1 : fst p = 1) by (destruct OKp as [?|[?|?]]; congruence).
        destruct rs as [|L acc|x]; [| |destruct (ND x eq_refl)].
        -- destruct (IH (consumed ++ [p]) Idle rs' pend' e) as (c' & A1 & A2 & A3 & A4); simpl; auto.
           ++ discriminate.
           ++ exists c'. rewrite <- A1, AppE. auto.
        -- simpl in HJ. destruct HJ as (pre & b0 & mid & H1 & H2 & H3 & H4 & H5 & H6).
           assert (HJ' : forall P : Prop, P ->
                     exists pre' b0' mid', consumed ++ [p] = pre' ++ (2, b0') :: mid' /\ no_start mid' /\
                       acc ++ snd p = b0' ++ bodies_of 1 mid' /\ 4 <= lenN b0' /\ read16 b0' = L /\ L <= m).
           { intros _ _. exists pre, b0, (mid ++ [p]). repeat split; auto.
             - rewrite H1, <- app_assoc. reflexivity.
             - apply no_start_app; auto. constructor; auto. rewrite E1. discriminate.
             - rewrite bodies_of_app, H3, <- app_assoc. f_equal. f_equal.
               unfold bodies_of. simpl. rewrite E1. simpl. now rewrite app_nil_r. }
           destruct (N.ltb_spec (lenN (acc ++ snd p)) (L + 4)).
           ++ destruct (IH (consumed ++ [p]) (Coll L (acc ++ snd p)) rs' pend' e) as (c' & A1 & A2 & A3 & A4); auto.
              ** simpl. apply (HJ' True I).
              ** discriminate.
              ** exists c'. rewrite <- A1, AppE. auto.
           ++ destruct (N.eqb_spec (lenN (acc ++ snd p)) (L + 4)).
              ** inversion E; subst. exists (consumed ++ [p]). rewrite AppE. repeat split; auto.
                 --- simpl. destruct (HJ' True I) as (pre' & b0' & mid' & G1 & G2 & G3 & G4 & G5 & G6).
                     exists pre', b0', mid'. repeat split; auto; try lia.
                 --- intros x Hx. inversion Hx; auto.
              ** destruct (IH (consumed ++ [p]) Idle rs' pend' e) as (c' & A1 & A2 & A3 & A4); simpl; auto.
                 --- discriminate.
                 --- exists c'. rewrite <- A1, AppE. auto.
Qed.
