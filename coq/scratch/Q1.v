From BT Require Import Base.ListX SduBuf.SduBufModel SduBuf.SduBufSpec SduBuf.SduBufProofs.
From Coq Require Import Lia ZifyBool.
Local Open Scope N_scope.

(* ------------------------------------------------------------------ receive *)
Definition llid_ok (p : pdu) : Prop := fst p = 1 \/ fst p = 2 \/ fst p = 3.

Definition justified (m : N) (consumed : list pdu) (rs : rstate) : Prop :=
  match rs with
  | Idle => True
  | Coll L acc =>
      exists pre b0 mid, consumed = pre ++ (2, b0) :: mid /\ no_start mid /\ acc = b0 ++ bodies_of 1 mid /\
                         4 <= lenN b0 /\ read16 b0 = L /\ L <= m
  | Done sdu =>
      exists pre b0 mid, consumed = pre ++ (2, b0) :: mid /\ no_start mid /\ sdu = b0 ++ bodies_of 1 mid /\
                         4 <= lenN b0 /\ lenN sdu = read16 b0 + 4 /\ read16 b0 <= m
  end.

Lemma bodies_of_app llid a b : bodies_of llid (a ++ b) = bodies_of llid a ++ bodies_of llid b.
Proof. unfold bodies_of. now rewrite filter_app, map_app, concat_app. Qed.

Lemma no_start_app a b : no_start a -> no_start b -> no_start (a ++ b).
Proof. unfold no_start. intros. apply Forall_app. auto. Qed.

Lemma justified_ctrl m consumed rs p :
  fst p = 3 -> justified m consumed rs -> justified m (consumed ++ [p]) rs.
Proof.
  intros E. destruct rs as [|L acc|x]; simpl; auto.
  - intros (pre & b0 & mid & H1 & H2 & H3 & H4).
    exists pre, b0, (mid ++ [p]). split; [|split; [|split]]; auto.
    + rewrite H1, <- app_assoc. reflexivity.
    + apply no_start_app; auto. constructor; auto. rewrite E. discriminate.
    + rewrite bodies_of_app. unfold bodies_of at 2. simpl. rewrite E. simpl. now rewrite app_nil_r.
  - intros (pre & b0 & mid & H1 & H2 & H3 & H4).
    exists pre, b0, (mid ++ [p]). split; [|split; [|split]]; auto.
    + rewrite H1, <- app_assoc. reflexivity.
    + apply no_start_app; auto. constructor; auto. rewrite E. discriminate.
    + rewrite bodies_of_app. unfold bodies_of at 2. simpl. rewrite E. simpl. now rewrite app_nil_r.
Qed.

Definition head_is (e : expect) (rs' : rstate) (pend' : list pdu) : Prop :=
  match e with
  | ESdu x => rs' = Done x
  | EPdu p => exists t, pend' = p :: t /\ (fst p = 3 \/ rs' = Idle)
  | ENone => pend' = []
  end.

Lemma spec_loop_justified m : forall pend consumed rs rs' pend' e,
  Forall llid_ok pend -> justified m consumed rs -> (forall x, rs <> Done x) ->
  spec_loop m rs pend = (rs', pend', e) ->
  exists consumed', consumed ++ pend = consumed' ++ pend' /\ justified m consumed' rs' /\ head_is e rs' pend' /\
                    (forall x, rs' = Done x -> e = ESdu x).
Proof.
  induction pend as [|p pend IH]; intros consumed rs rs' pend' e OK HJ ND E.
  - simpl in E. inversion E; subst. exists consumed. repeat split; auto. intros x ->. destruct (ND x eq_refl).
  - inversion OK as [|? ? OKp OKt]; subst. cbn [spec_loop] in E.
    assert (AppE : forall l, (consumed ++ [p]) ++ l = consumed ++ p :: l) by (intros; now rewrite <- app_assoc).
    destruct (N.eqb_spec (fst p) 3) as [E3|N3].
    + inversion E; subst. exists consumed. repeat split; auto.
      * simpl. eauto.
      * intros x ->. destruct (ND x eq_refl).
    + destruct (N.eqb_spec (fst p) 2) as [E2|N2].
      * assert (Ep : p = (2, snd p)) by (destruct p; simpl in *; congruence).
        destruct (classify_start m (snd p)) eqn:CL.
        -- inversion E; subst. exists consumed. repeat split; auto.
           ++ simpl. eauto.
           ++ intros ? ?; discriminate.
        -- unfold classify_start in CL.
           destruct (N.leb_spec 4 (lenN (snd p))); [|discriminate].
           destruct (N.eqb_spec (read16 (snd p) + 4) (lenN (snd p))); [discriminate|].
           destruct ((read16 (snd p) <=? m) && (lenN (snd p) <? read16 (snd p) + 4))%bool eqn:C; [|discriminate].
           inversion CL; subst L.
           destruct (IH (consumed ++ [p]) (Coll (read16 (snd p)) (snd p)) rs' pend' e) as (c' & A1 & A2 & A3 & A4);
             [exact OKt | | intros ? ?; discriminate | exact E |].
           { simpl. exists consumed, (snd p), []. rewrite <- Ep.
             repeat split; auto; try lia. constructor. unfold bodies_of; simpl. now rewrite app_nil_r. }
           exists c'. rewrite <- A1, AppE. auto.
        -- destruct (IH (consumed ++ [p]) Idle rs' pend' e) as (c' & A1 & A2 & A3 & A4);
             [exact OKt | exact I | intros ? ?; discriminate | exact E |].
           exists c'. rewrite <- A1, AppE. auto.
      * assert (E1 : fst p = 1) by (destruct OKp as [?|[?|?]]; congruence).
        destruct rs as [|L acc|x]; [| |destruct (ND x eq_refl)].
        -- destruct (IH (consumed ++ [p]) Idle rs' pend' e) as (c' & A1 & A2 & A3 & A4);
             [exact OKt | exact I | intros ? ?; discriminate | exact E |].
           exists c'. rewrite <- A1, AppE. auto.
        -- simpl in HJ. destruct HJ as (pre & b0 & mid & H1 & H2 & H3 & H4 & H5 & H6).
           assert (HJ' : forall P : Prop, P ->
                     exists pre' b0' mid', consumed ++ [p] = pre' ++ (2, b0') :: mid' /\ no_start mid' /\
                       acc ++ snd p = b0' ++ bodies_of 1 mid' /\ 4 <= lenN b0' /\ read16 b0' = L /\ L <= m).
           { intros _ _. exists pre, b0, (mid ++ [p]). repeat split; auto.
             - rewrite H1, <- app_assoc. reflexivity.
             - apply no_start_app; auto. constructor; auto; rewrite E1; discriminate.
             - rewrite bodies_of_app, H3, <- app_assoc. f_equal. f_equal.
               unfold bodies_of. simpl. rewrite E1. simpl. now rewrite app_nil_r. }
           destruct (N.ltb_spec (lenN (acc ++ snd p)) (L + 4)).
           ++ destruct (IH (consumed ++ [p]) (Coll L (acc ++ snd p)) rs' pend' e) as (c' & A1 & A2 & A3 & A4);
                [exact OKt | simpl; apply (HJ' True I) | intros ? ?; discriminate | exact E |].
              exists c'. rewrite <- A1, AppE. auto.
           ++ destruct (N.eqb_spec (lenN (acc ++ snd p)) (L + 4)).
              ** inversion E as [[Hr Hp He]]. subst rs' pend' e. exists (consumed ++ [p]). rewrite AppE. repeat split; auto.
                 --- simpl. destruct (HJ' True I) as (pre' & b0' & mid' & G1 & G2 & G3 & G4 & G5 & G6).
                     exists pre', b0', mid'. repeat split; auto; try lia.
                 --- intros x Hx. inversion Hx; auto.
              ** destruct (IH (consumed ++ [p]) Idle rs' pend' e) as (c' & A1 & A2 & A3 & A4);
                   [exact OKt | exact I | intros ? ?; discriminate | exact E |].
                 exists c'. rewrite <- A1, AppE. auto.
Qed.

(* invariant of the monitor's receive side; inj = the PDUs accepted by the radio so far *)
Definition J (c : cfg) (inj : list pdu) (mo : mon) : Prop :=
  Forall llid_ok inj /\
  (passthrough c = true -> m_rs mo = Idle) /\
  exists consumed,
    inj = consumed ++ m_pend mo /\ justified (mtu c) consumed (m_rs mo) /\
    (forall L acc, m_rs mo = Coll L acc -> m_handed mo = true -> exists p t, m_pend mo = p :: t /\ fst p = 3).

Lemma injected_app a b : injected (a ++ b) = injected a ++ injected b.
Proof.
  induction a as [|[o [r txs]] a IH]; simpl; auto.
  destruct o; auto. destruct r; auto. simpl. now rewrite IH.
Qed.

Lemma land3_ok llid : N.land llid 3 <> 0 -> llid_ok (N.land llid 3, @nil N) .
Proof.
  intros H. unfold llid_ok. simpl.
  assert (B : N.land llid 3 < 4).
  { change 3 with (N.ones 2). rewrite N.land_ones. apply N.mod_lt. discriminate. }
  lia.
Qed.

Lemma judge_tx_bad_or_ok maxtx cur txs : exists v cur', judge_tx maxtx cur txs = (v, cur').
Proof. destruct (judge_tx maxtx cur txs); eauto. Qed.

Ltac break M :=
  repeat match type of M with
         | context [match ?x with _ => _ end] => destruct x eqn:?; try discriminate M
         | context [if ?b then _ else _] => destruct b eqn:?; try discriminate M
         end.

(* operations that do not touch the receive side of the monitor *)
Lemma mstep_rx_frame c mo o ro mo' :
  mstep c mo o ro = (Ok, mo') ->
  match o with Rx _ _ | Next _ | Free => True
  | _ => m_pend mo' = m_pend mo /\ m_rs mo' = m_rs mo /\ m_handed mo' = m_handed mo end.
Proof.
  intros M. destruct ro as [r txs]. destruct o; auto; unfold mstep in M; break M; inversion M; subst; simpl; auto.
Qed.

Lemma land3_lt llid : N.land llid 3 < 4.
Proof. change 3 with (N.ones 2). rewrite N.land_ones. apply N.mod_lt. discriminate. Qed.

(* one accepted step keeps J; a delivered SDU is the monitor's Done SDU *)
Lemma mstep_J c mo o ro mo' inj :
  J c inj mo -> mstep c mo o ro = (Ok, mo') ->
  J c (inj ++ injected [(o, ro)]) mo'.
Proof.
  intros (OK & PTI & consumed & EI & JU & HD) M.
  pose proof (mstep_rx_frame _ _ _ _ _ M) as FR.
  assert (Other : (match o with Rx _ _ | Next _ | Free => False | _ => True end) ->
                  m_pend mo' = m_pend mo /\ m_rs mo' = m_rs mo /\ m_handed mo' = m_handed mo ->
                  J c (inj ++ injected [(o, ro)]) mo').
  { intros NO (F1 & F2 & F3).
    assert (E0 : injected [(o, ro)] = []) by (destruct o, ro as [[] ?]; try reflexivity; contradiction).
    rewrite E0, app_nil_r. split; [|split]; auto; [intros PT; rewrite F2; auto|].
    exists consumed. rewrite F1, F2, F3. auto. }
  destruct o as [llid b|g| |g b|g a b| |n|n]; try (apply Other; [exact I|exact FR]); clear Other.
  - (* Rx *)
    destruct ro as [r txs]. unfold mstep in M.
    destruct r; try discriminate M; try (break M; discriminate M).
    + (* ROk *)
      break M. inversion M; subst; clear M. simpl injected.
      assert (NZ : N.land llid 3 <> 0).
      { destruct (m_maxrx mo <? lenN b + 2); [discriminate|].
        destruct (N.eqb_spec (N.land llid 3) 0); [simpl in *; discriminate|auto]. }
      pose proof (land3_lt llid).
      split; [|split]; simpl; auto.
      * apply Forall_app. split; auto. constructor; auto. unfold llid_ok; simpl. lia.
      * exists consumed. rewrite <- app_assoc. repeat split; auto.
        intros L acc HC HH. destruct (HD L acc HC HH) as (p & t & P1 & P2). rewrite P1. simpl. eauto.
    + break M. inversion M; subst. simpl injected. rewrite app_nil_r. split; [|split]; auto. exists consumed; auto.
    + break M. inversion M; subst. simpl injected. rewrite app_nil_r. split; [|split]; auto. exists consumed; auto.
  - (* Next *)
    destruct ro as [r txs]. simpl injected. rewrite app_nil_r.
    assert (exists m1, m_pend m1 = m_pend mo /\ m_rs m1 = m_rs mo /\ judge_next c m1 r = (Ok, mo')) as (m1 & P1 & P2 & JN).
    { unfold mstep in M. destruct r; try discriminate M;
        destruct (judge_tx (m_maxtx mo) (m_sdu mo) txs) as [[|t] cur]; try discriminate M;
        eexists; (split; [|split; [|exact M]]); reflexivity. }
    clear M. unfold judge_next in JN. rewrite P1, P2 in JN.
    destruct (spec_next c (m_rs mo) (m_pend mo)) as [[rs' pend'] e] eqn:SN.
    assert (OKp : Forall llid_ok (m_pend mo)).
    { rewrite EI in OK. apply Forall_app in OK. tauto. }
    assert (G : m_pend mo' = pend' /\ m_rs mo' = rs' /\ m_handed mo' = match e with ENone => false | _ => true end).
    { destruct e, r; try discriminate JN; break JN; inversion JN; subst; simpl; auto. }
    destruct G as (G1 & G2 & G3).
    unfold spec_next in SN. destruct (passthrough c) eqn:PT.
    + assert (rs' = m_rs mo /\ pend' = m_pend mo) as (-> & ->) by (destruct (m_pend mo); inversion SN; auto).
      split; [|split]; auto.
      * intros _. rewrite G2. auto.
      * exists consumed. rewrite G1, G2. repeat split; auto. intros L acc HC. rewrite PTI in HC; auto. discriminate.
    + destruct (m_rs mo) as [|L acc|x] eqn:RS.
      * destruct (spec_loop_justified (mtu c) (m_pend mo) consumed Idle rs' pend' e) as (c' & A1 & A2 & A3 & A4); auto.
        { intros ? ?; discriminate. }
        split; [|split]; auto. { intros; congruence. }
        exists c'. rewrite G1, G2, G3. repeat split; auto; try congruence.
        intros L0 acc0 HC HH. destruct e; simpl in A3.
        -- discriminate HH.
        -- destruct A3 as (t & T1 & [T2|T2]); eauto. congruence.
        -- congruence.
      * destruct (spec_loop_justified (mtu c) (m_pend mo) consumed (Coll L acc) rs' pend' e) as (c' & A1 & A2 & A3 & A4); auto.
        { intros ? ?; discriminate. }
        split; [|split]; auto. { intros; congruence. }
        exists c'. rewrite G1, G2, G3. repeat split; auto; try congruence.
        intros L0 acc0 HC HH. destruct e; simpl in A3.
        -- discriminate HH.
        -- destruct A3 as (t & T1 & [T2|T2]); eauto. congruence.
        -- congruence.
      * inversion SN; subst. split; [|split]; auto. { intros; congruence. }
        exists consumed. rewrite <- H0, <- H1. repeat split; auto. intros; discriminate.
  - (* Free *)
    destruct ro as [r txs]. simpl injected. rewrite app_nil_r. unfold mstep in M.
    destruct txs; [|destruct r; discriminate M]. destruct r; try discriminate M.
    + (* ROk *)
      destruct (m_handed mo) eqn:HH; [|discriminate M]. cbn [negb] in M.
      destruct (m_rs mo) as [|L acc|x] eqn:RS; inversion M; subst; clear M.
      * split; [|split]; auto. destruct (m_pend mo) as [|p t] eqn:PE.
        -- exists consumed. simpl. repeat split; auto. intros; discriminate.
        -- exists (consumed ++ [p]). simpl. rewrite <- app_assoc. repeat split; auto. intros; discriminate.
      * split; [|split]; auto.
        destruct (HD L acc eq_refl eq_refl) as (p & t & P1 & P2).
        exists (consumed ++ [p]). rewrite P1. simpl. rewrite <- app_assoc. repeat split; auto.
        -- apply (justified_ctrl (mtu c) consumed (Coll L acc) p P2 JU).
        -- intros; discriminate.
      * split; [|split]; auto. exists consumed. simpl. repeat split; auto. intros; discriminate.
    + (* RNop *)
      destruct (m_handed mo) eqn:HH; [discriminate M|]. inversion M; subst.
      split; [|split]; auto. exists consumed. repeat split; auto.
      intros ? ? ? HT. rewrite HH in HT. discriminate.
Qed.

Lemma spec_loop_sdu m : forall pend rs rs' pend' x,
  spec_loop m rs pend = (rs', pend', ESdu x) -> rs' = Done x.
Proof.
  induction pend as [|p t IH]; intros rs rs' pend' x E; simpl in E; [inversion E|].
  repeat match type of E with
         | context [match ?z with _ => _ end] => destruct z eqn:?; try discriminate E
         | context [if ?b then _ else _] => destruct b eqn:?; try discriminate E
         end; try (inversion E; subst; reflexivity); eauto.
Qed.

Lemma mstep_delivers c mo g y txs mo' :
  mstep c mo (Next g) (RSdu y, txs) = (Ok, mo') -> m_rs mo' = Done y.
Proof.
  intros M. unfold mstep in M.
  destruct (judge_tx (m_maxtx mo) (m_sdu mo) txs) as [[|t] cur]; try discriminate M.
  unfold judge_next in M. cbn [set_tx_m m_rs m_pend] in M.
  destruct (spec_next c (m_rs mo) (m_pend mo)) as [[rs' pend'] e] eqn:SN.
  destruct e as [|p|x]; try (break M; discriminate M).
  destruct (bytes_eqb x y) eqn:EQ; [|destruct (lenN x =? lenN y); discriminate M].
  apply bytes_eqb_eq in EQ. subst y. inversion M; subst; clear M. simpl.
  unfold spec_next in SN. destruct (passthrough c).
  - destruct (m_pend mo); inversion SN.
  - destruct (m_rs mo) eqn:RS.
    + eapply spec_loop_sdu; eauto.
    + eapply spec_loop_sdu; eauto.
    + inversion SN; subst; auto.
Qed.

Lemma injected_cons x t : injected (x :: t) = injected [x] ++ injected t.
Proof. change (x :: t) with ([x] ++ t). apply injected_app. Qed.

Lemma accepted_delivery c : forall tr mo pos inj,
  J c inj mo -> monitor_from c mo pos tr = None ->
  forall i g y txs, nth_error tr i = Some (Next g, (RSdu y, txs)) ->
    reassembled_from (mtu c) (inj ++ injected (firstn (S i) tr)) y.
Proof.
  induction tr as [|[o ro] tr IH]; intros mo pos inj HJ MF i g y txs NE.
  - destruct i; discriminate.
  - simpl in MF. destruct (mstep c mo o ro) as [[|t] mo'] eqn:M; [|discriminate].
    pose proof (mstep_J _ _ _ _ _ _ HJ M) as HJ'.
    destruct i as [|i].
    + simpl in NE. inversion NE; subst. apply mstep_delivers in M.
      destruct HJ' as (_ & _ & consumed & EI & JU & _). rewrite M in JU. simpl in JU.
      destruct JU as (pre & b0 & mid & H1 & H2 & H3 & H4 & H5 & H6).
      simpl firstn. exists pre, b0, mid, (m_pend mo').
      rewrite EI, H1, <- app_assoc. simpl. repeat split; auto; try lia.
      rewrite H3. apply read16_app. lia.
    + simpl in NE. change (firstn (S (S i)) ((o, ro) :: tr)) with ((o, ro) :: firstn (S i) tr).
      rewrite injected_cons, app_assoc. eapply IH; eauto.
Qed.

Lemma J_init c : J c [] minit.
Proof.
  split; [constructor|]. split; [reflexivity|]. exists []. simpl. repeat split; auto. intros; discriminate.
Qed.

(* every SDU the monitor lets pass is one start fragment followed by its continuation fragments *)
Theorem accepted_sdu_is_reassembled c tr :
  monitor c tr = None ->
  forall i g y txs, nth_error tr i = Some (Next g, (RSdu y, txs)) ->
    reassembled_from (mtu c) (injected (firstn (S i) tr)) y.
Proof.
  intros MF i g y txs NE.
  exact (accepted_delivery c tr minit O [] (J_init c) MF i g y txs NE).
Qed.
