From Coq Require Import NArith Lia.
Open Scope N_scope.
Check N.ldiff_le.
Search N.ldiff N.le.
Search N.ldiff N.lt.
