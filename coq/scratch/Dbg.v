(* Proofs for the PDU ring buffer (C18): representation invariant (empty / linear / split with wrap
   point), coupling with the monitor's FIFO, and the theorems stated in Props/Properties_C18.v. *)
From BT Require Import Base.ListX PduRing.PduRingModel PduRing.PduRingSpec.
From Coq Require Import ZifyBool.
Local Open Scope bool_scope.

(* ------------------------------------------------------------------ memory primitives *)

Definition same_on (m m' : list N) (a b : nat) : Prop :=
  forall i, a <= i < b -> nth i m 0%N = nth i m' 0%N.

Lemma same_on_refl m a b : same_on m m a b.
Proof. intros i _. reflexivity. Qed.

Lemma same_on_sub m m' a b a' b' : same_on m m' a b -> a <= a' -> b' <= b -> same_on m m' a' b'.
Proof. intros H Ha Hb i Hi. apply H. lia. Qed.

Lemma wr_length bytes : forall m off, length (wr m off bytes) = length m.
Proof.
  induction bytes as [|b t IH]; intros m off; simpl; auto.
  rewrite IH, upd_length. reflexivity.
Qed.

Lemma nth_wr_out bytes : forall m off i d,
  i < off \/ off + length bytes <= i -> nth i (wr m off bytes) d = nth i m d.
Proof.
  induction bytes as [|b t IH]; intros m off i d H; simpl in *; auto.
  rewrite IH by lia. apply nth_upd_neq. lia.
Qed.

Lemma nth_wr_in bytes : forall m off k d,
  off + length bytes <= length m -> k < length bytes ->
  nth (off + k) (wr m off bytes) d = nth k bytes d.
Proof.
  induction bytes as [|b t IH]; intros m off k d Hl Hk; simpl in *; try lia.
  destruct k as [|k].
  - rewrite Nat.add_0_r, nth_wr_out by lia. apply nth_upd_eq. lia.
  - replace (off + S k) with (S off + k) by lia. apply IH; [rewrite upd_length|]; lia.
Qed.

Lemma swr_length bytes : forall sh off, length (swr sh off bytes) = length sh.
Proof.
  induction bytes as [|b t IH]; intros sh off; simpl; auto.
  rewrite IH, upd_length. reflexivity.
Qed.

Lemma nth_swr_out bytes : forall sh off i,
  i < off \/ off + length bytes <= i -> nth i (swr sh off bytes) None = nth i sh None.
Proof.
  induction bytes as [|b t IH]; intros sh off i H; simpl in *; auto.
  rewrite IH by lia. apply nth_upd_neq. lia.
Qed.

Lemma nth_swr_in bytes : forall sh off k,
  off + length bytes <= length sh -> k < length bytes ->
  nth (off + k) (swr sh off bytes) None = Some (nth k bytes 0%N).
Proof.
  induction bytes as [|b t IH]; intros sh off k Hl Hk; simpl in *; try lia.
  destruct k as [|k].
  - rewrite Nat.add_0_r, nth_swr_out by lia. apply nth_upd_eq. lia.
  - replace (off + S k) with (S off + k) by lia. apply IH; [rewrite upd_length|]; lia.
Qed.

Lemma mark_length m off : length (mark m off) = length m.
Proof. unfold mark. rewrite !upd_length. reflexivity. Qed.

Lemma nth_mark_out m off i : i <> off -> i <> S off -> nth i (mark m off) 0%N = nth i m 0%N.
Proof. intros H1 H2. unfold mark. rewrite !nth_upd_neq by lia. reflexivity. Qed.

Lemma nth_mark_hi m off : S off < length m -> nth (S off) (mark m off) 0%N = 0%N.
Proof. intros H. unfold mark. apply nth_upd_eq. rewrite upd_length. lia. Qed.

Lemma same_on_mark m off a b : b <= off \/ S (S off) <= a -> same_on m (mark m off) a b.
Proof. intros H i Hi. symmetry. apply nth_mark_out; lia. Qed.

Lemma same_on_wr m off bytes a b : b <= off \/ off + length bytes <= a -> same_on m (wr m off bytes) a b.
Proof. intros H i Hi. symmetry. apply nth_wr_out. lia. Qed.

Lemma slice_length m off len : length (slice m off len) = len.
Proof. unfold slice. rewrite map_length, seq_length. reflexivity. Qed.

Lemma slice_ext m m' off len : same_on m m' off (off + len) -> slice m off len = slice m' off len.
Proof.
  intros H. unfold slice. apply map_ext_in. intros i Hi. apply in_seq in Hi. apply H. lia.
Qed.

Lemma nth_slice m off len k : k < len -> nth k (slice m off len) 0%N = nth (off + k) m 0%N.
Proof.
  intros Hk. unfold slice.
  set (f := fun i => nth i m 0%N).
  rewrite nth_indep with (d' := f 0) by (rewrite map_length, seq_length; lia).
  rewrite (map_nth f (seq off len) 0 k), seq_nth by lia. reflexivity.
Qed.

Lemma lenb_ext m m' off : nth (S off) m 0%N = nth (S off) m' 0%N -> lenb m off = lenb m' off.
Proof. unfold lenb. intros ->. reflexivity. Qed.

Lemma plen_ge3 c m off : 1 <= lenb m off -> 3 <= plen c m off.
Proof. unfold plen, msz, hdr. lia. Qed.

Lemma list_eqb_refl a : list_eqb a a = true.
Proof.
  unfold list_eqb. rewrite Nat.eqb_refl. simpl. apply forallb_forall. intros k _. apply N.eqb_refl.
Qed.

Lemma list_eqb_eq a b : list_eqb a b = true -> a = b.
Proof.
  unfold list_eqb. intros H. apply andb_true_iff in H. destruct H as [Hl H].
  apply Nat.eqb_eq in Hl. apply nth_ext_len with (d := 0%N); auto.
  intros i Hi. rewrite forallb_forall in H. apply N.eqb_eq. apply H. apply in_seq. lia.
Qed.

(* ------------------------------------------------------------------ chains of PDUs *)

(* l = the (offset, memory size) of PDUs stored back to back from a to b *)
Fixpoint chain (c : cfg) (m : list N) (a : nat) (l : list (nat * nat)) (b : nat) : Prop :=
  match l with
  | [] => a = b
  | p :: t => fst p = a /\ 1 <= lenb m a /\ snd p = plen c m a /\ chain c m (a + snd p) t b
  end.

Lemma chain_le c m l : forall a b, chain c m a l b -> a <= b.
Proof.
  induction l as [|p t IH]; intros a b H; simpl in H.
  - lia.
  - destruct H as (_ & _ & _ & H). apply IH in H. lia.
Qed.

Lemma chain_ne c m l a b : l <> [] -> chain c m a l b -> a + 3 <= b.
Proof.
  destruct l as [|p t]; [congruence|]. intros _ (_ & H1 & H2 & H). apply chain_le in H.
  pose proof (plen_ge3 c m a H1). lia.
Qed.

Lemma chain_ext c m m' l : forall a b, same_on m m' a b -> chain c m a l b -> chain c m' a l b.
Proof.
  induction l as [|p t IH]; intros a b Hs H; simpl in *; auto.
  destruct H as (H0 & H1 & H2 & H).
  pose proof (chain_le _ _ _ _ _ H) as Hle. pose proof (plen_ge3 c m a H1) as H3.
  assert (He : lenb m a = lenb m' a) by (apply lenb_ext, Hs; lia).
  assert (Hp : plen c m a = plen c m' a) by (unfold plen; rewrite He; reflexivity).
  repeat split; try congruence.
  apply IH; auto. eapply same_on_sub; eauto; lia.
Qed.

Lemma chain_app c m l1 : forall a x l2 b, chain c m a l1 x -> chain c m x l2 b -> chain c m a (l1 ++ l2) b.
Proof.
  induction l1 as [|p t IH]; intros a x l2 b H1 H2; simpl in *.
  - subst. auto.
  - destruct H1 as (? & ? & ? & H1). repeat split; auto. eapply IH; eauto.
Qed.

Lemma chain_app_inv c m l1 : forall a l2 b, chain c m a (l1 ++ l2) b -> exists x, chain c m a l1 x /\ chain c m x l2 b.
Proof.
  induction l1 as [|p t IH]; intros a l2 b H; simpl in *.
  - exists a. auto.
  - destruct H as (? & ? & ? & H). apply IH in H. destruct H as (x & Hx1 & Hx2).
    exists x. repeat split; auto.
Qed.

Lemma chain_in c m l : forall a b p, chain c m a l b -> In p l ->
  a <= fst p /\ fst p + snd p <= b /\ 3 <= snd p /\ snd p = plen c m (fst p) /\ 1 <= lenb m (fst p).
Proof.
  induction l as [|q t IH]; intros a b p H Hin; simpl in *; [tauto|].
  destruct H as (H0 & H1 & H2 & H). pose proof (chain_le _ _ _ _ _ H). pose proof (plen_ge3 c m a H1).
  destruct Hin as [->|Hin].
  - rewrite H0. repeat split; auto; lia.
  - destruct (IH _ _ _ H Hin) as (? & ? & ? & ? & ?). repeat split; auto; lia.
Qed.

Lemma chain_last c m l : forall a b d, l <> [] -> chain c m a l b -> fst (last l d) + snd (last l d) = b.
Proof.
  induction l as [|p t IH]; intros a b d Hne H; [congruence|].
  destruct H as (H0 & H1 & H2 & H). destruct t as [|q t'].
  - simpl in *. lia.
  - change (last (p :: q :: t') d) with (last (q :: t') d). eapply IH; eauto. congruence.
Qed.

Lemma chain_single c m a : 1 <= lenb m a -> chain c m a [(a, plen c m a)] (a + plen c m a).
Proof. intros H. simpl. auto. Qed.

(* ------------------------------------------------------------------ representation invariant *)

Definition Shape (c : cfg) (s : state) (l : list (nat * nat)) : Prop :=
  front s <= Size c /\ end_ s <= Size c /\
  ( (l = [] /\ front s = end_ s)
  \/ (end_ s < front s /\ chain c (mem s) (end_ s) l (front s))
  \/ (front s < end_ s /\ exists up lo w,
        l = up ++ lo /\ up <> [] /\ lo <> [] /\
        chain c (mem s) (end_ s) up w /\ w <= Size c /\ (Size c <= w + 1 \/ lenb (mem s) w = 0) /\
        chain c (mem s) 0 lo (front s)) ).

(* a region handed out by alloc_front that is still good *)
Definition alloc_ok (c : cfg) (s : state) (off n : nat) : Prop :=
  (off = front s /\ ((end_ s <= front s /\ front s + n <= Size c) \/ (front s < end_ s /\ front s + n < end_ s)))
  \/ (off = 0 /\ end_ s <= front s /\ n < end_ s).

Definition pd (f : list (nat * list N)) : list (nat * nat) := map (fun pc => (fst pc, length (snd pc))) f.

Definition sh_ok (m : list N) (sh : list (option N)) : Prop :=
  forall i b, nth i sh None = Some b -> nth i m 0%N = b.

Definition sh_in (sh : list (option N)) (off n : nat) : Prop :=
  forall i b, nth i sh None = Some b -> off <= i < off + n.

Definition intact (m : list N) (f : list (nat * list N)) : Prop :=
  Forall (fun pc => slice m (fst pc) (length (snd pc)) = snd pc) f.

(* coupling of a model state with the state of a monitor that is not dead *)
Definition R (c : cfg) (s : state) (mo : mon) : Prop :=
  length (mem s) = Size c /\ length (shadow mo) = Size c /\
  Shape c s (pd (fifo mo)) /\
  intact (mem s) (fifo mo) /\
  sh_ok (mem s) (shadow mo) /\
  match cur mo with
  | None => forall i, nth i (shadow mo) None = None
  | Some (off, n) => alloc_ok c s off n /\ sh_in (shadow mo) off n
  end.

(* ------------------------------------------------------------------ facts about Shape *)

Ltac shape_cases H :=
  let Hf := fresh "Hf" in let He := fresh "He" in
  let Hl := fresh "Hl" in let Hfe := fresh "Hfe" in let Hlt := fresh "Hlt" in let Hch := fresh "Hch" in
  let up := fresh "up" in let lo := fresh "lo" in let w := fresh "w" in
  let Hup := fresh "Hup" in let Hlo := fresh "Hlo" in let Hcu := fresh "Hcu" in
  let Hw := fresh "Hw" in let Hm := fresh "Hm" in let Hcl := fresh "Hcl" in
  destruct H as (Hf & He & [ (Hl & Hfe) | [ (Hlt & Hch) | (Hlt & up & lo & w & Hl & Hup & Hlo & Hcu & Hw & Hm & Hcl) ] ]).

Definition outside (m m' : list N) (off n : nat) : Prop :=
  forall i, i < off \/ off + n <= i -> nth i m 0%N = nth i m' 0%N.

Lemma outside_same_on m m' off n a b : outside m m' off n -> b <= off \/ off + n <= a -> same_on m m' a b.
Proof. intros H Hab i Hi. apply H. lia. Qed.

Lemma shape_empty_iff c s l : Shape c s l -> (front s = end_ s <-> l = []).
Proof.
  intros H. shape_cases H; split; intros H0; try lia; auto.
  - subst l. simpl in Hch. lia.
  - subst l. destruct up; [congruence|discriminate].
Qed.

Lemma shape_head c s p t : Shape c s (p :: t) ->
  fst p = end_ s /\ snd p = plen c (mem s) (end_ s) /\ 1 <= lenb (mem s) (end_ s) /\ end_ s + snd p <= Size c.
Proof.
  intros H. shape_cases H.
  - discriminate.
  - destruct Hch as (H0 & H1 & H2 & Hch). apply chain_le in Hch. repeat split; auto; lia.
  - destruct up as [|q up']; [congruence|]. simpl in Hl. inversion Hl; subst q t.
    destruct Hcu as (H0 & H1 & H2 & Hcu). apply chain_le in Hcu. repeat split; auto; lia.
Qed.

Lemma shape_free c s l off n p : Shape c s l -> alloc_ok c s off n -> In p l ->
  off + n <= fst p \/ fst p + snd p <= off.
Proof.
  intros H Ha Hin. shape_cases H.
  - subst l. destruct Hin.
  - destruct (chain_in _ _ _ _ _ _ Hch Hin) as (? & ? & _).
    destruct Ha as [(-> & [?|?])|(-> & ? & ?)]; lia.
  - subst l. apply in_app_or in Hin.
    destruct Ha as [(-> & [?|?])|(-> & ? & ?)]; try lia.
    destruct Hin as [Hin|Hin].
    + destruct (chain_in _ _ _ _ _ _ Hcu Hin) as (? & ? & _). lia.
    + destruct (chain_in _ _ _ _ _ _ Hcl Hin) as (? & ? & _). lia.
Qed.

Lemma shape_in_bound c s l p : Shape c s l -> In p l -> fst p + snd p <= Size c.
Proof.
  intros H Hin. shape_cases H.
  - subst l. destruct Hin.
  - destruct (chain_in _ _ _ _ _ _ Hch Hin) as (? & ? & _). lia.
  - subst l. apply in_app_or in Hin. destruct Hin as [Hin|Hin].
    + destruct (chain_in _ _ _ _ _ _ Hcu Hin) as (? & ? & _). lia.
    + destruct (chain_in _ _ _ _ _ _ Hcl Hin) as (? & ? & _). lia.
Qed.

Lemma alloc_ok_bound c s l off n : Shape c s l -> alloc_ok c s off n -> off + n <= Size c.
Proof.
  intros (Hf & He & _) [(-> & [?|?])|(-> & ? & ?)]; lia.
Qed.

Lemma shape_mem c m m' f e l off n :
  Shape c (mk m f e) l -> alloc_ok c (mk m f e) off n -> outside m m' off n -> Shape c (mk m' f e) l.
Proof.
  intros H Ha Ho. unfold alloc_ok in Ha. shape_cases H; simpl in *; (split; [|split]); simpl; auto.
  - right; left. split; auto. eapply chain_ext; [|eassumption].
    eapply outside_same_on; eauto; destruct Ha as [(-> & [?|?])|(-> & ? & ?)]; lia.
  - right; right. split; auto. exists up, lo, w.
    assert (Hr : off = f /\ f + n < e) by (destruct Ha as [(-> & [?|?])|(-> & ? & ?)]; lia).
    destruct Hr as (-> & Hr).
    pose proof (chain_ne _ _ _ _ _ Hup Hcu) as Hw3.
    split; [exact Hl|]. split; [exact Hup|]. split; [exact Hlo|].
    split; [|split; [exact Hw|split]].
    + eapply chain_ext; [|eassumption]. eapply outside_same_on; eauto; lia.
    + destruct Hm as [?|Hm]; [left; lia|right].
      rewrite <- Hm. symmetry. apply lenb_ext. apply Ho. lia.
    + eapply chain_ext; [|eassumption]. eapply outside_same_on; eauto; lia.
Qed.

Lemma last_app_ne (A : Type) (a b : list A) d : b <> [] -> last (a ++ b) d = last b d.
Proof.
  intros Hb. induction a as [|x t IH]; simpl; auto.
  destruct (t ++ b) eqn:E; auto. apply app_eq_nil in E. destruct E. congruence.
Qed.

Lemma shape_last c s l d : Shape c s l -> l <> [] -> fst (last l d) + snd (last l d) = front s.
Proof.
  intros H Hne. shape_cases H.
  - congruence.
  - eapply chain_last; eauto.
  - subst l. rewrite last_app_ne by auto. eapply chain_last; eauto.
Qed.

Lemma intact_mem m m' f :
  intact m f ->
  (forall p, In p (pd f) -> same_on m m' (fst p) (fst p + snd p)) -> intact m' f.
Proof.
  intros Hi Hs. unfold intact in *. rewrite Forall_forall in *. intros pc Hin.
  rewrite <- (Hi pc Hin) at 2. symmetry. apply slice_ext.
  apply (Hs (fst pc, length (snd pc))). unfold pd. apply in_map_iff. exists pc. auto.
Qed.

Lemma pd_app f g : pd (f ++ g) = pd f ++ pd g.
Proof. apply map_app. Qed.

Lemma pd_nil f : pd f = [] -> f = [].
Proof. destruct f; simpl; congruence. Qed.

Lemma pd_length f : length (pd f) = length f.
Proof. apply map_length. Qed.

Lemma live_end_pd f : f <> [] -> live_end f = fst (last (pd f) (0, 0)) + snd (last (pd f) (0, 0)).
Proof.
  intros Hne. unfold live_end.
  assert (H : last (pd f) (0, 0) = (fst (last f (0, [])), length (snd (last f (0, []))))).
  { induction f as [|a t IH]; [congruence|]. destruct t as [|b t']; [reflexivity|].
    change (pd (a :: b :: t')) with ((fst a, length (snd a)) :: pd (b :: t')).
    change (last (a :: b :: t') (0, [])) with (last (b :: t') (0, [])).
    rewrite <- IH by congruence. reflexivity. }
  rewrite H. destruct (last f (0, [])). reflexivity.
Qed.

Lemma nth_fresh size i : nth i (repeat (@None N) size) None = None.
Proof.
  destruct (Nat.lt_ge_cases i size).
  - apply repeat_nth. auto.
  - apply nth_overflow. rewrite repeat_length. auto.
Qed.

(* ------------------------------------------------------------------ one step: model beside monitor *)

Definition Live (c : cfg) (s : state) (mo : mon) : Prop := dead mo = false /\ R c s mo.

(* with the empty-ring clause switched on only histories whose allocation requests are at most
   half the storage are covered *)
Definition good (strict : bool) (c : cfg) (o : op) : Prop :=
  strict = true -> match o with Alloc n => 2 * n <= Size c | _ => True end.

Definition sim_goal (strict : bool) (c : cfg) (s : state) (mo : mon) (o : op) : Prop :=
  exists mo', mstep strict (lmod c) (Size c) (ovh c) mo o (snd (step c s o)) = (Ok, mo')
    /\ (dead mo' = true \/ (snd (step c s o) <> OFault /\ Live c (fst (step c s o)) mo')).

Ltac splitR := unfold R; cbn [fifo cur shadow mem front end_]; (split; [|split; [|split; [|split; [|split]]]]).

Lemma alloc_front_ok c s l n off : Shape c s l -> alloc_front c s n = Some off -> alloc_ok c s off n.
Proof.
  intros (Hf & He & _) H. unfold alloc_front in H. unfold alloc_ok.
  destruct ((front s <? end_ s) && (n <? end_ s - front s)) eqn:E1.
  { inversion H; subst. left. split; auto. right. lia. }
  destruct (end_ s <=? front s) eqn:E2; [|discriminate].
  destruct (n <=? Size c - front s) eqn:E3.
  { inversion H; subst. left. split; auto. left. lia. }
  destruct (n <? end_ s) eqn:E4; [|discriminate].
  inversion H; subst. right. lia.
Qed.

Lemma alloc_front_none c s n : alloc_front c s n = None ->
  ~ (front s < end_ s /\ n < end_ s - front s) /\ (end_ s <= front s -> Size c - front s < n /\ end_ s <= n).
Proof.
  unfold alloc_front. intros H.
  destruct ((front s <? end_ s) && (n <? end_ s - front s)) eqn:E1; [discriminate|].
  destruct (end_ s <=? front s) eqn:E2.
  - destruct (n <=? Size c - front s) eqn:E3; [discriminate|].
    destruct (n <? end_ s) eqn:E4; [discriminate|]. lia.
  - lia.
Qed.

Lemma same_region_eq a off n : same_region a off n = true -> a = Some (off, n).
Proof.
  destruct a as [[o' n']|]; simpl; [|discriminate]. intros H.
  assert (o' = off /\ n' = n) by lia. destruct H0; subst. reflexivity.
Qed.

Lemma region_free_ok c s f off n : Shape c s (pd f) -> alloc_ok c s off n -> region_free f off n = true.
Proof.
  intros Hs Ha. unfold region_free. apply forallb_forall. intros pc Hin.
  assert (Hp : In (fst pc, length (snd pc)) (pd f)) by (unfold pd; apply in_map_iff; exists pc; auto).
  pose proof (shape_free _ _ _ _ _ _ Hs Ha Hp) as H. simpl in H. lia.
Qed.

Lemma sim_alloc strict c s mo n : wf c -> Live c s mo -> good strict c (Alloc n) -> sim_goal strict c s mo (Alloc n).
Proof.
  intros Hwf (Hd & Hlm & Hls & Hsh & Hint & Hok & Hcur) Hgood. unfold sim_goal, mstep. rewrite Hd. cbn [step].
  replace (msz c 0) with (hdr + ovh c) by (unfold msz; lia).
  destruct (n <? hdr + ovh c) eqn:Hn.
  { eexists. split; [reflexivity|]. left. reflexivity. }
  destruct (alloc_front c s n) as [off|] eqn:Ha; cbn [fst snd].
  - pose proof (alloc_front_ok _ _ _ _ _ Hsh Ha) as Hao.
    pose proof (alloc_ok_bound _ _ _ _ _ Hsh Hao) as Hb.
    rewrite Nat.eqb_refl. cbn [negb].
    replace (off + n <=? Size c) with true by lia. cbn [negb].
    rewrite (region_free_ok _ _ _ _ _ Hsh Hao). cbn [negb].
    eexists. split; [reflexivity|]. right. split; [discriminate|]. split; [reflexivity|].
    destruct (same_region (cur mo) off n) eqn:Hsr.
    + apply same_region_eq in Hsr. rewrite Hsr in Hcur. destruct Hcur as (_ & Hin).
      splitR; auto.
    + unfold fresh. splitR; auto.
      * apply repeat_length.
      * intros i b Hi. rewrite nth_fresh in Hi. discriminate.
      * split; auto. intros i b Hi. rewrite nth_fresh in Hi. discriminate.
  - destruct (alloc_front_none _ _ _ Ha) as (Hn1 & Hn2).
    assert (Hempty : fifo mo = [] -> front s = end_ s).
    { intros E. apply (shape_empty_iff _ _ _ Hsh). rewrite E. reflexivity. }
    assert (Hnonempty : forall e0 c0 t, fifo mo = (e0, c0) :: t ->
              live_end (fifo mo) = front s /\ front s <> end_ s /\ e0 = end_ s).
    { intros e0 c0 t E.
      assert (Hne : pd (fifo mo) <> []) by (rewrite E; discriminate).
      assert (Hfne : fifo mo <> []) by (rewrite E; discriminate).
      pose proof (shape_last _ _ _ (0, 0) Hsh Hne) as Hlast.
      rewrite <- (live_end_pd _ Hfne) in Hlast. split; [exact Hlast|]. split.
      - intros E2. apply (shape_empty_iff _ _ _ Hsh) in E2. congruence.
      - pose proof Hsh as Hsh2. rewrite E in Hsh2. simpl in Hsh2. apply shape_head in Hsh2. simpl in Hsh2. tauto. }
    assert (HR : R c s mo) by (splitR; auto).
    destruct (fifo mo) as [|[e0 c0] t] eqn:Hfifo.
    + (* empty ring *)
      specialize (Hempty eq_refl).
      destruct strict.
      * specialize (Hgood eq_refl). simpl in Hgood. destruct Hsh as (Hf & He & _).
        specialize (Hn2 ltac:(lia)). lia.
      * cbn [andb]. eexists. split; [reflexivity|]. right. split; [discriminate|]. split; auto.
    + destruct (Hnonempty _ _ _ eq_refl) as (Hlast & Hneq & ->).
      rewrite Hlast.
      replace (must_fit (Size c) (end_ s) (front s) n) with false.
      2:{ unfold must_fit. destruct (end_ s <? front s) eqn:E1.
          - specialize (Hn2 ltac:(lia)). lia.
          - destruct (front s <? end_ s) eqn:E2; auto. lia. }
      eexists. split; [reflexivity|]. right. split; [discriminate|]. split; auto.
Qed.

Lemma sim_write strict c s mo off bytes : wf c -> Live c s mo -> sim_goal strict c s mo (Write off bytes).
Proof.
  intros Hwf (Hd & Hlm & Hls & Hsh & Hint & Hok & Hcur). unfold sim_goal, mstep. rewrite Hd. cbn [step].
  destruct (cur mo) as [[ro rn]|] eqn:Hc.
  2:{ eexists. split; [reflexivity|]. left. reflexivity. }
  destruct ((ro <=? off) && (off + length bytes <=? ro + rn)) eqn:Hin.
  2:{ eexists. split; [reflexivity|]. left. reflexivity. }
  destruct Hcur as (Hao & Hsin).
  pose proof (alloc_ok_bound _ _ _ _ _ Hsh Hao) as Hb.
  replace (off + length bytes <=? Size c) with true by lia. cbn [fst snd].
  eexists. split; [reflexivity|]. right. split; [discriminate|]. split; [reflexivity|].
  assert (Hout : outside (mem s) (wr (mem s) off bytes) ro rn).
  { intros i Hi. symmetry. apply nth_wr_out. lia. }
  splitR.
  - rewrite wr_length. auto.
  - rewrite swr_length. auto.
  - destruct s as [m f e]. eapply shape_mem; eauto.
  - eapply intact_mem; eauto. intros p Hp.
    pose proof (shape_free _ _ _ _ _ _ Hsh Hao Hp). eapply outside_same_on; eauto. lia.
  - intros i b Hi.
    destruct (Nat.lt_ge_cases i off) as [Hlt|Hge]; [|destruct (Nat.lt_ge_cases i (off + length bytes)) as [Hlt2|Hge2]].
    + rewrite nth_swr_out in Hi by lia. rewrite nth_wr_out by lia. auto.
    + replace i with (off + (i - off)) in * by lia.
      rewrite nth_swr_in in Hi by lia. rewrite nth_wr_in by lia. congruence.
    + rewrite nth_swr_out in Hi by lia. rewrite nth_wr_out by lia. auto.
  - split; auto.
    intros i b Hi.
    destruct (Nat.lt_ge_cases i off) as [Hlt|Hge]; [|destruct (Nat.lt_ge_cases i (off + length bytes)) as [Hlt2|Hge2]].
    + rewrite nth_swr_out in Hi by lia. eapply Hsin; eauto.
    + lia.
    + rewrite nth_swr_out in Hi by lia. eapply Hsin; eauto.
Qed.

Lemma trunc_id c x : (lmod c =? 0) || (x <? lmod c) = true -> trunc c x = x.
Proof.
  unfold trunc. destruct (lmod c =? 0) eqn:E; auto. simpl. intros H. apply Nat.mod_small. lia.
Qed.

Lemma lenb_mark_self m f : S f < length m -> lenb (mark m f) f = 0.
Proof. intros H. unfold lenb. rewrite nth_mark_hi by auto. reflexivity. Qed.

(* push_front re-establishes the invariant in each of its cases: append (ring empty, linear or
   split), wrap with the mark written, wrap with front_ + 1 >= end_of_buffer, ring emptied meanwhile *)
Lemma push_shape c m f e l off n sz :
  Shape c (mk m f e) l -> alloc_ok c (mk m f e) off n ->
  1 <= lenb m off -> sz = plen c m off -> sz <= n -> length m = Size c ->
  let m' := if negb (f =? off) && (f + 1 <? Size c) then mark m f else m in
  Shape c (mk m' (off + sz) (if f =? e then off else e)) (l ++ [(off, sz)])
  /\ (forall p, In p l -> same_on m m' (fst p) (fst p + snd p))
  /\ same_on m m' off (off + sz).
Proof.
  intros Hs Ha Hl1 Hsz Hn Hlen m'.
  pose proof (plen_ge3 c m off Hl1) as H3. rewrite <- Hsz in H3.
  unfold alloc_ok in Ha. cbn [front end_] in Ha.
  destruct Ha as [(-> & Ha)|(-> & Hef & Hne)].
  - (* append at front *)
    assert (Hm' : m' = m) by (unfold m'; rewrite Nat.eqb_refl; reflexivity).
    rewrite Hm'. split; [|split; intros; apply same_on_refl].
    shape_cases Hs; cbn [front end_ mem] in *.
    + subst l e. rewrite Nat.eqb_refl. simpl.
      split; [|split]; cbn [front end_ mem]; try lia.
      right; left. split; [lia|]. simpl. repeat split; auto.
    + replace (f =? e) with false by lia.
      split; [|split]; cbn [front end_ mem]; try lia.
      right; left. split; [lia|]. eapply chain_app; eauto. simpl. repeat split; auto.
    + replace (f =? e) with false by lia.
      split; [|split]; cbn [front end_ mem]; try lia.
      right; right. split; [lia|]. exists up, (lo ++ [(f, sz)]), w.
      split; [subst l; rewrite app_assoc; reflexivity|]. split; [exact Hup|].
      split; [destruct lo; discriminate|]. split; [exact Hcu|]. split; [exact Hw|]. split; [exact Hm|].
      eapply chain_app; eauto. simpl. repeat split; auto.
  - (* wrap to the beginning of the storage *)
    assert (Hf0 : (f =? 0) = false) by lia.
    assert (Hsame : forall a b, b <= f -> same_on m m' a b).
    { intros a b Hb. unfold m'. rewrite Hf0. cbn [negb andb].
      destruct (f + 1 <? Size c); [apply same_on_mark; lia|apply same_on_refl]. }
    assert (Hl0 : lenb m' 0 = lenb m 0) by (symmetry; apply lenb_ext, (Hsame 0 f); lia).
    assert (Hp0 : plen c m' 0 = plen c m 0) by (unfold plen; rewrite Hl0; reflexivity).
    assert (Hnew : chain c m' 0 [(0, sz)] (0 + sz)).
    { simpl. rewrite Hl0, Hp0. repeat split; auto. }
    split; [|split].
    + shape_cases Hs; cbn [front end_ mem] in *.
      * subst l e. rewrite Nat.eqb_refl. simpl app.
        split; [|split]; cbn [front end_ mem]; try lia.
        right; left. split; [lia|]. exact Hnew.
      * replace (f =? e) with false by lia.
        split; [|split]; cbn [front end_ mem]; try lia.
        right; right. split; [lia|]. exists l, [(0, sz)], f.
        split; [reflexivity|]. split; [intros E; subst l; simpl in Hch; lia|].
        split; [discriminate|]. split; [eapply chain_ext; [apply (Hsame e f); lia|exact Hch]|].
        split; [exact Hf|]. split; [|exact Hnew].
        unfold m'. rewrite Hf0. cbn [negb andb].
        destruct (f + 1 <? Size c) eqn:E; [right; apply lenb_mark_self; lia|left; lia].
      * lia.
    + intros p Hp. apply Hsame.
      shape_cases Hs; cbn [front end_ mem] in *.
      * subst l. destruct Hp.
      * destruct (chain_in _ _ _ _ _ _ Hch Hp) as (? & ? & _). lia.
      * lia.
    + apply Hsame. lia.
Qed.

Lemma sim_push strict c s mo off n : wf c -> Live c s mo -> sim_goal strict c s mo (Push off n).
Proof.
  intros Hwf (Hd & Hlm & Hls & Hsh & Hint & Hok & Hcur). unfold sim_goal, mstep. rewrite Hd.
  destruct (same_region (cur mo) off n) eqn:Hsr.
  2:{ eexists. split; [reflexivity|]. left. reflexivity. }
  apply same_region_eq in Hsr. rewrite Hsr in Hcur. destruct Hcur as (Hao & Hsin).
  destruct (nth (S off) (shadow mo) None) as [lb|] eqn:Hlb.
  2:{ eexists. split; [reflexivity|]. left. reflexivity. }
  set (l := N.to_nat lb).
  destruct ((1 <=? l) && (hdr + ovh c + l <=? n) && ((lmod c =? 0) || (hdr + ovh c + l <? lmod c))) eqn:Hpre.
  2:{ eexists. split; [reflexivity|]. left. reflexivity. }
  assert (Hl : lenb (mem s) off = l) by (unfold lenb; rewrite (Hok _ _ Hlb); reflexivity).
  assert (Hpl : plen c (mem s) off = hdr + ovh c + l) by (unfold plen, msz; rewrite Hl; reflexivity).
  pose proof (alloc_ok_bound _ _ _ _ _ Hsh Hao) as Hb.
  assert (Htr : trunc c (plen c (mem s) off) = hdr + ovh c + l) by (rewrite Hpl; apply trunc_id; lia).
  cbn [step]. unfold hdr_in.
  replace (off + hdr <=? Size c) with true by (unfold hdr in *; lia). cbn [negb].
  rewrite Htr. replace (n <? hdr + ovh c + l) with false by lia.
  rewrite Hpl. replace (Nat.min (hdr + ovh c + l) (Size c - off)) with (hdr + ovh c + l) by lia.
  cbn [fst snd]. rewrite slice_length, Nat.eqb_refl. cbn [negb].
  set (sz := hdr + ovh c + l) in *.
  replace (agree (shadow mo) off (slice (mem s) off sz)) with true.
  2:{ symmetry. unfold agree. apply forallb_forall. intros k Hk. apply in_seq in Hk. rewrite slice_length in Hk.
      destruct (nth (off + k) (shadow mo) None) eqn:E; auto.
      apply N.eqb_eq. rewrite nth_slice by lia. symmetry. apply Hok. auto. }
  cbn [negb].
  eexists. split; [reflexivity|]. right. split; [discriminate|]. split; [reflexivity|].
  destruct s as [m f e]. cbn [mem front end_] in *.
  destruct (push_shape c m f e (pd (fifo mo)) off n sz Hsh Hao ltac:(lia) ltac:(lia) ltac:(lia) Hlm) as (Hs' & Hold & Hnew).
  set (m' := if negb (f =? off) && (f + 1 <? Size c) then mark m f else m) in *.
  assert (Hlen' : length m' = Size c) by (unfold m'; destruct (negb (f =? off) && (f + 1 <? Size c)); [rewrite mark_length|]; auto).
  splitR; auto.
  - unfold fresh. apply repeat_length.
  - rewrite pd_app. unfold pd at 2. cbn [map fst snd]. rewrite slice_length. exact Hs'.
  - unfold intact. apply Forall_app. split.
    + eapply intact_mem; eauto.
    + constructor; [|constructor]. cbn [fst snd]. rewrite slice_length. symmetry. apply slice_ext. exact Hnew.
  - intros i b Hi. unfold fresh in Hi. rewrite nth_fresh in Hi. discriminate.
  - intros i. apply nth_fresh.
Qed.

Lemma sim_peek strict c s mo : wf c -> Live c s mo -> sim_goal strict c s mo Peek.
Proof.
  intros Hwf (Hd & HR). pose proof HR as (Hlm & Hls & Hsh & Hint & Hok & Hcur).
  unfold sim_goal, mstep. rewrite Hd. cbn [step].
  destruct (front s =? end_ s) eqn:Hfe.
  - assert (H : fifo mo = []) by (apply pd_nil, (shape_empty_iff _ _ _ Hsh); lia).
    rewrite H. cbn [fst snd]. eexists. split; [reflexivity|]. right. split; [discriminate|]. split; auto.
  - destruct (fifo mo) as [|[po cc] t] eqn:Hfifo.
    + exfalso. assert (front s = end_ s) by (apply (shape_empty_iff _ _ _ Hsh); reflexivity). lia.
    + pose proof Hsh as Hh. simpl in Hh. apply shape_head in Hh. cbn [fst snd] in Hh.
      destruct Hh as (Hpo & Hlen & Hl1 & Hbd).
      pose proof (plen_ge3 c (mem s) (end_ s) Hl1) as H3.
      unfold hdr_in. replace (end_ s + hdr <=? Size c) with true by (unfold hdr; lia). cbn [negb].
      rewrite <- Hlen. replace (end_ s + length cc <=? Size c) with true by lia. cbn [fst snd].
      subst po. rewrite !Nat.eqb_refl. cbn [negb andb].
      inversion Hint as [|x y Hx Hy]; subst. cbn [fst snd] in Hx. rewrite Hx, list_eqb_refl. cbn [negb].
      eexists. split; [reflexivity|]. right. split; [discriminate|]. split; auto.
Qed.

Lemma pop_shape c m f e p t :
  Shape c (mk m f e) (p :: t) ->
  let e2 := e + snd p in
  let e' := if negb (e2 =? f) && ((Size c <=? e2 + 1) || (lenb m e2 =? 0)) then 0 else e2 in
  Shape c (mk m f e') t /\ (forall off n, alloc_ok c (mk m f e) off n -> alloc_ok c (mk m f e') off n).
Proof.
  intros Hs e2 e'. unfold alloc_ok. shape_cases Hs; cbn [front end_ mem] in *.
  - discriminate.
  - destruct Hch as (H0 & H1 & H2 & Hch). fold e2 in Hch.
    destruct t as [|q t'].
    + simpl in Hch. assert (He' : e' = f) by (unfold e'; replace (e2 =? f) with true by lia; simpl; lia).
      rewrite He'. split.
      * split; [|split]; cbn [front end_ mem]; auto.
      * intros off n [(-> & [?|?])|(-> & ? & ?)]; cbn [front end_]; lia.
    + pose proof (chain_ne c m (q :: t') e2 f ltac:(discriminate) Hch) as H3.
      destruct Hch as (Hq0 & Hq1 & Hq2 & Hch').
      assert (He' : e' = e2).
      { unfold e'. replace (e2 =? f) with false by lia. replace (Size c <=? e2 + 1) with false by lia.
        replace (lenb m e2 =? 0) with false by lia. reflexivity. }
      rewrite He'. split.
      * split; [|split]; cbn [front end_ mem]; try lia.
        right; left. split; [lia|]. simpl. repeat split; auto.
      * intros off n [(-> & [?|?])|(-> & ? & ?)]; cbn [front end_]; lia.
  - destruct up as [|q up']; [congruence|]. simpl in Hl. inversion Hl; subst q t. clear Hl.
    destruct Hcu as (H0 & H1 & H2 & Hcu). fold e2 in Hcu.
    pose proof (plen_ge3 c m e H1) as Hp3.
    destruct up' as [|r up''].
    + simpl in Hcu. subst w.
      assert (He' : e' = 0).
      { unfold e'. replace (e2 =? f) with false by lia. cbn [negb andb].
        destruct Hm as [Hm|Hm]; [replace (Size c <=? e2 + 1) with true by lia; reflexivity|].
        rewrite Hm. simpl. rewrite orb_true_r. reflexivity. }
      rewrite He'. pose proof (chain_ne c m lo 0 f Hlo Hcl) as Hf3. split.
      * split; [|split]; cbn [front end_ mem]; try lia.
        right; left. split; [lia|]. exact Hcl.
      * intros off n [(-> & [?|?])|(-> & ? & ?)]; cbn [front end_]; lia.
    + pose proof (chain_ne c m (r :: up'') e2 w ltac:(discriminate) Hcu) as H3.
      pose proof Hcu as (Hq0 & Hq1 & Hq2 & _).
      assert (He' : e' = e2).
      { unfold e'. replace (e2 =? f) with false by lia. replace (Size c <=? e2 + 1) with false by lia.
        replace (lenb m e2 =? 0) with false by lia. reflexivity. }
      rewrite He'. split.
      * split; [|split]; cbn [front end_ mem]; try lia.
        right; right. split; [lia|]. exists (r :: up''), lo, w.
        split; [reflexivity|]. split; [discriminate|]. split; [exact Hlo|]. split; [exact Hcu|].
        split; [exact Hw|]. split; [exact Hm|exact Hcl].
      * intros off n [(-> & [?|?])|(-> & ? & ?)]; cbn [front end_]; lia.
Qed.

Lemma sim_pop strict c s mo : wf c -> Live c s mo -> sim_goal strict c s mo Pop.
Proof.
  intros Hwf (Hd & HR). pose proof HR as (Hlm & Hls & Hsh & Hint & Hok & Hcur).
  unfold sim_goal, mstep. rewrite Hd. cbn [step].
  destruct (fifo mo) as [|[po cc] t] eqn:Hfifo.
  { eexists. split; [reflexivity|]. left. reflexivity. }
  pose proof Hsh as Hh. simpl in Hh. apply shape_head in Hh. cbn [fst snd] in Hh.
  destruct Hh as (Hpo & Hlen & Hl1 & Hbd).
  pose proof (plen_ge3 c (mem s) (end_ s) Hl1) as H3.
  unfold hdr_in. replace (end_ s + hdr <=? Size c) with true by (unfold hdr; lia). cbn [negb fst snd].
  eexists. split; [reflexivity|]. right. split; [discriminate|]. split; [reflexivity|].
  destruct s as [m f e]. cbn [mem front end_] in *.
  simpl in Hsh. destruct (pop_shape c m f e (po, length cc) (pd t) Hsh) as (Hs' & Hal).
  cbn [snd] in Hs', Hal. rewrite Hlen in Hs', Hal.
  splitR; auto.
  - inversion Hint; auto.
  - destruct (cur mo) as [[ro rn]|]; auto. destruct Hcur as (Hao & Hsin). split; auto.
Qed.

Lemma sim_more strict c s mo : wf c -> Live c s mo -> sim_goal strict c s mo More.
Proof.
  intros Hwf (Hd & HR). pose proof HR as (Hlm & Hls & Hsh & Hint & Hok & Hcur).
  unfold sim_goal, mstep. rewrite Hd. cbn [step].
  destruct (end_ s =? front s) eqn:Hfe.
  - assert (H : fifo mo = []) by (apply pd_nil, (shape_empty_iff _ _ _ Hsh); lia).
    rewrite H. cbn [fst snd length]. eexists. split; [reflexivity|]. right. split; [discriminate|]. split; auto.
  - assert (Hlen2 : (2 <=? length (fifo mo)) = negb (end_ s + plen c (mem s) (end_ s) =? front s)
                   /\ end_ s + hdr <= Size c).
    { rewrite <- pd_length. destruct (pd (fifo mo)) as [|p t] eqn:Hpd.
      - exfalso. assert (front s = end_ s) by (apply (shape_empty_iff _ _ _ Hsh); reflexivity). lia.
      - destruct (shape_head _ _ _ _ Hsh) as (Hpo & Hlen & Hl1 & Hbd).
        pose proof (plen_ge3 c (mem s) (end_ s) Hl1) as H3. split; [|unfold hdr; lia].
        rewrite <- Hlen. shape_cases Hsh.
        + discriminate.
        + destruct Hch as (_ & _ & _ & Hch). destruct t as [|q t'].
          * simpl in Hch. simpl. lia.
          * pose proof (chain_ne c (mem s) (q :: t') _ _ ltac:(discriminate) Hch). simpl. lia.
        + destruct up as [|q up']; [congruence|]. inversion Hl; subst q t.
          destruct lo as [|r lo']; [congruence|].
          cbn [length]. rewrite app_length. cbn [length].
          replace (end_ s + snd p =? front s) with false by lia.
          cbn [negb]. lia. }
    destruct Hlen2 as (Hlen2 & Hh).
    unfold hdr_in. replace (end_ s + hdr <=? Size c) with true by lia. cbn [negb fst snd].
    rewrite Hlen2, eqb_reflx.
    eexists. split; [reflexivity|]. right. split; [discriminate|]. split; auto.
Qed.

Lemma sim_reset strict c s mo : wf c -> Live c s mo -> sim_goal strict c s mo Reset.
Proof.
  intros Hwf (Hd & HR). pose proof HR as (Hlm & Hls & Hsh & Hint & Hok & Hcur).
  unfold sim_goal, mstep. rewrite Hd. cbn [step].
  destruct (fifo mo) as [|pc t] eqn:Hfifo.
  2:{ eexists. split; [reflexivity|]. left. reflexivity. }
  unfold do_reset, hdr_in. unfold wf in Hwf. replace (0 + hdr <=? Size c) with true by lia. cbn [fst snd].
  eexists. split; [reflexivity|]. right. split; [discriminate|]. split; [reflexivity|].
  splitR.
  - rewrite mark_length. auto.
  - unfold fresh. apply repeat_length.
  - split; [|split]; cbn [front end_]; try lia. left. auto.
  - constructor.
  - intros i b Hi. unfold fresh in Hi. rewrite nth_fresh in Hi. discriminate.
  - intros i. apply nth_fresh.
Qed.

Lemma sim_dump strict c s mo : wf c -> Live c s mo -> sim_goal strict c s mo Dump.
Proof.
  intros Hwf (Hd & HR). pose proof HR as (Hlm & Hls & Hsh & Hint & Hok & Hcur).
  unfold sim_goal, mstep. rewrite Hd. cbn [step fst snd].
  rewrite Hlm, Nat.eqb_refl. cbn [negb].
  replace (forallb (fun pc => list_eqb (slice (mem s) (fst pc) (length (snd pc))) (snd pc)) (fifo mo)) with true.
  2:{ symmetry. apply forallb_forall. intros pc Hin. unfold intact in Hint. rewrite Forall_forall in Hint.
      rewrite (Hint pc Hin). apply list_eqb_refl. }
  cbn [negb].
  replace (agree (shadow mo) 0 (mem s)) with true.
  2:{ symmetry. unfold agree. apply forallb_forall. intros k Hk. cbn [Nat.add].
      destruct (nth k (shadow mo) None) eqn:E; auto. apply N.eqb_eq. symmetry. apply Hok. auto. }
  cbn [negb].
  eexists. split; [reflexivity|]. right. split; [discriminate|]. split; auto.
Qed.

Lemma sim_st strict c s mo : wf c -> Live c s mo -> sim_goal strict c s mo St.
Proof.
  intros Hwf (Hd & HR). unfold sim_goal, mstep. rewrite Hd. cbn [step fst snd].
  eexists. split; [reflexivity|]. right. split; [discriminate|]. split; auto.
Qed.

Lemma step_sim strict c s mo o : wf c -> Live c s mo -> good strict c o -> sim_goal strict c s mo o.
Proof.
  intros Hwf HL Hg. destruct o.
  - apply sim_alloc; auto.
  - apply sim_write; auto.
  - apply sim_push; auto.
  - apply sim_peek; auto.
  - apply sim_pop; auto.
  - apply sim_more; auto.
  - apply sim_reset; auto.
  - apply sim_dump; auto.
  - apply sim_st; auto.
Qed.

Lemma init_live c : wf c -> Live c (init c) (minit (Size c)).
Proof.
  intros Hwf. unfold wf in Hwf. unfold init, do_reset, hdr_in.
  replace (0 + hdr <=? Size c) with true by lia.
  split; [reflexivity|]. unfold minit. splitR.
  - rewrite mark_length. apply repeat_length.
  - apply repeat_length.
  - split; [|split]; cbn [front end_]; try lia. left. auto.
  - constructor.
  - intros i b Hi. rewrite nth_fresh in Hi. discriminate.
  - intros i. apply nth_fresh.
Qed.

(* ------------------------------------------------------------------ whole traces *)

Lemma monitor_dead strict lim size o tr : forall mo pos, dead mo = true ->
  monitor_from strict lim size o mo pos tr = None.
Proof.
  induction tr as [|[op_ r] t IH]; intros mo pos Hd; simpl; auto.
  unfold mstep. rewrite Hd. apply IH. auto.
Qed.

Lemma monitor_live strict c ops : wf c -> Forall (good strict c) ops ->
  forall s mo pos, Live c s mo ->
  monitor_from strict (lmod c) (Size c) (ovh c) mo pos (run_from c s ops) = None.
Proof.
  intros Hwf Hg. induction Hg as [|o t Ho Ht IH]; intros s mo pos HL; simpl; auto.
  destruct (step_sim strict c s mo o Hwf HL Ho) as (mo' & Hm & Hnext).
  destruct (step c s o) as [s' r] eqn:Hst. cbn [fst snd] in *. simpl. rewrite Hm.
  destruct Hnext as [Hdead|(Hnf & HL')].
  - apply monitor_dead. auto.
  - replace (is_fault r) with false by (destruct r; try reflexivity; congruence).
    apply IH. auto.
Qed.

Lemma good_false c ops : Forall (good false c) ops.
Proof. apply Forall_forall. intros o _ H. discriminate. Qed.

(* every trace of the model is accepted by the monitor, except for the empty-ring clause *)
Theorem monitor_accepts_model c ops : wf c ->
  monitor false (lmod c) (Size c) (ovh c) (run c ops) = None.
Proof.
  intros Hwf. unfold monitor, run. apply monitor_live; auto using good_false, init_live.
Qed.

Lemma good_true c ops : alloc_sizes_le (Size c / 2) ops -> Forall (good true c) ops.
Proof.
  unfold alloc_sizes_le. intros H. eapply Forall_impl; [|exact H].
  intros o Ho _. destruct o; auto.
  pose proof (Nat.mul_div_le (Size c) 2 ltac:(lia)). lia.
Qed.

(* ... and including it as long as no request exceeds half the storage *)
Theorem monitor_strict_accepts_model c ops : wf c -> alloc_sizes_le (Size c / 2) ops ->
  monitor true (lmod c) (Size c) (ovh c) (run c ops) = None.
Proof.
  intros Hwf Hs. unfold monitor, run. apply monitor_live; auto using good_true, init_live.
Qed.

(* ------------------------------------------------------------------ the clauses, stated directly *)

(* memory safety: a history that stays inside the operation discipline to its end never faults
   (no access outside [0,Size), no failing assert) *)
Lemma mon_final_dead strict lim size o tr : forall mo, dead mo = true -> dead (mon_final strict lim size o mo tr) = true.
Proof.
  induction tr as [|[op_ r] t IH]; intros mo Hd; simpl; auto.
  apply IH. unfold mstep. rewrite Hd. auto.
Qed.

Lemma no_fault_live c ops : wf c -> forall s mo, Live c s mo ->
  dead (mon_final false (lmod c) (Size c) (ovh c) mo (run_from c s ops)) = false ->
  Forall (fun x => snd x <> OFault /\ snd x <> OSkipped) (run_from c s ops).
Proof.
  intros Hwf. induction ops as [|o t IH]; intros s mo HL Hfin; [constructor|].
  destruct (step_sim false c s mo o Hwf HL ltac:(intros H; discriminate)) as (mo' & Hm & Hnext).
  cbn [run_from] in *.
  destruct (step c s o) as [s' r] eqn:Hst. cbn [fst snd] in *.
  cbn [mon_final] in Hfin. rewrite Hm in Hfin. cbn [snd] in Hfin.
  destruct Hnext as [Hdead|(Hnf & HL')].
  - rewrite mon_final_dead in Hfin by auto. discriminate.
  - replace (is_fault r) with false in * by (destruct r; try reflexivity; congruence).
    constructor; [|apply (IH s' mo'); auto].
    cbn [snd]. split; auto. intros ->.
    destruct o; simpl in Hst; repeat match type of Hst with context [if ?b then _ else _] => destruct b end;
      try (inversion Hst; fail).
    + destruct (alloc_front c s n); inversion Hst.
    + destruct (do_reset c (mem s)); inversion Hst.
Qed.

Theorem no_fault_in_discipline c ops : wf c ->
  dead (mon_final false (lmod c) (Size c) (ovh c) (minit (Size c)) (run c ops)) = false ->
  Forall (fun x => snd x <> OFault /\ snd x <> OSkipped) (run c ops).
Proof. intros Hwf. apply no_fault_live; auto using init_live. Qed.

(* FIFO refinement: inside the discipline the monitor's FIFO evolves as the abstract queue ... *)
Lemma mstep_contents strict lim size o mo op_ r mo' :
  mstep strict lim size o mo op_ r = (Ok, mo') -> dead mo' = false ->
  contents mo' = fifo_spec (contents mo) op_ r.
Proof.
  unfold mstep. intros H Hd.
  destruct (dead mo) eqn:Hdm; [inversion H; congruence|].
  destruct op_; destruct r; cbn [fifo_spec];
    repeat (match type of H with
            | context [match ?x with _ => _ end] => destruct x eqn:?
            end; try discriminate);
    inversion H; subst; cbn [kill dead] in Hd; try discriminate; unfold contents; cbn [fifo]; auto.
  - rewrite map_app. reflexivity.
  - match goal with E : fifo mo = _ |- _ => rewrite E end. reflexivity.
  - match goal with E : fifo mo = _ |- _ => rewrite E end. reflexivity.
Qed.

Theorem fifo_refinement c s mo o v mo' : wf c -> Live c s mo ->
  mstep false (lmod c) (Size c) (ovh c) mo o (snd (step c s o)) = (v, mo') -> dead mo' = false ->
  v = Ok /\ snd (step c s o) <> OFault /\ Live c (fst (step c s o)) mo' /\
  contents mo' = fifo_spec (contents mo) o (snd (step c s o)).
Proof.
  intros Hwf HL Hm Hd.
  destruct (step_sim false c s mo o Hwf HL ltac:(intros H; discriminate)) as (mo2 & Hm2 & Hnext).
  rewrite Hm in Hm2. inversion Hm2; subst v mo2.
  destruct Hnext as [Hdead|(Hnf & HL')]; [congruence|].
  repeat split; auto; try apply HL'. eapply mstep_contents; eauto.
Qed.

(* ... next_end returns its head, at the place and with the bytes of its commit ... *)
Theorem peek_returns_oldest c s mo : wf c -> Live c s mo ->
  step c s Peek = (s, match fifo mo with [] => ONone | (po, cc) :: _ => OPeek po (length cc) cc end).
Proof.
  intros Hwf (Hd & HR). pose proof HR as (Hlm & Hls & Hsh & Hint & Hok & Hcur). cbn [step].
  destruct (front s =? end_ s) eqn:Hfe.
  - assert (H : fifo mo = []) by (apply pd_nil, (shape_empty_iff _ _ _ Hsh); lia). rewrite H. reflexivity.
  - destruct (fifo mo) as [|[po cc] t] eqn:Hfifo.
    + exfalso. assert (front s = end_ s) by (apply (shape_empty_iff _ _ _ Hsh); reflexivity). lia.
    + pose proof Hsh as Hh. simpl in Hh. apply shape_head in Hh. cbn [fst snd] in Hh.
      destruct Hh as (Hpo & Hlen & Hl1 & Hbd).
      pose proof (plen_ge3 c (mem s) (end_ s) Hl1) as H3.
      unfold hdr_in. replace (end_ s + hdr <=? Size c) with true by (unfold hdr; lia). cbn [negb].
      rewrite <- Hlen. replace (end_ s + length cc <=? Size c) with true by lia.
      inversion Hint as [|x y Hx Hy]; subst. cbn [fst snd] in Hx. rewrite Hx. reflexivity.
Qed.

(* ... and every live PDU still has the bytes of its commit in memory *)
Theorem live_pdus_intact c s mo : Live c s mo ->
  Forall (fun pc => slice (mem s) (fst pc) (length (snd pc)) = snd pc) (fifo mo).
Proof. intros (_ & _ & _ & _ & H & _). exact H. Qed.

(* live PDUs never overlap and lie inside the storage *)
Lemma chain_all_apart c m l : forall a b, chain c m a l b -> all_apart l.
Proof.
  induction l as [|p t IH]; intros a b H; simpl; auto.
  destruct H as (H0 & H1 & H2 & H). split; [|eapply IH; eauto].
  intros q Hq. destruct (chain_in _ _ _ _ _ _ H Hq) as (? & _). left. lia.
Qed.

Lemma all_apart_app l1 : forall l2, all_apart l1 -> all_apart l2 ->
  (forall p q, In p l1 -> In q l2 -> apart p q) -> all_apart (l1 ++ l2).
Proof.
  induction l1 as [|p t IH]; intros l2 H1 H2 H12; simpl; auto.
  destruct H1 as (Hp & Ht). split.
  - intros q Hq. apply in_app_or in Hq. destruct Hq; [apply Hp; auto|apply H12; simpl; auto].
  - apply IH; auto. intros; apply H12; simpl; auto.
Qed.

Theorem live_pdus_apart c s mo : Live c s mo ->
  all_apart (pd (fifo mo)) /\ Forall (fun p => fst p + snd p <= Size c /\ 3 <= snd p) (pd (fifo mo)).
Proof.
  intros (_ & _ & _ & Hsh & _). split.
  - pose proof Hsh as H. shape_cases H.
    + rewrite Hl. simpl. auto.
    + eapply chain_all_apart; eauto.
    + rewrite Hl. apply all_apart_app; try (eapply chain_all_apart; eauto).
      intros p q Hp Hq. destruct (chain_in _ _ _ _ _ _ Hcu Hp) as (? & _).
      destruct (chain_in _ _ _ _ _ _ Hcl Hq) as (_ & ? & _). right. lia.
  - apply Forall_forall. intros p Hp. split; [eapply shape_in_bound; eauto|].
    pose proof Hsh as H. shape_cases H.
    + rewrite Hl in Hp. destruct Hp.
    + destruct (chain_in _ _ _ _ _ _ Hch Hp) as (_ & _ & ? & _). auto.
    + rewrite Hl in Hp. apply in_app_or in Hp. destruct Hp as [Hp|Hp].
      * destruct (chain_in _ _ _ _ _ _ Hcu Hp) as (_ & _ & ? & _). auto.
      * destruct (chain_in _ _ _ _ _ _ Hcl Hp) as (_ & _ & ? & _). auto.
Qed.

(* a region handed out by alloc_front lies inside the storage and is apart from every live PDU *)
Theorem alloc_region_free c s mo n off : Live c s mo -> alloc_front c s n = Some off ->
  off + n <= Size c /\ forall p, In p (pd (fifo mo)) -> apart (off, n) p.
Proof.
  intros (_ & _ & _ & Hsh & _) Ha. pose proof (alloc_front_ok _ _ _ _ _ Hsh Ha) as Hao. split.
  - eapply alloc_ok_bound; eauto.
  - intros p Hp. exact (shape_free _ _ _ _ _ _ Hsh Hao Hp).
Qed.

(* completeness on a non-empty ring: front_ is the end of the newest, end_ the start of the oldest
   live PDU, and alloc_front fails only if neither the append region nor the wrap region is free *)
Theorem alloc_complete_nonempty c s mo n e0 c0 t : Live c s mo -> fifo mo = (e0, c0) :: t ->
  alloc_front c s n = None ->
  end_ s = e0 /\ front s = live_end (fifo mo) /\ front s <> end_ s /\
  (end_ s < front s -> Size c - front s < n /\ end_ s <= n) /\
  (front s < end_ s -> end_ s - front s <= n).
Proof.
  intros (_ & _ & _ & Hsh & _) E Ha.
  assert (Hne : pd (fifo mo) <> []) by (rewrite E; discriminate).
  assert (Hfne : fifo mo <> []) by (rewrite E; discriminate).
  pose proof (shape_last _ _ _ (0, 0) Hsh Hne) as Hlast. rewrite <- (live_end_pd _ Hfne) in Hlast.
  destruct (alloc_front_none _ _ _ Ha) as (Hn1 & Hn2).
  pose proof Hsh as Hsh2. rewrite E in Hsh2. simpl in Hsh2. apply shape_head in Hsh2. simpl in Hsh2.
  repeat split; try tauto; try lia.

Show.
Abort.
