From Coq Require Import List NArith Lia ZifyBool Bool.
Import ListNotations.
Local Open Scope N_scope.
Goal forall (l : list N) (n : N), n <= N.of_nat (length l) -> (N.to_nat n <= length l)%nat.
Proof. intros. lia. Qed.
Goal forall a b : N, (a <=? b) = true -> N.min a b = a.
Proof. intros. lia. Qed.
Goal forall a b : N, ((a <? b) || (b =? 3))%bool = false -> b <= a /\ b <> 3.
Proof. intros. lia. Qed.
Goal forall a : N, a < 65536 -> a mod 65536 = a.
Proof. intros. rewrite N.mod_small; lia. Qed.
