From Coq Require Import Lia ZifyBool NArith List Bool.
From BT Require Import Base.ListX Base.Bits2 LL.LLModel LL.LLSpec LL.LLSpecC27 LL.LLSpecC22 LL.LLProofs LL.LLProofsC27Sim.
From BT Require LL.LLProofsC21 LL.LLProofsC28 LL.LLProofsC28Air LL.LLSpecC28.
From BT Require gen.GenLL.
Import ListNotations.
Local Open Scope N_scope.

Definition cpr_req_pdu (p : procs) : list N :=
  [GenLL.LL_CONNECTION_PARAM_REQ; lo8 (prop_min p); hi8 (prop_min p); lo8 (prop_max p); hi8 (prop_max p);
   lo8 (prop_lat p); hi8 (prop_lat p); lo8 (prop_to p); hi8 (prop_to p); 0; 0; 0] ++ repeat 255 12.

Lemma tpcp_form c s : cfg_ok27 c = true -> phy_pending (pr s) = false -> ver_pending (pr s) = false ->
  transmit_pending_control_pdus c s =
    if cpr_pending (pr s) && txa s
    then commit_ctrl (upd_pr (set_proc_timeout s GenLL.default_procedure_timeout_us) (fun q => set_cpr_running (set_cpr_pending q false) true))
                     (cpr_req_pdu (pr s))
    else s.
Proof.
  intros Hc Hp Hv. unfold transmit_pending_control_pdus, tx_buffer_available, txa. rewrite Hp, Hv.
  assert (A : match c_cpr c with CprAsync => ap_pending (ac s) | _ => false end = false)
    by (unfold cfg_ok27 in Hc; destruct (c_cpr c); [reflexivity|reflexivity|discriminate]).
  rewrite A. destruct (cpr_pending (pr s)); cbn [negb andb]; [|reflexivity].
  destruct (tx_avail (bf s)); reflexivity.
Qed.

Lemma own_pdu_form m : m_phy m = None -> m_ver m = false -> m_acpr m = None ->
  own_pdu m = match m_cpr m with
              | Some (a, b, l, t) =>
                  Some (EExact ([15; a mod 256; (a / 256) mod 256; b mod 256; (b / 256) mod 256; l mod 256; (l / 256) mod 256;
                                 t mod 256; (t / 256) mod 256; 0; 0; 0] ++ repeat 255 12), arm (set_m_cpr m None) 15)
              | None => None
              end.
Proof. intros H1 H2 H3. unfold own_pdu. rewrite H1, H2, H3. destruct (m_cpr m) as [[[[a b] l] t]|]; reflexivity. Qed.

Lemma lo8_mod x : (x mod 65536) mod 256 = lo8 x. Proof. unfold lo8. nlia. Qed.
Lemma hi8_mod x : ((x mod 65536) / 256) mod 256 = hi8 x. Proof. unfold hi8. nlia. Qed.


Lemma has_closed_irrelevant : True. Proof. exact I. Qed.

Lemma ev_go c (Hc : cfg_ok27 c = true) s3 m2 e due it1 s9 it9 :
  PR c s3 m2 -> own_ok s3 m2 -> st s3 = Connected -> tw_size (tm s3) = 0 -> disc_reason s3 = 8 -> enc_prog (sc s3) = false ->
  m_conn m2 = true -> m_stop m2 = false ->
  Matches c due (ctrl (unaired s3)) ->
  (m_ver_sent m2 = true -> nver due = 0%nat) -> (nver due <= 1)%nat -> (ver_received (pr s3) = false -> nver due = 0%nat) ->
  (proc_timeout s3 <> 0 -> m_t m2 = tsle (cs s3)) ->
  has_adv it1 = false ->
  end_event_continue c s3 e = Some (s9, it9) ->
  exists m',
    (let due22 := negb (m_timer m2 =? 0) && (m_timer m2 <=? m_t m2) in
     if has_adv (it1 ++ snd (end_event_epilogue c s9 it9))
     then if due22 then (Ok, ended c m2)
          else if has_closed (it1 ++ snd (end_event_epilogue c s9 it9)) 34 then (Bad 6, m2) else (Ok, ended c m2)
     else if due22 then (Bad 5, m2)
     else let m3 := if m_timer m2 =? 0 then m2 else set_m_timer m2 (m_timer m2 - m_t m2) in
          let '(due', m4) := if m_txa m3 then match own_pdu m3 with Some (e0, m') => (due ++ [e0], m') | None => (due, m3) end else (due, m3) in
          (Ok, with_t (set_m_exp m4 due') (it1 ++ snd (end_event_epilogue c s9 it9)))) = (Ok, m')
    /\ (Loose m' \/ Tight c (fst (end_event_epilogue c s9 it9)) m').
Proof.
  intros HPR HO Hst Htw Hdr Hep Hcn Hsp HM V1 V2 V3 Ht Ha E.
  pose proof HPR as (P1 & P2 & P3 & P4 & P5 & P6 & P7 & P8 & P9 & P10 & P11 & P12).
  destruct HO as (O1 & O2 & O3 & O4 & O5 & O6).
  unfold end_event_continue in E.
  assert (ED : negb (m_timer m2 =? 0) && (m_timer m2 <=? m_t m2) = procedure_timed_out s3).
  { unfold procedure_timed_out. rewrite P6. destruct (proc_timeout s3 =? 0) eqn:E0; [reflexivity|]. rewrite Ht by lia. reflexivity. }
  cbv zeta. rewrite ED. destruct (procedure_timed_out s3) eqn:D.
  - (* the procedure response timeout *)
    inversion E as [E']. unfold force_disconnect_reason in E'.
    pose proof (force_disconnect_st c (set_disc_reason s3 GenLL.connection_ll_response_timeout)) as F1.
    pose proof (fd_has_adv c (set_disc_reason s3 GenLL.connection_ll_response_timeout)) as F2.
    rewrite E' in F1, F2. cbn [fst snd] in F1, F2.
    unfold end_event_epilogue. rewrite F1. cbn [flush_events snd fst].
    rewrite !has_adv_app, F2, orb_true_r. exists (ended c m2). split; [reflexivity|left; left; reflexivity].
  - admit.
Admitted.

Section Ev.
Variable c : cfg.
Hypothesis Hc : cfg_ok27 c = true.

Lemma ev_tight s m e pdus s' it :
  G c s m -> Tight c s m -> forallb pdu_ok27 pdus = true ->
  lstep c s (Ev e pdus) = (s', OItems it) ->
  exists m', mstep27 c m (Ev e pdus) (OItems it) = (Ok, m') /\ (Loose m' \/ Tight c s' m').
Proof.
  intros HG (T1 & T2 & HPR & HO & Tst & TM & TV1 & TV2 & TV3 & TT & TC & TD & TR & TE) Hpd H.
  pose proof HPR as (P1 & P2 & P3 & P4 & P5 & P6 & P7 & P8 & P9 & P10 & P11 & P12).
  cbn [lstep] in H. rewrite (in_conn_of s Tst) in H.
  destruct (existsb (fun p : N * list N => 27 <? N.of_nat (length (snd p))) pdus); [discriminate|].
  destruct (radio_event _ s pdus) as [s1 it1] eqn:E1.
  destruct (do_end_event c s1 e) as [[s2 it2]|] eqn:E2; [|discriminate]. inversion H; subst s2 it; clear H.
  assert (Hf : (length pdus + length (unaired s) < S (length pdus + length (txq (bf s))))%nat)
    by (pose proof (LLProofsC28Air.unaired_le_txq s); lia).
  destruct (LLProofsC28Air.radio_event_air _ s pdus s1 it1 Hf P11 E1) as (A1 & A2 & A3 & A4 & A5 & A6 & A7).
  destruct (radio_event_rx _ s pdus s1 it1 Hf P11 E1) as (b1 & Eb1 & Rb1).
  pose proof (end_event_notx c s1 e s' it2 E2) as NX.
  unfold mstep27. rewrite T1, T2. cbn [negb].
  rewrite tx3_app, (tx3_notx it2 NX), app_nil_r.
  replace (tx3 it1) with (ctrl (unaired s)) by (rewrite A1; symmetry; apply tx3_air).
  rewrite (judge_air_ok c (m_exp m) (ctrl (unaired s)) (m_ver_sent m) TM TV1 TV2).
  set (vs := m_ver_sent m || negb (Nat.eqb (nver (m_exp m)) 0)).
  fold (deliver pdus).
  set (m1 := set_m_ver_sent (set_m_exp (set_m_rx m (m_rx m ++ deliver pdus)) []) vs).
  (* the model's end_event *)
  assert (Tst1 : st s1 = Connecting \/ st s1 = Connected) by (rewrite A5; exact Tst).
  destruct (prologue_form c s1 Tst1) as (rr & Esp & Err).
  unfold do_end_event in E2. rewrite Esp in E2.
  set (sp := set_ring (upd_tm (set_st (set_pending_event s1 false) Connected) (fun t => set_tw_size t 0)) rr) in *.
  destruct (end_event_body c sp e) as [[s9 it9]|] eqn:EB; cbn [obind] in E2; [|discriminate].
  unfold end_event_body in EB. change (st sp) with Connected in EB. cbn [lstate_eqb andb] in EB.
  assert (HPR1 : PR c sp m1).
  { unfold PR. subst sp m1. rewrite Eb1. unfold txa, WFb in *. rewrite Eb1 in A3, A7. 
    cbn [m_rx m_txa m_ver_rcv m_ver_sent m_used m_timer m_owner set_m_ver_sent set_m_exp set_m_rx
         bf set_bf set_ring upd_tm set_tm set_st set_pending_event pr used_features proc_timeout deferred st lstate_eqb rxq stopped tx_avail] in *.
    rewrite Rb1, P1. repeat split; try assumption; try reflexivity; try congruence.
    - intros F. subst vs. rewrite (P4 F), (TV3 F). reflexivity.
    - rewrite Eb1 in A6. cbn [bf set_bf] in A6. congruence.
    - apply Forall_app. split; [exact P12|apply deliver_ok; exact Hpd]. }
  destruct (handle_received_data (S (length (rxq (bf sp)))) c sp) as [[s3 it3] res] eqn:E3.
  assert (Elen : length (rxq (bf sp)) = length (m_rx m ++ deliver pdus)).
  { subst sp. rewrite Eb1. cbn [bf set_bf set_ring upd_tm set_tm set_st set_pending_event]. rewrite Rb1, P1. reflexivity. }
  rewrite <- Elen.
  destruct (process27 (S (length (rxq (bf sp)))) c m1 (cpr_callbacks (it1 ++ it2)) []) as [[m2 due] p] eqn:EP.
  pose proof (process_sim c Hc _ sp m1 _ [] s3 it3 res m2 due p HPR1 E3 EP) as HPost.
  destruct p.
  - (* PGo *) admit.
  - (* PStop *) eexists. split; [reflexivity|]. left. destruct (has_adv _); [left; reflexivity|right; reflexivity].
  - (* PClosed *) eexists. split; [reflexivity|]. left. left. reflexivity.
Admitted.
End Ev.
