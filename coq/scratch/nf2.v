(* C01 (a): l2cap_input (att_input) never faults - no access outside the request or the caller's
   buffer, no failing assert - for every well formed configuration without include_service<> and
   without a characteristic whose 16 bit uuid is the internal 128 bit marker 0x0001, every state
   whose write queue holds validated elements, every request and every out_size >= 23.

   Two families of lemmas per handler: [_len] (the output buffer keeps its size; backward, from a
   successful run) and [_nf] (the handler does not return None; by contradiction from a failing run,
   every failing primitive being impossible under the invariants). *)
From Coq Require Import Lia ZifyBool.
From BT Require Import Base.ListX AttDb.AttDbModel AttDb.AttDbSpec AttDb.AttDbProofs NQueue.NQueueModel
  AttSrv.AttSrvModel AttSrv.AttSrvSpecC01 AttSrv.AttSrvProofsC01 AttSrv.AttSrvProofsC04 AttSrv.AttSrvFrame
  AttSrv.AttSrvSpecVal AttSrv.AttSrvProofsVal.
From BT Require AttSrv.AttSrvProofsC02.
Local Open Scope N_scope.

(* ------------------------------------------------------------------ failing primitives *)
Lemma put_none b p bs : put b p bs = None -> len b < p + len bs.
Proof. unfold put. destruct (p + len bs <=? len b) eqn:E; [discriminate|]. intros _. apply N.leb_gt in E. exact E. Qed.

Lemma rd_none pdu i : rd pdu i = None -> len pdu <= i.
Proof.
  unfold rd. destruct (i <? len pdu) eqn:E; [|intros _; apply N.ltb_ge in E; exact E].
  intros H. apply nth_error_None in H. unfold len. lia.
Qed.

Lemma rd16_none pdu i : rd16 pdu i = None -> len pdu <= i + 1.
Proof.
  unfold rd16. destruct (rd pdu i) eqn:E1; [|intros _; apply rd_none in E1; lia].
  destruct (rd pdu (i + 1)) eqn:E2; [discriminate|]. intros _. apply rd_none in E2. exact E2.
Qed.

Lemma slice_none pdu from to : slice pdu from to = None -> to < from \/ len pdu < to.
Proof.
  unfold slice. destruct (from <=? to) eqn:E1; cbn [andb].
  - destruct (to <=? len pdu) eqn:E2; [discriminate|]. intros _. right. apply N.leb_gt in E2. exact E2.
  - intros _. left. apply N.leb_gt in E1. exact E1.
Qed.

Lemma slice_len pdu from to l : slice pdu from to = Some l -> len l = to - from.
Proof.
  unfold slice. destruct ((from <=? to) && (to <=? len pdu)) eqn:E; [|discriminate]. intros H. inversion H.
  apply andb_true_iff in E. destruct E as [E1 E2]. apply N.leb_le in E1, E2.
  rewrite len_takeN, len_dropN. lia.
Qed.

Lemma error_response_none op code h b n : error_response op code h b n = None -> len b < 5.
Proof.
  unfold error_response. destruct (5 <=? n); [|discriminate].
  destruct (put b 0 (1 :: op :: le16 h ++ [code])) eqn:E; [discriminate|]. intros _.
  apply put_none in E. unfold le16, len in *. cbn [app length] in E. lia.
Qed.

Lemma error_response_len op code h b n r : error_response op code h b n = Some r -> len (fst r) = len b.
Proof.
  unfold error_response. destruct (5 <=? n).
  - destruct (put b 0 _) eqn:E; [|discriminate]. intros H. inversion H. cbn [fst]. eapply put_len; eauto.
  - intros H. inversion H. reflexivity.
Qed.

(* ------------------------------------------------------------------ checks *)
Ltac monN :=
  repeat match goal with
         | H : Some _ = None |- _ => discriminate H
         | H : match ?x with Some _ => _ | None => None end = None |- _ =>
             let E := fresh "E" in destruct x eqn:E
         | H : (let '(_, _) := ?x in _) = None |- _ => destruct x
         end.

Lemma check_range_nf c pdu b n sa sb op :
  rd pdu 0 = Some op -> 5 <= len b -> 5 <= sa -> 5 <= sb -> check_size_and_handle_range c pdu b n sa sb <> None.
Proof.
  intros Hop Hb Ha Hs H. unfold check_size_and_handle_range in H. rewrite Hop in H.
  destruct (negb (len pdu =? sa) && negb (len pdu =? sb)) eqn:El.
  - monN. apply error_response_none in E. lia.
  - assert (5 <= len pdu).
    { apply andb_false_iff in El. destruct El as [El|El]; apply negb_false_iff, N.eqb_eq in El; lia. }
    monN.
    + destruct ((n0 =? 0) || (n1 <? n0)); monN; [apply error_response_none in E1; lia|].
      destruct (first_index_by_handle c n0 =? invalid_index); monN. apply error_response_none in E1; lia.
    + apply rd16_none in E0. lia.
    + apply rd16_none in E. lia.
Qed.

Lemma check_range_failed_len c pdu b n sa sb r :
  check_size_and_handle_range c pdu b n sa sb = Some (Failed r) -> len (fst r) = len b.
Proof.
  unfold check_size_and_handle_range. intros H. mon.
  destruct (negb (len pdu =? sa) && negb (len pdu =? sb)).
  - mon. eapply error_response_len; eauto.
  - mon. destruct ((n1 =? 0) || (n2 <? n1)).
    + mon. eapply error_response_len; eauto.
    + destruct (first_index_by_handle c n1 =? invalid_index); mon. eapply error_response_len; eauto.
Qed.

Lemma check_range_passed c pdu b n sa sb sh eh :
  check_size_and_handle_range c pdu b n sa sb = Some (Passed (sh, eh)) ->
  (len pdu = sa \/ len pdu = sb) /\ first_index_by_handle c sh <> invalid_index /\ rd16 pdu 1 = Some sh /\ rd16 pdu 3 = Some eh /\ sh <= eh.
Proof.
  unfold check_size_and_handle_range. intros H. mon.
  destruct (negb (len pdu =? sa) && negb (len pdu =? sb)) eqn:El; [mon|].
  mon. brk; [mon|]. brk; mon.
  repeat match goal with
         | X : (_ =? _) = false |- _ => apply N.eqb_neq in X
         | X : (_ || _) = false |- _ => apply orb_false_iff in X; destruct X
         | X : (_ <? _) = false |- _ => apply N.ltb_ge in X
         end.
  repeat split; auto.
  apply andb_false_iff in El. destruct El as [El|El]; apply negb_false_iff, N.eqb_eq in El; auto.
Qed.

Lemma check_handle_nf c pdu b n op : rd pdu 0 = Some op -> 5 <= len b -> 3 <= len pdu -> check_handle c pdu b n <> None.
Proof.
  intros Hop Hb Hl H. unfold check_handle in H. rewrite Hop in H. monN.
  - destruct (n0 =? 0); monN; [apply error_response_none in E0; lia|].
    destruct (index_by_handle c n0 =? invalid_index); monN. apply error_response_none in E0; lia.
  - apply rd16_none in E. lia.
Qed.

Lemma check_handle_failed_len c pdu b n r : check_handle c pdu b n = Some (Failed r) -> len (fst r) = len b.
Proof.
  unfold check_handle. intros H. mon. destruct (n1 =? 0).
  - mon. eapply error_response_len; eauto.
  - destruct (index_by_handle c n1 =? invalid_index); mon. eapply error_response_len; eauto.
Qed.

Lemma check_handle_passed c pdu b n h i :
  check_handle c pdu b n = Some (Passed (h, i)) -> i = index_by_handle c h /\ i <> invalid_index /\ rd16 pdu 1 = Some h /\ h <> 0.
Proof.
  unfold check_handle. intros H. mon. brk; [mon|]. brk; mon.
  repeat match goal with X : (_ =? _) = false |- _ => apply N.eqb_neq in X end. auto.
Qed.

Lemma check_size_and_handle_nf c pdu b n sa op :
  rd pdu 0 = Some op -> 5 <= len b -> 3 <= sa -> check_size_and_handle c pdu b n sa <> None.
Proof.
  intros Hop Hb Hs H. unfold check_size_and_handle in H. rewrite Hop in H.
  destruct (negb (len pdu =? sa)) eqn:El.
  - monN. apply error_response_none in E. lia.
  - apply negb_false_iff, N.eqb_eq in El. eapply check_handle_nf; eauto. lia.
Qed.

Lemma check_size_and_handle_failed_len c pdu b n sa r : check_size_and_handle c pdu b n sa = Some (Failed r) -> len (fst r) = len b.
Proof.
  unfold check_size_and_handle. intros H. mon. destruct (negb (len pdu =? sa)).
  - mon. eapply error_response_len; eauto.
  - eapply check_handle_failed_len; eauto.
Qed.

Lemma check_size_and_handle_passed c pdu b n sa h i :
  check_size_and_handle c pdu b n sa = Some (Passed (h, i)) ->
  len pdu = sa /\ i = index_by_handle c h /\ i <> invalid_index /\ rd16 pdu 1 = Some h.
Proof.
  unfold check_size_and_handle. intros H. mon. destruct (negb (len pdu =? sa)) eqn:El; [mon|].
  apply negb_false_iff, N.eqb_eq in El. apply check_handle_passed in H. tauto.
Qed.

(* ------------------------------------------------------------------ facts about the configuration *)
Module C2 := AttSrv.AttSrvProofsC02.

(* no characteristic value attribute has the 16 bit type 0x0001, the internal marker of 128 bit uuids
   (characteristic_uuid16< 0x0001 > would make write_128bit_uuid assert: observation in docs/C01.md) *)
Definition no_marker_b (c : cfg) : bool :=
  forallb (fun i => match attribute_at c i with
                    | Some (AValue _ ch _ _) => negb (uuid_eqb (c_uuid ch) (U16 internal_128bit_uuid))
                    | _ => true
                    end) (seqN 0 (N.to_nat (number_of_attributes c))).
Definition no_marker_uuids (c : cfg) : Prop := no_marker_b c = true.

Lemma in_seqN i n from : from <= i -> i < from + N.of_nat n -> In i (seqN from n).
Proof.
  revert from; induction n as [|n IH]; intros from H1 H2; [lia|]. cbn [seqN].
  destruct (N.eq_dec i from) as [->|Hne]; [left; reflexivity|right]. apply IH; lia.
Qed.

Lemma attribute_at_lt c i a0 : attribute_at c i = Some a0 -> i < number_of_attributes c.
Proof.
  intros H. destruct (N.lt_ge_cases i (number_of_attributes c)) as [L|L]; auto.
  rewrite (C2.attribute_at_beyond c i L) in H. discriminate.
Qed.

Lemma attribute_at_some c i : i < number_of_attributes c -> exists a, attribute_at c i = Some a.
Proof.
  intros H. pose proof (C2.attribute_at_decl c i) as X. pose proof (C2.decl_attrs_len c) as L. unfold len in L.
  destruct (nth_error (decl_attrs c) (N.to_nat i)) eqn:E.
  - destruct (attribute_at c i) as [a1|]; [eexists; reflexivity|discriminate X].
  - apply nth_error_None in E. lia.
Qed.

Lemma attribute_at_zero c a : attribute_at c 0 = Some a -> exists s, a = AService s.
Proof.
  unfold attribute_at. destruct (services c) as [|s t]; cbn [svcs_attribute_at]; [discriminate|].
  assert (0 <? svc_nattrs s = true) as -> by (apply N.ltb_lt; pose proof (C2.svc_nattrs_pos s); lia).
  unfold svc_attribute_at. assert (0 <? svc_nsattrs s = true) as -> by (apply N.ltb_lt; unfold svc_nsattrs; lia).
  cbn. intros H. inversion H. eauto.
Qed.

Lemma no_marker_value c i s ch g k :
  no_marker_uuids c -> attribute_at c i = Some (AValue s ch g k) -> attr_uuid (AValue s ch g k) = internal_128bit_uuid ->
  exists b, c_uuid ch = U128 b.
Proof.
  intros Hm H Hu. unfold no_marker_uuids, no_marker_b in Hm. rewrite forallb_forall in Hm.
  specialize (Hm i). rewrite H in Hm.
  assert (Hin : In i (seqN 0 (N.to_nat (number_of_attributes c)))) by (apply in_seqN; [lia|apply attribute_at_lt in H; lia]).
  specialize (Hm Hin). cbn [attr_uuid] in Hu. destruct (c_uuid ch) as [v|b]; [|eauto].
  subst v. cbn in Hm. discriminate Hm.
Qed.

Section Cfg.
  Variable c : cfg.
  Hypothesis Hw : wf c.
  Hypothesis Hn : no_includes c.
  Hypothesis Hm : no_marker_uuids c.

  Lemma first_index_lt h : first_index_by_handle c h <> invalid_index -> first_index_by_handle c h < number_of_attributes c.
  Proof.
    intros H. rewrite (first_index_by_handle_spec c h Hw Hn) in *.
    destruct (first_ge_range (assign c) h 0) as [X|X]; [congruence|].
    rewrite (assign_length c Hw Hn) in X. lia.
  Qed.

  Lemma index_by_handle_lt h : index_by_handle c h <> invalid_index -> index_by_handle c h < number_of_attributes c.
  Proof.
    unfold index_by_handle. cbv zeta. intros H.
    destruct (negb (first_index_by_handle c h =? invalid_index) && negb (handle_by_index c (first_index_by_handle c h) =? h)) eqn:E;
      [congruence|]. apply first_index_lt. exact H.
  Qed.

  Lemma attributes_pos : 1 <= number_of_attributes c.
  Proof.
    pose proof Hw as W. unfold wf, wf_b in W. repeat (apply andb_true_iff in W; destruct W as [W ?]).
    apply Nat.leb_le in W. rename W into L.
    unfold number_of_attributes. destruct (services c) as [|s t]; [cbn in L; lia|]. cbn [sumN].
    pose proof (C2.svc_nattrs_pos s). lia.
  Qed.

  Lemma mtu_ge : default_att_mtu <= max_mtu c.
  Proof.
    pose proof Hw as W. unfold wf, wf_b in W. repeat (apply andb_true_iff in W; destruct W as [W ?]).
    match goal with X : (default_att_mtu <=? max_mtu c) = true |- _ => apply N.leb_le in X; exact X end.
  Qed.

  Lemma decl_value_some i s ch : attribute_at c i = Some (ACharDecl s ch) -> exists v, char_decl_value c ch i = Some v.
  Proof. intros H. destruct (char_decl_value_spec c i s ch Hw Hn H) as [E _]. eauto. Qed.

  (* a characteristic found by attribute_at belongs to a service of the configuration *)
  Lemma chars_attribute_at_in s cs g cci i s' ch' :
    chars_attribute_at s cs g cci i = Some (ACharDecl s' ch') -> s' = s /\ In ch' cs.
  Proof.
    revert g cci i; induction cs as [|c0 t IH]; intros g cci i H; cbn [chars_attribute_at] in H; [discriminate|].
    destruct (i <? char_nattrs c0).
    - unfold char_attribute_at, char_attrs in H. destruct (N.to_nat i) as [|[|k]]; cbn [nth_error] in H.
      + inversion H. split; [reflexivity|left; reflexivity].
      + discriminate.
      + apply nth_error_In in H. unfold char_tail_attrs in H.
        repeat (apply in_app_or in H; destruct H as [H|H]).
        * destruct (has_cccd c0); [destruct H as [H|[]]; discriminate|destruct H].
        * destruct (c_name c0); [destruct H as [H|[]]; discriminate|destruct H].
        * apply in_map_iff in H. destruct H as [d [H _]]. discriminate.
    - apply IH in H. destruct H. split; auto. right; auto.
  Qed.

  Lemma attribute_at_chardecl_in i s ch : attribute_at c i = Some (ACharDecl s ch) -> In s (services c) /\ In ch (s_chars s).
  Proof.
    unfold attribute_at. generalize O as g, 0 as cci. revert i.
    induction (services c) as [|s0 t IH]; intros i g cci H; cbn [svcs_attribute_at] in H; [discriminate|].
    destruct (i <? svc_nattrs s0).
    - unfold svc_attribute_at in H. destruct (i <? svc_nsattrs s0).
      + destruct (i =? 0); [discriminate|]. destruct (nth_error (s_includes s0) _); discriminate.
      + apply chars_attribute_at_in in H. destruct H as [-> H]. split; [left; reflexivity|exact H].
    - apply IH in H. destruct H. split; auto. right; auto.
  Qed.

  Lemma char_uuid_ok i s ch : attribute_at c i = Some (ACharDecl s ch) -> uuid_ok (c_uuid ch) = true.
  Proof.
    intros H. apply attribute_at_chardecl_in in H. destruct H as [Hs Hc].
    assert (X : forallb (svc_static_ok c) (services c) = true).
    { pose proof Hw as W. unfold wf, wf_b in W. repeat (apply andb_true_iff in W; destruct W as [W ?]). assumption. }
    rewrite forallb_forall in X. specialize (X s Hs). unfold svc_static_ok in X.
    repeat (apply andb_true_iff in X; destruct X as [X ?]).
    match goal with Y : forallb char_static_ok (s_chars s) = true |- _ => rewrite forallb_forall in Y; specialize (Y ch Hc); rename Y into Z end.
    unfold char_static_ok in Z. repeat (apply andb_true_iff in Z; destruct Z as [Z ?]). assumption.
  Qed.

  (* write_128bit_uuid succeeds on every attribute carrying the internal marker *)
  Lemma uuid128_some i a : attribute_at c i = Some a -> attr_uuid a = internal_128bit_uuid ->
    exists u, uuid128_of_decl c i = Some u /\ len u = 16.
  Proof.
    intros Ha Hu.
    assert (Hin : In (C2.erase a) (decl_attrs c)).
    { pose proof (C2.attribute_at_decl c i) as X. rewrite Ha in X. cbn [option_map] in X. symmetry in X. eapply nth_error_In; eauto. }
    assert (Hv : C2.is_value (C2.erase a) = true) by (apply (C2.marker_is_value c); auto; rewrite C2.erase_uuid; auto).
    destruct a as [| | |s ch g k| | |]; try discriminate Hv.
    destruct (no_marker_value c i s ch g k Hm Ha Hu) as [bs Hb].
    destruct (C2.attribute_before_value c i s ch g k Ha) as [Hi Hd].
    assert (H1 : i - 1 <> 0).
    { intros E. rewrite E in Hd. apply attribute_at_zero in Hd. destruct Hd as [s0 X]. discriminate X. }
    pose proof (attribute_at_lt c i _ Ha) as Hlt.
    unfold uuid128_of_decl. replace (i =? 0) with false by (symmetry; apply N.eqb_neq; exact Hi). rewrite Hd.
    unfold char_decl_value. cbv zeta.
    destruct (index_by_handle_inverse c (1 + 1) Hw Hn) as [_ Hnz]; [lia|].
    replace (handle_by_index c (1 + 1) =? invalid_handle) with false by (symmetry; apply N.eqb_neq; exact Hnz).
    pose proof (char_uuid_ok _ _ _ Hd) as Hok. pose proof (C2.uuid_bytes_len _ Hok) as Hl. rewrite Hb in Hl. cbn [is_128bit] in Hl.
    assert (L19 : len (char_properties ch :: le16 (handle_by_index c (1 + 1)) ++ uuid_bytes (c_uuid ch)) = 19).
    { rewrite Hb. unfold len in *. cbn [length le16 app]. lia. }
    rewrite L19. cbn [N.eqb Pos.eqb]. eexists. split; [reflexivity|]. rewrite len_dropN. lia.
  Qed.
End Cfg.

(* ------------------------------------------------------------------ attribute access *)
Lemma access_read_none c st cid a index off maxlen :
  access_read c st cid a index off maxlen = None ->
  get_conn st cid = None \/ exists s ch, a = ACharDecl s ch /\ char_decl_value c ch index = None.
Proof.
  unfold access_read. destruct (get_conn st cid) as [k|]; [|auto]. intros H. right.
  destruct a as [s|u|s ch|s ch g cci|s ch cci|nm|u v]; try (destruct (mem_read _ _ _); discriminate H); try discriminate H.
  - destruct (char_decl_value c ch index) eqn:E; [destruct (mem_read _ _ _); discriminate H|eauto].
  - destruct (security_check _ _ _); try discriminate H. destruct (mem_read _ _ _); discriminate H.
Qed.

Lemma access_write_some c st cid a off data k : get_conn st cid = Some k -> access_write c st cid a off data <> None.
Proof.
  intros G. unfold access_write. rewrite G. destruct a; try discriminate.
  destruct (security_check _ _ _); discriminate.
Qed.

Lemma access_read_get c st cid a index off maxlen st' r d k :
  access_read c st cid a index off maxlen = Some (st', r, d) -> get_conn st cid = Some k -> get_conn st' cid = Some k.
Proof. intros H G. apply access_read_conns in H. unfold get_conn in *. rewrite H. exact G. Qed.

Lemma access_write_get c st cid a off data st' r :
  access_write c st cid a off data = Some (st', r) -> exists k', get_conn st' cid = Some k'.
Proof.
  intros H. apply (access_write_frame true true) in H. destruct (frame_this _ _ _ _ _ H) as (k0 & k1 & _ & G & _). eauto.
Qed.

(* ------------------------------------------------------------------ tactics *)
Lemma len_cons (A : Type) (x : A) t : len (x :: t) = len t + 1.
Proof. unfold len. cbn [length]. lia. Qed.
Lemma len_nil (A : Type) : len (@nil A) = 0.
Proof. reflexivity. Qed.
Lemma len_le16 x : len (le16 x) = 2.
Proof. reflexivity. Qed.
#[local] Hint Rewrite len_cons len_nil len_app len_le16 : lens.

(* break a failing run "... = None" into its possible causes *)
Ltac nfb :=
  repeat match goal with
         | H : Some _ = None |- _ => discriminate H
         | H : (let '(_, _) := ?x in _) = None |- _ => destruct x
         | H : (if ?x then _ else _) = None |- _ => destruct x eqn:?
         | H : match ?x with Success => _ | Err _ => _ | ValueEqual => _ end = None |- _ => destruct x
         | H : match ?x with Failed _ => _ | Passed _ => _ end = None |- _ => destruct x eqn:?
         | H : match ?x with Some _ => _ | None => _ end = None |- _ => let E := fresh "E" in destruct x eqn:E
         end.

(* turn the primitive successes / failures into facts about lengths *)
Ltac facts :=
  repeat match goal with
         | X : put _ _ _ = Some _ |- _ => apply put_len in X
         | X : put _ _ _ = None |- _ => apply put_none in X
         | X : error_response _ _ _ _ _ = None |- _ => apply error_response_none in X
         | X : error_response _ _ _ _ _ = Some _ |- _ => apply error_response_len in X
         | X : rd _ _ = None |- _ => apply rd_none in X
         | X : rd16 _ _ = None |- _ => apply rd16_none in X
         | X : slice _ _ _ = None |- _ => apply slice_none in X
         | X : slice _ _ _ = Some _ |- _ => apply slice_len in X
         | X : access_read _ _ _ _ _ _ _ = Some _ |- _ => apply access_read_len in X
         end;
  autorewrite with lens in *; cbn [fst snd] in *.

(* the same for a successful run (backward) *)
Ltac okb :=
  repeat match goal with
         | H : (if ?x then _ else _) = Some _ |- _ => destruct x eqn:?
         | H : match ?x with Success => _ | Err _ => _ | ValueEqual => _ end = Some _ |- _ => destruct x
         | H : match ?x with Failed _ => _ | Passed _ => _ end = Some _ |- _ => destruct x eqn:?
         | H : match ?x with Some _ => _ | None => _ end = Some _ |- _ => let E := fresh "E" in destruct x eqn:E
         | _ => progress mon
         end.

Section Handlers.
  Variable c : cfg.
  Hypothesis Hw : wf c.
  Hypothesis Hn : no_includes c.
  Hypothesis Hm : no_marker_uuids c.

  (* reading attribute [index] on a live connection never faults *)
  Lemma access_read_nf st cid k index a off maxlen :
    get_conn st cid = Some k -> attribute_at c index = Some a -> access_read c st cid a index off maxlen <> None.
  Proof.
    intros G Ha H. apply access_read_none in H. destruct H as [H|(s & ch & -> & H)]; [congruence|].
    destruct (decl_value_some c Hw Hn _ _ _ Ha) as [v Hv]. congruence.
  Qed.

  (* ---- Read / Read Blob *)
  Lemma read_common_nf st cid k pdu b n rsp h index off op :
    rd pdu 0 = Some op -> get_conn st cid = Some k -> index < number_of_attributes c -> 23 <= n -> n <= len b ->
    handle_read_common c st cid pdu b n rsp h index off <> None.
  Proof.
    intros Hop G Hi Hn1 Hb H. unfold handle_read_common in H. rewrite Hop in H.
    destruct (attribute_at_some c index Hi) as [a Ha]. rewrite Ha in H.
    destruct (access_read c st cid a index off (n - 1)) as [[[st' rc] d]|] eqn:E; [|eapply access_read_nf; eauto].
    nfb; facts; lia.
  Qed.

  Lemma read_common_len st cid pdu b n rsp h index off st' b' m :
    handle_read_common c st cid pdu b n rsp h index off = Some (st', (b', m)) -> len b' = len b.
  Proof. unfold handle_read_common. intros H. okb; facts; congruence. Qed.

  Lemma read_nf st cid k pdu b n : rd pdu 0 = Some 10 -> get_conn st cid = Some k -> 23 <= n -> n <= len b ->
    handle_read c st cid pdu b n <> None.
  Proof.
    intros Hop G Hn1 Hb H. unfold handle_read in H.
    destruct (check_size_and_handle c pdu b n 3) as [[r|[h i]]|] eqn:E; [discriminate| |eapply check_size_and_handle_nf; eauto; lia].
    apply check_size_and_handle_passed in E. destruct E as (_ & -> & Hi & _).
    eapply read_common_nf; eauto. apply index_by_handle_lt; auto.
  Qed.

  Lemma read_len st cid pdu b n st' b' m : handle_read c st cid pdu b n = Some (st', (b', m)) -> len b' = len b.
  Proof.
    unfold handle_read. intros H. okb.
    - apply check_size_and_handle_failed_len in E. exact E.
    - eapply read_common_len; eauto.
  Qed.

  Lemma read_blob_nf st cid k pdu b n : rd pdu 0 = Some 12 -> get_conn st cid = Some k -> 23 <= n -> n <= len b ->
    handle_read_blob c st cid pdu b n <> None.
  Proof.
    intros Hop G Hn1 Hb H. unfold handle_read_blob in H.
    destruct (check_size_and_handle c pdu b n 5) as [[r|[h i]]|] eqn:E; [discriminate| |eapply check_size_and_handle_nf; eauto; lia].
    apply check_size_and_handle_passed in E. destruct E as (L & -> & Hi & _).
    destruct (rd16 pdu 3) eqn:E3; [|apply rd16_none in E3; lia].
    eapply read_common_nf; eauto. apply index_by_handle_lt; auto.
  Qed.

  Lemma read_blob_len st cid pdu b n st' b' m : handle_read_blob c st cid pdu b n = Some (st', (b', m)) -> len b' = len b.
  Proof.
    unfold handle_read_blob. intros H. okb.
    - apply check_size_and_handle_failed_len in E. exact E.
    - eapply read_common_len; eauto.
  Qed.

  (* ---- Write Request / Command *)
  Lemma write_request_nf st cid k pdu b n op : rd pdu 0 = Some op -> get_conn st cid = Some k -> 23 <= n -> n <= len b ->
    handle_write_request c st cid pdu b n <> None.
  Proof.
    intros Hop G Hn1 Hb H. unfold handle_write_request in H. rewrite Hop in H.
    destruct (len pdu <? 3) eqn:El; [nfb; facts; lia|]. apply N.ltb_ge in El.
    destruct (check_handle c pdu b n) as [[r|[h i]]|] eqn:E; [discriminate| |eapply check_handle_nf; eauto; lia].
    apply check_handle_passed in E. destruct E as (-> & Hi & _ & _).
    destruct (attribute_at_some c _ (index_by_handle_lt c Hw Hn _ Hi)) as [a Ha]. rewrite Ha in H.
    destruct (slice pdu 3 (len pdu)) as [data|] eqn:Es; [|apply slice_none in Es; lia].
    destruct (access_write c st cid a 0 data) as [[st' rc]|] eqn:Ew; [|eapply access_write_some; eauto].
    nfb; facts; lia.
  Qed.

  Lemma write_request_len st cid pdu b n st' b' m : handle_write_request c st cid pdu b n = Some (st', (b', m)) -> len b' = len b.
  Proof.
    unfold handle_write_request. intros H. okb; facts; try congruence.
    apply check_handle_failed_len in E0. exact E0.
  Qed.

  Lemma write_command_nf st cid k pdu b n op : rd pdu 0 = Some op -> get_conn st cid = Some k -> 23 <= n -> n <= len b ->
    handle_write_command c st cid pdu b n <> None.
  Proof.
    intros Hop G Hn1 Hb H. unfold handle_write_command in H.
    destruct (handle_write_request c st cid pdu b n) as [[st' [b' m]]|] eqn:E; [discriminate|].
    eapply write_request_nf; eauto.
  Qed.

  Lemma write_command_len st cid pdu b n st' b' m : handle_write_command c st cid pdu b n = Some (st', (b', m)) -> len b' = len b /\ m = 0.
  Proof.
    unfold handle_write_command. intros H. okb. split; [eapply write_request_len; eauto|reflexivity].
  Qed.

  (* ---- Prepare Write / Execute Write *)
  Lemma rd_nth l i : i < len l -> rd l i = Some (nth (N.to_nat i) l 0).
  Proof.
    intros H. unfold rd. replace (i <? len l) with true by (symmetry; apply N.ltb_lt; exact H).
    apply nth_error_nth'. unfold len in H. lia.
  Qed.

  Lemma prepare_write_nf st cid k pdu b n : rd pdu 0 = Some 22 -> get_conn st cid = Some k -> 23 <= n -> n <= len b ->
    handle_prepare_write c st cid pdu b n <> None.
  Proof.
    intros Hop G Hn1 Hb H. unfold handle_prepare_write in H. rewrite Hop in H.
    destruct (wqueue c) as [qs|]; [|nfb; facts; lia].
    destruct (len pdu <? 5) eqn:El; [nfb; facts; lia|]. apply N.ltb_ge in El.
    destruct (check_handle c pdu b n) as [[r|[h i]]|] eqn:E; [discriminate| |eapply check_handle_nf; eauto; lia].
    apply check_handle_passed in E. destruct E as (-> & Hi & _ & _).
    destruct (attribute_at_some c _ (index_by_handle_lt c Hw Hn _ Hi)) as [a Ha]. rewrite Ha in H.
    unfold access_check_write in H.
    destruct (access_write c st cid a 0 []) as [[st' rc]|] eqn:Ew; [|eapply access_write_some; eauto].
    nfb; facts; try lia. Show.
Abort.
End Handlers.
