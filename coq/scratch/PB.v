(* ------------------------------------------------------------------ lists *)
Lemma Forall2_nth (A B : Type) (R : A -> B -> Prop) l1 l2 d1 d2 n :
  Forall2 R l1 l2 -> n < length l1 -> R (nth n l1 d1) (nth n l2 d2).
Proof.
  intros F. revert n. induction F; intros [|n] Hn; simpl in *; try lia; auto. apply IHF. lia.
Qed.

Lemma Forall2_upd (A B : Type) (R : A -> B -> Prop) l1 l2 n a b :
  Forall2 R l1 l2 -> R a b -> Forall2 R (upd l1 n a) (upd l2 n b).
Proof.
  intros F Hab. revert n. induction F; intros [|n]; simpl; constructor; auto.
Qed.

Lemma map_upd (A B : Type) (f : A -> B) l n a : map f (upd l n a) = upd (map f l) n (f a).
Proof. revert n. induction l as [|h t IH]; intros [|n]; simpl; auto. f_equal. apply IH. Qed.

Lemma addr_eqb_eq a b : addr_eqb a b = true <-> a = b.
Proof.
  destruct a as [a1 a2], b as [b1 b2]. unfold addr_eqb. simpl.
  rewrite andb_true_iff, !Nat.eqb_eq. split; [intros [-> ->]; auto|intros H; inversion H; auto].
Qed.

(* ------------------------------------------------------------------ memory *)
Definition is_single (l : level) : bool := match l with Single _ => true | General _ _ _ => false end.
Definition szs (ls : list level) : list nat := map lsize ls.
Definition kinds (ls : list level) : list bool := map is_single ls.

Lemma lsize_nth ls lv : lsize (nth lv ls dlevel) = nth lv (szs ls) 1.
Proof. unfold szs. change 1 with (lsize dlevel). symmetry. apply map_nth. Qed.
Lemma single_nth ls lv : is_single (nth lv ls dlevel) = nth lv (kinds ls) true.
Proof. unfold kinds. change true with (is_single dlevel). symmetry. apply map_nth. Qed.

Lemma lbytes_lput l b v : lbytes (lput l b v) = upd (lbytes l) b v.
Proof. destruct l as [s n q|st]; simpl; auto. destruct b; reflexivity. Qed.
Lemma lsize_lput l b v : lsize (lput l b v) = lsize l.
Proof. destruct l as [s n q|st]; simpl; auto. destruct b; reflexivity. Qed.
Lemma lnxt_lput l b v : lnxt (lput l b v) = lnxt l.
Proof. destruct l as [s n q|st]; simpl; auto. destruct b; reflexivity. Qed.
Lemma single_lput l b v : is_single (lput l b v) = is_single l.
Proof. destruct l as [s n q|st]; simpl; auto. destruct b; reflexivity. Qed.

Lemma szs_mstore ls a v : szs (mstore ls a v) = szs ls.
Proof.
  unfold mstore, szs. rewrite map_upd, lsize_lput, lsize_nth. apply upd_same.
Qed.
Lemma kinds_mstore ls a v : kinds (mstore ls a v) = kinds ls.
Proof.
  unfold mstore, kinds. rewrite map_upd, single_lput, single_nth. apply upd_same.
Qed.
Lemma szs_set_next ls lv n : szs (set_next ls lv n) = szs ls.
Proof.
  unfold set_next, szs. rewrite map_upd.
  replace (lsize (lset_next (nth lv ls dlevel) n)) with (lsize (nth lv ls dlevel)) by (destruct (nth lv ls dlevel); reflexivity).
  rewrite lsize_nth. apply upd_same.
Qed.
Lemma kinds_set_next ls lv n : kinds (set_next ls lv n) = kinds ls.
Proof.
  unfold set_next, kinds. rewrite map_upd.
  replace (is_single (lset_next (nth lv ls dlevel) n)) with (is_single (nth lv ls dlevel)) by (destruct (nth lv ls dlevel); reflexivity).
  rewrite single_nth. apply upd_same.
Qed.
Lemma length_mstore ls a v : length (mstore ls a v) = length ls.
Proof. unfold mstore. apply upd_length. Qed.
Lemma length_set_next ls lv n : length (set_next ls lv n) = length ls.
Proof. unfold set_next. apply upd_length. Qed.

Lemma mload_mstore_neq ls a v a' : a <> a' -> mload (mstore ls a v) a' = mload ls a'.
Proof.
  destruct a as [lv b], a' as [lv' b']. intros Hne. unfold mload, mstore. simpl.
  destruct (Nat.eq_dec lv lv') as [<-|Hl].
  - destruct (Nat.lt_ge_cases lv (length ls)).
    + rewrite nth_upd_eq by auto. rewrite lbytes_lput. apply nth_upd_neq. congruence.
    + rewrite upd_out by auto. reflexivity.
  - rewrite nth_upd_neq by auto. reflexivity.
Qed.

Lemma mload_set_next ls lv n a : mload (set_next ls lv n) a = mload ls a.
Proof.
  destruct a as [lv' b']. unfold mload, set_next. simpl.
  destruct (Nat.eq_dec lv lv') as [<-|Hl].
  - destruct (Nat.lt_ge_cases lv (length ls)).
    + rewrite nth_upd_eq by auto. destruct (nth lv ls dlevel); reflexivity.
    + rewrite upd_out by auto. reflexivity.
  - rewrite nth_upd_neq by auto. reflexivity.
Qed.

(* ------------------------------------------------------------------ level ~ pending values *)
Record lrel (l : level) (p : list N) : Prop := {
  lr_len : length p = lsize l;
  lr_pos : 1 <= lsize l;
  lr_wf : pwf p;
  lr_bytes : lbytes l = abs_bytes p;
  lr_next : lnxt l < lsize l }.

Lemma szs_agree ls m : Forall2 lrel ls m -> szs ls = map (@length N) m.
Proof. intros F. induction F; simpl; auto. f_equal; auto. symmetry. apply lr_len. auto. Qed.

Lemma lrel_nth ls m lv : Forall2 lrel ls m -> lv < length ls -> lrel (nth lv ls dlevel) (nth lv m []).
Proof. apply Forall2_nth. Qed.

Lemma len_pend ls m lv : Forall2 lrel ls m -> lv < length ls -> length (nth lv m []) = nth lv (szs ls) 1.
Proof. intros F H. rewrite <- lsize_nth. apply lr_len. apply lrel_nth; auto. Qed.

Lemma mload_abs ls m lv i :
  Forall2 lrel ls m -> lv < length ls -> i < nth lv (szs ls) 1 ->
  mload ls (lv, boff i) = pack4 (nth lv m []) (boff i) /\
  bget (mload ls (lv, boff i)) (slot i) = pend_at m lv i.
Proof.
  intros F Hl Hi. pose proof (lrel_nth ls m lv F Hl) as R. pose proof (len_pend ls m lv F Hl) as L.
  assert (E : mload ls (lv, boff i) = pack4 (nth lv m []) (boff i)).
  { unfold mload. simpl. rewrite (lr_bytes _ _ R). apply nth_abs_bytes. apply boff_lt. lia. }
  split; auto. rewrite E. rewrite bget_pack4 by (apply (lr_wf _ _ R) || apply slot_lt).
  rewrite <- idx_split. reflexivity.
Qed.

Lemma pend_at_set_eq m lv i x :
  lv < length m -> i < length (nth lv m []) -> pend_at (pend_set m lv i x) lv i = x.
Proof. intros Hl Hi. unfold pend_at, pend_set. rewrite nth_upd_eq by auto. apply nth_upd_eq. auto. Qed.

Lemma pend_at_set_neq m lv i x lv' i' :
  (lv', i') <> (lv, i) -> pend_at (pend_set m lv i x) lv' i' = pend_at m lv' i'.
Proof.
  intros Hne. unfold pend_at, pend_set.
  destruct (Nat.eq_dec lv lv') as [<-|Hl].
  - destruct (Nat.lt_ge_cases lv (length m)).
    + rewrite nth_upd_eq by auto. apply nth_upd_neq. congruence.
    + rewrite upd_out by auto. reflexivity.
  - rewrite nth_upd_neq by auto. reflexivity.
Qed.

Lemma abs_byte_set m lv i x b :
  lv < length m -> abs_byte (pend_set m lv i x) (lv, b) = pack4 (upd (nth lv m []) i x) b.
Proof. intros H. unfold abs_byte, pend_set. simpl. rewrite nth_upd_eq by auto. reflexivity. Qed.

Lemma lrel_store ls m lv i x :
  Forall2 lrel ls m -> lv < length ls -> i < nth lv (szs ls) 1 -> (x < 4)%N ->
  Forall2 lrel (mstore ls (lv, boff i) (pack4 (upd (nth lv m []) i x) (boff i))) (pend_set m lv i x).
Proof.
  intros F Hl Hi Hx. pose proof (lrel_nth ls m lv F Hl) as R. pose proof (len_pend ls m lv F Hl) as L.
  unfold mstore, pend_set. simpl. apply Forall2_upd; auto.
  destruct R as [R1 R2 R3 R4 R5]. constructor.
  - rewrite upd_length, lsize_lput. auto.
  - rewrite lsize_lput. auto.
  - apply pwf_upd; auto.
  - rewrite lbytes_lput, R4. symmetry. apply abs_bytes_upd. lia.
  - rewrite lnxt_lput, lsize_lput. auto.
Qed.

Lemma lrel_set_next ls m lv n :
  Forall2 lrel ls m -> n < nth lv (szs ls) 1 -> Forall2 lrel (set_next ls lv n) m.
Proof.
  intros F Hn. unfold set_next.
  destruct (Nat.lt_ge_cases lv (length ls)) as [Hl|Hl]; [|rewrite upd_out by auto; auto].
  pose proof (lrel_nth ls m lv F Hl) as R.
  rewrite <- (upd_same m lv []). apply Forall2_upd; auto.
  rewrite <- lsize_nth in Hn.
  destruct R as [R1 R2 R3 R4 R5]. destruct (nth lv ls dlevel) as [s nx q|st]; simpl in *; constructor; simpl; auto.
Qed.

(* ------------------------------------------------------------------ locating a characteristic *)
Definition offs (z : list nat) (lv : nat) : nat := list_sum (firstn lv z).

Lemma locate_bound z : forall lv0 gi lv i,
  locate z lv0 gi = Some (lv, i) -> lv0 <= lv /\ lv - lv0 < length z /\ i < nth (lv - lv0) z 1.
Proof.
  induction z as [|s t IH]; intros lv0 gi lv i H; simpl in H; [discriminate|].
  destruct (gi <? s) eqn:E.
  - inversion H; subst. apply Nat.ltb_lt in E. rewrite Nat.sub_diag. simpl. lia.
  - apply IH in H. destruct H as (A & B & C). replace (lv - lv0) with (S (lv - S lv0)) by lia. simpl. lia.
Qed.

Lemma locate_offs z : forall lv0 lv i,
  lv < length z -> i < nth lv z 1 -> locate z lv0 (i + offs z lv) = Some (lv0 + lv, i).
Proof.
  induction z as [|s t IH]; intros lv0 lv i Hl Hi; simpl in Hl; [lia|].
  destruct lv as [|lv]; simpl in *.
  - unfold offs. simpl. rewrite Nat.add_0_r. apply Nat.ltb_lt in Hi. rewrite Hi. f_equal. f_equal. lia.
  - unfold offs. simpl. fold (offs t lv).
    assert (i + (s + offs t lv) <? s = false) as -> by (apply Nat.ltb_ge; lia).
    replace (i + (s + offs t lv) - s) with (i + offs t lv) by lia.
    rewrite IH by lia. f_equal. f_equal. lia.
Qed.

Lemma offs_S z lv : lv < length z -> offs z (S lv) = offs z lv + nth lv z 1.
Proof.
  revert lv. induction z as [|s t IH]; intros lv H; simpl in H; [lia|].
  destruct lv as [|lv]; [unfold offs; simpl; lia|].
  change (offs (s :: t) (S (S lv))) with (s + offs t (S lv)).
  change (offs (s :: t) (S lv)) with (s + offs t lv).
  change (nth (S lv) (s :: t) 1) with (nth lv t 1).
  rewrite IH by lia. lia.
Qed.

Lemma Forall2_len {A B : Type} {R : A -> B -> Prop} {l1 l2} : Forall2 R l1 l2 -> length l1 = length l2.
Proof. intros F. induction F; simpl; auto. Qed.
