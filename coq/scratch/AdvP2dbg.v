From BT Require Import Base.ListX Adv.AdvModel Adv.AdvSpec.
From Coq Require Import Lia ZifyBool.
Local Open Scope N_scope.

Ltac psimpl := cbn [ch_idx ch_map perturb ival_us ss_started ss_enabled ss_count d_addr d_valid d_started
  selected proposal data_changed buf_type set_idx set_ss set_perturb set_dstarted set_buf set_selected
  set_proposal set_changed set_daddr set_map set_ival fst snd negb andb orb].
Tactic Notation "psimpl" "in" hyp(H) := cbn [ch_idx ch_map perturb ival_us ss_started ss_enabled ss_count d_addr d_valid d_started
  selected proposal data_changed buf_type set_idx set_ss set_perturb set_dstarted set_buf set_selected
  set_proposal set_changed set_daddr set_map set_ival fst snd negb andb orb] in H.

(* frame: what C24 looks at *)
Definition same24 (s s' : state) : Prop :=
  ch_idx s' = ch_idx s /\ ch_map s' = ch_map s /\ ival_us s' = ival_us s /\ perturb s' = perturb s /\
  ss_started s' = ss_started s /\ ss_enabled s' = ss_enabled s /\ ss_count s' = ss_count s.

Lemma same24_refl s : same24 s s. Proof. repeat split. Qed.
Lemma same24_trans a b c : same24 a b -> same24 b c -> same24 a c.
Proof. unfold same24. intuition congruence. Qed.

Lemma fill_same c s : same24 s (snd (fill_advertising_data c s)).
Proof.
  unfold fill_advertising_data, same24. destruct (sel_type c s) as [[| | |]|]; try destruct (d_valid s); psimpl; repeat split.
Qed.

(* the effect of begin/continued on enabled_/count_ *)
Definition ss_eff (c : cfg) (s s' : state) (called : bool) : Prop :=
  if c_manual c && called
  then (ss_enabled s', ss_count s') = count_down (ss_enabled s) (ss_count s)
  else ss_enabled s' = ss_enabled s /\ ss_count s' = ss_count s.

Lemma begin_effect c s b s' :
  begin_of_advertising_events c s = (b, s') ->
  ss_eff c s s' true /\ (b = true -> c_manual c = true -> ss_enabled s = true) /\
  ch_idx s' = ch_idx s /\ ch_map s' = ch_map s /\ ival_us s' = ival_us s /\ perturb s' = perturb s /\ buf_type s' = buf_type s.
Proof.
  unfold begin_of_advertising_events, ss_eff. destruct (c_manual c); psimpl.
  - destruct (count_down (ss_enabled s) (ss_count s)) as [en cnt]. intros H; inversion H; subst. psimpl. repeat split; auto.
  - intros H; inversion H; subst. repeat split; auto; discriminate.
Qed.

Lemma continued_effect c s b s' :
  continued_advertising_events c s = (b, s') ->
  ss_eff c s s' true /\ (b = true -> c_manual c = true -> ss_enabled s = true) /\
  ch_idx s' = ch_idx s /\ ch_map s' = ch_map s /\ ival_us s' = ival_us s /\ perturb s' = perturb s /\ buf_type s' = buf_type s.
Proof.
  unfold continued_advertising_events, ss_eff. destruct (c_manual c); psimpl.
  - destruct (count_down (ss_enabled s) (ss_count s)) as [en cnt]. intros H; inversion H; subst. psimpl. repeat split; auto.
    intros HH _. destruct (ss_enabled s); auto.
  - intros H; inversion H; subst. repeat split; auto; discriminate.
Qed.

Lemma ss_eff_frame c s1 s2 s' b :
  ss_enabled s2 = ss_enabled s1 -> ss_count s2 = ss_count s1 -> ss_eff c s2 s' b -> ss_eff c s1 s' b.
Proof. unfold ss_eff. intros -> ->. auto. Qed.

Lemma start_effect c s s' x :
  handle_start_advertising c s = Some (s', x) ->
  ch_map s' = ch_map s /\ ival_us s' = ival_us s /\
  match x with
  | NoSched => ch_idx s' = ch_idx s /\ exists called, ss_eff c s s' called
  | Sched ch d t =>
      ss_eff c s s' true /\ (c_manual c = true -> ss_enabled s = true) /\
      (c_varmap c = true -> ch_map s <> 0) /\
      ch = current_channel c s' /\
      ch_idx s' = (if c_varmap c then first_channel_index (ch_map s) else 37)
  end.
Proof.
  unfold handle_start_advertising.
  set (s1 := if is_multi c then set_selected s (proposal s) else s).
  assert (E1 : same24 s s1) by (unfold s1, same24; destruct (is_multi c); psimpl; repeat split).
  pose proof (fill_same c s1) as E2. destruct (fill_advertising_data c s1) as [ne s2]. cbn [snd] in E2.
  pose proof (same24_trans _ _ _ E1 E2) as E. destruct E as (Ei & Em & Ev & Ep & Est & Een & Ecn).
  destruct ne; cbn [negb].
  2:{ intros H. inversion H; subst. repeat split; auto. exists false. unfold ss_eff. rewrite andb_false_r. auto. }
  destruct (begin_of_advertising_events c s2) as [go s3] eqn:B.
  apply begin_effect in B. destruct B as (Beff & Bgo & Bi & Bm & Bv & Bp & Bb).
  apply ss_eff_frame with (s1 := s) in Beff; auto.
  destruct go; cbn [negb].
  2:{ intros H. inversion H; subst. repeat split; try congruence. exists true. auto. }
  unfold first_channel. destruct (c_varmap c) eqn:VM.
  - destruct (ch_map s3 =? 0) eqn:Z; [discriminate|].
    intros H. inversion H; subst. psimpl. unfold current_channel. rewrite VM. psimpl.
    repeat split; try congruence.
    + unfold ss_eff in *. psimpl. auto.
    + intros HM. rewrite <- Een. auto.
    + intros _ HZ. rewrite Bm, Em, HZ in Z. discriminate.
  - intros H. inversion H; subst. psimpl. unfold current_channel. rewrite VM. psimpl.
    repeat split; try congruence.
    + unfold ss_eff in *. psimpl. auto.
    + intros HM. rewrite <- Een. auto.
Qed.

Local Opaque first_channel_index var_next.

Lemma timeout_effect c s s' x :
  handle_adv_timeout c s = Some (s', x) ->
  ch_map s' = ch_map s /\ ival_us s' = ival_us s /\
  match x with
  | NoSched => ch_idx s' = ch_idx s /\ exists called, ss_eff c s s' called
  | Sched ch d t =>
      ss_eff c s s' true /\ (c_manual c = true -> ss_enabled s = true) /\
      (c_varmap c = true -> ch_map s <> 0) /\
      ch = current_channel c s' /\
      ch_idx s' = (if c_varmap c then var_next (ch_map s) (ch_idx s)
                   else if ch_idx s =? 39 then 37 else ch_idx s + 1) /\
      ((first_channel_selected c s' = false /\ d = 0) \/
       (first_channel_selected c s' = true /\ current_interval c s <= d <= current_interval c s + 10000))
  end.
Proof.
  unfold handle_adv_timeout.
  set (fs := if is_multi c then _ else _).
  assert (E1 : same24 s (snd fs)).
  { unfold fs, same24. destruct (is_multi c); [destruct (negb (Nat.eqb (selected s) (proposal s)))|]; psimpl; repeat split. }
  destruct fs as [fill s1]. cbn [snd] in E1.
  set (ns := if fill then _ else _).
  assert (E2 : same24 s1 (snd ns)).
  { unfold ns. destruct fill; [apply fill_same | apply same24_refl]. }
  destruct ns as [ne s2]. cbn [snd] in E2.
  pose proof (same24_trans _ _ _ E1 E2) as E. destruct E as (Ei & Em & Ev & Ep & Est & Een & Ecn).
  destruct ne; cbn [negb].
  2:{ intros H. inversion H; subst. repeat split; auto. exists false. unfold ss_eff. rewrite andb_false_r. auto. }
  destruct (continued_advertising_events c s2) as [go s3] eqn:B.
  apply continued_effect in B. destruct B as (Beff & Bgo & Bi & Bm & Bv & Bp & Bb).
  apply ss_eff_frame with (s1 := s) in Beff; auto.
  destruct go; cbn [negb].
  2:{ intros H. inversion H; subst. repeat split; try congruence. exists true. auto. }
  assert (Hp : forall q, (q + 7) mod 11 * 1000 <= 10000).
  { intros q. pose proof (N.mod_upper_bound (q + 7) 11). lia. }
  unfold next_channel. destruct (c_varmap c) eqn:VM.
  - destruct (ch_map s3 =? 0) eqn:Z; [discriminate|].
    unfold next_adv_event, first_channel_selected, current_interval, current_channel. rewrite VM. psimpl.
    destruct (var_next (ch_map s3) (ch_idx s3) =? first_channel_index (ch_map s3)) eqn:F; psimpl;
    intros H; inversion H; subst; psimpl; rewrite ?VM, ?F; psimpl;
    (repeat split; try congruence;
      [ unfold ss_eff in *; psimpl; auto
      | intros HM; rewrite <- Een; auto
      | intros _ HZ; rewrite Bm, Em, HZ in Z; discriminate
      | ]).
    + right. split; auto. unfold max_adv_perturbation, perturbation_stride.
      specialize (Hp (perturb s3)). change (10 + 1) with 11. set (q := (perturb s3 + 7) mod 11) in *. clearbody q. destruct (c_varival c); rewrite ?Bv, ?Ev; lia.
    + left. auto.
  - unfold next_adv_event, first_channel_selected, current_interval, current_channel. rewrite VM. psimpl.
    set (i' := if ch_idx s3 =? last_advertising_channel then first_advertising_channel else ch_idx s3 + 1).
    destruct (i' =? first_advertising_channel) eqn:F; psimpl;
    intros H; inversion H; subst; psimpl; rewrite ?VM, ?F; psimpl;
    (repeat split; try congruence;
      [ unfold ss_eff in *; psimpl; auto
      | intros HM; rewrite <- Een; auto
      | unfold i', last_advertising_channel, first_advertising_channel; rewrite Bi, Ei; reflexivity
      | ]).
    + right. split; auto. unfold max_adv_perturbation, perturbation_stride.
      specialize (Hp (perturb s3)). change (10 + 1) with 11. set (q := (perturb s3 + 7) mod 11) in *. clearbody q. destruct (c_varival c); rewrite ?Bv, ?Ev; lia.
    + left. auto.
Qed.

(* ------------------------------------------------------------------ channel facts *)
Lemma map_cases m : 0 < m < 8 -> m = 1 \/ m = 2 \/ m = 3 \/ m = 4 \/ m = 5 \/ m = 6 \/ m = 7.
Proof. lia. Qed.

Lemma enabled_range map ch : chan_enabled map ch = true -> ch = 37 \/ ch = 38 \/ ch = 39.
Proof. unfold chan_enabled. intros H. apply andb_prop in H as [H _]. apply andb_prop in H as [H1 H2]. lia. Qed.

Local Transparent first_channel_index var_next.
Lemma var_step map idx :
  0 < map < 8 -> chan_enabled map (idx + 37) = true ->
  chan_enabled map (var_next map idx + 37) = true /\
  match next_enabled_after map (idx + 37) with
  | Some e => var_next map idx + 37 = e /\ (var_next map idx =? first_channel_index map) = false /\ idx + 37 < e
  | None => var_next map idx = first_channel_index map
  end.
Proof.
  intros Hm He.
  assert (Hi : idx = 0 \/ idx = 1 \/ idx = 2) by (apply enabled_range in He; lia).
  destruct (map_cases map Hm) as [->|[->|[->|[->|[->|[->| ->]]]]]];
  destruct Hi as [->|[->| ->]]; vm_compute in He; try discriminate He; vm_compute; repeat split; auto; discriminate.
Qed.

Lemma var_first map :
  0 < map < 8 ->
  chan_enabled map (first_channel_index map + 37) = true /\ first_channel_index map + 37 = lowest_channel map.
Proof.
  intros Hm.
  destruct (map_cases map Hm) as [->|[->|[->|[->|[->|[->| ->]]]]]]; vm_compute; auto.
Qed.
Local Opaque first_channel_index var_next.

Lemma all_step idx :
  chan_enabled 7 idx = true ->
  let i' := if idx =? 39 then 37 else idx + 1 in
  chan_enabled 7 i' = true /\
  match next_enabled_after 7 idx with
  | Some e => i' = e /\ (i' =? 37) = false /\ idx < e
  | None => i' = 37
  end.
Proof.
  intros He. destruct (enabled_range _ _ He) as [->|[->| ->]]; vm_compute; repeat split; auto; discriminate.
Qed.

Lemma map_add_lt m ch : m < 8 -> in_adv_channels ch = true -> N.lor m (N.shiftl 1 (ch - 37)) < 8.
Proof.
  intros Hm Hc. unfold in_adv_channels, first_advertising_channel, last_advertising_channel in Hc.
  assert (ch = 37 \/ ch = 38 \/ ch = 39) as [->|[->| ->]] by lia;
  assert (m = 0 \/ m = 1 \/ m = 2 \/ m = 3 \/ m = 4 \/ m = 5 \/ m = 6 \/ m = 7) as [->|[->|[->|[->|[->|[->|[->| ->]]]]]]] by lia;
  vm_compute; reflexivity.
Qed.

Lemma map_rm_lt m ch : m < 8 -> in_adv_channels ch = true -> N.ldiff m (N.shiftl 1 (ch - 37)) < 8.
Proof.
  intros Hm Hc. unfold in_adv_channels, first_advertising_channel, last_advertising_channel in Hc.
  assert (ch = 37 \/ ch = 38 \/ ch = 39) as [->|[->| ->]] by lia;
  assert (m = 0 \/ m = 1 \/ m = 2 \/ m = 3 \/ m = 4 \/ m = 5 \/ m = 6 \/ m = 7) as [->|[->|[->|[->|[->|[->|[->| ->]]]]]]] by lia;
  vm_compute; reflexivity.
Qed.

(* ------------------------------------------------------------------ the C24 invariant *)
Definition budget_ok (s : state) (b : option N) : Prop :=
  match b with None => True | Some k => ss_enabled s = true -> 0 < ss_count s <= k end.

Definition core24 (c : cfg) (s : state) (m : mon24) : Prop :=
  m_map m = (if c_varmap c then ch_map s else 7) /\ m_map m < 8
  /\ m_ival m = current_interval c s
  /\ (if c_manual c then (ss_enabled s = true -> m_on m = true) /\ budget_ok s (m_budget m)
      else m_on m = true /\ m_budget m = None)
  /\ (0 < m_pending m -> m_last m = current_channel c s /\ chan_enabled (m_map m) (m_last m) = true).

Definition inv24 (c : cfg) (s : state) (m : mon24) : Prop := m_void m = true \/ core24 c s m.

Lemma count_down_spec en cnt en' cnt' :
  count_down en cnt = (en', cnt') ->
  (en' = true -> en = true) /\ cnt' <= cnt /\
  (en = true -> 0 < cnt -> (cnt' = cnt - 1 /\ (en' = true -> 0 < cnt'))).
Proof.
  unfold count_down. destruct (cnt =? 0) eqn:Z.
  - intros H; inversion H; subst. repeat split; auto; lia.
  - destruct (cnt - 1 =? 0) eqn:Z1; intros H; inversion H; subst; repeat split; auto; try lia; discriminate.
Qed.

(* begin / continue that sends nothing *)
Lemma budget_nosend c s s' called b :
  c_manual c = true -> ss_eff c s s' called -> budget_ok s b ->
  (ss_enabled s' = true -> ss_enabled s = true) /\ budget_ok s' b.
Proof.
  intros Man E B. unfold ss_eff in E. rewrite Man in E. destruct called; cbn [andb] in E.
  - symmetry in E. apply count_down_spec in E. destruct E as (E1 & E2 & E3). split; auto.
    destruct b as [k|]; unfold budget_ok in *; auto. intros En'. specialize (E1 En'). specialize (B E1). specialize (E3 E1 ltac:(lia)). Show.
    destruct E3 as [-> E3]. specialize (E3 En'). lia.
  - destruct E as [-> ->]. auto.
Qed.

(* begin / continue that sends a PDU *)
Lemma budget_send c s s' b :
  c_manual c = true -> ss_eff c s s' true -> ss_enabled s = true -> budget_ok s b ->
  (match b with Some 0 => true | _ => false end) = false /\
  budget_ok s' (match b with Some k => Some (k - 1) | None => None end).
Proof.
  intros Man E En B. unfold ss_eff in E. rewrite Man in E. cbn [andb] in E.
  symmetry in E. apply count_down_spec in E. destruct E as (E1 & E2 & E3).
  destruct b as [k|]; unfold budget_ok in *; auto. specialize (B En). specialize (E3 En ltac:(lia)). destruct E3 as [-> E3].
  split.
  - destruct k; auto. lia.
  - intros En'. specialize (E3 En'). lia.
Qed.

Lemma restart_core c s m s' x :
  core24 c s m -> m_map m <> 0 -> handle_start_advertising c s = Some (s', x) ->
  fst (on_sched m true x) = Ok /\ core24 c s' (snd (on_sched m true x)).
Proof.
  intros (Cm & Clt & Ci & Css & Cp) Hnz H. apply start_effect in H. destruct H as (Hm & Hv & H).
  assert (Hint : current_interval c s' = current_interval c s) by (unfold current_interval; rewrite Hv; auto).
  destruct x as [|ch d t]; cbn [on_sched fst snd].
  - destruct H as (Hi & called & Heff). split; auto.
    unfold core24. rewrite Hm, Hint. repeat split; auto.
    + destruct (c_manual c) eqn:Man; auto. destruct Css as [Css1 Css2].
      destruct (budget_nosend _ _ _ _ _ Man Heff Css2) as [B1 B2]. split; auto.
    + apply Cp; auto.
    + unfold current_channel. rewrite Hi. apply Cp; auto.
    + apply Cp; auto.
  - destruct H as (Heff & Hen & Hmz & Hch & Hidx).
    assert (Hchan : chan_enabled (m_map m) ch = true /\ ch = lowest_channel (m_map m)).
    { rewrite Hch. unfold current_channel. rewrite Hidx. rewrite Cm in *. destruct (c_varmap c).
      - destruct (var_first (ch_map s)) as [V1 V2]; [lia|]. split; auto.
      - vm_compute. auto. }
    destruct Hchan as [Hc1 Hc2].
    assert (Hon : m_on m = true /\ (match m_budget m with Some 0 => true | _ => false end) = false /\
                  (if c_manual c then (ss_enabled s' = true -> m_on m = true) /\
                       budget_ok s' (match m_budget m with Some k => Some (k - 1) | None => None end)
                   else m_on m = true /\ match m_budget m with Some k => Some (k - 1) | None => None end = None)).
    { destruct (c_manual c) eqn:Man.
      - destruct Css as [Css1 Css2]. specialize (Hen eq_refl).
        destruct (budget_send _ _ _ _ Man Heff Hen Css2) as [B1 B2]. repeat split; auto.
      - destruct Css as [Css1 Css2]. rewrite Css2. repeat split; auto. }
    destruct Hon as (Hon & Hb & Hss).
    split.
    + unfold judge_pdu. rewrite Hc1, Hon, Hb. cbn [negb]. rewrite Hc2, N.eqb_refl. reflexivity.
    + unfold core24, after_pdu. cbn [m_map m_ival m_last m_pending m_on m_budget m_void].
      rewrite Hm, Hint. repeat split; auto.
Qed.
