From BT Require Import Base.ListX Base.Bits2 NQueue.NQueueModel NQueue.NQueueSpec NQueue.NQueueProofs NQueue.NQueueSched.
From Coq Require Import Lia ZifyBool.
Local Open Scope nat_scope.

(* ------------------------------------------------------------------ a byte = four 2-bit fields *)
Definition pk (a b c d : N) : N := (a + 4 * b + 16 * c + 64 * d)%N.

Definition unpack_ok : bool :=
  forallb (fun v => (v =? pk (bget v 0) (bget v 1) (bget v 2) (bget v 3))%N) (Nrange 256).
Lemma unpack_ok_true : unpack_ok = true.
Proof. vm_compute. reflexivity. Qed.
Lemma unpack v : (v < 256)%N -> v = pk (bget v 0) (bget v 1) (bget v 2) (bget v 3).
Proof.
  intros H. pose proof unpack_ok_true as S. unfold unpack_ok in S.
  rewrite forallb_forall in S. specialize (S v (In_Nrange 256 v H)). apply N.eqb_eq in S. exact S.
Qed.

Definition pack_ok : bool :=
  forallb (fun a => forallb (fun b => forallb (fun c => forallb (fun d =>
    (pk a b c d <? 256)%N && (bget (pk a b c d) 0 =? a)%N && (bget (pk a b c d) 1 =? b)%N &&
    (bget (pk a b c d) 2 =? c)%N && (bget (pk a b c d) 3 =? d)%N)
    (Nrange 4)) (Nrange 4)) (Nrange 4)) (Nrange 4).
Lemma pack_ok_true : pack_ok = true.
Proof. vm_compute. reflexivity. Qed.
Lemma bget_pk a b c d : (a < 4)%N -> (b < 4)%N -> (c < 4)%N -> (d < 4)%N ->
  (pk a b c d < 256)%N /\ bget (pk a b c d) 0 = a /\ bget (pk a b c d) 1 = b /\
  bget (pk a b c d) 2 = c /\ bget (pk a b c d) 3 = d.
Proof.
  intros Ha Hb Hc Hd. pose proof pack_ok_true as S. unfold pack_ok in S.
  rewrite forallb_forall in S. specialize (S a (In_Nrange 4 a Ha)).
  rewrite forallb_forall in S. specialize (S b (In_Nrange 4 b Hb)).
  rewrite forallb_forall in S. specialize (S c (In_Nrange 4 c Hc)).
  rewrite forallb_forall in S. specialize (S d (In_Nrange 4 d Hd)).
  repeat rewrite andb_true_iff in S. destruct S as [[[[S0 S1] S2] S3] S4].
  apply N.ltb_lt in S0. apply N.eqb_eq in S1, S2, S3, S4. auto.
Qed.

Lemma byte_ext v w : (v < 256)%N -> (w < 256)%N ->
  (forall t, t < 4 -> bget v t = bget w t) -> v = w.
Proof.
  intros Hv Hw H. rewrite (unpack v Hv), (unpack w Hw).
  rewrite (H 0), (H 1), (H 2), (H 3) by lia. reflexivity.
Qed.

(* ------------------------------------------------------------------ the abstract bytes of a level *)
Definition pwf (p : list N) : Prop := forall j, (nth j p 0 < 4)%N.

Lemma pack4_pk p b :
  pack4 p b = pk (nth (4 * b) p 0%N) (nth (4 * b + 1) p 0%N) (nth (4 * b + 2) p 0%N) (nth (4 * b + 3) p 0%N).
Proof. reflexivity. Qed.

Lemma pack4_lt p b : pwf p -> (pack4 p b < 256)%N.
Proof. intros W. rewrite pack4_pk. apply bget_pk; apply W. Qed.

Lemma bget_pack4 p b t : pwf p -> t < 4 -> bget (pack4 p b) t = nth (4 * b + t) p 0%N.
Proof.
  intros W Ht. rewrite pack4_pk.
  destruct (bget_pk _ _ _ _ (W (4 * b)) (W (4 * b + 1)) (W (4 * b + 2)) (W (4 * b + 3))) as (_ & A0 & A1 & A2 & A3).
  destruct t as [|[|[|[|t]]]]; try lia; auto.
  rewrite Nat.add_0_r. exact A0.
Qed.

Lemma idx_split i : i = 4 * boff i + slot i.
Proof. unfold boff, slot. apply Nat.div_mod. lia. Qed.

Lemma pwf_upd p i x : pwf p -> (x < 4)%N -> pwf (upd p i x).
Proof.
  intros W Hx j. destruct (Nat.eq_dec i j) as [->|Hne].
  - destruct (Nat.lt_ge_cases j (length p)).
    + rewrite nth_upd_eq by auto. auto.
    + rewrite upd_out by auto. apply W.
  - rewrite nth_upd_neq by auto. apply W.
Qed.

Lemma pack4_upd_other p i x b : b <> boff i -> pack4 (upd p i x) b = pack4 p b.
Proof.
  intros Hb. unfold pack4. pose proof (idx_split i). pose proof (slot_lt i).
  rewrite !nth_upd_neq by lia. reflexivity.
Qed.

Lemma nth_upd_slot p i x t : i < length p -> t < 4 ->
  nth (4 * boff i + t) (upd p i x) 0%N = if t =? slot i then x else nth (4 * boff i + t) p 0%N.
Proof.
  intros Hi Ht. pose proof (idx_split i). destruct (t =? slot i) eqn:E.
  - apply Nat.eqb_eq in E. subst t. rewrite <- H. apply nth_upd_eq. auto.
  - apply Nat.eqb_neq in E. apply nth_upd_neq. lia.
Qed.

Lemma pack4_upd_or p i k : pwf p -> i < length p ->
  pack4 (upd p i (N.lor (nth i p 0%N) (kbit k))) (boff i) = byte_or (pack4 p (boff i)) (slot i) (kbit k).
Proof.
  intros W Hi. pose proof (kbit_lt k) as Hk. pose proof (slot_lt i) as Hs.
  pose proof (pack4_lt p (boff i) W) as HB.
  assert (W' : pwf (upd p i (N.lor (nth i p 0%N) (kbit k)))) by (apply pwf_upd; auto; apply lor_lt4; apply W).
  destruct (sweep _ _ _ HB Hs Hk) as (S1 & _ & _ & S4 & _ & _ & _ & S8).
  apply byte_ext; auto using pack4_lt.
  intros t Ht. rewrite bget_pack4 by auto. rewrite nth_upd_slot by auto.
  destruct (t =? slot i) eqn:E.
  - apply Nat.eqb_eq in E. subst t. rewrite S1. rewrite bget_pack4 by auto. rewrite <- idx_split. reflexivity.
  - apply Nat.eqb_neq in E. destruct (S8 t Ht ltac:(lia)) as (A & _ & _). rewrite A.
    rewrite bget_pack4 by auto. reflexivity.
Qed.

Lemma pack4_upd_clr p i k : pwf p -> i < length p ->
  pack4 (upd p i (N.ldiff (nth i p 0%N) (kbit k))) (boff i) = byte_clr (pack4 p (boff i)) (slot i) (kbit k).
Proof.
  intros W Hi. pose proof (kbit_lt k) as Hk. pose proof (slot_lt i) as Hs.
  pose proof (pack4_lt p (boff i) W) as HB.
  assert (W' : pwf (upd p i (N.ldiff (nth i p 0%N) (kbit k)))) by (apply pwf_upd; auto; apply ldiff_lt4; apply W).
  destruct (sweep _ _ _ HB Hs Hk) as (_ & S2 & _ & _ & S5 & _ & _ & S8).
  apply byte_ext; auto using pack4_lt.
  intros t Ht. rewrite bget_pack4 by auto. rewrite nth_upd_slot by auto.
  destruct (t =? slot i) eqn:E.
  - apply Nat.eqb_eq in E. subst t. rewrite S2. rewrite bget_pack4 by auto. rewrite <- idx_split. reflexivity.
  - apply Nat.eqb_neq in E. destruct (S8 t Ht ltac:(lia)) as (_ & B & _). rewrite B.
    rewrite bget_pack4 by auto. reflexivity.
Qed.

Lemma abs_bytes_length p : length (abs_bytes p) = nbytes (length p).
Proof. unfold abs_bytes. rewrite map_length, seq_length. reflexivity. Qed.

Lemma nth_abs_bytes p b : b < nbytes (length p) -> nth b (abs_bytes p) 0%N = pack4 p b.
Proof. intros H. unfold abs_bytes. apply nth_map_seq. auto. Qed.

Lemma abs_bytes_upd p i x : i < length p ->
  abs_bytes (upd p i x) = upd (abs_bytes p) (boff i) (pack4 (upd p i x) (boff i)).
Proof.
  intros Hi. apply nth_ext_len with (d := 0%N).
  - rewrite upd_length, !abs_bytes_length, upd_length. reflexivity.
  - intros b Hb. rewrite abs_bytes_length, upd_length in Hb.
    rewrite nth_abs_bytes by (rewrite upd_length; auto).
    destruct (Nat.eq_dec b (boff i)) as [->|Hne].
    + rewrite nth_upd_eq by (rewrite abs_bytes_length; auto). reflexivity.
    + rewrite nth_upd_neq by auto. rewrite nth_abs_bytes by auto. apply pack4_upd_other. auto.
Qed.

Lemma pack4_single p : length p = 1 -> pack4 p 0 = nth 0 p 0%N.
Proof.
  intros H. destruct p as [|x [|y p]]; simpl in H; try lia.
  unfold pack4. cbn [Nat.mul Nat.add nth]. lia.
Qed.
