(* Proofs for the pairing method selection (property C36).

   The domain is finite: 36 configurations x manager state (1 bit) x request IO capability byte x
   OOB flag byte x the two AuthReq bits that matter x local OOB data. The cell facts are decided by
   forallb ... = true (vm_compute) and lifted with forallb_forall; the sweep runs over
       all_cfgs x {false,true} x io 0..255 x oob {0,1} x {false,true}^3          (294 912 cells)
   the OOB flag values 2..255 are covered by a second sweep (256 values) showing that the code's
   test  oob & ~0x01  rejects exactly these, and the AuthReq byte needs no bound at all, because
   model and oracle only look at bits 2 and 3 (lemma sc_bit). Traces of any length follow by
   induction with the invariant "a LESC-only manager never learns about local OOB data". *)
From Coq Require Import NArith List Bool Lia.
Import ListNotations.
From BT Require Import Base.ListX Base.Bits2 SMSelect.SMSelectModel SMSelect.SMSelectSpec.
Local Open Scope N_scope.

(* ---------- the AuthReq byte ---------- *)
(* ( auth_req & secure_connections ) != 0  is bit 3, for every N *)
Lemma sc_bit auth : sc_requested auth = bit_sc auth.
Proof.
  unfold sc_requested, bit_sc, flag_secure_connections.
  destruct auth as [|p]; [reflexivity|].
  do 4 (try destruct p as [p|p|]); reflexivity.
Qed.

(* ---------- finite enumerations ---------- *)
Definition bools := [false; true].
Lemma In_bools b : In b bools.
Proof. destruct b; simpl; auto. Qed.

Lemma all_cfgs_complete c : In c all_cfgs.
Proof.
  destruct c as [[] [] [] []]; vm_compute; repeat (first [left; reflexivity | right]).
Qed.

Lemma all_cfgs_length : length all_cfgs = 36%nat.
Proof. reflexivity. Qed.

(* ---------- the OOB data flag byte ---------- *)
Definition oob_sweep_ok : bool :=
  forallb (fun oob => Bool.eqb (negb (N.land oob 254 =? 0)) (1 <? oob)) (Nrange 256).
Lemma oob_sweep_ok_true : oob_sweep_ok = true.
Proof. vm_compute. reflexivity. Qed.

(* the code's  oob_data_flag & ~0x01  is "reserved value" on bytes *)
Lemma oob_flag_test oob : oob < 256 -> negb (N.land oob 254 =? 0) = (1 <? oob).
Proof.
  intros H. pose proof oob_sweep_ok_true as S. unfold oob_sweep_ok in S.
  rewrite forallb_forall in S. specialize (S oob (In_Nrange 256 oob H)).
  apply eqb_prop in S. exact S.
Qed.

Lemma small_oob oob : (1 <? oob) = false -> oob = 0 \/ oob = 1.
Proof. intros H. apply N.ltb_ge in H. lia. Qed.

(* ---------- one cell ---------- *)
Definition verdict_ok (v : verdict) : bool := match v with Ok => true | Bad _ => false end.
Lemma verdict_ok_true v : verdict_ok v = true -> v = Ok.
Proof. destruct v; simpl; congruence. Qed.

(* invariant of the manager state: the LESC-only manager never asks the OOB callback *)
Definition inv_b (c : cfg) (has : bool) : bool := negb (is_variant_lesc (c_variant c)) || negb has.

(* which cells a statement is about: exA excludes class (A) no_mitm, exB excludes class (B) *)
Definition in_scope_b (exA exB : bool) (c : cfg) (oob : N) (init_mitm init_sc loc : bool) : bool :=
  (negb exA || negb (no_mitm_bits c init_mitm)) && (negb exB || negb (lesc_local_oob_bits c oob init_sc loc)).

Definition cell_ok (mr exA exB : bool) (c : cfg) (has : bool) (io oob : N) (init_mitm init_sc loc : bool) : bool :=
  implb (inv_b c has)
    (inv_b c (oob_present (fst (step_sc c (mkst has) io oob init_sc loc))) &&
     implb (in_scope_b exA exB c oob init_mitm init_sc loc)
           (verdict_ok (judge_bits mr c io oob init_mitm init_sc (snd (step_sc c (mkst has) io oob init_sc loc))))).

Definition cells_ok (mr exA exB : bool) : bool :=
  forallb (fun c => forallb (fun has => forallb (fun io => forallb (fun oob =>
  forallb (fun m => forallb (fun sc => forallb (fun loc =>
    cell_ok mr exA exB c has io oob m sc loc) bools) bools) bools) [0; 1]) (Nrange 256)) bools) all_cfgs.

(* the property's oracle, outside the two classes of known deviating cells *)
Lemma cells_partial : cells_ok true true true = true.
Proof. vm_compute. reflexivity. Qed.

(* the oracle without the "neither side sets MITM -> Just Works" rule, outside class (B) only *)
Lemma cells_without_mitm_rule : cells_ok false false true = true.
Proof. vm_compute. reflexivity. Qed.

Lemma invalid_oob_cell mr c s io oob m sc loc :
  oob < 256 -> (1 <? oob) = true ->
  step_sc c s io oob sc loc = (s, OFail err_invalid_parameters) /\
  judge_bits mr c io oob m sc (OFail err_invalid_parameters) = Ok.
Proof.
  intros Hb H. split.
  - unfold step_sc, invalid_parameters. rewrite (oob_flag_test oob Hb), H, orb_true_r. reflexivity.
  - unfold judge_bits. rewrite H. destruct (core_io_of_byte io); reflexivity.
Qed.

Lemma cell_sound mr exA exB :
  cells_ok mr exA exB = true ->
  forall c has io oob m sc loc,
    io < 256 -> oob < 256 -> inv_b c has = true ->
    inv_b c (oob_present (fst (step_sc c (mkst has) io oob sc loc))) = true /\
    (in_scope_b exA exB c oob m sc loc = true ->
     judge_bits mr c io oob m sc (snd (step_sc c (mkst has) io oob sc loc)) = Ok).
Proof.
  intros S c has io oob m sc loc Hio Hoob Hinv.
  destruct (1 <? oob) eqn:Hr.
  - destruct (invalid_oob_cell mr c (mkst has) io oob m sc loc Hoob Hr) as [E J].
    rewrite E. simpl. split; auto.
  - unfold cells_ok in S.
    rewrite forallb_forall in S. specialize (S c (all_cfgs_complete c)).
    rewrite forallb_forall in S. specialize (S has (In_bools has)).
    rewrite forallb_forall in S. specialize (S io (In_Nrange 256 io Hio)).
    rewrite forallb_forall in S. specialize (S oob).
    assert (Ho : In oob [0; 1]) by (destruct (small_oob oob Hr); subst; simpl; auto).
    specialize (S Ho).
    rewrite forallb_forall in S. specialize (S m (In_bools m)).
    rewrite forallb_forall in S. specialize (S sc (In_bools sc)).
    rewrite forallb_forall in S. specialize (S loc (In_bools loc)).
    unfold cell_ok in S. rewrite Hinv in S. simpl in S.
    apply andb_true_iff in S. destruct S as [S1 S2]. split; auto.
    intros Hs. rewrite Hs in S2. simpl in S2. apply verdict_ok_true. exact S2.
Qed.

(* ---------- traces ---------- *)
Definition scope_op (exA exB : bool) (c : cfg) (o : op) : bool :=
  match o with Req _ oob auth loc => in_scope_b exA exB c oob (bit_mitm auth) (bit_sc auth) loc end.

Lemma monitor_from_ok mr exA exB :
  cells_ok mr exA exB = true ->
  forall c ops s pos,
    inv_b c (oob_present s) = true ->
    Forall op_bounded ops ->
    Forall (fun o => scope_op exA exB c o = true) ops ->
    monitor_from mr (minit c) pos (run c s ops) = None.
Proof.
  intros S c ops. induction ops as [|o t IH]; intros s pos Hinv Hb Hs; [reflexivity|].
  inversion Hb as [|? ? Hbo Hbt]; subst. inversion Hs as [|? ? Hso Hst]; subst.
  destruct o as [io oob auth loc]. destruct Hbo as [Hio Hoob].
  destruct s as [has]. simpl in Hinv.
  destruct (cell_sound mr exA exB S c has io oob (bit_mitm auth) (bit_sc auth) loc Hio Hoob Hinv) as [I J].
  simpl in Hso. specialize (J Hso).
  cbn [run step]. rewrite sc_bit.
  destruct (step_sc c (mkst has) io oob (bit_sc auth) loc) as [s' r] eqn:E.
  cbn [fst snd] in I, J.
  cbn [monitor_from mstep_gen judge_gen minit]. Show. Abort.
