From BT Require Import Base.ListX Adv.AdvModel Adv.AdvSpec.
From Coq Require Import Lia ZifyBool.
Local Open Scope N_scope.

(* ------------------------------------------------------------------ bytes *)
Lemma byte_at_lt p i : bytes_ok p -> byte_at p i < 256.
Proof.
  unfold bytes_ok, byte_at. intros H. revert i. induction H as [|b t Hb Ht IH]; intros [|i]; cbn [nth]; try lia. apply IH.
Qed.

Lemma bytes_eqb_eq a b : bytes_eqb a b = true <-> a = b.
Proof.
  revert b. induction a as [|x a IH]; intros [|y b]; cbn [bytes_eqb]; split; intros H; try discriminate; auto.
  - apply andb_prop in H as [H1 H2]. apply N.eqb_eq in H1. apply IH in H2. congruence.
  - inversion H; subst. rewrite N.eqb_refl. cbn. apply IH. reflexivity.
Qed.

(* ------------------------------------------------------------------ the 16 bit header *)
Lemma land_low b0 b1 m : b0 < 256 -> N.land 255 m = m -> N.land (b0 + 256 * b1) m = N.land b0 m.
Proof.
  intros Hb Hm. rewrite <- Hm. rewrite N.land_assoc.
  change 255 with (N.ones 8). rewrite N.land_ones. change (2 ^ 8) with 256.
  assert (E : (b0 + 256 * b1) mod 256 = b0).
  { replace (b0 + 256 * b1) with (b0 + b1 * 256) by lia.
    rewrite N.mod_add by lia. apply N.mod_small. lia. }
  rewrite E. rewrite N.land_assoc, N.land_ones. change (2 ^ 8) with 256.
  rewrite (N.mod_small b0 256) by lia. reflexivity.
Qed.

Lemma shiftr8 b0 b1 : b0 < 256 -> N.shiftr (b0 + 256 * b1) 8 = b1.
Proof.
  intros Hb. rewrite N.shiftr_div_pow2. change (2 ^ 8) with 256.
  replace (b0 + 256 * b1) with (b1 * 256 + b0) by lia.
  rewrite N.div_add_l by lia. rewrite N.div_small by lia. lia.
Qed.

Lemma hdr_type p : bytes_ok p -> N.land (hdr p) 15 = pdu_type p.
Proof. intros H. unfold hdr, pdu_type. apply land_low; [apply byte_at_lt; auto|reflexivity]. Qed.
Lemma hdr_rx p : bytes_ok p -> negb (N.land (hdr p) header_rxaddr_field =? 0) = rx_add p.
Proof. intros H. unfold hdr, rx_add, header_rxaddr_field. rewrite land_low; [reflexivity|apply byte_at_lt; auto|reflexivity]. Qed.
Lemma hdr_tx p : bytes_ok p -> negb (N.land (hdr p) header_txaddr_field =? 0) = tx_add p.
Proof. intros H. unfold hdr, tx_add, header_txaddr_field. rewrite land_low; [reflexivity|apply byte_at_lt; auto|reflexivity]. Qed.
Lemma hdr_len p : bytes_ok p -> N.land (N.shiftr (hdr p) 8) 63 = len_field p.
Proof. intros H. unfold hdr, len_field. rewrite shiftr8; [reflexivity|apply byte_at_lt; auto]. Qed.

(* ------------------------------------------------------------------ the static predicates *)
Lemma eqb_sym_bool a b : Bool.eqb a b = Bool.eqb b a.
Proof. destruct a, b; reflexivity. Qed.

Lemma valid_connect_base_spec off own p :
  bytes_ok p -> valid_connect_base off own p = request_for_b 5 34 off own p.
Proof.
  intros H. unfold valid_connect_base, request_for_b, adv_a, connect_request_size, connect_request_code, address_length.
  rewrite (hdr_type p H), (hdr_rx p H), (hdr_len p H), (eqb_sym_bool (arandom own)).
  destruct (Nat.eqb (length p) (off + 34)); cbn [negb]; [|rewrite andb_false_r; reflexivity].
  destruct (pdu_type p =? 5), (len_field p =? N.of_nat 34); cbn [andb]; reflexivity.
Qed.

Lemma valid_scan_spec off own p :
  bytes_ok p -> valid_scan off own p = request_for_b 3 12 off own p.
Proof.
  intros H. unfold valid_scan, request_for_b, adv_a, scan_request_size, scan_request_code, address_length.
  rewrite (hdr_type p H), (hdr_rx p H), (hdr_len p H), (eqb_sym_bool (arandom own)).
  destruct (Nat.eqb (length p) (off + 12)); cbn [negb]; [|rewrite andb_false_r; reflexivity].
  destruct (pdu_type p =? 3), (len_field p =? N.of_nat 12); cbn [andb]; reflexivity.
Qed.

Lemma eqb_bool_eq a b : Bool.eqb a b = true <-> a = b.
Proof. destruct a, b; cbn; split; intros; auto; discriminate. Qed.

Lemma request_for_b_spec code size off own p :
  request_for_b code size off own p = true <-> request_for code size off own p.
Proof.
  unfold request_for_b, request_for. rewrite !andb_true_iff, N.eqb_eq, Nat.eqb_eq, N.eqb_eq, bytes_eqb_eq, eqb_bool_eq. tauto.
Qed.

Theorem connect_request_iff off own p :
  bytes_ok p -> (valid_connect_base off own p = true <-> connect_ind_for off own p).
Proof. intros H. rewrite valid_connect_base_spec by auto. apply request_for_b_spec. Qed.

Theorem scan_request_iff off own p :
  bytes_ok p -> (valid_scan off own p = true <-> scan_req_for off own p).
Proof. intros H. rewrite valid_scan_spec by auto. apply request_for_b_spec. Qed.

(* ------------------------------------------------------------------ handle_adv_receive *)
Definition target_of (s : state) : option addr := if d_valid s then Some (d_addr s) else None.

Lemma remote_is_initiator off p : bytes_ok p -> remote_of off p = initiator off p.
Proof. intros H. unfold remote_of, initiator, init_a, address_length. rewrite (hdr_tx p H). reflexivity. Qed.

Lemma valid_connect_directed_spec off own s p :
  bytes_ok p ->
  valid_connect_directed off own (d_addr s) (d_valid s) p =
  request_for_b 5 34 off own p && from_target_b off (target_of s) p.
Proof.
  intros H. unfold valid_connect_directed, from_target_b, target_of, init_a, address_length.
  rewrite (valid_connect_base_spec off own p H), (hdr_tx p H), (eqb_sym_bool (arandom (d_addr s))).
  destruct (request_for_b 5 34 off own p); cbn [negb andb]; [|reflexivity].
  destruct (d_valid s); [rewrite andb_true_r; reflexivity|].
  rewrite andb_false_r. reflexivity.
Qed.

Theorem accepts_spec c s p :
  bytes_ok p ->
  accepts c s p = match sel_type c s with
                  | Some t => may_connect_b (c_off c) (c_own c) (c_filter c) (target_of s) t p
                  | None => false
                  end.
Proof.
  intros H. unfold accepts, valid_connect. rewrite (remote_is_initiator (c_off c) p H).
  destruct (sel_type c s) as [[| | |]|]; cbn [may_connect_b andb]; auto.
  - rewrite valid_connect_base_spec by auto. reflexivity.
  - rewrite valid_connect_directed_spec by auto. reflexivity.
Qed.

Lemma from_target_b_spec off target p : from_target_b off target p = true <-> from_target off target p.
Proof.
  unfold from_target_b, from_target. destruct target as [t|].
  - rewrite andb_true_iff, bytes_eqb_eq, eqb_bool_eq. split.
    + intros [A B]. exists t. auto.
    + intros (t' & E & A & B). inversion E; subst. auto.
  - split; [discriminate|]. intros (t' & E & _). discriminate.
Qed.

Lemma may_connect_b_spec off own filter target t p :
  may_connect_b off own filter target t p = true <-> may_connect off own filter target t p.
Proof.
  destruct t; cbn [may_connect_b may_connect]; unfold connect_ind_for.
  - rewrite andb_true_iff, request_for_b_spec. tauto.
  - rewrite !andb_true_iff, request_for_b_spec, from_target_b_spec. tauto.
  - split; [discriminate|tauto].
  - split; [discriminate|tauto].
Qed.

Theorem accepts_iff c s p :
  bytes_ok p ->
  (accepts c s p = true <->
   exists t, sel_type c s = Some t /\ may_connect (c_off c) (c_own c) (c_filter c) (target_of s) t p).
Proof.
  intros H. rewrite accepts_spec by auto. destruct (sel_type c s) as [t|].
  - rewrite may_connect_b_spec. split; [intros M; exists t; auto|intros (t' & E & M); inversion E; subst; auto].
  - split; [discriminate|intros (t' & E & _); discriminate].
Qed.

Ltac psimpl := cbn [ch_idx ch_map perturb ival_us ss_started ss_enabled ss_count d_addr d_valid d_started
  selected proposal data_changed buf_type set_idx set_ss set_perturb set_dstarted set_buf set_selected
  set_proposal set_changed set_daddr set_map set_ival fst snd negb andb orb].

(* ------------------------------------------------------------------ C25: frame *)
Definition same25 (s s' : state) : Prop :=
  d_addr s' = d_addr s /\ d_valid s' = d_valid s /\ d_started s' = d_started s /\
  selected s' = selected s /\ proposal s' = proposal s /\ buf_type s' = buf_type s.

Lemma same25_refl s : same25 s s. Proof. repeat split. Qed.
Lemma same25_trans a b c : same25 a b -> same25 b c -> same25 a c.
Proof. unfold same25. intuition congruence. Qed.

Lemma begin_same25 c s : same25 s (snd (begin_of_advertising_events c s)).
Proof.
  unfold begin_of_advertising_events, same25. destruct (c_manual c); [destruct (count_down _ _)|]; psimpl; repeat split.
Qed.
Lemma continued_same25 c s : same25 s (snd (continued_advertising_events c s)).
Proof.
  unfold continued_advertising_events, same25. destruct (c_manual c); [destruct (count_down _ _)|]; psimpl; repeat split.
Qed.
Lemma first_channel_same25 c s s' : first_channel c s = Some s' -> same25 s s'.
Proof.
  unfold first_channel, same25. destruct (c_varmap c); [destruct (ch_map s =? 0); [discriminate|]|];
    intros H; inversion H; subst; psimpl; repeat split.
Qed.
Lemma next_channel_same25 c s s' : next_channel c s = Some s' -> same25 s s'.
Proof.
  unfold next_channel, same25. destruct (c_varmap c); [destruct (ch_map s =? 0); [discriminate|]|];
    intros H; inversion H; subst; psimpl; repeat split.
Qed.
Lemma next_adv_event_same25 c s : same25 s (snd (next_adv_event c s)).
Proof.
  unfold next_adv_event, same25. destruct (negb (first_channel_selected c s)); psimpl; repeat split.
Qed.

(* ------------------------------------------------------------------ the advertising type in use *)
Definition ty_at (c : cfg) (k : nat) : option atype :=
  if is_multi c then nth_error (types_of c) k else Some (hd TUndirected (types_of c)).

Lemma sel_type_at c s : sel_type c s = ty_at c (selected s).
Proof. reflexivity. Qed.

(* the advertising buffer holds a PDU of the type in use, or directed advertising waits for its address *)
Definition j_ok (c : cfg) (s : state) : Prop :=
  (exists t, sel_type c s = Some t /\ buf_type s = pdu_code t) \/
  (sel_type c s = Some TDirected /\ d_valid s = false /\ d_started s = true).

Definition in_range (c : cfg) (s : state) : Prop :=
  is_multi c = true -> (selected s < length (types_of c))%nat /\ (proposal s < length (types_of c))%nat.

Lemma ty_at_some c k : (is_multi c = true -> (k < length (types_of c))%nat) -> exists t, ty_at c k = Some t.
Proof.
  unfold ty_at. destruct (is_multi c); intros H; [|eauto].
  destruct (nth_error (types_of c) k) eqn:E; eauto. apply nth_error_None in E. specialize (H eq_refl). lia.
Qed.

(* fill_advertising_data *)
Lemma fill_effect c s b s' :
  fill_advertising_data c s = (b, s') ->
  d_addr s' = d_addr s /\ d_valid s' = d_valid s /\ selected s' = selected s /\ proposal s' = proposal s /\
  (sel_type c s <> None -> j_ok c s') /\
  (b = true -> exists t, sel_type c s' = Some t /\ buf_type s' = pdu_code t).
Proof.
  unfold fill_advertising_data, j_ok. rewrite !sel_type_at.
  destruct (ty_at c (selected s)) as [[| | |]|] eqn:T; try destruct (d_valid s) eqn:V;
    intros H; inversion H; subst; psimpl; rewrite ?sel_type_at; psimpl; rewrite ?T;
    (repeat split; auto; try congruence; try discriminate);
    try (intros _; left; eexists; split; [reflexivity|reflexivity]);
    try (intros _; eexists; split; [reflexivity|reflexivity]).
Qed.

Definition sched_code_ok (c : cfg) (s' : state) (x : sched) : Prop :=
  match x with
  | NoSched => True
  | Sched _ _ code => exists t, sel_type c s' = Some t /\ code = pdu_code t
  end.

Lemma start_effect25 c s s' x :
  in_range c s -> handle_start_advertising c s = Some (s', x) ->
  d_addr s' = d_addr s /\ d_valid s' = d_valid s /\ proposal s' = proposal s /\
  selected s' = (if is_multi c then proposal s else selected s) /\
  j_ok c s' /\ sched_code_ok c s' x.
Proof.
  intros R. unfold handle_start_advertising.
  set (s1 := if is_multi c then set_selected s (proposal s) else s).
  assert (E1 : d_addr s1 = d_addr s /\ d_valid s1 = d_valid s /\ proposal s1 = proposal s /\
               selected s1 = (if is_multi c then proposal s else selected s)).
  { unfold s1. destruct (is_multi c); psimpl; auto. }
  assert (N1 : sel_type c s1 <> None).
  { rewrite sel_type_at. destruct E1 as (_ & _ & _ & ->).
    destruct (ty_at_some c (if is_multi c then proposal s else selected s)) as [t ->]; [|discriminate].
    intros M. rewrite M. apply R; auto. }
  destruct E1 as (A1 & A2 & A3 & A4).
  destruct (fill_advertising_data c s1) as [ne s2] eqn:F. apply fill_effect in F.
  destruct F as (F1 & F2 & F3 & F4 & F5 & F6). specialize (F5 N1).
  destruct ne; cbn [negb].
  2:{ intros H; inversion H; subst. cbn [sched_code_ok]. repeat split; auto; congruence. }
  specialize (F6 eq_refl).
  pose proof (begin_same25 c s2) as B. destruct (begin_of_advertising_events c s2) as [go s3]. cbn [snd] in B.
  assert (J3 : j_ok c s3 /\ exists t, sel_type c s3 = Some t /\ buf_type s3 = pdu_code t).
  { destruct B as (B1 & B2 & B3 & B4 & B5 & B6). unfold j_ok in *. rewrite !sel_type_at in *. rewrite B2, B3, B4, B6. auto. }
  destruct go; cbn [negb].
  2:{ intros H; inversion H; subst. destruct B as (B1 & B2 & B3 & B4 & B5 & B6). cbn [sched_code_ok].
      repeat split; try congruence. apply J3. }
  destruct (first_channel c s3) as [s4|] eqn:FC; [|discriminate].
  apply first_channel_same25 in FC. destruct (same25_trans _ _ _ B FC) as (C1 & C2 & C3 & C4 & C5 & C6).
  intros H; inversion H; subst. cbn [sched_code_ok].
  destruct F6 as (t & T1 & T2).
  assert (J4 : exists t, sel_type c s' = Some t /\ buf_type s' = pdu_code t).
  { exists t. rewrite sel_type_at in *. rewrite C4, C6. auto. }
  repeat split; try congruence.
  all: try (left; auto; fail).
  all: try (destruct J4 as (t' & U1 & U2); exists t'; auto; fail).
Qed.

Lemma timeout_effect25 c s s' x :
  in_range c s -> j_ok c s -> handle_adv_timeout c s = Some (s', x) ->
  d_addr s' = d_addr s /\ d_valid s' = d_valid s /\ proposal s' = proposal s /\
  selected s' = (if is_multi c then proposal s else selected s) /\
  j_ok c s' /\ sched_code_ok c s' x.
Proof.
  intros R J. unfold handle_adv_timeout.
  set (fs := if is_multi c then _ else _).
  assert (E1 : d_addr (snd fs) = d_addr s /\ d_valid (snd fs) = d_valid s /\ proposal (snd fs) = proposal s /\
               selected (snd fs) = (if is_multi c then proposal s else selected s) /\
               d_started (snd fs) = d_started s /\ buf_type (snd fs) = buf_type s /\
               (fst fs = false -> selected (snd fs) = selected s)).
  { unfold fs. destruct (is_multi c); [destruct (Nat.eqb (selected s) (proposal s)) eqn:Q|]; psimpl; repeat split; auto.
    - apply Nat.eqb_eq in Q. auto.
    - discriminate. }
  destruct fs as [fill s1]. cbn [fst snd] in E1. destruct E1 as (A1 & A2 & A3 & A4 & A5 & A6 & A7).
  assert (N1 : sel_type c s1 <> None).
  { rewrite sel_type_at, A4.
    destruct (ty_at_some c (if is_multi c then proposal s else selected s)) as [t ->]; [|discriminate].
    intros M. rewrite M. apply R; auto. }
  set (ns := if fill then _ else _).
  assert (E2 : d_addr (snd ns) = d_addr s1 /\ d_valid (snd ns) = d_valid s1 /\ selected (snd ns) = selected s1 /\
               proposal (snd ns) = proposal s1 /\ j_ok c (snd ns) /\
               (fst ns = true -> exists t, sel_type c (snd ns) = Some t /\ buf_type (snd ns) = pdu_code t)).
  { unfold ns. destruct fill.
    - destruct (fill_advertising_data c s1) as [b s2] eqn:F. apply fill_effect in F. cbn [fst snd].
      destruct F as (F1 & F2 & F3 & F4 & F5 & F6). repeat split; auto.
    - cbn [fst snd]. specialize (A7 eq_refl).
      assert (J1 : j_ok c s1).
      { unfold j_ok in *. rewrite !sel_type_at in *. rewrite A7, A2, A5, A6. auto. }
      repeat split; auto. unfold get_advertising_data. intros G.
      destruct J1 as [J1|(J1 & J2 & J3)]; auto. rewrite J1, J2 in G. discriminate. }
  destruct ns as [ne s2]. cbn [fst snd] in E2. destruct E2 as (F1 & F2 & F3 & F4 & F5 & F6).
  destruct ne; cbn [negb].
  2:{ intros H; inversion H; subst. cbn [sched_code_ok]. repeat split; auto; congruence. }
  specialize (F6 eq_refl).
  pose proof (continued_same25 c s2) as B. destruct (continued_advertising_events c s2) as [go s3]. cbn [snd] in B.
  assert (J3 : j_ok c s3 /\ exists t, sel_type c s3 = Some t /\ buf_type s3 = pdu_code t).
  { destruct B as (B1 & B2 & B3 & B4 & B5 & B6). unfold j_ok in *. rewrite !sel_type_at in *. rewrite B2, B3, B4, B6. auto. }
  destruct go; cbn [negb].
  2:{ intros H; inversion H; subst. destruct B as (B1 & B2 & B3 & B4 & B5 & B6). cbn [sched_code_ok].
      repeat split; try congruence. apply J3. }
  destruct (next_channel c s3) as [s4|] eqn:NC; [|discriminate].
  apply next_channel_same25 in NC.
  pose proof (next_adv_event_same25 c s4) as NA. destruct (next_adv_event c s4) as [d s5]. cbn [snd] in NA.
  destruct (same25_trans _ _ _ (same25_trans _ _ _ B NC) NA) as (C1 & C2 & C3 & C4 & C5 & C6).
  intros H; inversion H; subst. cbn [sched_code_ok].
  destruct F6 as (t & T1 & T2).
  assert (J4 : exists t, sel_type c s' = Some t /\ buf_type s' = pdu_code t).
  { exists t. rewrite sel_type_at in *. rewrite C4, C6. auto. }
  repeat split; try congruence.
  all: try (left; auto; fail).
  all: try (destruct J4 as (t' & U1 & U2); exists t'; auto; fail).
Qed.

(* ------------------------------------------------------------------ the C25 invariant *)
Definition eff (c : cfg) (m : mon25) (k : nat) : Prop :=
  exists t, ty_at c k = Some t /\ (v_last m = Some t \/ In t (v_cands m)).

Definition pre25 (c : cfg) (s : state) (m : mon25) : Prop :=
  v_target m = target_of s /\ in_range c s /\
  (0 < v_pending m -> v_last m <> None) /\
  (v_last m <> None -> eff c m (selected s) /\ eff c m (proposal s)).

Definition core25 (c : cfg) (s : state) (m : mon25) : Prop :=
  pre25 c s m /\ (v_last m <> None -> j_ok c s).

Definition inv25 (c : cfg) (s : state) (m : mon25) : Prop := v_void m = true \/ core25 c s m.

Lemma pdu_code_inj a b : pdu_code a = pdu_code b -> a = b.
Proof. destruct a, b; cbn; intros H; try reflexivity; discriminate. Qed.

Lemma find_code l t : In t l -> find (fun t' => pdu_code t' =? pdu_code t) l = Some t.
Proof.
  induction l as [|h l IH]; intros H; [destruct H|]. cbn [find].
  destruct (pdu_code h =? pdu_code t) eqn:E.
  - apply N.eqb_eq in E. apply pdu_code_inj in E. congruence.
  - destruct H as [->|H]; [rewrite N.eqb_refl in E; discriminate|auto].
Qed.

Lemma types_of_nonempty c : types_of c <> [].
Proof. unfold types_of. destruct (c_types c); discriminate. Qed.

Lemma ty_at_in c k t : ty_at c k = Some t -> In t (types_of c).
Proof.
  unfold ty_at. destruct (is_multi c).
  - apply nth_error_In.
  - intros H; inversion H. pose proof (types_of_nonempty c). destruct (types_of c); [congruence|]. left; auto.
Qed.

Lemma type_of_code_at c k t : ty_at c k = Some t -> type_of_code c (pdu_code t) = Some t.
Proof. intros H. unfold type_of_code. apply find_code. eapply ty_at_in; eauto. Qed.

Ltac vsimpl := cbn [v_void v_pending v_last v_cands v_target answer25 void25 fst snd].

Lemma after_handler c s m s' x :
  pre25 c s m ->
  d_addr s' = d_addr s -> d_valid s' = d_valid s -> proposal s' = proposal s ->
  selected s' = (if is_multi c then proposal s else selected s) ->
  j_ok c s' -> sched_code_ok c s' x ->
  fst (on_sched25 c m x) = Ok /\ core25 c s' (snd (on_sched25 c m x)).
Proof.
  intros (PT & PR & PP & PE) A1 A2 A3 A4 J SC.
  assert (TT : target_of s' = target_of s) by (unfold target_of; rewrite A1, A2; auto).
  assert (R' : in_range c s').
  { intros M. specialize (PR M). rewrite A3, A4, M. tauto. }
  assert (TY : ty_at c (proposal s') = ty_at c (selected s')).
  { rewrite A3, A4. unfold ty_at. destruct (is_multi c); reflexivity. }
  destruct x as [|ch d code]; cbn [on_sched25 sched_code_ok] in *.
  - cbn [fst snd]. split; auto. split; [|auto].
    refine (conj _ (conj R' (conj PP _))); [congruence|].
    intros L. specialize (PE L). destruct PE as [E1 E2].
    assert (E2' : eff c m (proposal s')) by (rewrite A3; auto).
    split; auto. unfold eff in *. rewrite <- TY. auto.
  - destruct SC as (t & T1 & ->). rewrite sel_type_at in T1.
    rewrite (type_of_code_at c _ t T1). cbn [fst snd]. split; auto.
    split; [|auto]. unfold pre25, eff. vsimpl.
    refine (conj _ (conj R' (conj _ _))); [congruence|discriminate|].
    intros _. rewrite TY, T1. split; exists t; auto.
Qed.

Lemma pre25_answer c s m : pre25 c s m -> 0 < v_pending m -> pre25 c s (answer25 m).
Proof.
  intros (PT & PR & PP & PE) H. unfold pre25, eff in *. vsimpl. refine (conj PT (conj PR (conj _ PE))). auto.
Qed.

Lemma addr_same_refl a : addr_same a a = true.
Proof.
  unfold addr_same. rewrite (proj2 (bytes_eqb_eq _ _) eq_refl). destruct (arandom a); reflexivity.
Qed.

Lemma existsb_in (A : Type) (f : A -> bool) l x : In x l -> f x = true -> existsb f l = true.
Proof. intros. apply existsb_exists. eauto. Qed.

Definition op_bytes_ok (o : op) : Prop :=
  match o with Rx p | ConnReq p | ScanReq p => bytes_ok p | _ => True end.

Lemma in_effect_sel c s m t :
  pre25 c s m -> v_last m <> None -> sel_type c s = Some t -> In t (in_effect m).
Proof.
  intros (PT & PR & PP & PE) L T. destruct (PE L) as [(t' & E1 & E2) _]. rewrite sel_type_at in T.
  assert (t' = t) by congruence. subst. unfold in_effect. destruct (v_last m) as [l|]; [|congruence].
  destruct E2 as [E2|E2]; [left; congruence|right; auto].
Qed.

Lemma core25_frame c s s1 m : core25 c s m -> same25 s s1 -> core25 c s1 m.
Proof.
  intros ((PT & PR & PP & PE) & J) (E1 & E2 & E3 & E4 & E5 & E6).
  unfold core25, pre25, in_range, j_ok, target_of in *. rewrite !sel_type_at in *.
  rewrite E1, E2, E3, E4, E5, E6. auto.
Qed.

Lemma pre25_frame c s s1 m : pre25 c s m -> same25 s s1 -> pre25 c s1 m.
Proof.
  intros (PT & PR & PP & PE) (E1 & E2 & E3 & E4 & E5 & E6).
  unfold pre25, in_range, target_of in *. rewrite E1, E2, E4, E5. auto.
Qed.

(* a (re)start *)
Lemma restart25 c s0 s1 m1 :
  pre25 c s1 m1 ->
  match lift (handle_start_advertising c s1) s0 with
  | (s', OSched x) => fst (on_sched25 c m1 x) = Ok /\ core25 c s' (snd (on_sched25 c m1 x))
  | (_, OFault) => True
  | _ => False
  end.
Proof.
  intros P. destruct (handle_start_advertising c s1) as [[s' x]|] eqn:H; cbn [lift]; auto.
  pose proof P as (PT & PR & PP & PE).
  apply start_effect25 in H; auto. destruct H as (A1 & A2 & A3 & A4 & J & SC).
  apply after_handler with (s := s1); auto.
Qed.

Lemma void25_inv c s m : inv25 c s (void25 m).
Proof. left; reflexivity. Qed.

Lemma step25_ok c s m o :
  op_bytes_ok o -> inv25 c s m ->
  fst (mstep25 c m o (snd (step c s o))) = Ok /\
  inv25 c (fst (step c s o)) (snd (mstep25 c m o (snd (step c s o)))).
Proof.
  intros OB I.
  destruct (v_void m) eqn:V.
  { unfold mstep25. rewrite V. cbn [fst snd]. split; auto. left; auto. }
  destruct I as [I|C]; [congruence|].
  pose proof C as (P & J). pose proof P as (PT & PR & PP & PE).
  unfold mstep25. rewrite V.
  destruct o; cbn [step].
  - (* LStart *)
    pose proof (restart25 c s s m P) as H.
    destruct (lift (handle_start_advertising c s) s) as [s' [x| | | | |]]; try contradiction; cbn [fst snd].
    + destruct H as [H1 H2]. split; auto. right; auto.
    + split; auto. apply void25_inv.
  - (* LStop *)
    cbn [fst snd on_sched25]. split; auto. right. apply core25_frame with (s := s); auto.
    unfold end_of_advertising_events, same25. destruct (c_manual c); psimpl; repeat split.
  - (* Timeout *)
    destruct (handle_adv_timeout c s) as [[s' x]|] eqn:H; cbn [lift fst snd]; [|split; auto; apply void25_inv].
    destruct (v_pending m =? 0) eqn:Z; cbn [fst snd]; [split; auto; apply void25_inv|].
    assert (L : v_last m <> None) by (apply PP; lia).
    apply timeout_effect25 in H; auto. destruct H as (A1 & A2 & A3 & A4 & J' & SC).
    destruct (after_handler c s (answer25 m) s' x (pre25_answer c s m P ltac:(lia)) A1 A2 A3 A4 J' SC) as [H1 H2].
    split; auto. right; auto.
  - (* Rx *)
    cbn [op_bytes_ok] in OB.
    destruct (accepts c s p) eqn:ACC.
    + cbn [fst snd]. destruct (v_pending m =? 0) eqn:Z; cbn [fst snd]; [split; auto; apply void25_inv|].
      assert (L : v_last m <> None) by (apply PP; lia).
      rewrite accepts_spec in ACC by auto. destruct (sel_type c s) as [t|] eqn:T; [|discriminate].
      rewrite (remote_is_initiator _ _ OB), addr_same_refl, andb_true_r.
      rewrite (existsb_in _ _ _ t (in_effect_sel c s m t P L T)); [|rewrite PT; auto].
      cbn [fst snd]. split; auto. right. split; [apply pre25_answer; auto; lia|auto].
    + destruct (handle_adv_timeout c s) as [[s' x]|] eqn:H; cbn [fst snd]; [|split; auto; apply void25_inv].
      destruct (v_pending m =? 0) eqn:Z; cbn [fst snd]; [split; auto; apply void25_inv|].
      assert (L : v_last m <> None) by (apply PP; lia).
      rewrite accepts_spec in ACC by auto.
      assert (EX : existsb (fun t => negb (may_connect_b (c_off c) (c_own c) (c_filter c) (v_target m) t p)) (in_effect m) = true).
      { destruct (sel_type c s) as [t|] eqn:T.
        - apply existsb_in with (x := t); [eapply in_effect_sel; eauto|]. rewrite PT, ACC. reflexivity.
        - exfalso. rewrite sel_type_at in T. destruct (ty_at_some c (selected s)) as [t E]; [apply PR|congruence]. }
      rewrite EX.
      apply timeout_effect25 in H; auto. destruct H as (A1 & A2 & A3 & A4 & J' & SC).
      destruct (after_handler c s (answer25 m) s' x (pre25_answer c s m P ltac:(lia)) A1 A2 A3 A4 J' SC) as [H1 H2].
      split; auto. right; auto.
  - (* Start *)
    destruct (negb (c_manual c)); cbn [fst snd]; [split; auto; apply void25_inv|].
    set (s1 := set_ss s (ss_started s) true 0).
    assert (S1 : same25 s s1) by (unfold s1, same25; psimpl; repeat split).
    destruct (negb (ss_enabled s) && ss_started s).
    + pose proof (restart25 c s s1 m (pre25_frame _ _ _ _ P S1)) as H.
      destruct (lift (handle_start_advertising c s1) s) as [s' [x| | | | |]]; try contradiction; cbn [fst snd].
      * destruct H as [H1 H2]. split; auto. right; auto.
      * split; auto. apply void25_inv.
    + cbn [fst snd on_sched25]. split; auto. right. apply core25_frame with (s := s); auto.
  - (* StartN *)
    destruct (negb (c_manual c)); cbn [fst snd]; [split; auto; apply void25_inv|].
    destruct (k =? 0); cbn [fst snd]; [split; auto; apply void25_inv|].
    set (s1 := set_ss s (ss_started s) true k).
    assert (S1 : same25 s s1) by (unfold s1, same25; psimpl; repeat split).
    destruct (negb (ss_enabled s) && ss_started s).
    + pose proof (restart25 c s s1 m (pre25_frame _ _ _ _ P S1)) as H.
      destruct (lift (handle_start_advertising c s1) s) as [s' [x| | | | |]]; try contradiction; cbn [fst snd].
      * destruct H as [H1 H2]. split; auto. right; auto.
      * split; auto. apply void25_inv.
    + cbn [fst snd on_sched25]. split; auto. right. apply core25_frame with (s := s); auto.
  - (* Stop *)
    destruct (negb (c_manual c)); cbn [fst snd on_sched25]; split; auto; try apply void25_inv.
    right. apply core25_frame with (s := s); auto. unfold same25; psimpl; repeat split.
  - (* AddCh *)
    destruct (negb (c_varmap c)); cbn [fst snd]; [split; auto; apply void25_inv|].
    destruct (negb (in_adv_channels ch)); cbn [fst snd on_sched25]; split; auto; try apply void25_inv.
    right. apply core25_frame with (s := s); auto. unfold same25; psimpl; repeat split.
  - (* RmCh *)
    destruct (negb (c_varmap c)); cbn [fst snd]; [split; auto; apply void25_inv|].
    destruct (negb (in_adv_channels ch)); cbn [fst snd on_sched25]; split; auto; try apply void25_inv.
    right. apply core25_frame with (s := s); auto. unfold same25; psimpl; repeat split.
  - (* IvalMs *)
    destruct (negb (c_varival c)); cbn [fst snd on_sched25]; split; auto; try apply void25_inv.
    right. apply core25_frame with (s := s); auto.
    destruct ((20 <=? ms) && (ms <=? 10240)); unfold same25; psimpl; repeat split.
  - (* IvalUs *)
    destruct (negb (c_varival c)); cbn [fst snd on_sched25]; split; auto; try apply void25_inv.
    right. apply core25_frame with (s := s); auto.
    destruct ((20000 <=? us) && (us <=? 10240000)); unfold same25; psimpl; repeat split.
  - (* DAddr *)
    destruct (negb (has_directed c)); cbn [fst snd]; [split; auto; apply void25_inv|].
    set (valid := negb (addr_eqb a zero_addr)).
    set (s1 := set_daddr s a valid).
    set (m1 := mkm25 false (v_pending m) (v_last m) (v_cands m) (if addr_same a zero_addr then None else Some a)).
    assert (P1 : pre25 c s1 m1).
    { unfold pre25, in_range, eff, target_of, s1, m1, valid in *. vsimpl. psimpl.
      refine (conj _ (conj PR (conj PP PE))).
      change (addr_same a zero_addr) with (addr_eqb a zero_addr). destruct (addr_eqb a zero_addr); reflexivity. }
    destruct (negb (d_valid s) && valid && d_started s) eqn:ST.
    + pose proof (restart25 c s s1 m1 P1) as H.
      destruct (lift (handle_start_advertising c s1) s) as [s' [x| | | | |]]; try contradiction; cbn [fst snd].
      * destruct H as [H1 H2]. split; auto. right; auto.
      * split; auto. apply void25_inv.
    + cbn [fst snd on_sched25]. split; auto. right. split; auto.
      unfold m1. vsimpl. intros L. specialize (J L). unfold j_ok, s1 in *. rewrite !sel_type_at in *. psimpl.
      destruct J as [J|(J1 & J2 & J3)]; auto.
      rewrite J2, J3 in ST. cbn [negb andb] in ST. rewrite andb_true_r in ST. unfold valid in *. rewrite ST. auto.
  - (* Chg *)
    destruct (is_multi c && Nat.ltb k (length (types_of c))) eqn:G; cbn [fst snd]; [|split; auto; apply void25_inv].
    apply andb_prop in G as [G1 G2]. apply Nat.ltb_lt in G2.
    destruct (nth_error (types_of c) k) as [t|] eqn:N; [|apply nth_error_None in N; lia].
    split; auto. right.
    assert (TK : ty_at c k = Some t) by (unfold ty_at; rewrite G1; auto).
    unfold core25, pre25, in_range, eff, target_of, j_ok in *. rewrite !sel_type_at in *. vsimpl. psimpl.
    refine (conj (conj PT (conj _ (conj PP _))) J).
    + intros M. specialize (PR M). tauto.
    + intros L. destruct (PE L) as [(t1 & E1 & E2) _]. split.
      * exists t1. split; auto. destruct E2; auto. right. apply in_or_app. auto.
      * exists t. split; auto. right. apply in_or_app. right. left. auto.
  - (* DataChanged *)
    cbn [fst snd on_sched25]. split; auto. right. apply core25_frame with (s := s); auto.
    unfold same25; psimpl; repeat split.
  - (* ConnReq *)
    cbn [op_bytes_ok] in OB. cbn [fst snd]. rewrite valid_connect_base_spec by auto.
    rewrite (proj2 (eqb_bool_eq _ _) eq_refl). split; auto. right; auto.
  - (* ScanReq *)
    cbn [op_bytes_ok] in OB. cbn [fst snd]. rewrite valid_scan_spec by auto.
    rewrite (proj2 (eqb_bool_eq _ _) eq_refl). split; auto. right; auto.
Qed.

Lemma multi_length c : is_multi c = true -> (2 <= length (types_of c))%nat.
Proof.
  unfold is_multi, types_of. intros H. apply Nat.leb_le in H. destruct (c_types c); cbn in *; lia.
Qed.

Lemma init_inv25 c : inv25 c (init c) (minit25 c).
Proof.
  right. unfold core25, pre25, in_range, minit25, init, target_of. vsimpl. psimpl.
  split; [|intros H; congruence].
  refine (conj eq_refl (conj _ (conj _ _))).
  - intros M. apply multi_length in M. lia.
  - intros H. exfalso. revert H. apply N.lt_irrefl.
  - intros H; congruence.
Qed.

Lemma monitor25_from_ok c ops :
  Forall op_bytes_ok ops ->
  forall s m pos, inv25 c s m -> monitor_from (mstep25 c) m pos (run c s ops) = None.
Proof.
  induction 1 as [|o t Ho Ht IH]; intros s m pos I; cbn [run]; [reflexivity|].
  pose proof (step25_ok c s m o Ho I) as H.
  destruct (step c s o) as [s' r]. cbn [fst snd] in H. cbn [monitor_from].
  destruct (mstep25 c m o r) as [v m']. cbn [fst snd] in H. destruct H as [-> I']. apply IH; auto.
Qed.

Theorem monitor25_accepts_model c ops :
  Forall op_bytes_ok ops -> monitor25 c (run c (init c) ops) = None.
Proof. intros H. apply monitor25_from_ok; auto. apply init_inv25. Qed.
Print Assumptions monitor25_accepts_model.
