From Coq Require Import Lia ZifyBool.
From BT Require Import Base.ListX L2cap.L2capModel L2cap.L2capSpec.
Local Open Scope N_scope.
Lemma succ_id_range i : 0 < succ_id i < 256.
Proof.
  unfold succ_id. destruct ((i + 1) mod 256 =? 0) eqn:E.
  - lia.
  - apply N.eqb_neq in E. assert (H : (i + 1) mod 256 < 256) by (apply N.mod_lt; discriminate). lia.
Qed.
