From BT Require Import Base.ListX Adv.AdvModel Adv.AdvSpec.
From Coq Require Import Lia ZifyBool.
Local Open Scope N_scope.

Ltac psimpl := cbn [ch_idx ch_map perturb ival_us ss_started ss_enabled ss_count d_addr d_valid d_started
  selected proposal data_changed buf_type set_idx set_ss set_perturb set_dstarted set_buf set_selected
  set_proposal set_changed set_daddr set_map set_ival fst snd negb andb orb].
Tactic Notation "psimpl" "in" hyp(H) := cbn [ch_idx ch_map perturb ival_us ss_started ss_enabled ss_count d_addr d_valid d_started
  selected proposal data_changed buf_type set_idx set_ss set_perturb set_dstarted set_buf set_selected
  set_proposal set_changed set_daddr set_map set_ival fst snd negb andb orb] in H.

(* frame: what C24 looks at *)
Definition same24 (s s' : state) : Prop :=
  ch_idx s' = ch_idx s /\ ch_map s' = ch_map s /\ ival_us s' = ival_us s /\ perturb s' = perturb s /\
  ss_started s' = ss_started s /\ ss_enabled s' = ss_enabled s /\ ss_count s' = ss_count s.

Lemma same24_refl s : same24 s s. Proof. repeat split. Qed.
Lemma same24_trans a b c : same24 a b -> same24 b c -> same24 a c.
Proof. unfold same24. intuition congruence. Qed.

Lemma fill_same c s : same24 s (snd (fill_advertising_data c s)).
Proof.
  unfold fill_advertising_data, same24. destruct (sel_type c s) as [[| | |]|]; try destruct (d_valid s); psimpl; repeat split.
Qed.

(* the effect of begin/continued on enabled_/count_ *)
Definition ss_eff (c : cfg) (s s' : state) (called : bool) : Prop :=
  if c_manual c && called
  then (ss_enabled s', ss_count s') = count_down (ss_enabled s) (ss_count s)
  else ss_enabled s' = ss_enabled s /\ ss_count s' = ss_count s.

Lemma begin_effect c s b s' :
  begin_of_advertising_events c s = (b, s') ->
  ss_eff c s s' true /\ (b = true -> c_manual c = true -> ss_enabled s = true) /\
  ch_idx s' = ch_idx s /\ ch_map s' = ch_map s /\ ival_us s' = ival_us s /\ perturb s' = perturb s /\ buf_type s' = buf_type s.
Proof.
  unfold begin_of_advertising_events, ss_eff. destruct (c_manual c); psimpl.
  - destruct (count_down (ss_enabled s) (ss_count s)) as [en cnt]. intros H; inversion H; subst. psimpl. repeat split; auto.
  - intros H; inversion H; subst. repeat split; auto; discriminate.
Qed.

Lemma continued_effect c s b s' :
  continued_advertising_events c s = (b, s') ->
  ss_eff c s s' true /\ (b = true -> c_manual c = true -> ss_enabled s = true) /\
  ch_idx s' = ch_idx s /\ ch_map s' = ch_map s /\ ival_us s' = ival_us s /\ perturb s' = perturb s /\ buf_type s' = buf_type s.
Proof.
  unfold continued_advertising_events, ss_eff. destruct (c_manual c); psimpl.
  - destruct (count_down (ss_enabled s) (ss_count s)) as [en cnt]. intros H; inversion H; subst. psimpl. repeat split; auto.
    intros HH _. destruct (ss_enabled s); auto.
  - intros H; inversion H; subst. repeat split; auto; discriminate.
Qed.

Lemma ss_eff_frame c s1 s2 s' b :
  ss_enabled s2 = ss_enabled s1 -> ss_count s2 = ss_count s1 -> ss_eff c s2 s' b -> ss_eff c s1 s' b.
Proof. unfold ss_eff. intros -> ->. auto. Qed.

Lemma start_effect c s s' x :
  handle_start_advertising c s = Some (s', x) ->
  ch_map s' = ch_map s /\ ival_us s' = ival_us s /\
  match x with
  | NoSched => ch_idx s' = ch_idx s /\ exists called, ss_eff c s s' called
  | Sched ch d t =>
      ss_eff c s s' true /\ (c_manual c = true -> ss_enabled s = true) /\
      (c_varmap c = true -> ch_map s <> 0) /\
      ch = current_channel c s' /\
      ch_idx s' = (if c_varmap c then first_channel_index (ch_map s) else 37) /\ d = 0
  end.
Proof.
  unfold handle_start_advertising.
  set (s1 := if is_multi c then set_selected s (proposal s) else s).
  assert (E1 : same24 s s1) by (unfold s1, same24; destruct (is_multi c); psimpl; repeat split).
  pose proof (fill_same c s1) as E2. destruct (fill_advertising_data c s1) as [ne s2]. cbn [snd] in E2.
  pose proof (same24_trans _ _ _ E1 E2) as E. destruct E as (Ei & Em & Ev & Ep & Est & Een & Ecn).
  destruct ne; cbn [negb].
  2:{ intros H. inversion H; subst. repeat split; auto. exists false. unfold ss_eff. rewrite andb_false_r. auto. }
  destruct (begin_of_advertising_events c s2) as [go s3] eqn:B.
  apply begin_effect in B. destruct B as (Beff & Bgo & Bi & Bm & Bv & Bp & Bb).
  apply ss_eff_frame with (s1 := s) in Beff; auto.
  destruct go; cbn [negb].
  2:{ intros H. inversion H; subst. repeat split; try congruence. exists true. auto. }
  unfold first_channel. destruct (c_varmap c) eqn:VM.
  - destruct (ch_map s3 =? 0) eqn:Z; [discriminate|].
    intros H. inversion H; subst. psimpl. unfold current_channel. rewrite VM. psimpl.
    repeat split; try congruence.
    + unfold ss_eff in *. psimpl. auto.
    + intros HM. rewrite <- Een. auto.
    + intros _ HZ. rewrite Bm, Em, HZ in Z. discriminate.
  - intros H. inversion H; subst. psimpl. unfold current_channel. rewrite VM. psimpl.
    repeat split; try congruence.
    + unfold ss_eff in *. psimpl. auto.
    + intros HM. rewrite <- Een. auto.
Qed.

Local Opaque first_channel_index var_next.

Lemma timeout_effect c s s' x :
  handle_adv_timeout c s = Some (s', x) ->
  ch_map s' = ch_map s /\ ival_us s' = ival_us s /\
  match x with
  | NoSched => ch_idx s' = ch_idx s /\ exists called, ss_eff c s s' called
  | Sched ch d t =>
      ss_eff c s s' true /\ (c_manual c = true -> ss_enabled s = true) /\
      (c_varmap c = true -> ch_map s <> 0) /\
      ch = current_channel c s' /\
      ch_idx s' = (if c_varmap c then var_next (ch_map s) (ch_idx s)
                   else if ch_idx s =? 39 then 37 else ch_idx s + 1) /\
      ((first_channel_selected c s' = false /\ d = 0) \/
       (first_channel_selected c s' = true /\ current_interval c s <= d <= current_interval c s + 10000))
  end.
Proof.
  unfold handle_adv_timeout.
  set (fs := if is_multi c then _ else _).
  assert (E1 : same24 s (snd fs)).
  { unfold fs, same24. destruct (is_multi c); [destruct (negb (Nat.eqb (selected s) (proposal s)))|]; psimpl; repeat split. }
  destruct fs as [fill s1]. cbn [snd] in E1.
  set (ns := if fill then _ else _).
  assert (E2 : same24 s1 (snd ns)).
  { unfold ns. destruct fill; [apply fill_same | apply same24_refl]. }
  destruct ns as [ne s2]. cbn [snd] in E2.
  pose proof (same24_trans _ _ _ E1 E2) as E. destruct E as (Ei & Em & Ev & Ep & Est & Een & Ecn).
  destruct ne; cbn [negb].
  2:{ intros H. inversion H; subst. repeat split; auto. exists false. unfold ss_eff. rewrite andb_false_r. auto. }
  destruct (continued_advertising_events c s2) as [go s3] eqn:B.
  apply continued_effect in B. destruct B as (Beff & Bgo & Bi & Bm & Bv & Bp & Bb).
  apply ss_eff_frame with (s1 := s) in Beff; auto.
  destruct go; cbn [negb].
  2:{ intros H. inversion H; subst. repeat split; try congruence. exists true. auto. }
  assert (Hp : forall q, (q + 7) mod 11 * 1000 <= 10000).
  { intros q. pose proof (N.mod_upper_bound (q + 7) 11). lia. }
  unfold next_channel. destruct (c_varmap c) eqn:VM.
  - destruct (ch_map s3 =? 0) eqn:Z; [discriminate|].
    unfold next_adv_event, first_channel_selected, current_interval, current_channel. rewrite VM. psimpl.
    destruct (var_next (ch_map s3) (ch_idx s3) =? first_channel_index (ch_map s3)) eqn:F; psimpl;
    intros H; inversion H; subst; psimpl; rewrite ?VM, ?F; psimpl;
    (repeat split; try congruence;
      [ unfold ss_eff in *; psimpl; auto
      | intros HM; rewrite <- Een; auto
      | intros _ HZ; rewrite Bm, Em, HZ in Z; discriminate
      | ]).
    + right. split; auto. unfold max_adv_perturbation, perturbation_stride.
      specialize (Hp (perturb s3)). change (10 + 1) with 11. set (q := (perturb s3 + 7) mod 11) in *. clearbody q. destruct (c_varival c); rewrite ?Bv, ?Ev; lia.
    + left. auto.
  - unfold next_adv_event, first_channel_selected, current_interval, current_channel. rewrite VM. psimpl.
    set (i' := if ch_idx s3 =? last_advertising_channel then first_advertising_channel else ch_idx s3 + 1).
    destruct (i' =? first_advertising_channel) eqn:F; psimpl;
    intros H; inversion H; subst; psimpl; rewrite ?VM, ?F; psimpl;
    (repeat split; try congruence;
      [ unfold ss_eff in *; psimpl; auto
      | intros HM; rewrite <- Een; auto
      | unfold i', last_advertising_channel, first_advertising_channel; rewrite Bi, Ei; reflexivity
      | ]).
    + right. split; auto. unfold max_adv_perturbation, perturbation_stride.
      specialize (Hp (perturb s3)). change (10 + 1) with 11. set (q := (perturb s3 + 7) mod 11) in *. clearbody q. destruct (c_varival c); rewrite ?Bv, ?Ev; lia.
    + left. auto.
Qed.

(* ------------------------------------------------------------------ channel facts *)
Lemma map_cases m : 0 < m < 8 -> m = 1 \/ m = 2 \/ m = 3 \/ m = 4 \/ m = 5 \/ m = 6 \/ m = 7.
Proof. lia. Qed.

Lemma enabled_range map ch : chan_enabled map ch = true -> ch = 37 \/ ch = 38 \/ ch = 39.
Proof. unfold chan_enabled. intros H. apply andb_prop in H as [H _]. apply andb_prop in H as [H1 H2]. lia. Qed.

Local Transparent first_channel_index var_next.
Lemma var_step map idx :
  0 < map < 8 -> chan_enabled map (idx + 37) = true ->
  chan_enabled map (var_next map idx + 37) = true /\
  match next_enabled_after map (idx + 37) with
  | Some e => var_next map idx + 37 = e /\ (var_next map idx =? first_channel_index map) = false /\ idx + 37 < e
  | None => var_next map idx = first_channel_index map
  end.
Proof.
  intros Hm He.
  assert (Hi : idx = 0 \/ idx = 1 \/ idx = 2) by (apply enabled_range in He; lia).
  destruct (map_cases map Hm) as [->|[->|[->|[->|[->|[->| ->]]]]]];
  destruct Hi as [->|[->| ->]]; vm_compute in He; try discriminate He; vm_compute; repeat split; auto; discriminate.
Qed.

Lemma var_first map :
  0 < map < 8 ->
  chan_enabled map (first_channel_index map + 37) = true /\ first_channel_index map + 37 = lowest_channel map.
Proof.
  intros Hm.
  destruct (map_cases map Hm) as [->|[->|[->|[->|[->|[->| ->]]]]]]; vm_compute; auto.
Qed.
Local Opaque first_channel_index var_next.

Lemma all_step idx :
  chan_enabled 7 idx = true ->
  let i' := if idx =? 39 then 37 else idx + 1 in
  chan_enabled 7 i' = true /\
  match next_enabled_after 7 idx with
  | Some e => i' = e /\ (i' =? 37) = false /\ idx < e
  | None => i' = 37
  end.
Proof.
  intros He. destruct (enabled_range _ _ He) as [->|[->| ->]]; vm_compute; repeat split; auto; discriminate.
Qed.

Lemma map_add_lt m ch : m < 8 -> in_adv_channels ch = true -> N.lor m (N.shiftl 1 (ch - 37)) < 8.
Proof.
  intros Hm Hc. unfold in_adv_channels, first_advertising_channel, last_advertising_channel in Hc.
  assert (ch = 37 \/ ch = 38 \/ ch = 39) as [->|[->| ->]] by lia;
  assert (m = 0 \/ m = 1 \/ m = 2 \/ m = 3 \/ m = 4 \/ m = 5 \/ m = 6 \/ m = 7) as [->|[->|[->|[->|[->|[->|[->| ->]]]]]]] by lia;
  vm_compute; reflexivity.
Qed.

Lemma map_rm_lt m ch : m < 8 -> in_adv_channels ch = true -> N.ldiff m (N.shiftl 1 (ch - 37)) < 8.
Proof.
  intros Hm Hc. unfold in_adv_channels, first_advertising_channel, last_advertising_channel in Hc.
  assert (ch = 37 \/ ch = 38 \/ ch = 39) as [->|[->| ->]] by lia;
  assert (m = 0 \/ m = 1 \/ m = 2 \/ m = 3 \/ m = 4 \/ m = 5 \/ m = 6 \/ m = 7) as [->|[->|[->|[->|[->|[->|[->| ->]]]]]]] by lia;
  vm_compute; reflexivity.
Qed.

(* ------------------------------------------------------------------ the C24 invariant *)
Definition budget_ok (s : state) (b : option N) : Prop :=
  match b with None => True | Some k => ss_enabled s = true -> 0 < ss_count s <= k end.

Definition core24 (c : cfg) (s : state) (m : mon24) : Prop :=
  m_map m = (if c_varmap c then ch_map s else 7) /\ m_map m < 8
  /\ m_ival m = current_interval c s
  /\ (if c_manual c then (ss_enabled s = true -> m_on m = true) /\ budget_ok s (m_budget m)
      else m_on m = true /\ m_budget m = None)
  /\ (0 < m_pending m -> m_last m = current_channel c s /\ chan_enabled (m_map m) (m_last m) = true).

Definition inv24 (c : cfg) (s : state) (m : mon24) : Prop := m_void m = true \/ core24 c s m.

Lemma count_down_spec en cnt en' cnt' :
  count_down en cnt = (en', cnt') ->
  (en' = true -> en = true) /\ cnt' <= cnt /\
  (en = true -> 0 < cnt -> (cnt' = cnt - 1 /\ (en' = true -> 0 < cnt'))).
Proof.
  unfold count_down. destruct (cnt =? 0) eqn:Z.
  - intros H; inversion H; subst. repeat split; auto; lia.
  - destruct (cnt - 1 =? 0) eqn:Z1; intros H; inversion H; subst; repeat split; auto; try lia; discriminate.
Qed.

(* begin / continue that sends nothing *)
Lemma budget_nosend c s s' called b :
  c_manual c = true -> ss_eff c s s' called -> budget_ok s b ->
  (ss_enabled s' = true -> ss_enabled s = true) /\ budget_ok s' b.
Proof.
  intros Man E B. unfold ss_eff in E. rewrite Man in E. destruct called; cbn [andb] in E.
  - symmetry in E. apply count_down_spec in E. destruct E as (E1 & E2 & E3). split; auto.
    destruct b as [k|]; unfold budget_ok in *; auto. intros En'. specialize (E1 En'). specialize (B E1). specialize (E3 E1 ltac:(lia)).
    destruct E3 as [E3a E3b]. specialize (E3b En'). lia.
  - destruct E as [Ea Eb]. unfold budget_ok in *. rewrite Ea. destruct b; rewrite ?Eb; auto.
Qed.

(* begin / continue that sends a PDU *)
Lemma budget_send c s s' b :
  c_manual c = true -> ss_eff c s s' true -> ss_enabled s = true -> budget_ok s b ->
  (match b with Some 0 => true | _ => false end) = false /\
  budget_ok s' (match b with Some k => Some (k - 1) | None => None end).
Proof.
  intros Man E En B. unfold ss_eff in E. rewrite Man in E. cbn [andb] in E.
  symmetry in E. apply count_down_spec in E. destruct E as (E1 & E2 & E3).
  destruct b as [k|]; unfold budget_ok in *; auto. specialize (B En). specialize (E3 En ltac:(lia)). destruct E3 as [E3a E3b].
  split.
  - destruct k; auto. lia.
  - intros En'. specialize (E3b En'). lia.
Qed.

Lemma restart_core c s m s' x :
  core24 c s m -> m_map m <> 0 -> handle_start_advertising c s = Some (s', x) ->
  fst (on_sched m true x) = Ok /\ core24 c s' (snd (on_sched m true x)).
Proof.
  intros (Cm & Clt & Ci & Css & Cp) Hnz H. apply start_effect in H. destruct H as (Hm & Hv & H).
  assert (Hint : current_interval c s' = current_interval c s) by (unfold current_interval; rewrite Hv; auto).
  destruct x as [|ch d t]; cbn [on_sched fst snd].
  - destruct H as (Hi & called & Heff). split; auto.
    assert (Hcc : current_channel c s' = current_channel c s) by (unfold current_channel; rewrite Hi; auto).
    unfold core24. rewrite Hm, Hint, Hcc. refine (conj Cm (conj Clt (conj Ci (conj _ Cp)))).
    destruct (c_manual c) eqn:Man; auto. destruct Css as [Css1 Css2].
    destruct (budget_nosend _ _ _ _ _ Man Heff Css2) as [B1 B2]. split; auto.
  - destruct H as (Heff & Hen & Hmz & Hch & Hidx & Hd0).
    assert (Hchan : chan_enabled (m_map m) ch = true /\ ch = lowest_channel (m_map m)).
    { rewrite Hch. unfold current_channel. rewrite Hidx. rewrite Cm in *. destruct (c_varmap c).
      - destruct (var_first (ch_map s)) as [V1 V2]; [lia|]. split; auto.
      - vm_compute. auto. }
    destruct Hchan as [Hc1 Hc2].
    assert (Hon : m_on m = true /\ (match m_budget m with Some 0 => true | _ => false end) = false /\
                  (if c_manual c then (ss_enabled s' = true -> m_on m = true) /\
                       budget_ok s' (match m_budget m with Some k => Some (k - 1) | None => None end)
                   else m_on m = true /\ match m_budget m with Some k => Some (k - 1) | None => None end = None)).
    { destruct (c_manual c) eqn:Man.
      - destruct Css as [Css1 Css2]. specialize (Hen eq_refl).
        destruct (budget_send _ _ _ _ Man Heff Hen Css2) as [B1 B2]. repeat split; auto.
      - destruct Css as [Css1 Css2]. rewrite Css2. repeat split; auto. }
    destruct Hon as (Hon & Hb & Hss).
    split.
    + unfold judge_pdu. rewrite Hc1, Hon, Hb. cbn [negb]. rewrite Hc2, N.eqb_refl. reflexivity.
    + unfold core24, after_pdu. cbn [m_map m_ival m_last m_pending m_on m_budget m_void].
      rewrite Hm, Hint. refine (conj Cm (conj Clt (conj Ci (conj Hss _)))). intros _. split; auto.
Qed.

Lemma continue_core c s m s' x :
  core24 c s m -> m_map m <> 0 -> 0 < m_pending m -> handle_adv_timeout c s = Some (s', x) ->
  fst (on_sched (answer m) false x) = Ok /\ core24 c s' (snd (on_sched (answer m) false x)).
Proof.
  intros (Cm & Clt & Ci & Css & Cp) Hnz Hpend H. apply timeout_effect in H. destruct H as (Hm & Hv & H).
  destruct (Cp Hpend) as [Cl Cle].
  assert (Hint : current_interval c s' = current_interval c s) by (unfold current_interval; rewrite Hv; auto).
  destruct x as [|ch d t]; cbn [on_sched fst snd].
  - destruct H as (Hi & called & Heff). split; auto.
    assert (Hcc : current_channel c s' = current_channel c s) by (unfold current_channel; rewrite Hi; auto).
    unfold core24, answer. cbn [m_map m_ival m_last m_pending m_on m_budget m_void].
    rewrite Hm, Hint, Hcc. refine (conj Cm (conj Clt (conj Ci (conj _ (fun _ => conj Cl Cle))))).
    destruct (c_manual c) eqn:Man; auto. destruct Css as [Css1 Css2].
    destruct (budget_nosend _ _ _ _ _ Man Heff Css2) as [B1 B2]. split; auto.
  - destruct H as (Heff & Hen & Hmz & Hch & Hidx & Hd).
    (* where the stepping function went *)
    assert (Hchan : chan_enabled (m_map m) ch = true /\
              match next_enabled_after (m_map m) (m_last m) with
              | Some e => ch = e /\ first_channel_selected c s' = false /\ m_last m < e
              | None => ch = lowest_channel (m_map m) /\ first_channel_selected c s' = true
              end).
    { rewrite Hch, Cl. rewrite Cl in Cle. unfold current_channel, first_channel_selected in *. rewrite Hidx, Hm. rewrite Cm in *.
      destruct (c_varmap c).
      - unfold first_advertising_channel.
        destruct (var_step (ch_map s) (ch_idx s)) as [V1 V2]; [lia|exact Cle|]. split; auto.
        destruct (next_enabled_after (ch_map s) (ch_idx s + 37)) as [e|].
        + destruct V2 as (V2 & V3 & V4). auto.
        + rewrite V2. destruct (var_first (ch_map s)) as [F1 F2]; [lia|]. rewrite N.eqb_refl. auto.
      - pose proof (all_step (ch_idx s) Cle) as A. cbv zeta in A. destruct A as [A1 A2]. split; auto.
        unfold first_advertising_channel.
        destruct (next_enabled_after 7 (ch_idx s)) as [e|].
        + destruct A2 as (A2 & A3 & A4). auto.
        + rewrite A2. vm_compute. auto. }
    destruct Hchan as [Hc1 Hc2].
    assert (Hon : m_on m = true /\ (match m_budget m with Some 0 => true | _ => false end) = false /\
                  (if c_manual c then (ss_enabled s' = true -> m_on m = true) /\
                       budget_ok s' (match m_budget m with Some k => Some (k - 1) | None => None end)
                   else m_on m = true /\ match m_budget m with Some k => Some (k - 1) | None => None end = None)).
    { destruct (c_manual c) eqn:Man.
      - destruct Css as [Css1 Css2]. specialize (Hen eq_refl).
        destruct (budget_send _ _ _ _ Man Heff Hen Css2) as [B1 B2]. repeat split; auto.
      - destruct Css as [Css1 Css2]. rewrite Css2. repeat split; auto. }
    destruct Hon as (Hon & Hb & Hss).
    split.
    + unfold judge_pdu, answer. cbn [m_map m_ival m_last m_pending m_on m_budget m_void].
      rewrite Hc1, Hon, Hb. cbn [negb].
      destruct (next_enabled_after (m_map m) (m_last m)) as [e|].
      * destruct Hc2 as (-> & Hf & Hlt).
        assert (L : (e <? m_last m) = false) by lia. rewrite L, N.eqb_refl. cbn [negb].
        destruct Hd as [[_ ->]|[Hd _]]; [reflexivity | congruence].
      * destruct Hc2 as (-> & Hf). rewrite N.eqb_refl. cbn [negb].
        destruct Hd as [[Hd _]|[_ Hd]]; [congruence|].
        rewrite Ci. unfold max_delay.
        assert (L : ((current_interval c s <=? d) && (d <=? current_interval c s + 10000)) = true) by lia.
        rewrite L. reflexivity.
    + unfold core24, after_pdu, answer. cbn [m_map m_ival m_last m_pending m_on m_budget m_void].
      rewrite Hm, Hint. refine (conj Cm (conj Clt (conj Ci (conj Hss _)))). intros _. split; auto.
Qed.

Lemma core_frame c s s1 m : core24 c s m -> same24 s s1 -> core24 c s1 m.
Proof.
  intros (Cm & Clt & Ci & Css & Cp) (Ei & Em & Ev & Ep & Est & Een & Ecn).
  unfold core24, current_interval, current_channel, budget_ok in *. rewrite Ei, Em, Ev, Een, Ecn. auto.
Qed.

Lemma start_none c s : handle_start_advertising c s = None -> c_varmap c = true /\ ch_map s = 0.
Proof.
  unfold handle_start_advertising.
  set (s1 := if is_multi c then set_selected s (proposal s) else s).
  assert (E1 : same24 s s1) by (unfold s1, same24; destruct (is_multi c); psimpl; repeat split).
  pose proof (fill_same c s1) as E2. destruct (fill_advertising_data c s1) as [ne s2]. cbn [snd] in E2.
  pose proof (same24_trans _ _ _ E1 E2) as E. destruct E as (Ei & Em & Ev & Ep & Est & Een & Ecn).
  destruct ne; cbn [negb]; [|discriminate].
  destruct (begin_of_advertising_events c s2) as [go s3] eqn:B.
  apply begin_effect in B. destruct B as (Beff & Bgo & Bi & Bm & Bv & Bp & Bb).
  destruct go; cbn [negb]; [|discriminate].
  unfold first_channel. destruct (c_varmap c); [|discriminate].
  destruct (ch_map s3 =? 0) eqn:Z; [|discriminate]. intros _. split; auto. rewrite <- Em, <- Bm. lia.
Qed.

Lemma timeout_none c s : handle_adv_timeout c s = None -> c_varmap c = true /\ ch_map s = 0.
Proof.
  unfold handle_adv_timeout.
  set (fs := if is_multi c then _ else _).
  assert (E1 : same24 s (snd fs)).
  { unfold fs, same24. destruct (is_multi c); [destruct (negb (Nat.eqb (selected s) (proposal s)))|]; psimpl; repeat split. }
  destruct fs as [fill s1]. cbn [snd] in E1.
  set (ns := if fill then _ else _).
  assert (E2 : same24 s1 (snd ns)).
  { unfold ns. destruct fill; [apply fill_same | apply same24_refl]. }
  destruct ns as [ne s2]. cbn [snd] in E2.
  pose proof (same24_trans _ _ _ E1 E2) as E. destruct E as (Ei & Em & Ev & Ep & Est & Een & Ecn).
  destruct ne; cbn [negb]; [|discriminate].
  destruct (continued_advertising_events c s2) as [go s3] eqn:B.
  apply continued_effect in B. destruct B as (Beff & Bgo & Bi & Bm & Bv & Bp & Bb).
  destruct go; cbn [negb]; [|discriminate].
  unfold next_channel. destruct (c_varmap c).
  - destruct (ch_map s3 =? 0) eqn:Z.
    + intros _. split; auto. rewrite <- Em, <- Bm. lia.
    + destruct (next_adv_event c _); discriminate.
  - destruct (next_adv_event c _); discriminate.
Qed.

(* a (re)start: the result of lift (handle_start_advertising c s1) *)
Lemma restart_lift c s0 s1 m1 :
  core24 c s1 m1 -> m_map m1 <> 0 ->
  exists x, snd (lift (handle_start_advertising c s1) s0) = OSched x /\
            fst (on_sched m1 true x) = Ok /\
            core24 c (fst (lift (handle_start_advertising c s1) s0)) (snd (on_sched m1 true x)).
Proof.
  intros C Hnz. destruct (handle_start_advertising c s1) as [[s' x]|] eqn:H.
  - exists x. cbn [lift fst snd]. split; auto. apply restart_core with (s := s1); auto.
  - apply start_none in H. destruct H as [VM Z]. destruct C as (Cm & _). rewrite VM in Cm. congruence.
Qed.

Lemma void_inv c s m : inv24 c s (void24 m).
Proof. left. reflexivity. Qed.

Lemma on_sched_void m b x : m_void (snd (on_sched m b x)) = m_void m \/ m_void (snd (on_sched m b x)) = false.
Proof. destruct x; cbn; auto. Qed.

Ltac msimpl := cbn [m_map m_ival m_last m_pending m_on m_budget m_void set_on set_mmap set_mival answer void24 after_pdu fst snd].

Lemma core_set_on_start c s m st :
  c_manual c = true -> core24 c s m -> core24 c (set_ss s st true 0) (set_on m true None).
Proof.
  intros Man (Cm & Clt & Ci & Css & Cp). unfold core24, current_interval, current_channel, budget_ok in *. psimpl. msimpl.
  refine (conj Cm (conj Clt (conj Ci (conj _ Cp)))). rewrite Man. auto.
Qed.

Lemma core_set_on_startn c s m st k :
  c_manual c = true -> k <> 0 -> core24 c s m -> core24 c (set_ss s st true k) (set_on m true (Some k)).
Proof.
  intros Man Hk (Cm & Clt & Ci & Css & Cp). unfold core24, current_interval, current_channel, budget_ok in *. psimpl. msimpl.
  refine (conj Cm (conj Clt (conj Ci (conj _ Cp)))). rewrite Man. split; auto. intros _. lia.
Qed.

Lemma step24_ok c s m o :
  inv24 c s m ->
  fst (mstep24 c m o (snd (step c s o))) = Ok /\
  inv24 c (fst (step c s o)) (snd (mstep24 c m o (snd (step c s o)))).
Proof.
  intros I.
  destruct (m_void m) eqn:V.
  { unfold mstep24. rewrite V. cbn [fst snd]. split; auto. left; auto. }
  destruct I as [I|C]; [congruence|].
  pose proof C as (Cm & Clt & Ci & Css & Cp).
  unfold mstep24. rewrite V.
  destruct o; cbn [step].
  - (* LStart *)
    destruct (m_map m =? 0) eqn:Z; [cbn [fst snd]; split; auto; apply void_inv|].
    destruct (restart_lift c s s m C ltac:(lia)) as (x & Hr & Hok & Hc).
    rewrite Hr. cbn [fst snd]. split; auto. right; auto.
  - (* LStop *)
    cbn [fst snd]. split; auto. right.
    unfold end_of_advertising_events. destruct (c_manual c) eqn:Man; auto.
    unfold core24, current_interval, current_channel, budget_ok in *. rewrite Man in *. psimpl. msimpl.
    refine (conj Cm (conj Clt (conj Ci (conj _ Cp)))). split; [discriminate|]. destruct (m_budget m); auto. discriminate.
  - (* Timeout *)
    destruct ((m_pending m =? 0) || (m_map m =? 0)) eqn:Z; [cbn [fst snd]; split; auto; apply void_inv|].
    destruct (handle_adv_timeout c s) as [[s' x]|] eqn:H; cbn [lift fst snd].
    + destruct (continue_core c s m s' x C ltac:(lia) ltac:(lia) H) as [Hok Hc]. split; auto. right; auto.
    + apply timeout_none in H. destruct H as [VM Hz]. rewrite VM in Cm. lia.
  - (* Rx *)
    destruct ((m_pending m =? 0) || (m_map m =? 0)) eqn:Z; [cbn [fst snd]; split; auto; apply void_inv|].
    destruct (accepts c s p); cbn [fst snd].
    + split; auto. right. unfold core24, answer in *. msimpl.
      refine (conj Cm (conj Clt (conj Ci (conj Css _)))). intros _. apply Cp. lia.
    + destruct (handle_adv_timeout c s) as [[s' x]|] eqn:H; cbn [fst snd].
      * destruct (continue_core c s m s' x C ltac:(lia) ltac:(lia) H) as [Hok Hc]. split; auto. right; auto.
      * apply timeout_none in H. destruct H as [VM Hz]. rewrite VM in Cm. lia.
  - (* Start *)
    destruct ((m_map m =? 0) || negb (c_manual c)) eqn:Z; [cbn [fst snd]; split; auto; apply void_inv|].
    assert (Man : c_manual c = true) by (destruct (c_manual c); auto; rewrite orb_true_r in Z; discriminate).
    rewrite Man. cbn [negb].
    pose proof (core_set_on_start c s m (ss_started s) Man C) as C1.
    destruct (negb (ss_enabled s) && ss_started s).
    + destruct (restart_lift c s _ _ C1 ltac:(msimpl; lia)) as (x & Hr & Hok & Hc).
      rewrite Hr. cbn [fst snd]. split; auto. right; auto.
    + cbn [fst snd on_sched]. split; auto. right; auto.
  - (* StartN *)
    destruct ((m_map m =? 0) || (k =? 0) || negb (c_manual c)) eqn:Z; [cbn [fst snd]; split; auto; apply void_inv|].
    assert (Man : c_manual c = true) by (destruct (c_manual c); auto; rewrite orb_true_r in Z; discriminate).
    rewrite Man. cbn [negb].
    assert (Hk : (k =? 0) = false) by lia. rewrite Hk.
    pose proof (core_set_on_startn c s m (ss_started s) k Man ltac:(lia) C) as C1.
    destruct (negb (ss_enabled s) && ss_started s).
    + destruct (restart_lift c s _ _ C1 ltac:(msimpl; lia)) as (x & Hr & Hok & Hc).
      rewrite Hr. cbn [fst snd]. split; auto. right; auto.
    + cbn [fst snd on_sched]. split; auto. right; auto.
  - (* Stop *)
    destruct (negb (c_manual c)) eqn:Man; [cbn [fst snd]; split; auto; apply void_inv|].
    cbn [fst snd]. split; auto. right.
    unfold core24, current_interval, current_channel, budget_ok in *. psimpl. msimpl.
    refine (conj Cm (conj Clt (conj Ci (conj _ Cp)))). destruct (c_manual c); [|discriminate]. split; auto.
  - (* AddCh *)
    destruct (negb (m_pending m =? 0) || negb (in_adv_channels ch) || negb (c_varmap c)) eqn:Z;
      [cbn [fst snd]; split; auto; apply void_inv|].
    assert (VM : c_varmap c = true) by (destruct (c_varmap c); auto; rewrite orb_true_r in Z; discriminate).
    assert (Hin : in_adv_channels ch = true) by (destruct (in_adv_channels ch); auto; rewrite VM in Z; cbn in Z; rewrite orb_true_r in Z; discriminate).
    rewrite VM, Hin. cbn [negb fst snd]. split; auto. right.
    unfold core24, current_interval, current_channel, budget_ok in *. rewrite VM in *. psimpl. msimpl.
    unfold first_advertising_channel. rewrite Cm.
    refine (conj eq_refl (conj _ (conj Ci (conj Css _)))).
    + rewrite <- Cm. apply map_add_lt; auto.
    + intros HP. lia.
  - (* RmCh *)
    destruct (negb (m_pending m =? 0) || negb (in_adv_channels ch) || negb (c_varmap c)) eqn:Z;
      [cbn [fst snd]; split; auto; apply void_inv|].
    assert (VM : c_varmap c = true) by (destruct (c_varmap c); auto; rewrite orb_true_r in Z; discriminate).
    assert (Hin : in_adv_channels ch = true) by (destruct (in_adv_channels ch); auto; rewrite VM in Z; cbn in Z; rewrite orb_true_r in Z; discriminate).
    rewrite VM, Hin. cbn [negb fst snd]. split; auto. right.
    unfold core24, current_interval, current_channel, budget_ok in *. rewrite VM in *. psimpl. msimpl.
    unfold first_advertising_channel. rewrite Cm.
    refine (conj eq_refl (conj _ (conj Ci (conj Css _)))).
    + rewrite <- Cm. apply map_rm_lt; auto.
    + intros HP. lia.
  - (* IvalMs *)
    destruct (negb (c_varival c)) eqn:VI; [cbn [fst snd]; split; auto; apply void_inv|].
    cbn [fst snd]. split; auto. right.
    assert (VI' : c_varival c = true) by (destruct (c_varival c); auto; discriminate).
    unfold core24, current_interval, current_channel, budget_ok in *. rewrite VI' in *.
    destruct ((20 <=? ms) && (ms <=? 10240)); psimpl; msimpl; auto.
    all: try refine (conj Cm (conj Clt (conj eq_refl (conj Css Cp)))).
  - (* IvalUs *)
    destruct (negb (c_varival c)) eqn:VI; [cbn [fst snd]; split; auto; apply void_inv|].
    cbn [fst snd]. split; auto. right.
    assert (VI' : c_varival c = true) by (destruct (c_varival c); auto; discriminate).
    unfold core24, current_interval, current_channel, budget_ok in *. rewrite VI' in *.
    destruct ((20000 <=? us) && (us <=? 10240000)); psimpl; msimpl; auto.
    all: try refine (conj Cm (conj Clt (conj eq_refl (conj Css Cp)))).
  - (* DAddr *)
    destruct (m_map m =? 0) eqn:Z; [cbn [fst snd]; split; auto; apply void_inv|].
    destruct (negb (has_directed c)); [cbn [fst snd]; split; auto; apply void_inv|].
    set (s1 := set_daddr s a (negb (addr_eqb a zero_addr))).
    assert (C1 : core24 c s1 m) by (apply core_frame with (s := s); auto; unfold s1, same24; psimpl; repeat split).
    destruct (negb (d_valid s) && negb (addr_eqb a zero_addr) && d_started s).
    + destruct (restart_lift c s _ _ C1 ltac:(lia)) as (x & Hr & Hok & Hc).
      rewrite Hr. cbn [fst snd]. split; auto. right; auto.
    + cbn [fst snd on_sched]. split; auto. right; auto.
  - (* Chg *)
    destruct (is_multi c && Nat.ltb k (length (types_of c))); cbn [fst snd]; split; auto; try apply void_inv.
    right. apply core_frame with (s := s); auto. unfold same24; psimpl; repeat split.
  - (* DataChanged *)
    cbn [fst snd]. split; auto. right. apply core_frame with (s := s); auto. unfold same24; psimpl; repeat split.
  - cbn [fst snd]. split; auto. right; auto.
  - cbn [fst snd]. split; auto. right; auto.
Qed.

Lemma init_inv24 c : inv24 c (init c) (minit24 c).
Proof.
  right. unfold core24, init, minit24, current_interval, current_channel, budget_ok. psimpl. msimpl.
  split; [destruct (c_varmap c); reflexivity|].
  split; [reflexivity|].
  split; [reflexivity|].
  split; [destruct (c_manual c); cbn [negb]; auto; split; auto; discriminate|].
  intros H. exfalso. revert H. apply N.lt_irrefl.
Qed.

Lemma monitor24_from_ok c ops :
  forall s m pos, inv24 c s m -> monitor_from (mstep24 c) m pos (run c s ops) = None.
Proof.
  induction ops as [|o t IH]; intros s m pos I; cbn [run]; [reflexivity|].
  pose proof (step24_ok c s m o I) as H.
  destruct (step c s o) as [s' r]. cbn [fst snd] in H. cbn [monitor_from].
  destruct (mstep24 c m o r) as [v m']. cbn [fst snd] in H. destruct H as [-> I']. apply IH; auto.
Qed.

Theorem monitor24_accepts_model c ops : monitor24 c (run c (init c) ops) = None.
Proof. apply monitor24_from_ok. apply init_inv24. Qed.

(* ------------------------------------------------------------------ the stepping function as a cycle *)
Definition nth_channel (map : N) (k : nat) : N :=
  nth (k mod length (enabled_channels map)) (enabled_channels map) 0.

Lemma iter_plus (A : Type) (f : A -> A) a b x : Nat.iter (a + b) f x = Nat.iter a f (Nat.iter b f x).
Proof. unfold Nat.iter. induction a; simpl; [reflexivity | rewrite IHa; reflexivity]. Qed.

Lemma iter_period (A : Type) (f : A -> A) x L :
  (0 < L)%nat -> Nat.iter L f x = x -> forall k, Nat.iter k f x = Nat.iter (k mod L) f x.
Proof.
  intros HL P k.
  assert (Q : forall q, Nat.iter (q * L) f x = x).
  { induction q; [reflexivity|]. cbn [Nat.mul]. rewrite iter_plus, IHq. auto. }
  pose proof (Nat.div_mod k L ltac:(lia)) as E.
  replace (Nat.iter k f x) with (Nat.iter (k mod L + (k / L) * L) f x) by (f_equal; lia).
  rewrite iter_plus, Q. reflexivity.
Qed.

Local Transparent first_channel_index var_next.
Lemma var_cycle map k :
  0 < map < 8 ->
  Nat.iter k (var_next map) (first_channel_index map) + 37 = nth_channel map k /\
  (Nat.iter k (var_next map) (first_channel_index map) =? first_channel_index map)
    = Nat.eqb (k mod length (enabled_channels map)) 0.
Proof.
  intros Hm. unfold nth_channel.
  destruct (map_cases map Hm) as [->|[->|[->|[->|[->|[->| ->]]]]]];
  match goal with |- context [length (enabled_channels ?m)] =>
    let L := eval vm_compute in (length (enabled_channels m)) in
    change (length (enabled_channels m)) with L;
    rewrite (iter_period N (var_next m) (first_channel_index m) L ltac:(lia) ltac:(vm_compute; reflexivity) k);
    pose proof (Nat.mod_upper_bound k L ltac:(lia)) as B;
    set (r := (k mod L)%nat) in *; clearbody r
  end;
  (destruct r as [|[|[|r]]]; [vm_compute; auto ..| try lia]); try lia; vm_compute; auto.
Qed.
Local Opaque first_channel_index var_next.

Lemma all_cycle k :
  Nat.iter k (fun i => if i =? 39 then 37 else i + 1) 37 = nth_channel 7 k /\
  (Nat.iter k (fun i => if i =? 39 then 37 else i + 1) 37 =? 37) = Nat.eqb (k mod length (enabled_channels 7)) 0.
Proof.
  unfold nth_channel. change (length (enabled_channels 7)) with 3%nat.
  rewrite (iter_period N (fun i => if i =? 39 then 37 else i + 1) 37 3 ltac:(lia) ltac:(vm_compute; reflexivity) k).
  pose proof (Nat.mod_upper_bound k 3 ltac:(lia)) as B. set (r := (k mod 3)%nat) in *. clearbody r.
  destruct r as [|[|[|r]]]; try lia; vm_compute; auto.
Qed.

(* ------------------------------------------------------------------ a steady run *)
Definition steady_cfg (c : cfg) : Prop :=
  c_manual c = false /\ is_multi c = false /\ hd TUndirected (types_of c) <> TDirected.

Lemma fill_steady c s : steady_cfg c -> fst (fill_advertising_data c s) = true.
Proof.
  intros (_ & M & D). unfold fill_advertising_data, sel_type. rewrite M.
  destruct (hd TUndirected (types_of c)); try reflexivity. congruence.
Qed.

Lemma get_steady c s : steady_cfg c -> get_advertising_data c s = true.
Proof.
  intros (_ & M & D). unfold get_advertising_data, sel_type. rewrite M.
  destruct (hd TUndirected (types_of c)); try reflexivity. congruence.
Qed.

Lemma timeout_always c s :
  steady_cfg c -> (c_varmap c = true -> ch_map s <> 0) ->
  exists s' ch d t, handle_adv_timeout c s = Some (s', Sched ch d t).
Proof.
  intros SC Hm. pose proof SC as (Man & Mul & D). unfold handle_adv_timeout. rewrite Mul.
  set (ns := if data_changed s then _ else _).
  assert (E : fst ns = true /\ ch_map (snd ns) = ch_map s).
  { unfold ns. destruct (data_changed s); cbn [fst snd].
    - split; [apply fill_steady; auto|]. pose proof (fill_same c (set_changed s false)) as F. apply F.
    - split; [apply get_steady; auto|reflexivity]. }
  destruct ns as [ne s2]. cbn [fst snd] in E. destruct E as [-> Em]. cbn [negb].
  unfold continued_advertising_events. rewrite Man. cbn [negb].
  unfold next_channel. destruct (c_varmap c).
  - rewrite Em. destruct (ch_map s =? 0) eqn:Z; [specialize (Hm eq_refl); lia|].
    destruct (next_adv_event c _) as [d s5]. eauto.
  - destruct (next_adv_event c _) as [d s5]. eauto.
Qed.

Lemma start_always c s :
  steady_cfg c -> (c_varmap c = true -> ch_map s <> 0) ->
  exists s' ch d t, handle_start_advertising c s = Some (s', Sched ch d t).
Proof.
  intros SC Hm. pose proof SC as (Man & Mul & D). unfold handle_start_advertising. rewrite Mul.
  pose proof (fill_steady c s SC) as F1. pose proof (fill_same c s) as F2.
  destruct (fill_advertising_data c s) as [ne s2]. cbn [fst snd] in *. subst ne. cbn [negb].
  unfold begin_of_advertising_events. rewrite Man. cbn [negb].
  unfold first_channel. destruct (c_varmap c).
  - destruct F2 as (_ & Em & _). rewrite Em. destruct (ch_map s =? 0) eqn:Z; [specialize (Hm eq_refl); lia|]. eauto.
  - eauto.
Qed.

Definition all_next (i : N) : N := if i =? 39 then 37 else i + 1.

(* the advertiser is j PDUs into its cycle *)
Definition at_pos (c : cfg) (M I : N) (s : state) (j : nat) : Prop :=
  current_interval c s = I /\
  if c_varmap c then ch_map s = M /\ 0 < M < 8 /\ ch_idx s = Nat.iter j (var_next M) (first_channel_index M)
  else M = 7 /\ ch_idx s = Nat.iter j all_next 37.

Definition pdu_at (M I : N) (k : nat) (r : out) : Prop :=
  exists d t, r = OSched (Sched (nth_channel M k) d t) /\
    let L := length (enabled_channels M) in
    ((k mod L <> 0)%nat -> d = 0) /\ ((k mod L = 0)%nat -> (0 < k)%nat -> I <= d <= I + 10000).

Lemma steady_timeout c M I s j :
  steady_cfg c -> at_pos c M I s j ->
  exists s' r, step c s Timeout = (s', r) /\ pdu_at M I (S j) r /\ at_pos c M I s' (S j).
Proof.
  intros SC (Hi & Hp).
  assert (Hm : c_varmap c = true -> ch_map s <> 0).
  { intros V. rewrite V in Hp. lia. }
  destruct (timeout_always c s SC Hm) as (s' & ch & d & t & H).
  cbn [step]. rewrite H. cbn [lift]. exists s', (OSched (Sched ch d t)). split; auto.
  apply timeout_effect in H. destruct H as (Em & Ev & Heff & Hen & Hmz & Hch & Hidx & Hd).
  assert (Hint : current_interval c s' = I) by (unfold current_interval in *; rewrite Ev; auto).
  unfold at_pos, pdu_at. rewrite Hint. rewrite Hi in Hd.
  unfold current_channel, first_channel_selected in *. rewrite Em in *.
  destruct (c_varmap c).
  - destruct Hp as (HM & Hlt & Hj). rewrite HM in *.
    assert (Hidx' : ch_idx s' = Nat.iter (S j) (var_next M) (first_channel_index M)) by (rewrite Hidx, Hj; reflexivity).
    destruct (var_cycle M (S j) Hlt) as [V1 V2]. rewrite <- Hidx' in V1, V2.
    split; [|auto].
    exists d, t. unfold first_advertising_channel in Hch. rewrite Hch, V1. split; auto. cbv zeta.
    rewrite V2 in Hd. split.
    + intros Hk. destruct Hd as [[_ ->]|[Hd _]]; auto. apply Nat.eqb_eq in Hd. contradiction.
    + intros Hk _. destruct Hd as [[Hd _]|[_ Hd]]; auto. apply Nat.eqb_neq in Hd. contradiction.
  - destruct Hp as (HM & Hj). subst M.
    assert (Hidx' : ch_idx s' = Nat.iter (S j) all_next 37) by (rewrite Hidx, Hj; reflexivity).
    destruct (all_cycle (S j)) as [V1 V2]. fold all_next in V1, V2. rewrite <- Hidx' in V1, V2.
    split; [|auto].
    exists d, t. rewrite Hch, V1. split; auto. cbv zeta.
    unfold first_advertising_channel in Hd. rewrite V2 in Hd. split.
    + intros Hk. destruct Hd as [[_ ->]|[Hd _]]; auto. apply Nat.eqb_eq in Hd. contradiction.
    + intros Hk _. destruct Hd as [[Hd _]|[_ Hd]]; auto. apply Nat.eqb_neq in Hd. contradiction.
Qed.

Lemma steady_timeouts c M I n :
  steady_cfg c -> forall s j, at_pos c M I s j ->
  forall k, (k < n)%nat -> pdu_at M I (S j + k) (nth k (map snd (run c s (repeat Timeout n))) OFault).
Proof.
  intros SC. induction n as [|n IH]; intros s j P k Hk; [lia|].
  destruct (steady_timeout c M I s j SC P) as (s' & r & E & Hr & P').
  cbn [repeat run]. rewrite E. cbn [map snd nth].
  destruct k as [|k].
  - rewrite Nat.add_0_r. auto.
  - replace (S j + S k)%nat with (S (S j) + k)%nat by lia. apply IH; auto. lia.
Qed.

Theorem steady_run c s n :
  steady_cfg c -> (c_varmap c = true -> 0 < ch_map s < 8) ->
  let M := if c_varmap c then ch_map s else 7 in
  let I := current_interval c s in
  let outs := map snd (run c s (LStart :: repeat Timeout n)) in
  (exists t, nth 0 outs OFault = OSched (Sched (nth_channel M 0) 0 t)) /\
  forall k, (0 < k <= n)%nat -> pdu_at M I k (nth k outs OFault).
Proof.
  intros SC Hm M I outs.
  assert (Hm' : c_varmap c = true -> ch_map s <> 0) by (intros V; specialize (Hm V); lia).
  destruct (start_always c s SC Hm') as (s1 & ch & d & t & H).
  unfold outs. cbn [run step]. rewrite H. cbn [lift map snd nth].
  apply start_effect in H. destruct H as (Em & Ev & Heff & Hen & Hmz & Hch & Hidx & Hd0).
  assert (P : at_pos c M I s1 0).
  { unfold at_pos, M, I, current_interval in *. rewrite Ev. split; auto.
    destruct (c_varmap c); [rewrite Em; repeat split; auto; apply Hm; auto| auto]. }
  split.
  - exists t. rewrite Hd0, Hch. unfold current_channel. rewrite Hidx. unfold M, nth_channel.
    destruct (c_varmap c).
    + destruct (var_cycle (ch_map s) 0 (Hm eq_refl)) as [V1 _]. cbn [Nat.iter nat_rect] in V1.
      unfold first_advertising_channel, nth_channel in *. rewrite V1. reflexivity.
    + reflexivity.
  - intros k Hk. destruct k as [|k]; [lia|]. cbn [nth].
    pose proof (steady_timeouts c M I n SC s1 0%nat P k ltac:(lia)) as Q. exact Q.
Qed.
Print Assumptions steady_run.
