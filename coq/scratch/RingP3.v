From BT Require Import Base.ListX Ring.RingModel Ring.RingSpec.
From Coq Require Import Lia ZifyBool.
From BT Require Import scratch.RingP1 scratch.RingP2.
Local Open Scope nat_scope.
Local Arguments Nat.ltb : simpl never.
Local Arguments Nat.leb : simpl never.
Local Arguments Nat.eqb : simpl never.
Local Arguments Nat.modulo : simpl never.
Local Arguments Nat.max : simpl never.

Ltac destr_all st m :=
  destruct st as [cap0 rd0 wr0 data0 pp0 cp0];
  destruct m as [mS0 mq0 [pin0 pfull0 pdone0] [cin0 cempty0 chead0] [pown0 pknow0 cown0 cknow0 relr0 relw0 lastw0 lastr0]].

Lemma step_p_inv S st m R W v0 :
  Inv S st m R W ->
  exists m' W', mstep m (OpP v0) (snd (step_p st v0)) = (Ok, m') /\ Inv S (fst (step_p st v0)) m' R W'.
Proof.
  intros I. destr_all st m. destruct I. unfold pp_inv, cp_inv in *. cbn in *. subst.
  unfold step_p. cbn. destruct pp0 as [|v r|v w nxt|v nxt]; cbn in *.
  - (* PIdle: load read_ptr_ *)
    subst pin0. cbn. eexists. exists W. split; [reflexivity|].
    constructor; cbn; auto; try lia.
    rewrite Nat.max_r by lia. repeat split; auto; try lia.
  - (* PGotR: load write_ptr_, full test *)
    destruct i_pp as (Hpin & Hdone & Hr & Hle & Hfull). subst pin0 pdone0 r.
    rewrite mod_succ by lia.
    destruct (Nat.eqb ((W + 1) mod (S + 1)) (pknow0 mod (S + 1))) eqn:E.
    + apply Nat.eqb_eq in E. symmetry in E.
      destruct (mod_close (S + 1) pknow0 (W + 1) ltac:(lia) ltac:(lia) E) as [H|H]; [lia|].
      rewrite Hfull by lia. cbn. eexists. exists W. split; [reflexivity|].
      constructor; cbn; auto; try lia.
    + apply Nat.eqb_neq in E. cbn. eexists. exists W. split; [reflexivity|].
      assert (W + 1 <> pknow0 + (S + 1)).
      { intros H. apply E. rewrite H. rewrite <- Nat.add_mod_idemp_r by lia.
        rewrite Nat.mod_same by lia. rewrite Nat.add_0_r. reflexivity. }
      constructor; cbn; auto; try lia.
      repeat split; auto; lia.
  - (* PGotW: data_[ w ] = v *)
    destruct i_pp as (Hpin & Hdone & Hw & Hn & Hlt). subst pin0 pdone0 w nxt.
    pose proof (Nat.mod_upper_bound W (S + 1) ltac:(lia)) as Hub.
    destruct (Nat.ltb_spec (W mod (S + 1)) (length data0)) as [Hin|Hout]; [|lia].
    cbn.
    destruct (Nat.ltb_spec (W mod (S + 1)) (S + 1)) as [_|?]; [|lia]. cbn.
    assert (Hrace : nth (W mod (S + 1)) lastr0 0 <= pknow0).
    { destruct (nth (W mod (S + 1)) lastr0 0) as [|k] eqn:En; [lia|].
      destruct (i_lastr (W mod (S + 1)) k ltac:(lia)) as [Hm Hk].
      assert (k < W).
      { destruct Hk as [Hk|[Hk Hc]]; [lia|]. destruct cp0; cbn in Hc; try contradiction. lia. }
      pose proof (mod_far (S + 1) k W ltac:(lia) H Hm). lia. }
    destruct (Nat.leb_spec (nth (W mod (S + 1)) lastr0 0) pknow0) as [_|?]; [|lia]. cbn.
    eexists. exists W. split; [reflexivity|].
    constructor; cbn; auto; try lia.
    + rewrite upd_length; auto.
    + rewrite upd_length; auto.
    + intros k Hk. rewrite nth_upd_neq; auto.
      apply not_eq_sym. apply mod_neq_window; lia.
    + intros i k H. destruct (Nat.eq_dec (W mod (S + 1)) i) as [<-|Hne].
      * rewrite nth_upd_eq in H by lia. assert (k = W) by lia. subst k. auto.
      * rewrite nth_upd_neq in H by auto. destruct (i_lastw i k H) as [? [?|[? []]]]. auto.
    + repeat split; auto. apply nth_upd_eq. lia.
  - (* PWrote: write_ptr_.store( nxt ) *)
    destruct i_pp as (Hpin & Hdone & Hn & Hlt & Hv). subst pin0 pdone0 nxt.
    cbn. destruct (Nat.ltb_spec (length mq0) S) as [_|?]; [|lia]. cbn.
    eexists. exists (W + 1). split; [reflexivity|].
    constructor; cbn; auto; try lia.
    + rewrite app_length. cbn. lia.
    + intros k Hk. destruct (Nat.lt_ge_cases k (W - R)) as [Hlo|Hhi].
      * rewrite app_nth1 by lia. auto.
      * rewrite app_nth2 by lia. replace (k - length mq0) with 0 by lia. cbn.
        replace (R + k) with W by lia. auto.
    + intros i k H. destruct (i_lastw i k H) as [Hm Hk]. split; [exact Hm|]. left. destruct Hk as [Hk|[Hk _]]; lia.
    + destruct cp0; auto.
      * destruct i_cp as (? & ? & ? & ?). repeat split; auto. intros. lia.
      * destruct i_cp as (? & ? & ? & ? & t & ?). repeat split; auto; try lia. subst mq0. cbn. eexists. reflexivity.
Qed.

Lemma step_c_inv S st m R W :
  Inv S st m R W ->
  exists m' R', mstep m OpC (snd (step_c st)) = (Ok, m') /\ Inv S (fst (step_c st)) m' R' W.
Proof.
  intros I. destr_all st m. destruct I. unfold pp_inv, cp_inv in *. cbn in *. subst.
  unfold step_c. cbn. destruct cp0 as [|r|r nxt|x nxt]; cbn in *.
  - (* CIdle: load read_ptr_ *)
    destruct i_cp as [Hc0 Hh0]. subst cin0 chead0. cbn. eexists. exists R. split; [reflexivity|].
    constructor; cbn; auto; try lia.
    + repeat split; auto. intros. apply Nat.eqb_eq. lia.
  - (* CGotR: load write_ptr_, empty test *)
    destruct i_cp as (Hin & Hhead & Hr & Hempty). subst cin0 chead0 r.
    destruct (Nat.eqb (R mod (S + 1)) (W mod (S + 1))) eqn:E.
    + apply Nat.eqb_eq in E. apply mod_inj_window in E; [|lia|lia]. subst W.
      rewrite Hempty by auto. cbn. eexists. exists R. split; [reflexivity|].
      constructor; cbn; auto; try lia.
    + apply Nat.eqb_neq in E. assert (R <> W) by (intros ->; auto).
      cbn. eexists. exists R. split; [reflexivity|].
      constructor; cbn; auto; try lia.
      repeat split; auto; try lia. apply mod_succ. lia.
  - (* CGotW: out = data_[ r ] *)
    destruct i_cp as (Hin & Hhead & Hr & Hn & Hlt). subst cin0 chead0 r nxt.
    pose proof (Nat.mod_upper_bound R (S + 1) ltac:(lia)) as Hub.
    destruct (nth_error data0 (R mod (S + 1))) as [x|] eqn:En;
      [|apply nth_error_None in En; lia].
    apply (nth_error_nth data0 (R mod (S + 1)) 0%N) in En.
    cbn.
    destruct (Nat.ltb_spec (R mod (S + 1)) (S + 1)) as [_|?]; [|lia]. cbn.
    assert (Hrace : nth (R mod (S + 1)) lastw0 0 <= cknow0).
    { destruct (nth (R mod (S + 1)) lastw0 0) as [|k] eqn:Ek; [lia|].
      destruct (i_lastw (R mod (S + 1)) k ltac:(lia)) as [Hm Hk].
      assert (k <= R).
      { destruct (Nat.le_gt_cases k R); auto. exfalso.
        apply (mod_neq_window (S + 1) R k); [lia| |auto].
        destruct Hk as [Hk|[Hk _]]; lia. }
      lia. }
    destruct (Nat.leb_spec (nth (R mod (S + 1)) lastw0 0) cknow0) as [_|?]; [|lia]. cbn.
    eexists. exists R. split; [reflexivity|].
    constructor; cbn; auto; try lia.
    + rewrite upd_length; auto.
    + intros i k H. destruct (Nat.eq_dec (R mod (S + 1)) i) as [<-|Hne].
      * rewrite nth_upd_eq in H by lia. assert (k = R) by lia. subst k. auto.
      * rewrite nth_upd_neq in H by auto. destruct (i_lastr i k H) as [? [?|[? []]]]. auto.
    + repeat split; auto.
      destruct mq0 as [|h t]; cbn in i_qlen; [lia|].
      specialize (i_q 0 ltac:(lia)). cbn in i_q. rewrite Nat.add_0_r in i_q.
      exists t. congruence.
  - (* CRead: read_ptr_.store( nxt ) *)
    destruct i_cp as (Hin & Hhead & Hn & Hlt & t & Hq). subst cin0 chead0 nxt mq0.
    cbn. rewrite N.eqb_refl. cbn.
    eexists. exists (R + 1). split; [reflexivity|].
    cbn in i_qlen.
    constructor; cbn; auto; try lia.
    + intros k Hk. specialize (i_q (k + 1) ltac:(lia)).
      replace (k + 1) with (Datatypes.S k) in i_q at 1 by lia. cbn in i_q.
      replace (R + 1 + k) with (R + (k + 1)) by lia. auto.
    + intros i k H. destruct (i_lastr i k H) as [Hm Hk]. split; [exact Hm|].
      left. destruct Hk as [Hk|[Hk _]]; lia.
Qed.
