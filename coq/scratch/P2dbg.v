From BT Require Import Base.ListX SduBuf.SduBufModel SduBuf.SduBufSpec.
From Coq Require Import Lia ZifyBool.
From BT Require Import scratch.P1.
Local Open Scope N_scope.

Definition nn := N.to_nat.

(* transmit side: model state vs. the monitor's outgoing SDU. [weak]: inside try_send_pdus the
   used counter is not yet reset when the last fragment was committed *)
Definition tx_rel (weak : bool) (c : cfg) (s : state) (cur : option (list N * bool)) : Prop :=
  match cur with
  | None => tsize s = 0 /\ (weak = false -> tused s = 0)
  | Some (rem, false) =>
      tused s = 0 /\ tsize s = ll_overhead c + lenN rem /\ tsize s <= lenN (tbuf s) /\ 4 <= lenN rem /\
      skipn (nn (ll_overhead c)) (firstn (nn (tsize s)) (tbuf s)) = rem
  | Some (rem, true) =>
      tused s <> 0 /\ tsize s = lenN rem /\ rem <> [] /\ tused s + tsize s <= lenN (tbuf s) /\
      firstn (nn (tsize s)) (skipn (nn (tused s)) (tbuf s)) = rem
  end.

(* everything try_send_pdus does not touch *)
Definition tx_frame (s s' : state) (sent : list pdu) : Prop :=
  rbuf s' = rbuf s /\ rsize s' = rsize s /\ rused s' = rused s /\ tbuf s' = tbuf s /\ rxq s' = rxq s /\
  txq s' = txq s ++ sent /\ max_rx s' = max_rx s /\ max_tx s' = max_tx s /\ handed s' = handed s /\
  faulted s' = faulted s.

Lemma tx_frame_refl s : tx_frame s s [].
Proof. unfold tx_frame. rewrite app_nil_r. tauto. Qed.

Lemma skipn_firstn_sub (l : list N) (a b : nat) :
  (a <= b)%nat -> skipn a (firstn b l) = firstn (b - a) (skipn a l).
Proof. intros. rewrite skipn_firstn_comm. reflexivity. Qed.

Lemma try_send_eq c g s :
  try_send c g s =
  if tsize s =? 0 then Some (set_tx s (tbuf s) (tsize s) 0, [])
  else
    match g with
    | O => Some (s, [])
    | S g' =>
        let llo := ll_overhead c in
        let first := tused s =? 0 in
        let bsz := N.min (tsize s + (if first then 0 else llo)) (max_tx s) in
        if first then
          let cs := N.min bsz (tsize s) in
          if (bsz <? cs) || (cs <? llo) || (256 <=? cs - llo) then None
          else
            match read_at (tbuf s) 0 cs with
            | None => None
            | Some bytes =>
                let p : pdu := (2, skipn (N.to_nat llo) bytes) in
                match try_send c g' (set_txq (set_tx s (tbuf s) (tsize s - cs) (tused s + cs)) (txq s ++ [p])) with
                | None => None
                | Some (s', sent) => Some (s', p :: sent)
                end
            end
        else
          if bsz <? llo then None
          else
            let cs := N.min (bsz - llo) (tsize s) in
            if 256 <=? cs then None
            else
              match read_at (tbuf s) (tused s) cs with
              | None => None
              | Some bytes =>
                  let p : pdu := (1, bytes) in
                  match try_send c g' (set_txq (set_tx s (tbuf s) (tsize s - cs) (tused s + cs)) (txq s ++ [p])) with
                  | None => None
                  | Some (s', sent) => Some (s', p :: sent)
                  end
              end
    end.
Proof. destruct g; reflexivity. Qed.

Lemma try_send_ok c : wf_cfg c ->
  forall g s cur,
    tx_rel true c s cur -> min_buffer_size <= max_tx s <= max_buffer_size ->
    exists s' sent cur',
      try_send c g s = Some (s', sent) /\ judge_tx (max_tx s) cur sent = (Ok, cur') /\
      tx_rel false c s' cur' /\ tx_frame s s' sent.
Proof.
  intros (Hm & H16 & Hoh). unfold min_buffer_size, max_buffer_size.
  assert (Hllo : ll_overhead c <= 18) by (unfold ll_overhead, header_size; lia).
  induction g as [|g IH]; intros s cur HR Hmax.
  - (* no grant *)
    rewrite try_send_eq. destruct cur as [[rem [|]]|]; simpl in HR.
    + destruct HR as (U & S & NE & B & E).
      assert (tsize s <> 0) by (destruct rem; [congruence| rewrite S, lenN_cons; lia]).
      destruct (N.eqb_spec (tsize s) 0); [lia|].
      exists s, [], (Some (rem, true)). simpl.
      refine (conj eq_refl (conj eq_refl (conj _ (tx_frame_refl s)))). repeat split; auto.
    + destruct HR as (U & S & B & L4 & E).
      destruct (N.eqb_spec (tsize s) 0); [lia|].
      exists s, [], (Some (rem, false)). simpl.
      refine (conj eq_refl (conj eq_refl (conj _ (tx_frame_refl s)))). repeat split; auto.
    + destruct HR as (S & _). destruct (N.eqb_spec (tsize s) 0); [|lia].
      exists (set_tx s (tbuf s) (tsize s) 0), [], None. simpl.
      refine (conj eq_refl (conj eq_refl (conj _ _))); [split; auto|].
      unfold tx_frame; simpl. rewrite app_nil_r. tauto.
  - rewrite try_send_eq. cbv zeta. destruct cur as [[rem [|]]|]; simpl in HR.
    + (* continuation fragment *)
      destruct HR as (U & S & NE & B & E).
      assert (T0 : tsize s <> 0) by (destruct rem; [congruence| rewrite S, lenN_cons; lia]).
      destruct (N.eqb_spec (tsize s) 0); [lia|].
      destruct (N.eqb_spec (tused s) 0); [lia|].
      set (llo := ll_overhead c) in *.
      set (bsz := N.min (tsize s + llo) (max_tx s)).
      destruct (N.ltb_spec bsz llo); [unfold bsz in *; lia|].
      set (cs := N.min (bsz - llo) (tsize s)).
      assert (Hcs : 0 < cs <= tsize s /\ cs + llo <= max_tx s) by (unfold cs, bsz; lia).
      destruct (N.leb_spec 256 cs); [lia|].
      rewrite read_at_some by lia.
      set (bytes := firstn (N.to_nat cs) (skipn (N.to_nat (tused s)) (tbuf s))).
      set (s1 := set_txq (set_tx s (tbuf s) (tsize s - cs) (tused s + cs)) (txq s ++ [(1, bytes)])).
      assert (Hb : bytes = firstn (N.to_nat cs) rem).
      { unfold bytes. rewrite <- E. unfold nn. rewrite firstn_firstn. f_equal. lia. }
      assert (Lb : lenN bytes = cs).
      { unfold bytes. apply lenN_firstn. rewrite lenN_skipn. lia. }
      set (rem' := skipn (length bytes) rem).
      assert (Lr : length bytes = N.to_nat cs) by (unfold lenN in Lb; lia).
      assert (HR1 : tx_rel true c s1 (match rem' with [] => None | _ => Some (rem', true) end)).
      { assert (Lrem' : lenN rem' = tsize s - cs).
        { unfold rem'. rewrite Lr, lenN_skipn. lia. }
        assert (Erem' : firstn (nn (tsize s - cs)) (skipn (nn (tused s + cs)) (tbuf s)) = rem').
        { unfold rem'. rewrite Lr, <- E. unfold nn.
          rewrite skipn_firstn_comm, skipn_skipn'. f_equal; [lia|]. f_equal. lia. }
        destruct rem' as [|x r'] eqn:Er.
        - simpl. split; [rewrite lenN_nil in Lrem'; simpl; lia| discriminate].
        - simpl. repeat split; try lia; try discriminate. exact Erem'. }
      destruct (IH s1 _ HR1) as (s' & sent & cur' & T & J & HR' & F); [simpl; lia|].
      Show.
      rewrite T. exists s', ((1, bytes) :: sent), cur'. split; [reflexivity|]. split; [|split]; auto.
      * simpl. rewrite N.eqb_refl. simpl.
        destruct (N.eqb_spec (lenN bytes) 0); [lia|]. simpl.
        rewrite Hb, prefixb_firstn. simpl. rewrite <- Hb.
        destruct (N.ltb_spec (max_tx s) (lenN bytes + 2)); [unfold llo, ll_overhead, header_size in *; lia|].
        exact J.
      * unfold tx_frame in *. simpl in F. destruct F as (F1&F2&F3&F4&F5&F6&F7&F8&F9&F10).
        repeat split; auto. rewrite F6, <- app_assoc. reflexivity.
    + (* start fragment *)
      destruct HR as (U & S & B & L4 & E).
      destruct (N.eqb_spec (tsize s) 0); [lia|].
      rewrite U. rewrite N.eqb_refl.
      set (llo := ll_overhead c) in *.
      rewrite N.add_0_r.
      set (bsz := N.min (tsize s) (max_tx s)).
      set (cs := N.min bsz (tsize s)).
      assert (Hcs : cs = bsz /\ llo < cs <= tsize s /\ cs <= max_tx s) by (unfold cs, bsz; lia).
      destruct Hcs as (Hcs0 & Hcs).
      destruct (N.ltb_spec bsz cs); [lia|].
      destruct (N.ltb_spec cs llo); [lia|].
      destruct (N.leb_spec 256 (cs - llo)); [lia|]. cbn [orb].
      rewrite read_at_some by lia. change (N.to_nat 0) with 0%nat. cbn [skipn].
      set (bytes := firstn (N.to_nat cs) (tbuf s)).
      set (body := skipn (N.to_nat llo) bytes).
      set (s1 := set_txq (set_tx s (tbuf s) (tsize s - cs) (0 + cs)) (txq s ++ [(2, body)])).
      assert (Hb : body = firstn (N.to_nat (cs - llo)) rem).
      { unfold body, bytes. rewrite <- E. unfold nn. rewrite firstn_skipn_comm, firstn_firstn.
        f_equal. f_equal. lia. }
      assert (Lb : lenN body = cs - llo).
      { rewrite Hb. apply lenN_firstn. lia. }
      assert (Lr : length body = N.to_nat (cs - llo)) by (unfold lenN in Lb; lia).
      set (rem' := skipn (length body) rem).
      assert (HR1 : tx_rel true c s1 (match rem' with [] => None | _ => Some (rem', true) end)).
      { assert (Lrem' : lenN rem' = tsize s - cs).
        { unfold rem'. rewrite Lr, lenN_skipn. lia. }
        assert (Erem' : firstn (nn (tsize s - cs)) (skipn (nn (0 + cs)) (tbuf s)) = rem').
        { unfold rem'. rewrite Lr, <- E. unfold nn.
          rewrite skipn_skipn', skipn_firstn_comm. f_equal; [lia|]. f_equal. lia. }
        destruct rem' as [|x r'] eqn:Er.
        - simpl. split; [rewrite lenN_nil in Lrem'; simpl; lia| discriminate].
        - simpl. repeat split; try lia; try discriminate. exact Erem'. }
      destruct (IH s1 _ HR1) as (s' & sent & cur' & T & J & HR' & F); [simpl; lia|].
      rewrite T. exists s', ((2, body) :: sent), cur'. split; [reflexivity|]. split; [|split]; auto.
      * simpl.
        destruct (N.eqb_spec (lenN body) 0); [lia|]. simpl.
        rewrite Hb, prefixb_firstn. simpl. rewrite <- Hb.
        destruct (N.ltb_spec (max_tx s) (lenN body + 2)); [unfold llo, ll_overhead, header_size in *; lia|].
        exact J.
      * unfold tx_frame in *. simpl in F. destruct F as (F1&F2&F3&F4&F5&F6&F7&F8&F9&F10).
        repeat split; auto. rewrite F6, <- app_assoc. reflexivity.
    + destruct HR as (S & _). destruct (N.eqb_spec (tsize s) 0); [|lia].
      exists (set_tx s (tbuf s) (tsize s) 0), [], None. simpl.
      refine (conj eq_refl (conj eq_refl (conj _ _))); [split; auto|].
      unfold tx_frame; simpl. rewrite app_nil_r. tauto.
Qed.
