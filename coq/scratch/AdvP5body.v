
(* ------------------------------------------------------------------ the stepping function as a cycle *)
Definition nth_channel (map : N) (k : nat) : N :=
  nth (k mod length (enabled_channels map)) (enabled_channels map) 0.

Lemma iter_plus (A : Type) (f : A -> A) a b x : Nat.iter (a + b) f x = Nat.iter a f (Nat.iter b f x).
Proof. unfold Nat.iter. induction a; simpl; [reflexivity | rewrite IHa; reflexivity]. Qed.

Lemma iter_period (A : Type) (f : A -> A) x L :
  (0 < L)%nat -> Nat.iter L f x = x -> forall k, Nat.iter k f x = Nat.iter (k mod L) f x.
Proof.
  intros HL P k.
  assert (Q : forall q, Nat.iter (q * L) f x = x).
  { induction q; [reflexivity|]. cbn [Nat.mul]. rewrite iter_plus, IHq. auto. }
  pose proof (Nat.div_mod k L ltac:(lia)) as E.
  replace (Nat.iter k f x) with (Nat.iter (k mod L + (k / L) * L) f x) by (f_equal; lia).
  rewrite iter_plus, Q. reflexivity.
Qed.

Local Transparent first_channel_index var_next.
Lemma var_cycle map k :
  0 < map < 8 ->
  Nat.iter k (var_next map) (first_channel_index map) + 37 = nth_channel map k /\
  (Nat.iter k (var_next map) (first_channel_index map) =? first_channel_index map)
    = Nat.eqb (k mod length (enabled_channels map)) 0.
Proof.
  intros Hm. unfold nth_channel.
  destruct (map_cases map Hm) as [->|[->|[->|[->|[->|[->| ->]]]]]];
  match goal with |- context [length (enabled_channels ?m)] =>
    let L := eval vm_compute in (length (enabled_channels m)) in
    change (length (enabled_channels m)) with L;
    rewrite (iter_period N (var_next m) (first_channel_index m) L ltac:(lia) ltac:(vm_compute; reflexivity) k);
    pose proof (Nat.mod_upper_bound k L ltac:(lia)) as B;
    set (r := (k mod L)%nat) in *; clearbody r
  end;
  (destruct r as [|[|[|r]]]; [vm_compute; auto ..| try lia]); try lia; vm_compute; auto.
Qed.
Local Opaque first_channel_index var_next.

Lemma all_cycle k :
  Nat.iter k (fun i => if i =? 39 then 37 else i + 1) 37 = nth_channel 7 k /\
  (Nat.iter k (fun i => if i =? 39 then 37 else i + 1) 37 =? 37) = Nat.eqb (k mod length (enabled_channels 7)) 0.
Proof.
  unfold nth_channel. change (length (enabled_channels 7)) with 3%nat.
  rewrite (iter_period N (fun i => if i =? 39 then 37 else i + 1) 37 3 ltac:(lia) ltac:(vm_compute; reflexivity) k).
  pose proof (Nat.mod_upper_bound k 3 ltac:(lia)) as B. set (r := (k mod 3)%nat) in *. clearbody r.
  destruct r as [|[|[|r]]]; try lia; vm_compute; auto.
Qed.

(* ------------------------------------------------------------------ a steady run *)
Definition steady_cfg (c : cfg) : Prop :=
  c_manual c = false /\ is_multi c = false /\ hd TUndirected (types_of c) <> TDirected.

Lemma fill_steady c s : steady_cfg c -> fst (fill_advertising_data c s) = true.
Proof.
  intros (_ & M & D). unfold fill_advertising_data, sel_type. rewrite M.
  destruct (hd TUndirected (types_of c)); try reflexivity. congruence.
Qed.

Lemma get_steady c s : steady_cfg c -> get_advertising_data c s = true.
Proof.
  intros (_ & M & D). unfold get_advertising_data, sel_type. rewrite M.
  destruct (hd TUndirected (types_of c)); try reflexivity. congruence.
Qed.

Lemma timeout_always c s :
  steady_cfg c -> (c_varmap c = true -> ch_map s <> 0) ->
  exists s' ch d t, handle_adv_timeout c s = Some (s', Sched ch d t).
Proof.
  intros SC Hm. pose proof SC as (Man & Mul & D). unfold handle_adv_timeout. rewrite Mul.
  set (ns := if data_changed s then _ else _).
  assert (E : fst ns = true /\ ch_map (snd ns) = ch_map s).
  { unfold ns. destruct (data_changed s); cbn [fst snd].
    - split; [apply fill_steady; auto|]. pose proof (fill_same c (set_changed s false)) as F. apply F.
    - split; [apply get_steady; auto|reflexivity]. }
  destruct ns as [ne s2]. cbn [fst snd] in E. destruct E as [-> Em]. cbn [negb].
  unfold continued_advertising_events. rewrite Man. cbn [negb].
  unfold next_channel. destruct (c_varmap c).
  - rewrite Em. destruct (ch_map s =? 0) eqn:Z; [specialize (Hm eq_refl); lia|].
    destruct (next_adv_event c _) as [d s5]. eauto.
  - destruct (next_adv_event c _) as [d s5]. eauto.
Qed.

Lemma start_always c s :
  steady_cfg c -> (c_varmap c = true -> ch_map s <> 0) ->
  exists s' ch d t, handle_start_advertising c s = Some (s', Sched ch d t).
Proof.
  intros SC Hm. pose proof SC as (Man & Mul & D). unfold handle_start_advertising. rewrite Mul.
  pose proof (fill_steady c s SC) as F1. pose proof (fill_same c s) as F2.
  destruct (fill_advertising_data c s) as [ne s2]. cbn [fst snd] in *. subst ne. cbn [negb].
  unfold begin_of_advertising_events. rewrite Man. cbn [negb].
  unfold first_channel. destruct (c_varmap c).
  - destruct F2 as (_ & Em & _). rewrite Em. destruct (ch_map s =? 0) eqn:Z; [specialize (Hm eq_refl); lia|]. eauto.
  - eauto.
Qed.

Definition all_next (i : N) : N := if i =? 39 then 37 else i + 1.

(* the advertiser is j PDUs into its cycle *)
Definition at_pos (c : cfg) (M I : N) (s : state) (j : nat) : Prop :=
  current_interval c s = I /\
  if c_varmap c then ch_map s = M /\ 0 < M < 8 /\ ch_idx s = Nat.iter j (var_next M) (first_channel_index M)
  else M = 7 /\ ch_idx s = Nat.iter j all_next 37.

Definition pdu_at (M I : N) (k : nat) (r : out) : Prop :=
  exists d t, r = OSched (Sched (nth_channel M k) d t) /\
    let L := length (enabled_channels M) in
    ((k mod L <> 0)%nat -> d = 0) /\ ((k mod L = 0)%nat -> (0 < k)%nat -> I <= d <= I + 10000).

Lemma steady_timeout c M I s j :
  steady_cfg c -> at_pos c M I s j ->
  exists s' r, step c s Timeout = (s', r) /\ pdu_at M I (S j) r /\ at_pos c M I s' (S j).
Proof.
  intros SC (Hi & Hp).
  assert (Hm : c_varmap c = true -> ch_map s <> 0).
  { intros V. rewrite V in Hp. lia. }
  destruct (timeout_always c s SC Hm) as (s' & ch & d & t & H).
  cbn [step]. rewrite H. cbn [lift]. exists s', (OSched (Sched ch d t)). split; auto.
  apply timeout_effect in H. destruct H as (Em & Ev & Heff & Hen & Hmz & Hch & Hidx & Hd).
  assert (Hint : current_interval c s' = I) by (unfold current_interval in *; rewrite Ev; auto).
  unfold at_pos, pdu_at. rewrite Hint. rewrite Hi in Hd.
  unfold current_channel, first_channel_selected in *. rewrite Em in *.
  destruct (c_varmap c).
  - destruct Hp as (HM & Hlt & Hj). rewrite HM in *.
    assert (Hidx' : ch_idx s' = Nat.iter (S j) (var_next M) (first_channel_index M)) by (rewrite Hidx, Hj; reflexivity).
    destruct (var_cycle M (S j) Hlt) as [V1 V2]. rewrite <- Hidx' in V1, V2.
    split; [|auto].
    exists d, t. unfold first_advertising_channel in Hch. rewrite Hch, V1. split; auto. cbv zeta.
    rewrite V2 in Hd. split.
    + intros Hk. destruct Hd as [[_ ->]|[Hd _]]; auto. apply Nat.eqb_eq in Hd. contradiction.
    + intros Hk _. destruct Hd as [[Hd _]|[_ Hd]]; auto. apply Nat.eqb_neq in Hd. contradiction.
  - destruct Hp as (HM & Hj). subst M.
    assert (Hidx' : ch_idx s' = Nat.iter (S j) all_next 37) by (rewrite Hidx, Hj; reflexivity).
    destruct (all_cycle (S j)) as [V1 V2]. fold all_next in V1, V2. rewrite <- Hidx' in V1, V2.
    split; [|auto].
    exists d, t. rewrite Hch, V1. split; auto. cbv zeta.
    unfold first_advertising_channel in Hd. rewrite V2 in Hd. split.
    + intros Hk. destruct Hd as [[_ ->]|[Hd _]]; auto. apply Nat.eqb_eq in Hd. contradiction.
    + intros Hk _. destruct Hd as [[Hd _]|[_ Hd]]; auto. apply Nat.eqb_neq in Hd. contradiction.
Qed.

Lemma steady_timeouts c M I n :
  steady_cfg c -> forall s j, at_pos c M I s j ->
  forall k, (k < n)%nat -> pdu_at M I (S j + k) (nth k (map snd (run c s (repeat Timeout n))) OFault).
Proof.
  intros SC. induction n as [|n IH]; intros s j P k Hk; [lia|].
  destruct (steady_timeout c M I s j SC P) as (s' & r & E & Hr & P').
  cbn [repeat run]. rewrite E. cbn [map snd nth].
  destruct k as [|k].
  - rewrite Nat.add_0_r. auto.
  - replace (S j + S k)%nat with (S (S j) + k)%nat by lia. apply IH; auto. lia.
Qed.

Theorem steady_run c s n :
  steady_cfg c -> (c_varmap c = true -> 0 < ch_map s < 8) ->
  let M := if c_varmap c then ch_map s else 7 in
  let I := current_interval c s in
  let outs := map snd (run c s (LStart :: repeat Timeout n)) in
  (exists t, nth 0 outs OFault = OSched (Sched (nth_channel M 0) 0 t)) /\
  forall k, (0 < k <= n)%nat -> pdu_at M I k (nth k outs OFault).
Proof.
  intros SC Hm M I outs.
  assert (Hm' : c_varmap c = true -> ch_map s <> 0) by (intros V; specialize (Hm V); lia).
  destruct (start_always c s SC Hm') as (s1 & ch & d & t & H).
  unfold outs. cbn [run step]. rewrite H. cbn [lift map snd nth].
  apply start_effect in H. destruct H as (Em & Ev & Heff & Hen & Hmz & Hch & Hidx & Hd0).
  assert (P : at_pos c M I s1 0).
  { unfold at_pos, M, I, current_interval in *. rewrite Ev. split; auto.
    destruct (c_varmap c); [rewrite Em; repeat split; auto; apply Hm; auto| auto]. }
  split.
  - exists t. rewrite Hd0, Hch. unfold current_channel. rewrite Hidx. unfold M, nth_channel.
    destruct (c_varmap c).
    + destruct (var_cycle (ch_map s) 0 (Hm eq_refl)) as [V1 _]. cbn [Nat.iter nat_rect] in V1.
      unfold first_advertising_channel, nth_channel in *. rewrite V1. reflexivity.
    + reflexivity.
  - intros k Hk. destruct k as [|k]; [lia|]. cbn [nth].
    pose proof (steady_timeouts c M I n SC s1 0%nat P k ltac:(lia)) as Q. exact Q.
Qed.
Print Assumptions steady_run.
