From BT Require Import Base.ListX Boot.BootModel Boot.BootSpec.
From Coq Require Import Lia ZifyBool.
Local Open Scope N_scope.
Lemma read_le_S v off n :
  read_le v off (S n) =
  match nth_error v off, read_le v (S off) n with
  | Some b, Some r => Some (b mod 256 + 256 * r)
  | _, _ => None
  end.
Proof. reflexivity. Qed.
Lemma read_le_lt v n : forall off r, read_le v off n = Some r -> r < 256 ^ N.of_nat n.
Proof.
  induction n as [|n IH]; intros off r H.
  - inversion H. cbn. lia.
  - rewrite read_le_S in H. destruct (nth_error v off) as [b|]; [|discriminate].
    destruct (read_le v (S off) n) as [r'|] eqn:E; [|discriminate].
    inversion H; subst. apply IH in E.
    rewrite Nat2N.inj_succ, N.pow_succ_r'.
    assert (Hb : b mod 256 < 256) by (apply N.mod_lt; lia).
    remember (256 ^ N.of_nat n) as X. remember (b mod 256) as y. clear - E Hb. Show. lia.
Qed.
