From Coq Require Import Lia ZifyBool NArith List Bool.
From BT Require Import Base.ListX LL.LLModel LL.LLSpec LL.LLSpecC28.
From BT Require gen.GenLL.
Import ListNotations.
Local Open Scope N_scope.

Definition secflags_off (s : lstate_t) : Prop :=
  has_key (sc s) = false /\ enc_prog (sc s) = false /\ is_enc (sc s) = false.

Definition R (c : cfg) (s : lstate_t) (m : mon28) : Prop :=
  q_key m = key_known (sc s)
  /\ (is_enc (sc s) = true -> q_enc m = true)
  /\ (has_key (sc s) = true -> q_req m = Some true)
  /\ (has_key (sc s) = true -> enc_prog (sc s) = false -> q_sent m = true)
  /\ (in_connection s = false -> secflags_off s)
  /\ (c_enc c = false -> secflags_off s /\ q_enc m = false).

(* R only looks at sc, st of the state and q_key, q_req, q_sent, q_enc of the monitor *)
Lemma R_ext c s m s' m' :
  R c s m -> sc s' = sc s -> in_connection s' = in_connection s ->
  q_key m' = q_key m -> q_req m' = q_req m -> q_sent m' = q_sent m -> q_enc m' = q_enc m -> R c s' m'.
Proof.
  unfold R, secflags_off. intros (A & B & C & D & E & F) Hs Hi K1 K2 K3 K4.
  rewrite Hs, Hi, K1, K2, K3, K4. auto 10.
Qed.

Definition post (c : cfg) (m : mon28) (s' : lstate_t) (it : list item) : Prop :=
  exists m', fold28 false m it = (Ok, m') /\ R c s' m'
             /\ (has_adv28 it = true -> in_connection s' = false /\ q_enc m' = false).

Lemma fold28_app air m it1 it2 m1 :
  fold28 air m it1 = (Ok, m1) -> fold28 air m (it1 ++ it2) = fold28 air m1 it2.
Proof.
  revert m. induction it1 as [|i t IH]; intros m H; simpl in *.
  - inversion H. reflexivity.
  - destruct (item28 air m i) as [[|k] m2]; [|discriminate]. apply IH. exact H.
Qed.

Lemma has_adv28_app a b : has_adv28 (a ++ b) = has_adv28 a || has_adv28 b.
Proof. unfold has_adv28. apply existsb_app. Qed.

(* items the core monitor does not look at *)
Definition plain_item (i : item) : bool :=
  match i with IFindKey _ _ | IEncRx _ | IEncTx _ | IAdv _ => false | _ => true end.
Lemma fold28_plain m it : forallb plain_item it = true -> fold28 false m it = (Ok, m) /\ has_adv28 it = false.
Proof.
  induction it as [|i t IH]; simpl; intros H; [auto|].
  apply andb_true_iff in H. destruct H as [Hi Ht]. destruct (IH Ht) as [I1 I2].
  destruct i; simpl in Hi; try discriminate; simpl; auto.
Qed.

Lemma post_plain c m s s' it :
  R c s m -> sc s' = sc s -> in_connection s' = in_connection s -> forallb plain_item it = true -> post c m s' it.
Proof.
  intros HR Hs Hi Hp. destruct (fold28_plain m it Hp) as [F A].
  exists m. split; [exact F|]. split; [eapply R_ext; eauto|]. rewrite A. discriminate.
Qed.

Lemma post_app c m s1 it1 s2 it2 :
  post c m s1 it1 -> has_adv28 it1 = false ->
  (forall m1, R c s1 m1 -> post c m1 s2 it2) -> post c m s2 (it1 ++ it2).
Proof.
  intros (m1 & F1 & R1 & _) A1 H. destruct (H m1 R1) as (m2 & F2 & R2 & A2).
  exists m2. split; [rewrite (fold28_app _ _ _ _ _ F1); exact F2|]. split; [exact R2|].
  rewrite has_adv28_app, A1. exact A2.
Qed.
