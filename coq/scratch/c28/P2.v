From Coq Require Import Lia ZifyBool NArith List Bool.
From BT Require Import Base.ListX LL.LLModel LL.LLSpec LL.LLSpecC28.
From BT Require gen.GenLL.
Require Import P1.
Import ListNotations.
Local Open Scope N_scope.

Ltac ifs := repeat match goal with |- context [if ?b then _ else _] => destruct b end.

Lemma sc_commit s p : sc (commit s p) = sc s.
Proof. unfold commit. destruct (stopped (bf s)); reflexivity. Qed.
Lemma st_commit s p : st (commit s p) = st s.
Proof. unfold commit. destruct (stopped (bf s)); reflexivity. Qed.
Lemma sc_commit_ctrl s b : sc (commit_ctrl s b) = sc s.
Proof. apply sc_commit. Qed.
Lemma st_commit_ctrl s b : st (commit_ctrl s b) = st s.
Proof. apply st_commit. Qed.
Lemma sc_push_event c s e : sc (push_event c s e) = sc s.
Proof. unfold push_event. ifs; reflexivity. Qed.
Lemma st_push_event c s e : st (push_event c s e) = st s.
Proof. unfold push_event. ifs; reflexivity. Qed.
Lemma sc_handle_reject c s o b : sc (handle_reject c s o b) = sc s.
Proof. unfold handle_reject, clear_cpr_feature. ifs; rewrite ?sc_push_event; reflexivity. Qed.
Lemma st_handle_reject c s o b : st (handle_reject c s o b) = st s.
Proof. unfold handle_reject, clear_cpr_feature. ifs; rewrite ?st_push_event; reflexivity. Qed.
Lemma sc_encryption_changed c s b : sc (encryption_changed c s b) = sc s.
Proof. unfold encryption_changed. destruct b; [apply sc_push_event|reflexivity]. Qed.
Lemma st_encryption_changed c s b : st (encryption_changed c s b) = st s.
Proof. unfold encryption_changed. destruct b; [apply st_push_event|reflexivity]. Qed.

Lemma inconn_st s s' : st s' = st s -> in_connection s' = in_connection s.
Proof. unfold in_connection. intros ->. reflexivity. Qed.

Lemma handle_cpr_plain c s body : forallb plain_item (snd (handle_cpr c s body)) = true.
Proof. unfold handle_cpr. destruct (cpr_params_ok body); simpl; [|reflexivity]. destruct (c_cpr c); simpl; try reflexivity.
  destruct (N.min _ _ <? N.max _ _); reflexivity. ifs; reflexivity. Qed.

Lemma no_enc_kinds c v o z : c_enc c = false ->
  match ctrl_kind c v o z with KEncReq | KStartEncRsp | KPauseEncReq | KPauseEncRsp => False | _ => True end.
Proof.
  intros H. unfold ctrl_kind, ctrl_kind_b. rewrite H. cbn [andb].
  repeat match goal with |- context [if ?b then _ else _] => destruct b; [exact I|] end. exact I.
Qed.

Lemma post_same c m s : R c s m -> post c m s [].
Proof. intros H. exists m. simpl. split; [reflexivity|]. split; [exact H|discriminate]. Qed.

(* handle_ll_control *)
Lemma hlc_post c s m body s1 it res :
  R c s m -> in_connection s = true -> handle_ll_control c s body = (s1, it, res) ->
  post c m s1 it /\ st s1 = st s /\ has_adv28 it = false.
Proof.
  intros HR Hin H. unfold handle_ll_control in H.
  pose proof (no_enc_kinds c (ver_received (pr s)) (if 0 <? N.of_nat (length body) then byte body 0 else 255) (N.of_nat (length body))) as NK.
  destruct (ctrl_kind c (ver_received (pr s)) (if 0 <? N.of_nat (length body) then byte body 0 else 255) (N.of_nat (length body))) eqn:K.
  all: try (
    (* kinds that neither touch the security state nor produce an item the monitor looks at *)
    assert (G : sc s1 = sc s /\ st s1 = st s /\ forallb plain_item it = true);
    [ repeat match type of H with context [if ?b then _ else _] => destruct b end;
      try (destruct (handle_cpr c s body) as [rsp cit] eqn:EC; pose proof (handle_cpr_plain c s body) as PC; rewrite EC in PC; simpl in PC; destruct rsp);
      inversion H; subst; clear H;
      rewrite ?sc_commit_ctrl, ?st_commit_ctrl, ?sc_push_event, ?st_push_event, ?sc_handle_reject, ?st_handle_reject;
      cbn [sc st set_disc_reason set_def_instant set_deferred set_used_features set_proc_timeout upd_pr set_pr];
      rewrite ?sc_push_event, ?st_push_event; auto
    | destruct G as (G1 & G2 & G3); split; [eapply post_plain; eauto using inconn_st|]; split; [exact G2|apply (fold28_plain m it G3)] ]; fail).
  all: admit.
Admitted.
