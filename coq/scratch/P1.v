From BT Require Import Base.ListX SduBuf.SduBufModel SduBuf.SduBufSpec.
From Coq Require Import Lia ZifyBool.
Local Open Scope N_scope.

(* ---------- lists and lengths *)
Lemma lenN_app (a b : list N) : lenN (a ++ b) = lenN a + lenN b.
Proof. unfold lenN. rewrite app_length. lia. Qed.
Lemma lenN_nil : lenN (@nil N) = 0.
Proof. reflexivity. Qed.
Lemma lenN_cons x (l : list N) : lenN (x :: l) = 1 + lenN l.
Proof. unfold lenN. simpl length. lia. Qed.
Lemma lenN_repeat (x : N) n : lenN (repeat x n) = N.of_nat n.
Proof. unfold lenN. now rewrite repeat_length. Qed.
Lemma lenN_firstn (l : list N) n : n <= lenN l -> lenN (firstn (N.to_nat n) l) = n.
Proof. unfold lenN. intros. rewrite firstn_length. lia. Qed.
Lemma lenN_skipn (l : list N) n : lenN (skipn (N.to_nat n) l) = lenN l - n.
Proof. unfold lenN. rewrite skipn_length. lia. Qed.
Lemma lenN_zero (l : list N) : lenN l = 0 -> l = [].
Proof. destruct l; auto. unfold lenN; simpl; lia. Qed.

Lemma mem_length c p : lenN (mem c p) = ll_overhead c + lenN (snd p).
Proof.
  unfold mem, ll_overhead, header_size. rewrite !lenN_app, lenN_repeat. unfold lenN. simpl length. lia.
Qed.

Lemma skipn_mem c p : skipn (N.to_nat (ll_overhead c)) (mem c p) = snd p.
Proof.
  unfold mem, ll_overhead, header_size.
  replace (N.to_nat (2 + oh c)) with (2 + N.to_nat (oh c))%nat by lia.
  simpl. rewrite skipn_app, repeat_length, Nat.sub_diag. simpl.
  rewrite skipn_all2; auto. rewrite repeat_length; lia.
Qed.

Lemma write_at_some buf pos data :
  pos + lenN data <= lenN buf ->
  write_at buf pos data = Some (firstn (N.to_nat pos) buf ++ data ++ skipn (N.to_nat pos + length data) buf).
Proof. intros. unfold write_at. destruct (N.leb_spec (pos + lenN data) (lenN buf)); auto; lia. Qed.

Lemma write_at_length buf pos data b : write_at buf pos data = Some b -> lenN b = lenN buf.
Proof.
  unfold write_at. destruct (N.leb_spec (pos + lenN data) (lenN buf)); intros E; inversion E.
  unfold lenN in *. rewrite !app_length, firstn_length, skipn_length. lia.
Qed.

Lemma read_at_some buf pos n :
  pos + n <= lenN buf -> read_at buf pos n = Some (firstn (N.to_nat n) (skipn (N.to_nat pos) buf)).
Proof. intros. unfold read_at. destruct (N.leb_spec (pos + n) (lenN buf)); auto; lia. Qed.

(* firstn of what was written *)
Lemma firstn_written (buf data : list N) pos :
  pos <= lenN buf ->
  firstn (N.to_nat (pos + lenN data)) (firstn (N.to_nat pos) buf ++ data ++ skipn (N.to_nat pos + length data) buf)
  = firstn (N.to_nat pos) buf ++ data.
Proof.
  intros H. rewrite app_assoc. rewrite firstn_app.
  assert (L : length (firstn (N.to_nat pos) buf ++ data) = N.to_nat (pos + lenN data)).
  { rewrite app_length, firstn_length. unfold lenN in *. lia. }
  rewrite <- L at 1. rewrite firstn_all. rewrite L, Nat.sub_diag. simpl. now rewrite app_nil_r.
Qed.

Lemma skipn_app_le (A : Type) (a b : list A) n : (n <= length a)%nat -> skipn n (a ++ b) = skipn n a ++ b.
Proof. intros. rewrite skipn_app. replace (n - length a)%nat with 0%nat by lia. reflexivity. Qed.

Lemma firstn_app_le (A : Type) (a b : list A) n : (n <= length a)%nat -> firstn n (a ++ b) = firstn n a.
Proof. intros. rewrite firstn_app. replace (n - length a)%nat with 0%nat by lia. simpl. now rewrite app_nil_r. Qed.

(* ---------- boolean equalities *)
Lemma bytes_eqb_refl a : bytes_eqb a a = true.
Proof. induction a; simpl; auto. rewrite N.eqb_refl; auto. Qed.
Lemma bytes_eqb_eq a b : bytes_eqb a b = true -> a = b.
Proof.
  revert b; induction a as [|x a IH]; intros [|y b]; simpl; intros H; try discriminate; auto.
  apply andb_prop in H as [H1 H2]. apply N.eqb_eq in H1. f_equal; auto.
Qed.
Lemma pdu_eqb_refl p : pdu_eqb p p = true.
Proof. unfold pdu_eqb. now rewrite N.eqb_refl, bytes_eqb_refl. Qed.
Lemma pdu_eqb_eq p q : pdu_eqb p q = true -> p = q.
Proof.
  unfold pdu_eqb. intros H. apply andb_prop in H as [H1 H2]. apply N.eqb_eq in H1. apply bytes_eqb_eq in H2.
  destruct p, q; simpl in *; congruence.
Qed.
Lemma prefixb_app a r : prefixb a (a ++ r) = true.
Proof. induction a; simpl; auto. now rewrite N.eqb_refl. Qed.
Lemma prefixb_split a b : prefixb a b = true -> b = a ++ skipn (length a) b.
Proof.
  revert b; induction a as [|x a IH]; intros b H; simpl in *; auto.
  destruct b as [|y b]; try discriminate. apply andb_prop in H as [H1 H2]. apply N.eqb_eq in H1. subst.
  simpl. f_equal. auto.
Qed.
Lemma prefixb_firstn n (l : list N) : prefixb (firstn n l) l = true.
Proof. rewrite <- (firstn_skipn n l) at 2. apply prefixb_app. Qed.

Lemma skipn_skipn' (A : Type) (a b : nat) (l : list A) : skipn a (skipn b l) = skipn (b + a) l.
Proof. revert l; induction b as [|b IH]; intros l; simpl; auto. destruct l; simpl; auto. now rewrite skipn_nil. Qed.
