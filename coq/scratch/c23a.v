From Coq Require Import List NArith ZArith Bool Lia ZifyBool.
Local Open Scope N_scope.
Ltac Zify.zify_post_hook ::= Z.div_mod_to_equations.
Goal forall lat, lat < 65535 -> 1 <= (lat + 1) mod 65536 <= lat + 1.
intros. zify. Show. 
