(* Specification monitor for C31 (L2CAP channel multiplexing and signaling are well behaved).
   It observes operations and outputs only (plus the configuration: which CIDs exist, which of them is
   the signaling channel, maximum_mtu_size, number of link layer buffers). Its state is the abstract
   object of the property: the number of free link layer output buffers and the life cycle of the one
   Connection Parameter Update Request (queued parameters / identifier awaiting its response / identifier
   of the last request sent).

   Clauses (violation tags):
     deliver_cid      a frame was handed to a channel other than the one its CID names, more than once,
                      with a payload other than the frame's, or a frame for a configured CID was not delivered
     deliver_len      a frame shorter than the 4 byte header or whose length field differs from its
                      payload length was delivered (or answered)
     consumed         the "input consumed" result is wrong: a frame is refused (false) exactly when it is
                      well formed and the link layer has no output buffer; then nothing is delivered or sent
     reply_cid        a reply carries a CID other than the request's; an asynchronous frame carries a CID
                      that is not configured; more than one reply to one frame
     reply_fits       a committed frame is longer than the allocated buffer (maximum_mtu_size + 4), its
                      length field differs from its payload length, more frames committed than buffers
                      free, or the code faulted (out-of-range access / assert)
     unknown_dropped  a frame for a CID that is not configured was delivered or answered
     sig_once         a request was accepted while another one is queued or outstanding, refused while
                      none is, transmitted twice / without being queued / with other parameters, or not
                      transmitted by a poll although a buffer was left
     sig_match        a response that does not match the outstanding request (identifier, size 6, length
                      field 2) completed it; or a response was answered
     sig_id_nonzero   a request was sent with identifier 0
     sig_id_advances  a request's identifier is not the successor (skipping 0) of the previous request's
     sig_reject       a command other than the expected response was not answered with Command Reject
                      (code 1, the command's identifier, length 2, reason 0), or a command with identifier
                      0 / shorter than 2 bytes was answered at all
     shape            output of the wrong kind *)
From BT Require Import Base.ListX L2cap.L2capModel.
Local Open Scope N_scope.

Record mon := mkm {
  mfree : N;                 (* free output buffers of the link layer *)
  mq : option (list N);      (* parameters (8 bytes) of the accepted, not yet transmitted request *)
  maw : option N;            (* identifier of the transmitted request awaiting its response *)
  mlast : option N;          (* identifier of the last request transmitted *)
  mmis : bool                (* a non-matching response was seen while the request is outstanding *)
}.

Definition minit (c : cfg) : mon := mkm (nbuf c) None None None false.

Inductive verdict := Ok | Bad (tag : nat).
Definition t_deliver_cid := 1%nat.
Definition t_deliver_len := 2%nat.
Definition t_consumed := 3%nat.
Definition t_reply_cid := 4%nat.
Definition t_reply_fits := 5%nat.
Definition t_unknown_dropped := 6%nat.
Definition t_sig_once := 7%nat.
Definition t_sig_match := 8%nat.
Definition t_sig_id_nonzero := 9%nat.
Definition t_sig_id_advances := 10%nat.
Definition t_sig_reject := 11%nat.
Definition t_shape := 12%nat.

Definition is_sig (k : kind) : bool := match k with KSig => true | _ => false end.
Definition known (c : cfg) (ch : N) : bool := existsb (fun k => cid k =? ch) (chans c).
Definition has_sig (c : cfg) : bool := existsb (fun k => is_sig (kd k)) (chans c).
Definition on_sig (c : cfg) (ch : N) : bool := has_sig c && (ch =? cid_sig).

Fixpoint list_eqb (a b : list N) : bool :=
  match a, b with
  | [], [] => true
  | x :: a', y :: b' => (x =? y) && list_eqb a' b'
  | _, _ => false
  end.

Definition is_nil (A : Type) (l : list A) : bool := match l with [] => true | _ => false end.
Arguments is_nil {A} l.
Definition is_none (A : Type) (o : option A) : bool := match o with None => true | _ => false end.
Arguments is_none {A} o.

(* an L2CAP basic frame: length (LE16), CID (LE16), payload *)
Definition parse (f : list N) : option (N * N * list N) :=
  match f with
  | b0 :: b1 :: b2 :: b3 :: p => Some (le16 b0 b1, le16 b2 b3, p)
  | _ => None
  end.

(* the frame is a well formed L2CAP frame that fits the buffer allocate_l2cap_output_buffer( maximum_mtu_size ) *)
Definition frame_fits (c : cfg) (f : list N) : bool :=
  match parse f with
  | Some (l, _, p) => (l =? len p) && (len p <=? max_mtu c)
  | None => false
  end.

Definition frame_cid (f : list N) : N := match parse f with Some (_, ch, _) => ch | None => 0 end.
Definition frame_payload (f : list N) : list N := match parse f with Some (_, _, p) => p | None => [] end.

(* the successor of an identifier: +1 modulo 256, skipping the invalid identifier 0 *)
Definition succ_id (i : N) : N := if (i + 1) mod 256 =? 0 then 1 else (i + 1) mod 256.

(* Command Reject "command not understood" for the command [p]; nothing for identifier 0 / too short *)
Definition expect_reject (p : list N) : option (list N) :=
  match p with
  | _ :: j :: _ => if j =? 0 then None else Some [code_reject; j; 2; 0; 0; 0]
  | _ => None
  end.

Definition judge_reject (m : mon) (p : list N) (reply : option (list N)) : verdict * mon :=
  match expect_reject p, reply with
  | None, None => (Ok, m)
  | Some e, Some r => if list_eqb e r then (Ok, m) else (Bad t_sig_reject, m)
  | _, _ => (Bad t_sig_reject, m)
  end.

(* what the signaling channel has to answer to the payload [p]; updates the request life cycle.
   [matching_response i p]: p is 6 bytes, p[1] = i, length field (p[2], p[3]) = 2 *)
Definition sig_in_spec (m : mon) (p : list N) (reply : option (list N)) : verdict * mon :=
  let code := match p with c :: _ => c | [] => 0 end in
  match maw m with
  | Some i =>
      if code =? code_cpu_rsp then
        if negb (is_none reply) then (Bad t_sig_match, m)
        else if matching_response i p
             then (Ok, mkm (mfree m) (mq m) None (mlast m) false)
             else (Ok, mkm (mfree m) (mq m) (maw m) (mlast m) true)
      else judge_reject m p reply
  | None => judge_reject m p reply
  end.

(* a frame sent by the signaling channel on its own: must be the queued request, sent once *)
Definition sig_out_spec (m : mon) (p : list N) : verdict * mon :=
  match mq m, p with
  | Some ps, c :: i :: l0 :: l1 :: ps' =>
      if negb ((c =? code_cpu_req) && (l0 =? 8) && (l1 =? 0) && list_eqb ps ps') then (Bad t_sig_once, m)
      else if i =? 0 then (Bad t_sig_id_nonzero, m)
      else if match mlast m with Some l => negb (i =? succ_id l) | None => false end then (Bad t_sig_id_advances, m)
      else (Ok, mkm (mfree m) None (Some i) (Some i) false)
  | _, _ => (Bad t_sig_once, m)
  end.

(* one frame committed by transmit_pending_l2cap_output *)
Definition poll_frame (c : cfg) (m : mon) (f : list N) : verdict * mon :=
  if mfree m =? 0 then (Bad t_reply_fits, m)
  else if negb (frame_fits c f) then (Bad t_reply_fits, m)
  else if negb (known c (frame_cid f)) then (Bad t_reply_cid, m)
  else
    let m1 := mkm (mfree m - 1) (mq m) (maw m) (mlast m) (mmis m) in
    if on_sig c (frame_cid f) then sig_out_spec m1 (frame_payload f) else (Ok, m1).

Fixpoint poll_frames (c : cfg) (m : mon) (tx : list (list N)) : verdict * mon :=
  match tx with
  | [] => if negb (is_none (mq m)) && negb (mfree m =? 0) then (Bad t_sig_once, m) else (Ok, m)
  | f :: t => match poll_frame c m f with
              | (Ok, m') => poll_frames c m' t
              | bad => bad
              end
  end.

Definition dlv_is (d : dlv) (ch : N) (p : list N) : bool :=
  match d with
  | [(ch', p')] => (ch' =? ch) && list_eqb p' p
  | _ => false
  end.

Definition mstep (c : cfg) (m : mon) (o : op) (r : out) : verdict * mon :=
  match o, r with
  | _, OFault => (Bad t_reply_fits, m)
  | In f, OIn ret d tx =>
      match parse f with
      | None =>
          if negb (is_nil d && is_nil tx) then (Bad t_deliver_len, m)
          else if negb ret then (Bad t_consumed, m) else (Ok, m)
      | Some (l, ch, p) =>
          if negb (l =? len p) then
            if negb (is_nil d && is_nil tx) then (Bad t_deliver_len, m)
            else if negb ret then (Bad t_consumed, m) else (Ok, m)
          else if mfree m =? 0 then
            if ret || negb (is_nil d && is_nil tx) then (Bad t_consumed, m) else (Ok, m)
          else if negb ret then (Bad t_consumed, m)
          else if negb (known c ch) then
            if negb (is_nil d && is_nil tx) then (Bad t_unknown_dropped, m) else (Ok, m)
          else if negb (dlv_is d ch p) then (Bad t_deliver_cid, m)
          else
            match tx with
            | [] => if on_sig c ch then sig_in_spec m p None else (Ok, m)
            | [f'] =>
                if negb (frame_fits c f') then (Bad t_reply_fits, m)
                else if negb (frame_cid f' =? ch) then (Bad t_reply_cid, m)
                else
                  let m1 := mkm (mfree m - 1) (mq m) (maw m) (mlast m) (mmis m) in
                  if on_sig c ch then sig_in_spec m1 p (Some (frame_payload f')) else (Ok, m1)
            | _ => (Bad t_reply_cid, m)
            end
      end
  | Req a b c' d, OReq ok =>
      if has_sig c then
        let idle := is_none (mq m) && is_none (maw m) in
        if Bool.eqb ok idle then
          (Ok, if ok then mkm (mfree m) (Some (param_bytes (u16 a) (u16 b) (u16 c') (u16 d))) (maw m) (mlast m) (mmis m) else m)
        else if ok && negb (is_none (maw m)) && mmis m then (Bad t_sig_match, m)
        else (Bad t_sig_once, m)
      else if ok then (Bad t_sig_once, m) else (Ok, m)
  | Poll, OPoll tx => poll_frames c m tx
  | Free n, OFree k =>
      if k =? N.min (nbuf c) (mfree m + n) then (Ok, mkm k (mq m) (maw m) (mlast m) (mmis m)) else (Bad t_shape, m)
  | _, _ => (Bad t_shape, m)
  end.

Fixpoint monitor_from (c : cfg) (m : mon) (pos : nat) (tr : list (op * out)) : option (nat * nat) :=
  match tr with
  | [] => None
  | (o, r) :: t =>
      match mstep c m o r with
      | (Ok, m') => monitor_from c m' (S pos) t
      | (Bad tag, _) => Some (pos, tag)
      end
  end.

Definition monitor (c : cfg) (tr : list (op * out)) : option (nat * nat) := monitor_from c (minit c) O tr.

(* configurations the headers accept / the property speaks about: distinct CIDs, the signaling channel is
   the real one (CID 5, MTU 23), sizes fit the 16 bit length field, channel ids are uint16_t *)
Definition wf (c : cfg) : Prop :=
  NoDup (map cid (chans c)) /\
  Forall (fun k => kd k = KSig -> k = sig_chan) (chans c) /\
  max_mtu c + 4 < 65536 /\
  Forall (fun k => cid k < 65536) (chans c).
