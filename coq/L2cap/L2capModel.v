(* Executable model of the L2CAP channel multiplexer bluetoe/l2cap.hpp
   (l2cap< LinkLayer, ChannelData, Channels... >: handle_l2cap_input, transmit_pending_l2cap_output,
   transmit_single_pending_l2cap_output, l2cap_input_handler::each, l2cap_output_handler::each) over a
   list of channels, of the signaling channel bluetoe/link_layer/include/bluetoe/l2cap_signaling_channel.hpp
   (signaling_channel<>: l2cap_input, l2cap_output, connection_parameter_update_request, reject_command)
   and of the link layer side of the interface (allocate_l2cap_output_buffer / commit_l2cap_output_buffer
   with the contract of link_layer<>: a buffer of exactly size + 4 bytes or nothing).
   Definitions only.

   The signaling channel is transcribed AFTER the repair fix/C31-signaling-response-match: a Connection
   Parameter Update Response completes the outstanding request only if it has the request's identifier
   and the specified size (6 bytes, length field 2); any other response received while a request is
   outstanding is silently discarded. (Before the repair every PDU starting with 0x13 completed it.)

   Channels other than the signaling channel are user code. They are represented by three toy
   channels that the harness implements identically in C++:
     KEcho    replies the first min( in_size, out_size ) input bytes, never produces asynchronous output
     KSilent  consumes input, never produces anything
     KAsync   queues every non-empty input; l2cap_output hands out the oldest queued SDU, truncated to
              the offered size
   Every write of a channel or of the multiplexer goes through [put] into the allocated buffer (a list
   of exactly the allocated size); a write outside, a commit of more bytes than allocated, or a failing
   assert of the code is the outcome [OFault]. *)
From BT Require Import Base.ListX.
Local Open Scope N_scope.

(* ---- constants (pinned against the sources in Props/Properties_C31.v) *)
Definition hdr : N := 4.                 (* details::l2cap_layer_header_size *)
Definition cid_att : N := 4.
Definition cid_sig : N := 5.             (* l2cap_channel_ids::signaling *)
Definition cid_sm : N := 6.
Definition code_reject : N := 1.         (* command_reject_code *)
Definition code_cpu_req : N := 18.       (* connection_parameter_update_request_code  0x12 *)
Definition code_cpu_rsp : N := 19.       (* connection_parameter_update_response_code 0x13 *)
Definition sig_mtu : N := 23.            (* details::default_att_mtu_size *)
Definition req_pdu_size : N := 12.       (* l2cap_output: pdu_size = 8 + 4 *)
Definition rej_pdu_size : N := 6.        (* reject_command: pdu_size = 6 *)
Definition rsp_pdu_size : N := 6.        (* response_pdu_size (repair) *)
Definition rsp_data_len : N := 2.        (* response_data_length (repair) *)
Definition fill : N := 170.              (* content of a freshly allocated buffer in the harness (0xAA) *)

Definition len (b : list N) : N := N.of_nat (length b).

(* ---- configuration: the Channels... pack and the number of output buffers of the link layer *)
Inductive kind := KEcho | KSilent | KAsync | KSig.
Record chan := mkchan { kd : kind; cid : N; cmax : N }.     (* channel_id, maximum_channel_mtu_size *)
Record cfg := mkcfg { chans : list chan; nbuf : N }.

Definition sig_chan : chan := mkchan KSig cid_sig sig_mtu.

(* l2cap<>::maximum_mtu_size: fold with maximum_max_channel_mtu_size (a maximum), start 0 *)
Definition max_mtu (c : cfg) : N := fold_right (fun ch m => N.max (cmax ch) m) 0 (chans c).

(* ---- channel states *)
Inductive pstat := Idle | Queued | Transmitted.               (* pending_status_ *)
Record sigst := mksig {
  pend : pstat;
  ident : N;                                                  (* identifier_ (uint8) *)
  p_imin : N; p_imax : N; p_lat : N; p_tmo : N                (* interval_min_, interval_max_, latency_, timeout_ (uint16) *)
}.
Inductive cstate := SNone | SAsync (q : list (list N)) | SSig (s : sigst).

Definition init_chan (k : chan) : cstate :=
  match kd k with
  | KAsync => SAsync []
  | KSig => SSig (mksig Idle 1 0 0 0 0)
  | _ => SNone
  end.

Record state := mk { cs : list cstate; free : N }.
Definition init (c : cfg) : state := mk (map init_chan (chans c)) (nbuf c).

(* ---- bounded buffer *)
(* write [bs] at offset [off]; None = a byte outside the buffer would be written *)
Definition put (buf : list N) (off : nat) (bs : list N) : option (list N) :=
  match bs with
  | [] => Some buf
  | _ => if (off + length bs <=? length buf)%nat
         then Some (firstn off buf ++ bs ++ skipn (off + length bs) buf)
         else None
  end.

Definition lo (x : N) : N := x mod 256.
Definition hi (x : N) : N := (x / 256) mod 256.
Definition u16 (x : N) : N := x mod 65536.
Definition le16 (a b : N) : N := u16 (a + 256 * b).          (* read_16bit *)

(* ---- the signaling channel *)
Inductive cres := CFault | CRes (st : cstate) (buf : list N) (osz : N).

Definition next_ident (i : N) : N :=
  let j := (i + 1) mod 256 in if j =? 0 then (j + 1) mod 256 else j.

(* reject_command *)
Definition sig_reject (s : sigst) (input buf : list N) (off : nat) (osz : N) : cres :=
  if osz <? rej_pdu_size then CFault                          (* assert( out_size >= pdu_size ) *)
  else match input with
       | _ :: i :: _ =>
           if i =? 0 then CRes (SSig s) buf 0
           else match put buf off [code_reject; i; 2; 0; 0; 0] with
                | Some b => CRes (SSig s) b rej_pdu_size
                | None => CFault
                end
       | _ => CRes (SSig s) buf 0                             (* in_size < 2 *)
       end.

Definition is_transmitted (p : pstat) : bool := match p with Transmitted => true | _ => false end.
Definition is_queued (p : pstat) : bool := match p with Queued => true | _ => false end.
Definition is_idle (p : pstat) : bool := match p with Idle => true | _ => false end.

(* does the PDU answer the request with identifier [i]?  in_size == 6, input[1] == identifier_, length field == 2 *)
Definition matching_response (i : N) (input : list N) : bool :=
  match input with
  | [_; j; l0; l1; _; _] => (j =? i) && (le16 l0 l1 =? rsp_data_len)
  | _ => false
  end.

(* signaling_channel::l2cap_input *)
Definition sig_input (s : sigst) (input buf : list N) (off : nat) (osz : N) : cres :=
  let code := match input with c :: _ => c | [] => 0 end in
  if (code =? code_cpu_rsp) && is_transmitted (pend s) then
    if matching_response (ident s) input
    then CRes (SSig (mksig Idle (next_ident (ident s)) (p_imin s) (p_imax s) (p_lat s) (p_tmo s))) buf 0
    else CRes (SSig s) buf 0
  else sig_reject s input buf off osz.

(* the 8 parameter bytes of the request: static_cast< uint8_t >( x ), static_cast< uint8_t >( x >> 8 ) *)
Definition param_bytes (a b c d : N) : list N :=
  [lo a; hi a; lo b; hi b; lo c; hi c; lo d; hi d].

(* signaling_channel::l2cap_output *)
Definition sig_output (s : sigst) (buf : list N) (off : nat) (osz : N) : cres :=
  if osz <? req_pdu_size then CFault                          (* assert( out_size >= pdu_size ) *)
  else if is_queued (pend s) then
    match put buf off ([code_cpu_req; ident s; 8; 0] ++ param_bytes (p_imin s) (p_imax s) (p_lat s) (p_tmo s)) with
    | Some b => CRes (SSig (mksig Transmitted (ident s) (p_imin s) (p_imax s) (p_lat s) (p_tmo s))) b req_pdu_size
    | None => CFault
    end
  else CRes (SSig s) buf 0.

(* signaling_channel::connection_parameter_update_request *)
Definition sig_request (s : sigst) (a b c d : N) : sigst * bool :=
  if is_idle (pend s) then (mksig Queued (ident s) (u16 a) (u16 b) (u16 c) (u16 d), true) else (s, false).

(* ---- l2cap_input / l2cap_output of a channel; [osz] is the in/out parameter out_size *)
Definition take (osz : N) (l : list N) : list N := firstn (N.to_nat osz) l.

Definition chan_input (k : kind) (st : cstate) (input buf : list N) (off : nat) (osz : N) : cres :=
  match k with
  | KEcho => match put buf off (take osz input) with
             | Some b => CRes st b (len (take osz input))
             | None => CFault
             end
  | KSilent => CRes st buf 0
  | KAsync => match st with
              | SAsync q => CRes (SAsync (match input with [] => q | _ => q ++ [input] end)) buf 0
              | _ => CRes st buf 0
              end
  | KSig => match st with
            | SSig s => sig_input s input buf off osz
            | _ => CFault
            end
  end.

Definition chan_output (k : kind) (st : cstate) (buf : list N) (off : nat) (osz : N) : cres :=
  match k with
  | KEcho | KSilent => CRes st buf 0
  | KAsync => match st with
              | SAsync (p :: q) => match put buf off (take osz p) with
                                   | Some b => CRes (SAsync q) b (len (take osz p))
                                   | None => CFault
                                   end
              | _ => CRes st buf 0
              end
  | KSig => match st with
            | SSig s => sig_output s buf off osz
            | _ => CFault
            end
  end.

(* ---- the multiplexer *)
Definition dlv := list (N * list N).      (* (channel_id, payload) handed to a channel's l2cap_input *)

(* for_< Channels... >::each( l2cap_input_handler ): every channel whose channel_id matches is called with
   the handler's current out_size; handled = true *)
Fixpoint input_each (chs : list chan) (sts : list cstate) (ch : N) (input buf : list N) (osz : N)
         (handled : bool) (d : dlv) : option (list cstate * list N * N * bool * dlv) :=
  match chs, sts with
  | k :: chs', st :: sts' =>
      if ch =? cid k then
        match chan_input (kd k) st input buf (N.to_nat hdr) osz with
        | CFault => None
        | CRes st' buf' osz' =>
            match input_each chs' sts' ch input buf' osz' true (d ++ [(cid k, input)]) with
            | Some (r, b, o, h, d') => Some (st' :: r, b, o, h, d')
            | None => None
            end
        end
      else
        match input_each chs' sts' ch input buf osz handled d with
        | Some (r, b, o, h, d') => Some (st :: r, b, o, h, d')
        | None => None
        end
  | _, _ => Some (sts, buf, osz, handled, d)
  end.

(* for_< Channels... >::each( l2cap_output_handler ): the channels are asked in order until one produces output *)
Fixpoint output_each (chs : list chan) (sts : list cstate) (buf : list N) (size osz chid : N)
  : option (list cstate * list N * N * N) :=
  match chs, sts with
  | k :: chs', st :: sts' =>
      if osz =? 0 then
        match chan_output (kd k) st buf (N.to_nat hdr) size with
        | CFault => None
        | CRes st' buf' osz' =>
            match output_each chs' sts' buf' size osz' (cid k) with
            | Some (r, b, o, i) => Some (st' :: r, b, o, i)
            | None => None
            end
        end
      else
        match output_each chs' sts' buf size osz chid with
        | Some (r, b, o, i) => Some (st :: r, b, o, i)
        | None => None
        end
  | _, _ => Some (sts, buf, osz, chid)
  end.

(* write_16bit( output.second, out_size ); write_16bit( output.second + 2, channel_id ); commit of
   out_size + 4 bytes.  None = access outside the allocated buffer *)
Definition finish_frame (buf : list N) (osz ch : N) : option (list N) :=
  match put buf 0 [lo (u16 osz); hi (u16 osz)] with
  | Some b1 =>
      match put b1 2 [lo (u16 ch); hi (u16 ch)] with
      | Some b2 => if (N.to_nat (osz + hdr) <=? length b2)%nat then Some (firstn (N.to_nat (osz + hdr)) b2) else None
      | None => None
      end
  | None => None
  end.

(* link_layer::allocate_l2cap_output_buffer( size ): size + 4 fresh bytes *)
Definition alloc (size : N) : list N := repeat fill (N.to_nat (size + hdr)).

Inductive op :=
| In (frame : list N)                 (* handle_l2cap_input( frame ) *)
| Req (a b c d : N)                   (* connection_parameter_update_request( a, b, c, d ) on the signaling channel *)
| Poll                                (* transmit_pending_l2cap_output() *)
| Free (n : N).                       (* the link layer got n output buffers back *)

Inductive out :=
| OFault
| OIn (ret : bool) (d : dlv) (tx : list (list N))
| OReq (ok : bool)
| OPoll (tx : list (list N))
| OFree (k : N).

(* l2cap<>::handle_l2cap_input *)
Definition handle_input (c : cfg) (s : state) (frame : list N) : state * out :=
  match frame with
  | b0 :: b1 :: b2 :: b3 :: payload =>
      let size := le16 b0 b1 in
      let ch := le16 b2 b3 in
      if negb (len frame =? size + hdr) then (s, OIn true [] [])
      else if free s =? 0 then (s, OIn false [] [])                      (* output.first == 0 *)
      else
        match input_each (chans c) (cs s) ch payload (alloc (max_mtu c)) (max_mtu c) false [] with
        | None => (s, OFault)
        | Some (sts, buf, osz, handled, d) =>
            if handled && negb (osz =? 0) then
              match finish_frame buf osz ch with
              | Some f => (mk sts (free s - 1), OIn true d [f])
              | None => (s, OFault)
              end
            else (mk sts (free s), OIn true d [])
        end
  | _ => (s, OIn true [] [])                                             (* in_size < 4 *)
  end.

(* l2cap<>::transmit_single_pending_l2cap_output -> (state, committed frame); None = stop *)
Inductive single := SFault | SStop (s : state) | SSent (s : state) (f : list N).

Definition transmit_single (c : cfg) (s : state) : single :=
  if free s =? 0 then SStop s
  else
    let buf := alloc (max_mtu c) in
    match output_each (chans c) (cs s) buf (len buf - hdr) 0 0 with
    | None => SFault
    | Some (sts, b, osz, chid) =>
        if osz =? 0 then SStop (mk sts (free s))
        else match finish_frame b osz chid with
             | Some f => SSent (mk sts (free s - 1)) f
             | None => SFault
             end
    end.

(* l2cap<>::transmit_pending_l2cap_output: repeat while something was sent. Every round that continues
   uses up one buffer, so free + 1 rounds always suffice (fuel). *)
Fixpoint transmit_loop (fuel : nat) (c : cfg) (s : state) : option (state * list (list N)) :=
  match fuel with
  | O => Some (s, [])
  | S n => match transmit_single c s with
           | SFault => None
           | SStop s' => Some (s', [])
           | SSent s' f => match transmit_loop n c s' with
                           | Some (s'', tx) => Some (s'', f :: tx)
                           | None => None
                           end
           end
  end.

Fixpoint request_each (chs : list chan) (sts : list cstate) (a b c d : N) : list cstate * bool :=
  match chs, sts with
  | k :: chs', st :: sts' =>
      match kd k, st with
      | KSig, SSig s => let '(s', ok) := sig_request s a b c d in (SSig s' :: sts', ok)
      | _, _ => let '(r, ok) := request_each chs' sts' a b c d in (st :: r, ok)
      end
  | _, _ => (sts, false)                 (* no_signaling_channel::connection_parameter_update_request *)
  end.

Definition step (c : cfg) (s : state) (o : op) : state * out :=
  match o with
  | In frame => handle_input c s frame
  | Req a b c' d => let '(sts, ok) := request_each (chans c) (cs s) a b c' d in (mk sts (free s), OReq ok)
  | Poll => match transmit_loop (S (N.to_nat (free s))) c s with
            | Some (s', tx) => (s', OPoll tx)
            | None => (s, OFault)
            end
  | Free n => let k := N.min (nbuf c) (free s + n) in (mk (cs s) k, OFree k)
  end.

Fixpoint run (c : cfg) (s : state) (ops : list op) : list (op * out) :=
  match ops with
  | [] => []
  | o :: t => let '(s', r) := step c s o in (o, r) :: run c s' t
  end.
