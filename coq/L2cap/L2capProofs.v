(* Proofs for C31: the specification monitor accepts every trace of the L2cap model, for every
   well-formed configuration and every operation sequence (simulation between model state and monitor
   state), and no operation faults. *)
From Coq Require Import Lia ZifyBool.
From BT Require Import Base.ListX L2cap.L2capModel L2cap.L2capSpec.
Local Open Scope N_scope.

(* ------------------------------------------------------------------ arithmetic *)
Lemma u16_lt x : u16 x < 65536.
Proof. unfold u16. apply N.mod_lt. discriminate. Qed.

Lemma le16_lo_hi x : le16 (lo (u16 x)) (hi (u16 x)) = u16 x.
Proof.
  unfold le16, lo, hi. pose proof (u16_lt x) as H. set (y := u16 x) in *.
  assert (Hd : y / 256 < 256) by (apply N.div_lt_upper_bound; [discriminate | exact H]).
  rewrite (N.mod_small (y / 256) 256) by exact Hd.
  rewrite (N.add_comm (y mod 256)). rewrite <- (N.div_mod' y 256).
  unfold u16. apply N.mod_small. exact H.
Qed.

Lemma u16_small x : x < 65536 -> u16 x = x.
Proof. intros. unfold u16. apply N.mod_small. assumption. Qed.

Lemma le16_lt a b : le16 a b < 65536.
Proof. unfold le16. apply u16_lt. Qed.

Lemma next_ident_succ i : next_ident i = succ_id i.
Proof.
  unfold next_ident, succ_id. destruct ((i + 1) mod 256 =? 0) eqn:E; [|reflexivity].
  apply N.eqb_eq in E. rewrite E. reflexivity.
Qed.

Lemma succ_id_range i : 0 < succ_id i < 256.
Proof.
  unfold succ_id. destruct ((i + 1) mod 256 =? 0) eqn:E.
  - lia.
  - apply N.eqb_neq in E. assert (H : (i + 1) mod 256 < 256) by (apply N.mod_lt; discriminate).
    set (x := (i + 1) mod 256) in *. clearbody x. lia.
Qed.

Lemma list_eqb_refl l : list_eqb l l = true.
Proof. induction l as [|x t IH]; simpl; [reflexivity|]. rewrite N.eqb_refl. exact IH. Qed.

Lemma list_eqb_eq a : forall b, list_eqb a b = true -> a = b.
Proof.
  induction a as [|x a IH]; intros [|y b] H; simpl in H; try discriminate; [reflexivity|].
  apply andb_true_iff in H. destruct H as [H1 H2]. apply N.eqb_eq in H1. subst. f_equal. auto.
Qed.

Lemma len_nil : len [] = 0.
Proof. reflexivity. Qed.

Lemma len_cons x l : len (x :: l) = len l + 1.
Proof. unfold len. simpl length. lia. Qed.

Lemma len_zero l : len l = 0 -> l = [].
Proof. destruct l; [reflexivity|]. unfold len. simpl. lia. Qed.

Lemma len_take o l : len (take o l) <= o.
Proof. unfold len, take. pose proof (firstn_le_length (N.to_nat o) l). lia. Qed.

Lemma length_take o l : (length (take o l) <= N.to_nat o)%nat.
Proof. unfold take. apply firstn_le_length. Qed.

(* ------------------------------------------------------------------ the bounded buffer *)
Lemma put_spec buf off bs :
  (off + length bs <= length buf)%nat ->
  exists b, put buf off bs = Some b /\ length b = length buf /\
            firstn (length bs) (skipn off b) = bs.
Proof.
  intros H. destruct bs as [|x t].
  - exists buf. simpl. auto.
  - unfold put. remember (x :: t) as bs. destruct (off + length bs <=? length buf)%nat eqn:E; [|apply Nat.leb_gt in E; lia].
    eexists. split; [reflexivity|]. split.
    + rewrite !app_length, firstn_length, skipn_length. lia.
    + rewrite skipn_app, skipn_firstn_comm. rewrite firstn_length.
      replace (off - off)%nat with O by lia. simpl firstn at 2. simpl app.
      replace (off - Nat.min off (length buf))%nat with O by lia. simpl skipn.
      rewrite firstn_app. rewrite firstn_all. replace (length bs - length bs)%nat with O by lia.
      simpl. apply app_nil_r.
Qed.

Lemma alloc_length n : length (alloc n) = (N.to_nat n + 4)%nat.
Proof. unfold alloc, hdr. rewrite repeat_length. lia. Qed.

Definition header (osz ch : N) : list N := [lo (u16 osz); hi (u16 osz); lo (u16 ch); hi (u16 ch)].

Lemma finish_frame_spec buf osz ch :
  (N.to_nat osz + 4 <= length buf)%nat ->
  finish_frame buf osz ch = Some (header osz ch ++ firstn (N.to_nat osz) (skipn 4 buf)).
Proof.
  intros H. destruct buf as [|a [|b [|c [|d rest]]]]; simpl in H; try lia.
  unfold finish_frame, put, hdr, header.
  replace (N.to_nat (osz + 4)) with (S (S (S (S (N.to_nat osz))))) by lia.
  cbn [length firstn skipn app Nat.add Nat.leb].
  destruct (N.to_nat osz <=? length rest)%nat eqn:E; [reflexivity|].
  apply Nat.leb_gt in E. lia.
Qed.

Lemma parse_frame osz ch p :
  parse (header osz ch ++ p) = Some (u16 osz, u16 ch, p).
Proof. unfold header, parse. simpl. rewrite !le16_lo_hi. reflexivity. Qed.

(* ------------------------------------------------------------------ channels *)
(* relation between the signaling channel's state and the monitor's request life cycle *)
Definition sigrel (ss : sigst) (q : option (list N)) (aw last : option N) : Prop :=
  (0 < ident ss < 256) /\
  match pend ss with
  | Idle => q = None /\ aw = None
  | Queued => q = Some (param_bytes (p_imin ss) (p_imax ss) (p_lat ss) (p_tmo ss)) /\ aw = None
  | Transmitted => q = None /\ aw = Some (ident ss)
  end /\
  match last with
  | None => True
  | Some l => if is_transmitted (pend ss) then ident ss = l else ident ss = succ_id l
  end.

(* what a channel call leaves behind: state, buffer with the reply [r] at offset 4, out_size = |r| *)
Definition cres_ok (res : cres) (buf : list N) (osz : N) (st' : cstate) (r : list N) : Prop :=
  exists b, res = CRes st' b (len r) /\ length b = length buf /\ len r <= osz /\
            firstn (length r) (skipn 4 b) = r.

Lemma cres_ok_nil st buf osz : cres_ok (CRes st buf 0) buf osz st [].
Proof. exists buf. repeat split; auto. unfold len. simpl. lia. Qed.

Lemma cres_ok_put st buf osz r :
  (N.to_nat osz + 4 <= length buf)%nat -> len r <= osz ->
  cres_ok (match put buf (N.to_nat hdr) r with Some b => CRes st b (len r) | None => CFault end) buf osz st r.
Proof.
  intros Hb Hr. destruct (put_spec buf (N.to_nat hdr) r) as (b & E & L & F).
  - unfold hdr, len in *. lia.
  - rewrite E. exists b. repeat split; auto.
Qed.

Lemma chan_input_nosig k st input buf osz :
  k <> KSig -> (N.to_nat osz + 4 <= length buf)%nat ->
  exists st' r, cres_ok (chan_input k st input buf (N.to_nat hdr) osz) buf osz st' r.
Proof.
  intros Hk Hb. destruct k; try congruence; cbn [chan_input].
  - exists st, (take osz input). apply cres_ok_put; auto. apply len_take.
  - exists st, []. apply cres_ok_nil.
  - destruct st; eexists; exists []; apply cres_ok_nil.
Qed.

Lemma chan_output_nosig k st buf osz :
  k <> KSig -> (N.to_nat osz + 4 <= length buf)%nat ->
  exists st' r, cres_ok (chan_output k st buf (N.to_nat hdr) osz) buf osz st' r.
Proof.
  intros Hk Hb. destruct k; try congruence; cbn [chan_output].
  - exists st, []. apply cres_ok_nil.
  - exists st, []. apply cres_ok_nil.
  - destruct st as [|[|p q]|]; try (eexists; exists []; apply cres_ok_nil).
    exists (SAsync q), (take osz p). apply cres_ok_put; auto. apply len_take.
Qed.

Definition reply_opt (r : list N) : option (list N) := match r with [] => None | _ => Some r end.

Lemma sig_reject_ok ss input buf osz m :
  (N.to_nat osz + 4 <= length buf)%nat -> 6 <= osz ->
  exists r, cres_ok (sig_reject ss input buf (N.to_nat hdr) osz) buf osz (SSig ss) r /\
            judge_reject m input (reply_opt r) = (Ok, m).
Proof.
  intros Hb Ho. unfold sig_reject, judge_reject, expect_reject, rej_pdu_size.
  replace (osz <? 6) with false by lia.
  destruct input as [|c0 [|i t]].
  - exists []. split; [apply cres_ok_nil|reflexivity].
  - exists []. split; [apply cres_ok_nil|reflexivity].
  - destruct (i =? 0) eqn:Ei.
    + exists []. split; [apply cres_ok_nil|reflexivity].
    + exists [code_reject; i; 2; 0; 0; 0]. split.
      * apply (cres_ok_put (SSig ss)); [assumption | unfold len; simpl; lia].
      * cbn [reply_opt]. rewrite list_eqb_refl. reflexivity.
Qed.

Lemma sig_input_ok ss input buf osz mf q aw last mm :
  (N.to_nat osz + 4 <= length buf)%nat -> 6 <= osz -> sigrel ss q aw last ->
  exists ss' r m', cres_ok (sig_input ss input buf (N.to_nat hdr) osz) buf osz (SSig ss') r /\
    sig_in_spec (mkm mf q aw last mm) input (reply_opt r) = (Ok, m') /\
    mfree m' = mf /\ sigrel ss' (mq m') (maw m') (mlast m').
Proof.
  intros Hb Ho Hrel. pose proof Hrel as (Hid & Hp & Hl).
  unfold sig_input, sig_in_spec. cbn [maw mq mfree mlast mmis].
  set (code := match input with c :: _ => c | [] => 0 end).
  destruct (sig_reject_ok ss input buf osz (mkm mf q aw last mm) Hb Ho) as (rr & Hr1 & Hr2).
  destruct (pend ss) eqn:Ep; cbn [is_transmitted]; rewrite ?andb_false_r.
  - exists ss, rr, (mkm mf q aw last mm). destruct Hp as [-> ->]. auto.
  - exists ss, rr, (mkm mf q aw last mm). destruct Hp as [-> ->]. auto.
  - destruct Hp as [-> ->]. rewrite andb_true_r.
    destruct (code =? code_cpu_rsp) eqn:Ec.
    + destruct (matching_response (ident ss) input) eqn:Em.
      * eexists _, [], _. split; [apply cres_ok_nil|]. cbn [reply_opt is_none negb]. split; [reflexivity|].
        cbn [mfree mq maw mlast]. split; [reflexivity|].
        unfold sigrel. cbn [ident pend is_transmitted]. rewrite next_ident_succ. split; [apply succ_id_range|].
        split; [auto|]. destruct last as [l|]; [|exact I]. cbn in Hl. subst. reflexivity.
      * eexists ss, [], _. split; [apply cres_ok_nil|]. cbn [reply_opt is_none negb]. split; [reflexivity|].
        cbn [mfree mq maw mlast]. auto.
    + exists ss, rr, (mkm mf None (Some (ident ss)) last mm). auto.
Qed.

Lemma sig_output_ok ss buf osz q aw last :
  (N.to_nat osz + 4 <= length buf)%nat -> 12 <= osz -> sigrel ss q aw last ->
  (sig_output ss buf (N.to_nat hdr) osz = CRes (SSig ss) buf 0 /\ q = None) \/
  (exists ss' ps,
     cres_ok (sig_output ss buf (N.to_nat hdr) osz) buf osz (SSig ss') ([code_cpu_req; ident ss; 8; 0] ++ ps) /\
     q = Some ps /\ ident ss <> 0 /\ (forall l, last = Some l -> ident ss = succ_id l) /\
     sigrel ss' None (Some (ident ss)) (Some (ident ss))).
Proof.
  intros Hb Ho (Hid & Hp & Hl). unfold sig_output, req_pdu_size.
  replace (osz <? 12) with false by lia.
  destruct (pend ss) eqn:Ep; cbn [is_queued].
  - left. split; [reflexivity | tauto].
  - right. destruct Hp as [-> ->]. eexists _, _. split; [|split; [reflexivity|]].
    + pose proof (@cres_ok_put (SSig (mksig Transmitted (ident ss) (p_imin ss) (p_imax ss) (p_lat ss) (p_tmo ss))) buf osz
        ([code_cpu_req; ident ss; 8; 0] ++ param_bytes (p_imin ss) (p_imax ss) (p_lat ss) (p_tmo ss)) Hb) as P.
      assert (L : len ([code_cpu_req; ident ss; 8; 0] ++ param_bytes (p_imin ss) (p_imax ss) (p_lat ss) (p_tmo ss)) = 12) by reflexivity.
      rewrite L in P. apply P. lia.
    + split; [lia|]. split.
      * intros l ->. exact Hl.
      * unfold sigrel. cbn [ident pend is_transmitted]. repeat split; auto; lia.
  - left. split; [reflexivity | tauto].
Qed.

(* ------------------------------------------------------------------ the multiplexer: dispatch *)
Definition cids (chs : list chan) : list N := map cid chs.

Lemma input_each_unknown chs : forall sts ch input buf osz h d,
  ~ List.In ch (cids chs) ->
  input_each chs sts ch input buf osz h d = Some (sts, buf, osz, h, d).
Proof.
  induction chs as [|k chs IH]; intros sts ch input buf osz h d Hn; [destruct sts; reflexivity|].
  destruct sts as [|st sts]; [reflexivity|]. cbn [input_each].
  simpl in Hn. destruct (ch =? cid k) eqn:E; [apply N.eqb_eq in E; exfalso; apply Hn; left; symmetry; exact E|].
  rewrite IH by tauto. reflexivity.
Qed.

Lemma input_each_focus l1 : forall s1 k l2 st s2 ch input buf osz h d,
  length s1 = length l1 -> ~ List.In ch (cids l1) -> ~ List.In ch (cids l2) -> cid k = ch ->
  input_each (l1 ++ k :: l2) (s1 ++ st :: s2) ch input buf osz h d =
  match chan_input (kd k) st input buf (N.to_nat hdr) osz with
  | CFault => None
  | CRes st' b o => Some (s1 ++ st' :: s2, b, o, true, d ++ [(ch, input)])
  end.
Proof.
  induction l1 as [|x l1 IH]; intros s1 k l2 st s2 ch input buf osz h d Hl H1 H2 Hk.
  - destruct s1; [|discriminate]. cbn [app input_each]. rewrite Hk, N.eqb_refl.
    destruct (chan_input (kd k) st input buf (N.to_nat hdr) osz); [reflexivity|].
    rewrite input_each_unknown by exact H2. reflexivity.
  - destruct s1 as [|y s1]; [discriminate|]. cbn [app input_each].
    simpl in H1. destruct (ch =? cid x) eqn:E; [apply N.eqb_eq in E; exfalso; apply H1; left; symmetry; exact E|].
    rewrite (IH s1 k l2 st s2 ch input buf osz h d) by (simpl in Hl; auto; lia).
    destruct (chan_input (kd k) st input buf (N.to_nat hdr) osz); reflexivity.
Qed.

Lemma known_in c ch : known c ch = true <-> List.In ch (cids (chans c)).
Proof.
  unfold known, cids. rewrite existsb_exists, in_map_iff. split.
  - intros (k & Hi & E). apply N.eqb_eq in E. eauto.
  - intros (k & E & Hi). exists k. split; [auto|]. apply N.eqb_eq. auto.
Qed.

Lemma split_known chs ch :
  NoDup (cids chs) -> List.In ch (cids chs) ->
  exists l1 k l2, chs = l1 ++ k :: l2 /\ cid k = ch /\ ~ List.In ch (cids l1) /\ ~ List.In ch (cids l2).
Proof.
  intros Hnd Hin. unfold cids in *. apply in_map_iff in Hin. destruct Hin as (k & Ek & Hin).
  apply in_split in Hin. destruct Hin as (l1 & l2 & ->).
  exists l1, k, l2. split; [reflexivity|]. split; [exact Ek|].
  rewrite map_app in Hnd. simpl in Hnd. apply NoDup_remove_2 in Hnd. rewrite Ek in Hnd.
  rewrite in_app_iff in Hnd. tauto.
Qed.

(* ------------------------------------------------------------------ configuration facts *)
Lemma NoDup_map_inj (A B : Type) (f : A -> B) (l : list A) x y :
  NoDup (map f l) -> List.In x l -> List.In y l -> f x = f y -> x = y.
Proof.
  induction l as [|a l IH]; intros Hnd Hx Hy E; [destruct Hx|].
  simpl in Hnd. inversion Hnd as [|? ? Hni Hnd']; subst.
  destruct Hx as [->|Hx], Hy as [->|Hy]; auto.
  - exfalso. apply Hni. rewrite E. apply in_map. exact Hy.
  - exfalso. apply Hni. rewrite <- E. apply in_map. exact Hx.
Qed.

Lemma F2_length (A B : Type) (P : A -> B -> Prop) l l' : Forall2 P l l' -> length l' = length l.
Proof. induction 1; simpl; auto. Qed.

Lemma has_sig_in c : has_sig c = true <-> exists k, List.In k (chans c) /\ kd k = KSig.
Proof.
  unfold has_sig. rewrite existsb_exists. split; intros (k & Hi & E); exists k; split; auto.
  - destruct (kd k); try discriminate; reflexivity.
  - rewrite E. reflexivity.
Qed.

Lemma wf_sig c k : wf c -> List.In k (chans c) -> kd k = KSig -> k = sig_chan.
Proof. intros (_ & Hs & _) Hi E. rewrite Forall_forall in Hs. auto. Qed.

Lemma wf_cid5 c k : wf c -> has_sig c = true -> List.In k (chans c) -> cid k = cid_sig -> kd k = KSig.
Proof.
  intros Hw Hs Hi E. apply has_sig_in in Hs. destruct Hs as (g & Hg & Eg).
  pose proof (wf_sig c g Hw Hg Eg) as Es.
  assert (k = g); [|subst; auto].
  destruct Hw as (Hnd & _). apply (NoDup_map_inj _ _ cid (chans c)); auto. rewrite E, Es. reflexivity.
Qed.

Lemma on_sig_iff c k : wf c -> List.In k (chans c) -> (on_sig c (cid k) = true <-> kd k = KSig).
Proof.
  intros Hw Hi. unfold on_sig. rewrite andb_true_iff, N.eqb_eq. split.
  - intros [Hs E]. eapply wf_cid5; eauto.
  - intros E. split.
    + apply has_sig_in. eauto.
    + rewrite (wf_sig c k Hw Hi E). reflexivity.
Qed.

Lemma max_mtu_ge c k : List.In k (chans c) -> cmax k <= max_mtu c.
Proof.
  unfold max_mtu. induction (chans c) as [|x l IH]; intros Hi; [destruct Hi|].
  simpl. destruct Hi as [->|Hi]; [lia|]. specialize (IH Hi). lia.
Qed.

Lemma has_sig_mtu c : wf c -> has_sig c = true -> 23 <= max_mtu c.
Proof.
  intros Hw Hs. apply has_sig_in in Hs. destruct Hs as (g & Hg & Eg).
  pose proof (max_mtu_ge c g Hg) as H. rewrite (wf_sig c g Hw Hg Eg) in H. exact H.
Qed.

(* ------------------------------------------------------------------ the invariant *)
Definition R (m : mon) (k : chan) (st : cstate) : Prop :=
  kd k = KSig -> exists ss, st = SSig ss /\ sigrel ss (mq m) (maw m) (mlast m).

Definition Inv (c : cfg) (s : state) (m : mon) : Prop :=
  free s = mfree m /\ free s <= nbuf c /\ Forall2 (R m) (chans c) (cs s) /\
  (has_sig c = false -> mq m = None /\ maw m = None).

Definition nosig (chs : list chan) : Prop := forall k, List.In k chs -> kd k <> KSig.

Lemma R_nosig m m' chs : forall sts, nosig chs -> Forall2 (R m) chs sts -> Forall2 (R m') chs sts.
Proof.
  induction chs as [|k chs IH]; intros sts Hn H; inversion H; subst; constructor.
  - intros E. exfalso. apply (Hn k); simpl; auto.
  - apply IH; auto. intros x Hx. apply Hn. simpl; auto.
Qed.

Lemma R_fields m m' chs sts :
  mq m' = mq m -> maw m' = maw m -> mlast m' = mlast m ->
  Forall2 (R m) chs sts -> Forall2 (R m') chs sts.
Proof.
  intros E1 E2 E3 H. induction H; constructor; auto.
  unfold R in *. rewrite E1, E2, E3. auto.
Qed.

Lemma inv_init c : wf c -> Inv c (init c) (minit c).
Proof.
  intros Hw. unfold Inv, init, minit. cbn [free cs mfree mq maw mlast]. repeat split; try lia.
  induction (chans c) as [|k l IH]; simpl; constructor; auto.
  intros E. unfold init_chan. rewrite E. eexists. split; [reflexivity|].
  unfold sigrel. cbn. repeat split; auto; lia.
Qed.

Lemma nosig_of_cids c l k :
  wf c -> (forall x, List.In x l -> List.In x (chans c)) -> List.In k (chans c) -> kd k = KSig ->
  ~ List.In (cid k) (cids l) -> nosig l.
Proof.
  intros Hw Hsub Hk Ek Hn x Hx Ex. apply Hn.
  rewrite (wf_sig c k Hw Hk Ek). rewrite <- (wf_sig c x Hw (Hsub x Hx) Ex). unfold cids. apply in_map. exact Hx.
Qed.

Lemma dispatch_sim c s m l1 k l2 p :
  wf c -> Inv c s m -> chans c = l1 ++ k :: l2 ->
  ~ List.In (cid k) (cids l1) -> ~ List.In (cid k) (cids l2) ->
  exists s1 st s2 st' r, cs s = s1 ++ st :: s2 /\ length s1 = length l1 /\
    cres_ok (chan_input (kd k) st p (alloc (max_mtu c)) (N.to_nat hdr) (max_mtu c)) (alloc (max_mtu c)) (max_mtu c) st' r /\
    forall mf mm, exists m',
      (if on_sig c (cid k) then sig_in_spec (mkm mf (mq m) (maw m) (mlast m) mm) p (reply_opt r)
       else (Ok, mkm mf (mq m) (maw m) (mlast m) mm)) = (Ok, m') /\
      mfree m' = mf /\ Forall2 (R m') (chans c) (s1 ++ st' :: s2) /\
      (has_sig c = false -> mq m' = None /\ maw m' = None).
Proof.
  intros Hw (Hf & Hn & HR & Hns) Ec H1 H2.
  rewrite Ec in HR. apply Forall2_app_inv_l in HR. destruct HR as (s1 & s2' & HR1 & HR2 & Es).
  inversion HR2 as [|? st ? s2 Rk HR2' ]; subst s2'. subst.
  assert (Hk : List.In k (chans c)) by (rewrite Ec; apply in_or_app; simpl; auto).
  assert (Hb : (N.to_nat (max_mtu c) + 4 <= length (alloc (max_mtu c)))%nat) by (rewrite alloc_length; lia).
  exists s1, st, s2.
  destruct (on_sig c (cid k)) eqn:Eo.
  - (* the signaling channel *)
    pose proof (proj1 (on_sig_iff c k Hw Hk) Eo) as Ek.
    destruct (Rk Ek) as (ss & -> & Hrel).
    assert (Hs : has_sig c = true) by (unfold on_sig in Eo; apply andb_true_iff in Eo; tauto).
    pose proof (has_sig_mtu c Hw Hs) as Hm.
    destruct (sig_input_ok ss p (alloc (max_mtu c)) (max_mtu c) 0 _ _ _ false Hb ltac:(lia) Hrel) as (ss' & r & m0 & A & _ & _ & _).
    exists (SSig ss'), r. split; [exact Es|]. split; [apply (F2_length _ _ _ _ _ HR1)|].
    rewrite Ek. cbn [chan_input]. split; [exact A|].
    intros mf mm.
    destruct (sig_input_ok ss p (alloc (max_mtu c)) (max_mtu c) mf _ _ _ mm Hb ltac:(lia) Hrel) as (ss2 & r2 & m' & A2 & B & C & D).
    assert (ss2 = ss' /\ r2 = r) as [-> ->].
    { destruct A as (b1 & E1 & _ & _ & F1). destruct A2 as (b2 & E2 & _ & _ & F2).
      rewrite E1 in E2. injection E2 as -> -> E3.
      split; [reflexivity|]. rewrite <- F1, <- F2. f_equal. unfold len in E3. lia. }
    exists m'. split; [exact B|]. split; [exact C|]. split.
    + rewrite Ec. apply Forall2_app.
      * apply (R_nosig m); auto.
        apply (nosig_of_cids c _ k); auto. intros x Hx. rewrite Ec. apply in_or_app. auto.
      * constructor.
        -- intros _. exists ss'. auto.
        -- apply (R_nosig m); auto.
           apply (nosig_of_cids c _ k); auto. intros x Hx. rewrite Ec. apply in_or_app. simpl. auto.
    + intros E. rewrite E in Hs. discriminate.
  - (* a user channel *)
    assert (Ek : kd k <> KSig).
    { intros E. apply (on_sig_iff c k Hw Hk) in E. rewrite E in Eo. discriminate. }
    destruct (chan_input_nosig (kd k) st p (alloc (max_mtu c)) (max_mtu c) Ek Hb) as (st' & r & A).
    exists st', r. split; [exact Es|]. split; [apply (F2_length _ _ _ _ _ HR1)|]. split; [exact A|].
    intros mf mm. eexists. split; [reflexivity|]. cbn [mfree mq maw mlast]. split; [reflexivity|]. split; [|exact Hns].
    apply (R_fields m); auto. rewrite Ec. apply Forall2_app; auto. constructor; auto.
    intros E. contradiction.
Qed.

(* ------------------------------------------------------------------ handle_l2cap_input *)
Lemma len4 b0 b1 b2 b3 p : len (b0 :: b1 :: b2 :: b3 :: p) = len p + 4.
Proof. unfold len. simpl length. lia. Qed.

Lemma mon_eta m : mkm (mfree m) (mq m) (maw m) (mlast m) (mmis m) = m.
Proof. destruct m; reflexivity. Qed.

Lemma step_in c s m f : wf c -> Inv c s m ->
  exists s' r m', handle_input c s f = (s', r) /\ mstep c m (In f) r = (Ok, m') /\ Inv c s' m'.
Proof.
  intros Hw HI. pose proof HI as (Hf & Hn & HR & Hns).
  destruct f as [|b0 [|b1 [|b2 [|b3 p]]]];
    try (exists s, (OIn true [] []), m; split; [reflexivity | split; [reflexivity | exact HI]]).
  unfold handle_input. cbn [mstep parse]. rewrite len4.
  set (size := le16 b0 b1). set (ch := le16 b2 b3).
  replace (len p + 4 =? size + hdr) with (size =? len p) by (unfold hdr; lia).
  destruct (size =? len p) eqn:El; cbn [negb].
  2: { exists s, (OIn true [] []), m. split; [reflexivity | split; [reflexivity | exact HI]]. }
  rewrite <- Hf. destruct (free s =? 0) eqn:E0.
  { exists s, (OIn false [] []), m. split; [reflexivity | split; [reflexivity | exact HI]]. }
  destruct (known c ch) eqn:Ekn.
  2: { rewrite input_each_unknown by (rewrite <- known_in; congruence). cbn [andb].
       exists (mk (cs s) (free s)), (OIn true [] []), m. split; [reflexivity|]. split; [reflexivity|].
       unfold Inv. cbn [free cs]. auto. }
  apply known_in in Ekn. destruct (split_known (chans c) ch (proj1 Hw) Ekn) as (l1 & k & l2 & Ec & Ek & H1 & H2).
  rewrite <- Ek in H1, H2.
  destruct (dispatch_sim c s m l1 k l2 p Hw HI Ec H1 H2) as (s1 & st & s2 & st' & r & Es & Hl & A & B).
  rewrite Ec, Es. rewrite (input_each_focus l1 s1 k l2 st s2 ch p) by (auto; rewrite <- Ek; auto).
  destruct A as (b & Eres & Lb & Lr & Fr). rewrite Eres. cbn [andb app negb].
  assert (Hch : u16 ch = ch) by (apply u16_small; apply le16_lt).
  assert (Hdl : dlv_is [(ch, p)] ch p = true) by (cbn; rewrite N.eqb_refl, list_eqb_refl; reflexivity).
  rewrite Ek in B.
  destruct r as [|x r'].
  - destruct (B (mfree m) (mmis m)) as (m' & Bm & Bf & BR & Bns). rewrite mon_eta in Bm.
    cbn [reply_opt] in Bm. rewrite len_nil. cbn [N.eqb negb].
    exists (mk (s1 ++ st' :: s2) (free s)), (OIn true [(ch, p)] []), m'.
    split; [reflexivity|]. split; [cbn [negb]; rewrite Hdl; exact Bm|].
    unfold Inv. cbn [free cs]. rewrite Bf. auto.
  - destruct (B (free s - 1) (mmis m)) as (m' & Bm & Bf & BR & Bns).
    assert (E1 : (len (x :: r') =? 0) = false) by (rewrite len_cons; lia).
    rewrite E1. cbn [negb].
    rewrite alloc_length in Lb.
    rewrite finish_frame_spec by (unfold len in *; lia).
    replace (N.to_nat (len (x :: r'))) with (length (x :: r')) by (unfold len; lia).
    rewrite Fr.
    exists (mk (s1 ++ st' :: s2) (free s - 1)), (OIn true [(ch, p)] [header (len (x :: r')) ch ++ x :: r']), m'.
    split; [reflexivity|]. split.
    + cbn [negb]. rewrite Hdl. cbn [negb].
      unfold frame_fits, frame_cid, frame_payload. rewrite parse_frame.
      destruct Hw as (_ & _ & Hmax & _).
      rewrite (u16_small (len (x :: r'))) by lia. rewrite Hch, !N.eqb_refl.
      replace (len (x :: r') <=? max_mtu c) with true by lia. cbn [andb negb].
      cbn [reply_opt] in Bm. exact Bm.
    + unfold Inv. cbn [free cs]. rewrite Bf. split; [reflexivity|]. split; [lia|]. split; assumption.
Qed.

(* ------------------------------------------------------------------ connection_parameter_update_request *)
Definition mreq (m : mon) (a b c d : N) : mon :=
  mkm (mfree m) (Some (param_bytes (u16 a) (u16 b) (u16 c) (u16 d))) (maw m) (mlast m) (mmis m).

Definition sig_cids (chs : list chan) : Prop := forall k, List.In k chs -> kd k = KSig -> cid k = cid_sig.

Lemma tail_nosig k chs : NoDup (cids (k :: chs)) -> sig_cids (k :: chs) -> kd k = KSig -> nosig chs.
Proof.
  intros Hnd Hs Ek x Hx Ex. simpl in Hnd. inversion Hnd as [|? ? Hni _]; subst. apply Hni.
  rewrite (Hs k (or_introl eq_refl) Ek). rewrite <- (Hs x (or_intror Hx) Ex). unfold cids. apply in_map. exact Hx.
Qed.

Lemma request_each_sim chs : forall sts m a b c' d,
  NoDup (cids chs) -> sig_cids chs -> Forall2 (R m) chs sts ->
  if existsb (fun k => is_sig (kd k)) chs then
    let ok := is_none (mq m) && is_none (maw m) in
    exists sts', request_each chs sts a b c' d = (sts', ok) /\
                 Forall2 (R (if ok then mreq m a b c' d else m)) chs sts'
  else request_each chs sts a b c' d = (sts, false).
Proof.
  induction chs as [|k chs IH]; intros sts m a b c' d Hnd Hs HR.
  - inversion HR; subst. reflexivity.
  - inversion HR as [|? st ? sts0 Rk HR']; subst. cbn [existsb request_each].
    assert (Hnd' : NoDup (cids chs)) by (simpl in Hnd; inversion Hnd; auto).
    assert (Hs' : sig_cids chs) by (intros x Hx; apply Hs; simpl; auto).
    destruct (kd k) eqn:Ek; cbn [is_sig orb].
    1-3: specialize (IH sts0 m a b c' d Hnd' Hs' HR');
         destruct (existsb (fun k0 => is_sig (kd k0)) chs);
         [ destruct IH as (sts' & E & F); rewrite E; eexists; split; [reflexivity|];
           constructor; auto; intros X; congruence
         | rewrite IH; reflexivity ].
    destruct (Rk Ek) as (ss & -> & Hrel). pose proof Hrel as (Hid & Hp & Hl).
    pose proof (tail_nosig k chs Hnd Hs Ek) as Hno.
    unfold sig_request.
    destruct (pend ss) eqn:Ep; cbn [is_idle].
    + destruct Hp as [Eq Ea]. rewrite Eq, Ea. cbn [is_none andb].
      eexists. split; [reflexivity|]. constructor.
      * intros _. eexists. split; [reflexivity|]. unfold mreq, sigrel. cbn [mq maw mlast ident pend is_transmitted p_imin p_imax p_lat p_tmo].
        split; [exact Hid|]. split; [auto|]. exact Hl.
      * apply (R_nosig m); auto.
    + destruct Hp as [Eq Ea]. rewrite Eq. cbn [is_none andb].
      eexists. split; [reflexivity|]. constructor; auto.
    + destruct Hp as [Eq Ea]. rewrite Eq, Ea. cbn [is_none andb].
      eexists. split; [reflexivity|]. constructor; auto.
Qed.

Lemma wf_sig_cids c : wf c -> sig_cids (chans c).
Proof. intros Hw k Hk Ek. rewrite (wf_sig c k Hw Hk Ek). reflexivity. Qed.

Lemma step_req c s m a b c' d : wf c -> Inv c s m ->
  exists s' r m', step c s (Req a b c' d) = (s', r) /\ mstep c m (Req a b c' d) r = (Ok, m') /\ Inv c s' m'.
Proof.
  intros Hw (Hf & Hn & HR & Hns). cbn [step mstep].
  pose proof (request_each_sim (chans c) (cs s) m a b c' d (proj1 Hw) (wf_sig_cids c Hw) HR) as H.
  fold (has_sig c) in H. destruct (has_sig c) eqn:Es.
  - cbv zeta in H. destruct H as (sts' & E & F). rewrite E.
    eexists _, _, _. split; [reflexivity|]. cbn [mstep].
    rewrite Bool.eqb_reflx. split; [reflexivity|].
    unfold Inv. cbn [free cs]. destruct (is_none (mq m) && is_none (maw m)).
    + split; [exact Hf|]. split; [exact Hn|]. split; [exact F|]. intros X; rewrite Es in X; discriminate X.
    + split; [exact Hf|]. split; [exact Hn|]. split; [exact F|]. intros X; rewrite Es in X; discriminate X.
  - rewrite H. eexists _, _, _. split; [reflexivity|]. cbn [mstep]. split; [reflexivity|].
    unfold Inv. cbn [free cs]. auto.
Qed.

Lemma step_free c s m n : Inv c s m ->
  exists s' r m', step c s (Free n) = (s', r) /\ mstep c m (Free n) r = (Ok, m') /\ Inv c s' m'.
Proof.
  intros (Hf & Hn & HR & Hns). cbn [step]. eexists _, _, _. split; [reflexivity|]. cbn [mstep].
  rewrite <- Hf, N.eqb_refl. split; [reflexivity|].
  unfold Inv. cbn [free cs mfree mq maw mlast]. split; [reflexivity|]. split; [lia|]. split; [|exact Hns].
  apply (R_fields m); auto.
Qed.

(* ------------------------------------------------------------------ transmit_pending_l2cap_output *)
Definition msent (m : mon) (i : N) : mon := mkm (mfree m) None (Some i) (Some i) false.

Definition hassig (chs : list chan) : Prop := exists k, List.In k chs /\ kd k = KSig.

Lemma output_each_skip chs : forall sts buf size o chid,
  o <> 0 -> output_each chs sts buf size o chid = Some (sts, buf, o, chid).
Proof.
  induction chs as [|k chs IH]; intros sts buf size o chid Ho; [destruct sts; reflexivity|].
  destruct sts as [|st sts]; [reflexivity|]. cbn [output_each].
  replace (o =? 0) with false by lia. rewrite IH by exact Ho. reflexivity.
Qed.

(* what one round over the channels produces *)
Definition out_res (m : mon) (chs : list chan) (size : N) (sts' : list cstate) (b : list N) (o chid' : N) : Prop :=
  (o = 0 /\ Forall2 (R m) chs sts' /\ (hassig chs -> mq m = None)) \/
  (exists k r, List.In k chs /\ chid' = cid k /\ o = len r /\ r <> [] /\ len r <= size /\
     firstn (length r) (skipn 4 b) = r /\
     ((kd k <> KSig /\ Forall2 (R m) chs sts') \/
      (kd k = KSig /\ exists i ps, r = [code_cpu_req; i; 8; 0] ++ ps /\ mq m = Some ps /\ i <> 0 /\
         (forall l, mlast m = Some l -> i = succ_id l) /\ Forall2 (R (msent m i)) chs sts'))).

Lemma out_res_cons m k chs size st' sts' b o chid' :
  R m k st' -> (kd k = KSig -> mq m = None) -> (kd k = KSig -> nosig chs) ->
  out_res m chs size sts' b o chid' -> out_res m (k :: chs) size (st' :: sts') b o chid'.
Proof.
  intros Rk Hq Hno [(Eo & F & Hs) | (k' & r & Hi & Ec & Eo & Hr & Hl & Fr & D)].
  - left. split; [exact Eo|]. split; [constructor; auto|].
    intros (x & [<-|Hx] & Ex); [auto|]. apply Hs. exists x. auto.
  - right. exists k', r. split; [simpl; auto|]. repeat (split; [assumption|]).
    destruct D as [(Ek & F) | (Ek & i & ps & D1 & D2 & D3 & D4 & F)].
    + left. split; [exact Ek|]. constructor; auto.
    + right. split; [exact Ek|]. exists i, ps. repeat (split; [assumption|]). constructor; auto.
      intros E. exfalso. apply (Hno E k' Hi Ek).
Qed.

Lemma output_each_sim chs : forall sts buf size chid m,
  NoDup (cids chs) -> sig_cids chs -> Forall2 (R m) chs sts ->
  (N.to_nat size + 4 <= length buf)%nat -> (hassig chs -> 12 <= size) ->
  exists sts' b o chid', output_each chs sts buf size 0 chid = Some (sts', b, o, chid') /\
    length b = length buf /\ out_res m chs size sts' b o chid'.
Proof.
  induction chs as [|k chs IH]; intros sts buf size chid m Hnd Hs HR Hb H12.
  - inversion HR; subst. exists [], buf, 0, chid. split; [reflexivity|]. split; [reflexivity|].
    left. split; [reflexivity|]. split; [constructor|]. intros (x & [] & _).
  - inversion HR as [|? st ? sts0 Rk HR']; subst. cbn [output_each]. cbn [N.eqb].
    assert (Hnd' : NoDup (cids chs)) by (simpl in Hnd; inversion Hnd; auto).
    assert (Hs' : sig_cids chs) by (intros x Hx; apply Hs; simpl; auto).
    assert (H12' : hassig chs -> 12 <= size).
    { intros (x & Hx & Ex). apply H12. exists x. simpl; auto. }
    assert (Hcases : kd k <> KSig \/ kd k = KSig) by (destruct (kd k); auto; left; discriminate).
    destruct Hcases as [Ek | Ek].
    + destruct (chan_output_nosig (kd k) st buf size Ek Hb) as (st' & r & b & Eres & Lb & Lr & Fr).
      rewrite Eres. destruct r as [|x r'].
      * rewrite len_nil.
        destruct (IH sts0 b size (cid k) m Hnd' Hs' HR' ltac:(lia) H12') as (sts' & b' & o & chid' & E & Lb' & Hres).
        rewrite E. exists (st' :: sts'), b', o, chid'. split; [reflexivity|]. split; [lia|].
        apply out_res_cons; auto; intros X; contradiction.
      * rewrite output_each_skip by (rewrite len_cons; lia).
        exists (st' :: sts0), b, (len (x :: r')), (cid k). split; [reflexivity|]. split; [exact Lb|].
        right. exists k, (x :: r'). split; [simpl; auto|]. split; [reflexivity|]. split; [reflexivity|].
        split; [discriminate|]. split; [exact Lr|]. split; [exact Fr|].
        left. split; [exact Ek|]. constructor; auto. intros X; contradiction.
    + destruct (Rk Ek) as (ss & -> & Hrel).
      pose proof (tail_nosig k chs Hnd Hs Ek) as Hno.
      assert (Ho : 12 <= size) by (apply H12; exists k; simpl; auto).
      rewrite Ek. cbn [chan_output].
      destruct (sig_output_ok ss buf size _ _ _ Hb Ho Hrel) as [(E & Eq) | (ss' & ps & (b & Eres & Lb & Lr & Fr) & Eq & Hi & Hl & Hrel')].
      * rewrite E.
        destruct (IH sts0 buf size (cid k) m Hnd' Hs' HR' Hb H12') as (sts' & b' & o & chid' & E' & Lb' & Hres).
        rewrite E'. exists (SSig ss :: sts'), b', o, chid'. split; [reflexivity|]. split; [exact Lb'|].
        apply out_res_cons; auto.
      * rewrite Eres. rewrite output_each_skip by (unfold len; simpl; lia).
        eexists (SSig ss' :: sts0), b, _, (cid k). split; [reflexivity|]. split; [exact Lb|].
        right. exists k, ([code_cpu_req; ident ss; 8; 0] ++ ps). split; [simpl; auto|]. split; [reflexivity|].
        split; [reflexivity|]. split; [discriminate|]. split; [exact Lr|]. split; [exact Fr|].
        right. split; [exact Ek|]. exists (ident ss), ps. split; [reflexivity|]. split; [exact Eq|].
        split; [exact Hi|]. split; [exact Hl|]. constructor.
        -- intros _. exists ss'. split; [reflexivity|]. exact Hrel'.
        -- apply (R_nosig m); auto.
Qed.

Lemma len_alloc n : len (alloc n) - hdr = n.
Proof. unfold len. rewrite alloc_length. unfold hdr. lia. Qed.

Lemma wf_cid_lt c k : wf c -> List.In k (chans c) -> cid k < 65536.
Proof. intros (_ & _ & _ & H) Hk. rewrite Forall_forall in H. auto. Qed.

Lemma single_sim c s m : wf c -> Inv c s m ->
  match transmit_single c s with
  | SFault => False
  | SStop s' => Inv c s' m /\ (mfree m = 0 \/ mq m = None)
  | SSent s' f => exists m', poll_frame c m f = (Ok, m') /\ Inv c s' m' /\ free s' = free s - 1 /\ free s <> 0
  end.
Proof.
  intros Hw HI. pose proof HI as (Hf & Hn & HR & Hns). unfold transmit_single.
  destruct (free s =? 0) eqn:E0.
  { split; [exact HI|]. left. lia. }
  rewrite len_alloc.
  assert (H12 : hassig (chans c) -> 12 <= max_mtu c).
  { intros H. apply has_sig_in in H. pose proof (has_sig_mtu c Hw H). lia. }
  assert (Hb : (N.to_nat (max_mtu c) + 4 <= length (alloc (max_mtu c)))%nat) by (rewrite alloc_length; lia).
  destruct (output_each_sim (chans c) (cs s) (alloc (max_mtu c)) (max_mtu c) 0 m (proj1 Hw) (wf_sig_cids c Hw) HR Hb H12)
    as (sts' & b & o & chid' & E & Lb & Hres).
  rewrite E. destruct Hres as [(Eo & F & Hq) | (k & r & Hk & Ec & Eo & Hr & Hl & Fr & D)].
  - subst o. cbn [N.eqb]. split.
    + unfold Inv. cbn [free cs]. auto.
    + right. destruct (has_sig c) eqn:Es.
      * apply Hq. apply has_sig_in. exact Es.
      * apply Hns. reflexivity.
  - assert (Eo0 : (o =? 0) = false).
    { subst o. destruct r; [congruence|]. rewrite len_cons. lia. }
    rewrite Eo0. subst o chid'. rewrite alloc_length in Lb.
    rewrite finish_frame_spec by (unfold len in *; lia).
    replace (N.to_nat (len r)) with (length r) by (unfold len; lia). rewrite Fr.
    unfold poll_frame. rewrite <- Hf, E0.
    unfold frame_fits, frame_cid, frame_payload. rewrite parse_frame.
    pose proof Hw as (_ & _ & Hmax & _).
    rewrite (u16_small (len r)) by lia. rewrite (u16_small (cid k)) by (apply (wf_cid_lt c); auto).
    rewrite N.eqb_refl. replace (len r <=? max_mtu c) with true by lia. cbn [andb negb].
    assert (Ekn : known c (cid k) = true) by (apply known_in; unfold cids; apply in_map; exact Hk).
    rewrite Ekn. cbn [negb].
    destruct D as [(Ek & F) | (Ek & i & ps & -> & Eq & Hi & Hlast & F)].
    + assert (Eo : on_sig c (cid k) = false).
      { destruct (on_sig c (cid k)) eqn:X; [|reflexivity]. apply (on_sig_iff c k Hw Hk) in X. contradiction. }
      rewrite Eo. eexists. split; [reflexivity|].
      split; [|split; [reflexivity | lia]].
      unfold Inv. cbn [free cs mfree mq maw mlast]. split; [reflexivity|]. split; [lia|]. split; [|exact Hns].
      apply (R_fields m); auto.
    + assert (Eo : on_sig c (cid k) = true) by (apply (on_sig_iff c k Hw Hk); exact Ek).
      rewrite Eo. unfold sig_out_spec. cbn [mq mlast mfree app]. rewrite Eq.
      rewrite !N.eqb_refl, list_eqb_refl. cbn [andb negb].
      replace (i =? 0) with false by lia.
      assert (El : match mlast m with Some l => negb (i =? succ_id l) | None => false end = false).
      { destruct (mlast m) as [l|]; [|reflexivity]. rewrite (Hlast l eq_refl), N.eqb_refl. reflexivity. }
      rewrite El. eexists. split; [reflexivity|].
      split; [|split; [reflexivity | lia]].
      unfold Inv. cbn [free cs mfree mq maw mlast]. split; [reflexivity|]. split; [lia|]. split.
      * apply (R_fields (msent m i)); auto.
      * intros X. unfold on_sig in Eo. rewrite X in Eo. discriminate.
Qed.

Lemma loop_sim c : wf c -> forall fuel s m, Inv c s m -> (N.to_nat (free s) < fuel)%nat ->
  exists s' tx m', transmit_loop fuel c s = Some (s', tx) /\ poll_frames c m tx = (Ok, m') /\ Inv c s' m'.
Proof.
  intros Hw. induction fuel as [|n IH]; intros s m HI Hfuel; [lia|].
  cbn [transmit_loop]. pose proof (single_sim c s m Hw HI) as H.
  destruct (transmit_single c s) as [|s'|s' f].
  - contradiction.
  - destruct H as (HI' & Hq). exists s', [], m. split; [reflexivity|]. split; [|exact HI'].
    cbn [poll_frames]. destruct Hq as [-> | ->]; cbn [is_none negb andb N.eqb]; [|reflexivity].
    rewrite andb_false_r. reflexivity.
  - destruct H as (m' & Hp & HI' & Hfree & Hnz).
    destruct (IH s' m' HI' ltac:(lia)) as (s'' & tx & m'' & E & P & HI'').
    rewrite E. exists s'', (f :: tx), m''. split; [reflexivity|]. split; [|exact HI''].
    cbn [poll_frames]. rewrite Hp. exact P.
Qed.

Lemma step_poll c s m : wf c -> Inv c s m ->
  exists s' r m', step c s Poll = (s', r) /\ mstep c m Poll r = (Ok, m') /\ Inv c s' m'.
Proof.
  intros Hw HI. cbn [step].
  destruct (loop_sim c Hw (S (N.to_nat (free s))) s m HI ltac:(lia)) as (s' & tx & m' & E & P & HI').
  rewrite E. exists s', (OPoll tx), m'. auto.
Qed.

(* ------------------------------------------------------------------ main theorems *)
Lemma step_sim c s m o : wf c -> Inv c s m ->
  exists s' r m', step c s o = (s', r) /\ mstep c m o r = (Ok, m') /\ Inv c s' m'.
Proof.
  intros Hw HI. destruct o as [f | a b c' d | | n].
  - apply step_in; auto.
  - apply step_req; auto.
  - apply step_poll; auto.
  - apply step_free; auto.
Qed.

Lemma monitor_from_accepts c : wf c -> forall ops s m pos,
  Inv c s m -> monitor_from c m pos (run c s ops) = None.
Proof.
  intros Hw. induction ops as [|o t IH]; intros s m pos HI; [reflexivity|].
  cbn [run]. destruct (step_sim c s m o Hw HI) as (s' & r & m' & E & M & HI').
  rewrite E. cbn [monitor_from]. rewrite M. apply IH. exact HI'.
Qed.

Theorem monitor_accepts c ops : wf c -> monitor c (run c (init c) ops) = None.
Proof. intros Hw. apply monitor_from_accepts; auto. apply inv_init; auto. Qed.

Lemma mstep_fault c m o : exists m', mstep c m o OFault = (Bad t_reply_fits, m').
Proof. destruct o; eexists; reflexivity. Qed.

Lemma run_no_fault c : wf c -> forall ops s m, Inv c s m ->
  forall o r, List.In (o, r) (run c s ops) -> r <> OFault.
Proof.
  intros Hw. induction ops as [|x t IH]; intros s m HI o r Hin; [destruct Hin|].
  cbn [run] in Hin. destruct (step_sim c s m x Hw HI) as (s' & r' & m' & E & M & HI').
  rewrite E in Hin. destruct Hin as [Heq | Hin].
  - injection Heq as -> ->. intros ->. destruct (mstep_fault c m o) as (m2 & X). rewrite X in M. discriminate.
  - eapply IH; eauto.
Qed.

Theorem never_faults c ops o r : wf c -> List.In (o, r) (run c (init c) ops) -> r <> OFault.
Proof. intros Hw. apply (run_no_fault c Hw ops (init c) (minit c)). apply inv_init; auto. Qed.

(* ------------------------------------------------------------------ a decision procedure for wf (examples) *)
Fixpoint nodupb (l : list N) : bool :=
  match l with
  | [] => true
  | x :: t => negb (existsb (N.eqb x) t) && nodupb t
  end.

Definition chan_is_sig (k : chan) : bool := (cid k =? cid_sig) && (cmax k =? sig_mtu).

Definition wfb (c : cfg) : bool :=
  nodupb (map cid (chans c)) &&
  forallb (fun k => if is_sig (kd k) then chan_is_sig k else true) (chans c) &&
  (max_mtu c + 4 <? 65536) &&
  forallb (fun k => cid k <? 65536) (chans c).

Lemma nodupb_sound l : nodupb l = true -> NoDup l.
Proof.
  induction l as [|x t IH]; intros H; [constructor|].
  simpl in H. apply andb_true_iff in H. destruct H as [H1 H2]. constructor; [|auto].
  intros Hin. apply negb_true_iff in H1.
  assert (existsb (N.eqb x) t = true); [|congruence].
  apply existsb_exists. exists x. split; [exact Hin | apply N.eqb_refl].
Qed.

Lemma wfb_sound c : wfb c = true -> wf c.
Proof.
  unfold wfb, wf. rewrite !andb_true_iff. intros [[[H1 H2] H3] H4].
  split; [apply nodupb_sound; exact H1|]. split; [|split; [lia|]].
  - rewrite Forall_forall. rewrite forallb_forall in H2. intros k Hk Ek. specialize (H2 k Hk).
    rewrite Ek in H2. cbn [is_sig] in H2. unfold chan_is_sig in H2. apply andb_true_iff in H2.
    destruct H2 as [A B]. apply N.eqb_eq in A. apply N.eqb_eq in B.
    destruct k as [kk kc km]. cbn in *. subst. reflexivity.
  - rewrite Forall_forall. rewrite forallb_forall in H4. intros k Hk. specialize (H4 k Hk). lia.
Qed.

(* ------------------------------------------------------------------ the signaling channel on its own *)
Definition first_byte (input : list N) : N := match input with c :: _ => c | [] => 0 end.

(* an outstanding request is completed by exactly the matching responses (code 0x13, 6 bytes, the
   request's identifier, length field 2); every other PDU leaves the request outstanding and the
   identifier unchanged *)
Lemma sig_response_exact ss input buf osz :
  pend ss = Transmitted -> 6 <= osz -> (N.to_nat osz + 4 <= length buf)%nat ->
  exists ss' b o, sig_input ss input buf (N.to_nat hdr) osz = CRes (SSig ss') b o /\
    if (first_byte input =? code_cpu_rsp) && matching_response (ident ss) input
    then pend ss' = Idle /\ ident ss' = succ_id (ident ss) /\ o = 0
    else ss' = ss.
Proof.
  intros Ep Ho Hb. unfold sig_input. fold (first_byte input). rewrite Ep. cbn [is_transmitted]. rewrite andb_true_r.
  destruct (first_byte input =? code_cpu_rsp) eqn:Ec; cbn [andb].
  - destruct (matching_response (ident ss) input) eqn:Em.
    + eexists _, _, _. split; [reflexivity|]. cbn [pend ident]. rewrite next_ident_succ. auto.
    + eexists _, _, _. split; [reflexivity|]. reflexivity.
  - destruct (sig_reject_ok ss input buf osz (mkm 0 None None None false) Hb Ho) as (r & (b & E & _) & _).
    rewrite E. eexists _, _, _. split; [reflexivity|]. reflexivity.
Qed.

(* a queued request is transmitted by the next l2cap_output with the current identifier, exactly once *)
Lemma sig_output_once ss buf osz :
  12 <= osz -> (N.to_nat osz + 4 <= length buf)%nat ->
  exists ss' b o, sig_output ss buf (N.to_nat hdr) osz = CRes (SSig ss') b o /\
    match pend ss with
    | Queued => pend ss' = Transmitted /\ ident ss' = ident ss /\ o = 12 /\
                firstn 12 (skipn 4 b) = [code_cpu_req; ident ss; 8; 0] ++ param_bytes (p_imin ss) (p_imax ss) (p_lat ss) (p_tmo ss)
    | _ => ss' = ss /\ o = 0 /\ b = buf
    end.
Proof.
  intros Ho Hb. unfold sig_output, req_pdu_size. replace (osz <? 12) with false by lia.
  destruct (pend ss) eqn:Ep; cbn [is_queued].
  - eexists _, _, _. split; [reflexivity|]. auto.
  - destruct (put_spec buf (N.to_nat hdr)
      ([code_cpu_req; ident ss; 8; 0] ++ param_bytes (p_imin ss) (p_imax ss) (p_lat ss) (p_tmo ss))) as (b & E & L & F).
    + simpl length. unfold hdr. lia.
    + rewrite E. eexists _, _, _. split; [reflexivity|]. cbn [pend ident]. repeat split; auto.
  - eexists _, _, _. split; [reflexivity|]. auto.
Qed.
