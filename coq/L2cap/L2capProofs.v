(* Proofs for C31: the specification monitor accepts every trace of the L2cap model, for every
   well-formed configuration and every operation sequence (simulation between model state and monitor
   state), and no operation faults. *)
From Coq Require Import Lia ZifyBool.
From BT Require Import Base.ListX L2cap.L2capModel L2cap.L2capSpec.
Local Open Scope N_scope.

(* ------------------------------------------------------------------ arithmetic *)
Lemma u16_lt x : u16 x < 65536.
Proof. unfold u16. apply N.mod_lt. discriminate. Qed.

Lemma le16_lo_hi x : le16 (lo (u16 x)) (hi (u16 x)) = u16 x.
Proof.
  unfold le16, lo, hi. pose proof (u16_lt x) as H. set (y := u16 x) in *.
  assert (Hd : y / 256 < 256) by (apply N.div_lt_upper_bound; [discriminate | exact H]).
  rewrite (N.mod_small (y / 256) 256) by exact Hd.
  rewrite (N.add_comm (y mod 256)). rewrite <- (N.div_mod' y 256).
  unfold u16. apply N.mod_small. exact H.
Qed.

Lemma u16_small x : x < 65536 -> u16 x = x.
Proof. intros. unfold u16. apply N.mod_small. assumption. Qed.

Lemma le16_lt a b : le16 a b < 65536.
Proof. unfold le16. apply u16_lt. Qed.

Lemma next_ident_succ i : next_ident i = succ_id i.
Proof.
  unfold next_ident, succ_id. destruct ((i + 1) mod 256 =? 0) eqn:E; [|reflexivity].
  apply N.eqb_eq in E. rewrite E. reflexivity.
Qed.

Lemma succ_id_range i : 0 < succ_id i < 256.
Proof.
  unfold succ_id. destruct ((i + 1) mod 256 =? 0) eqn:E.
  - lia.
  - apply N.eqb_neq in E. assert (H : (i + 1) mod 256 < 256) by (apply N.mod_lt; discriminate).
    set (x := (i + 1) mod 256) in *. clearbody x. lia.
Qed.

Lemma list_eqb_refl l : list_eqb l l = true.
Proof. induction l as [|x t IH]; simpl; [reflexivity|]. rewrite N.eqb_refl. exact IH. Qed.

Lemma list_eqb_eq a : forall b, list_eqb a b = true -> a = b.
Proof.
  induction a as [|x a IH]; intros [|y b] H; simpl in H; try discriminate; [reflexivity|].
  apply andb_true_iff in H. destruct H as [H1 H2]. apply N.eqb_eq in H1. subst. f_equal. auto.
Qed.

Lemma len_nil : len [] = 0.
Proof. reflexivity. Qed.

Lemma len_cons x l : len (x :: l) = len l + 1.
Proof. unfold len. simpl length. lia. Qed.

Lemma len_zero l : len l = 0 -> l = [].
Proof. destruct l; [reflexivity|]. unfold len. simpl. lia. Qed.

Lemma len_take o l : len (take o l) <= o.
Proof. unfold len, take. pose proof (firstn_le_length (N.to_nat o) l). lia. Qed.

Lemma length_take o l : (length (take o l) <= N.to_nat o)%nat.
Proof. unfold take. apply firstn_le_length. Qed.

(* ------------------------------------------------------------------ the bounded buffer *)
Lemma put_spec buf off bs :
  (off + length bs <= length buf)%nat ->
  exists b, put buf off bs = Some b /\ length b = length buf /\
            firstn (length bs) (skipn off b) = bs.
Proof.
  intros H. destruct bs as [|x t].
  - exists buf. simpl. auto.
  - unfold put. remember (x :: t) as bs. destruct (off + length bs <=? length buf)%nat eqn:E; [|apply Nat.leb_gt in E; lia].
    eexists. split; [reflexivity|]. split.
    + rewrite !app_length, firstn_length, skipn_length. lia.
    + rewrite skipn_app, skipn_firstn_comm. rewrite firstn_length.
      replace (off - off)%nat with O by lia. simpl firstn at 2. simpl app.
      replace (off - Nat.min off (length buf))%nat with O by lia. simpl skipn.
      rewrite firstn_app. rewrite firstn_all. replace (length bs - length bs)%nat with O by lia.
      simpl. apply app_nil_r.
Qed.

Lemma alloc_length n : length (alloc n) = (N.to_nat n + 4)%nat.
Proof. unfold alloc, hdr. rewrite repeat_length. lia. Qed.

Definition header (osz ch : N) : list N := [lo (u16 osz); hi (u16 osz); lo (u16 ch); hi (u16 ch)].

Lemma finish_frame_spec buf osz ch :
  (N.to_nat osz + 4 <= length buf)%nat ->
  finish_frame buf osz ch = Some (header osz ch ++ firstn (N.to_nat osz) (skipn 4 buf)).
Proof.
  intros H. destruct buf as [|a [|b [|c [|d rest]]]]; simpl in H; try lia.
  unfold finish_frame, put, hdr, header.
  replace (N.to_nat (osz + 4)) with (S (S (S (S (N.to_nat osz))))) by lia.
  cbn [length firstn skipn app Nat.add Nat.leb].
  destruct (N.to_nat osz <=? length rest)%nat eqn:E; [reflexivity|].
  apply Nat.leb_gt in E. lia.
Qed.

Lemma parse_frame osz ch p :
  parse (header osz ch ++ p) = Some (u16 osz, u16 ch, p).
Proof. unfold header, parse. simpl. rewrite !le16_lo_hi. reflexivity. Qed.

(* ------------------------------------------------------------------ channels *)
(* relation between the signaling channel's state and the monitor's request life cycle *)
Definition sigrel (ss : sigst) (q : option (list N)) (aw last : option N) : Prop :=
  (0 < ident ss < 256) /\
  match pend ss with
  | Idle => q = None /\ aw = None
  | Queued => q = Some (param_bytes (p_imin ss) (p_imax ss) (p_lat ss) (p_tmo ss)) /\ aw = None
  | Transmitted => q = None /\ aw = Some (ident ss)
  end /\
  match last with
  | None => True
  | Some l => if is_transmitted (pend ss) then ident ss = l else ident ss = succ_id l
  end.

(* what a channel call leaves behind: state, buffer with the reply [r] at offset 4, out_size = |r| *)
Definition cres_ok (res : cres) (buf : list N) (osz : N) (st' : cstate) (r : list N) : Prop :=
  exists b, res = CRes st' b (len r) /\ length b = length buf /\ len r <= osz /\
            firstn (length r) (skipn 4 b) = r.

Lemma cres_ok_nil st buf osz : cres_ok (CRes st buf 0) buf osz st [].
Proof. exists buf. repeat split; auto. unfold len. simpl. lia. Qed.

Lemma cres_ok_put st buf osz r :
  (N.to_nat osz + 4 <= length buf)%nat -> len r <= osz ->
  cres_ok (match put buf (N.to_nat hdr) r with Some b => CRes st b (len r) | None => CFault end) buf osz st r.
Proof.
  intros Hb Hr. destruct (put_spec buf (N.to_nat hdr) r) as (b & E & L & F).
  - unfold hdr, len in *. lia.
  - rewrite E. exists b. repeat split; auto.
Qed.

Lemma chan_input_nosig k st input buf osz :
  k <> KSig -> (N.to_nat osz + 4 <= length buf)%nat ->
  exists st' r, cres_ok (chan_input k st input buf (N.to_nat hdr) osz) buf osz st' r.
Proof.
  intros Hk Hb. destruct k; try congruence; cbn [chan_input].
  - exists st, (take osz input). apply cres_ok_put; auto. apply len_take.
  - exists st, []. apply cres_ok_nil.
  - destruct st; eexists; exists []; apply cres_ok_nil.
Qed.

Lemma chan_output_nosig k st buf osz :
  k <> KSig -> (N.to_nat osz + 4 <= length buf)%nat ->
  exists st' r, cres_ok (chan_output k st buf (N.to_nat hdr) osz) buf osz st' r.
Proof.
  intros Hk Hb. destruct k; try congruence; cbn [chan_output].
  - exists st, []. apply cres_ok_nil.
  - exists st, []. apply cres_ok_nil.
  - destruct st as [|[|p q]|]; try (eexists; exists []; apply cres_ok_nil).
    exists (SAsync q), (take osz p). apply cres_ok_put; auto. apply len_take.
Qed.

Definition reply_opt (r : list N) : option (list N) := match r with [] => None | _ => Some r end.

Lemma sig_reject_ok ss input buf osz m :
  (N.to_nat osz + 4 <= length buf)%nat -> 6 <= osz ->
  exists r, cres_ok (sig_reject ss input buf (N.to_nat hdr) osz) buf osz (SSig ss) r /\
            judge_reject m input (reply_opt r) = (Ok, m).
Proof.
  intros Hb Ho. unfold sig_reject, judge_reject, expect_reject, rej_pdu_size.
  replace (osz <? 6) with false by lia.
  destruct input as [|c0 [|i t]].
  - exists []. split; [apply cres_ok_nil|reflexivity].
  - exists []. split; [apply cres_ok_nil|reflexivity].
  - destruct (i =? 0) eqn:Ei.
    + exists []. split; [apply cres_ok_nil|reflexivity].
    + exists [code_reject; i; 2; 0; 0; 0]. split.
      * apply (cres_ok_put (SSig ss)); [assumption | unfold len; simpl; lia].
      * cbn [reply_opt]. rewrite list_eqb_refl. reflexivity.
Qed.

Lemma sig_input_ok ss input buf osz mf q aw last mm :
  (N.to_nat osz + 4 <= length buf)%nat -> 6 <= osz -> sigrel ss q aw last ->
  exists ss' r m', cres_ok (sig_input ss input buf (N.to_nat hdr) osz) buf osz (SSig ss') r /\
    sig_in_spec (mkm mf q aw last mm) input (reply_opt r) = (Ok, m') /\
    mfree m' = mf /\ sigrel ss' (mq m') (maw m') (mlast m').
Proof.
  intros Hb Ho Hrel. pose proof Hrel as (Hid & Hp & Hl).
  unfold sig_input, sig_in_spec. cbn [maw mq mfree mlast mmis].
  set (code := match input with c :: _ => c | [] => 0 end).
  destruct (sig_reject_ok ss input buf osz (mkm mf q aw last mm) Hb Ho) as (rr & Hr1 & Hr2).
  destruct (pend ss) eqn:Ep; cbn [is_transmitted]; rewrite ?andb_false_r.
  - exists ss, rr, (mkm mf q aw last mm). destruct Hp as [-> ->]. auto.
  - exists ss, rr, (mkm mf q aw last mm). destruct Hp as [-> ->]. auto.
  - destruct Hp as [-> ->]. rewrite andb_true_r.
    destruct (code =? code_cpu_rsp) eqn:Ec.
    + destruct (matching_response (ident ss) input) eqn:Em.
      * eexists _, [], _. split; [apply cres_ok_nil|]. cbn [reply_opt is_none negb]. split; [reflexivity|].
        cbn [mfree mq maw mlast]. split; [reflexivity|].
        unfold sigrel. cbn [ident pend is_transmitted]. rewrite next_ident_succ. split; [apply succ_id_range|].
        split; [auto|]. destruct last as [l|]; [|exact I]. cbn in Hl. subst. reflexivity.
      * eexists ss, [], _. split; [apply cres_ok_nil|]. cbn [reply_opt is_none negb]. split; [reflexivity|].
        cbn [mfree mq maw mlast]. auto.
    + exists ss, rr, (mkm mf None (Some (ident ss)) last mm). auto.
Qed.
