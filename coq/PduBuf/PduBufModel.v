(* Executable model of bluetoe/link_layer/include/bluetoe/ll_data_pdu_buffer.hpp
   (definitions only, no proofs).

   ll_data_pdu_buffer< TransmitSize, ReceiveSize, Radio > keeps
     sequence_number_, next_expected_sequence_number_, empty_[], next_empty_,
     empty_sequence_number_, stopped_, max_rx_size_, max_tx_size_
   and two pdu_ring_buffer<> (ring_buffer.hpp). The ring is NOT modelled here (that is PduRing /
   C18): it appears as a FIFO of the PDUs it holds plus the placement bookkeeping that decides
   whether alloc_front() succeeds (the capacity oracle): the offset `front_` and, per live PDU, the
   offset it was placed at; `end_` is the offset of the oldest live PDU (or `front_` when the ring
   is empty) and more_than_one() is "at least two live PDUs" - both by C18's representation
   invariant, and both checked against the real ring by the correspondence run.

   A PDU in ring memory is its 16 bit header (low byte: LLID 0..1, NESN 2, SN 3, MD 4; high byte:
   payload length) and its payload bytes. The header in memory is modified in place by the code
   (SN at commit, MD and NESN whenever the PDU is handed to the radio), so the model keeps the
   header as the number the code keeps, and every |, & ~ of the code is N.lor / N.ldiff here.

   Layout: `o` is layout_overhead (0 for default_pdu_layout, 1 for the nRF encrypted layout with a
   gap byte between header and payload); in-memory size of a PDU with L payload bytes is L + 2 + o. *)
From BT Require Import Base.ListX.
Local Open Scope N_scope.

(* ---- constants of the header (pinned against the sources in Properties_C15.v) ---- *)
Definition more_data_flag : N := 16.
Definition sn_flag : N := 8.
Definition nesn_flag : N := 4.
Definition ll_empty_id : N := 1.
Definition min_buffer_size : N := 29.
Definition max_buffer_size : N := 251.
Definition header_rfu_mask : N := 224.

(* ( header & flag ) != 0 *)
Definition has (h m : N) : bool := negb (N.land h m =? 0).
(* b ? ( header | flag ) : ( header & ~flag ) *)
Definition setb (h m : N) (b : bool) : N := if b then N.lor h m else N.ldiff h m.
(* header >> 8 *)
Definition hdr_len (h : N) : N := N.shiftr h 8.
(* Layout::data_channel_pdu_memory_size( header >> 8 ) *)
Definition msz (o h : N) : N := hdr_len h + 2 + o.

(* ---- the ring as FIFO + placement (capacity oracle) ---- *)
Record elem := mkE { e_off : N; e_hdr : N; e_body : list N }.
Record ring := mkR { r_front : N; r_q : list elem }.

Definition r_end (r : ring) : N :=
  match r_q r with [] => r_front r | e :: _ => e_off e end.

(* pdu_ring_buffer::alloc_front( buffer, n ): Some offset | None (the comparisons of the code) *)
Definition alloc_front (size : N) (r : ring) (n : N) : option N :=
  let f := r_front r in
  let e := r_end r in
  if (f <? e) && (n <? e - f) then Some f
  else if e <=? f then
    (if n <=? size - f then Some f
     else if n <? e then Some 0
     else None)
  else None.

(* push_front: front_ = pdu.buffer + pdu_length( pdu ), pdu_length( const P& ) returns uint8_t *)
Definition push (o : N) (r : ring) (e : elem) : ring :=
  mkR (e_off e + (msz o (e_hdr e)) mod 256) (r_q r ++ [e]).
Definition pop (r : ring) : ring := mkR (r_front r) (tl (r_q r)).
Definition ring_reset : ring := mkR 0 [].

(* ---- configuration (template parameters) and state ---- *)
Record cfg := mkC { c_o : N; c_T : N; c_R : N }.

Record state := mk {
  max_rx : N; max_tx : N;
  rxr : ring; txr : ring;
  sn : bool;            (* sequence_number_ *)
  nesn : bool;          (* next_expected_sequence_number_ *)
  empty_hdr : N;        (* header stored in empty_[] *)
  next_empty : bool;    (* next_empty_ *)
  empty_sn : bool;      (* empty_sequence_number_ *)
  stopped : bool }.     (* stopped_ *)

Definition w_max_rx s v := mk v (max_tx s) (rxr s) (txr s) (sn s) (nesn s) (empty_hdr s) (next_empty s) (empty_sn s) (stopped s).
Definition w_max_tx s v := mk (max_rx s) v (rxr s) (txr s) (sn s) (nesn s) (empty_hdr s) (next_empty s) (empty_sn s) (stopped s).
Definition w_rxr s v := mk (max_rx s) (max_tx s) v (txr s) (sn s) (nesn s) (empty_hdr s) (next_empty s) (empty_sn s) (stopped s).
Definition w_txr s v := mk (max_rx s) (max_tx s) (rxr s) v (sn s) (nesn s) (empty_hdr s) (next_empty s) (empty_sn s) (stopped s).
Definition w_sn s v := mk (max_rx s) (max_tx s) (rxr s) (txr s) v (nesn s) (empty_hdr s) (next_empty s) (empty_sn s) (stopped s).
Definition w_nesn s v := mk (max_rx s) (max_tx s) (rxr s) (txr s) (sn s) v (empty_hdr s) (next_empty s) (empty_sn s) (stopped s).
Definition w_empty_hdr s v := mk (max_rx s) (max_tx s) (rxr s) (txr s) (sn s) (nesn s) v (next_empty s) (empty_sn s) (stopped s).
Definition w_next_empty s v := mk (max_rx s) (max_tx s) (rxr s) (txr s) (sn s) (nesn s) (empty_hdr s) v (empty_sn s) (stopped s).
Definition w_empty_sn s v := mk (max_rx s) (max_tx s) (rxr s) (txr s) (sn s) (nesn s) (empty_hdr s) (next_empty s) v (stopped s).
Definition w_stopped s v := mk (max_rx s) (max_tx s) (rxr s) (txr s) (sn s) (nesn s) (empty_hdr s) (next_empty s) (empty_sn s) v.

(* constructor: layout::header( empty_, 0 ); reset_pdu_buffer(). empty_sequence_number_ is not
   initialised by the code; it is only read while next_empty_ is set, which sets it first. *)
Definition init (c : cfg) : state :=
  mk min_buffer_size min_buffer_size ring_reset ring_reset false false 0 false false false.

(* reset_pdu_buffer() *)
Definition reset (s : state) : state :=
  mk min_buffer_size min_buffer_size ring_reset ring_reset false false (empty_hdr s) false (empty_sn s) false.

(* what the radio gets to transmit: write_buffer size, header, payload bytes *)
Definition resp := (N * N * list N)%type.

Definition w_txq (s : state) (q : list elem) : state := w_txr s (mkR (r_front (txr s)) q).
Definition w_hdr (e : elem) (h : N) : elem := mkE (e_off e) h (e_body e).

(* set_next_expected_sequence_number( buf ): the header with NESN set/cleared *)
Definition with_nesn (s : state) (h : N) : N := setb h nesn_flag (nesn s).

(* next_transmit() *)
Definition next_transmit (c : cfg) (s : state) : state * resp :=
  if next_empty s then
    (* an empty PDU has to be resent; the more-data flag is written to the PDU at the head of the
       transmit ring (as the code does) *)
    let s1 := match r_q (txr s) with
              | e :: t => w_txq s (w_hdr e (N.lor (e_hdr e) more_data_flag) :: t)
              | [] => s
              end in
    let h := with_nesn s1 (empty_hdr s1) in
    (w_empty_hdr s1 h, (2 + c_o c, h, []))
  else
    match r_q (txr s) with
    | [] =>
        let h0 := if sn s then sn_flag + ll_empty_id else ll_empty_id in
        let h := with_nesn s h0 in
        (w_sn (w_empty_sn (w_next_empty (w_empty_hdr s h) true) (sn s)) (negb (sn s)),
         (2 + c_o c, h, []))
    | e :: t =>
        let h1 := if (2 <=? length (r_q (txr s)))%nat then N.lor (e_hdr e) more_data_flag else e_hdr e in
        let h := with_nesn s h1 in
        (w_txq s (w_hdr e h :: t), (msz (c_o c) h, h, e_body e))
    end.

(* acknowledge( bool nesn ): second component = number of increment_transmit_packet_counter() calls *)
Definition ack_bit (s : state) (b : bool) : state * N :=
  if next_empty s then
    ((if Bool.eqb (empty_sn s) b then s else w_next_empty s false), 0)
  else
    match r_q (txr s) with
    | [] => (s, 0)
    | e :: _ =>
        if Bool.eqb (has (e_hdr e) sn_flag) b then (s, 0)
        else (w_txr s (pop (txr s)), 1)
    end.

(* received( pdu ) with pdu at offset off of the receive ring, header h, payload body.
   result: state, response, #increment_receive_packet_counter, #increment_transmit_packet_counter.
   `accept` is the part after acknowledge( header & nesn_flag ): "resent PDU?" ... *)
Definition accept (c : cfg) (s1 : state) (off h : N) (body : list N) : state * N :=
  if Bool.eqb (has h sn_flag) (nesn s1) then
    let s2 := w_nesn s1 (negb (nesn s1)) in
    if negb (N.land h 65280 =? 0) then
      ((if negb (N.land h 3 =? 0) then w_rxr s2 (push (c_o c) (rxr s2) (mkE off h body)) else s2), 1)
    else (s2, 0)
  else (s1, 0).

Definition received (c : cfg) (s : state) (off h : N) (body : list N) : state * resp * N * N :=
  let '(s1, tc) := ack_bit s (has h nesn_flag) in
  let '(s2, rc) := accept c s1 off h body in
  let '(s3, r) := next_transmit c s2 in
  (s3, r, rc, tc).

(* acknowledge( read_buffer pdu ): CRC ok, MIC not ok. Corrected behaviour (branch
   fix/C17-mic-failure-acknowledged): next_expected_sequence_number_ is left alone. *)
Definition acknowledge_pdu (c : cfg) (s : state) (h : N) : state * resp * N :=
  let '(s1, tc) := if negb (N.land h 3 =? 0) then ack_bit s (has h nesn_flag) else (s, 0) in
  let '(s2, r) := next_transmit c s1 in
  (s2, r, tc).

(* ---- operations ----
   link layer side: MaxRx / MaxTx / Reset / Stop / Tx (allocate_transmit_buffer( n ), fill,
   commit_transmit_buffer) / Pend / NextRecv / FreeRecv
   radio side (what the nRF52 interrupt handler does with a PDU whose CRC is fine):
     Rx  : allocate_receive_buffer(); none -> next_transmit(), else received( pdu )
     Mic : allocate_receive_buffer(); none -> next_transmit(), else acknowledge( pdu )
     NextTx : next_transmit()
   hl is the low header byte as received / as written by the link layer; the length byte is the
   payload length. *)
Inductive op :=
| MaxRx (n : N) | MaxTx (n : N) | Reset | Stop
| Tx (n hl : N) (body : list N) | Pend | NextRecv | FreeRecv
| Rx (hl : N) (body : list N) | Mic (hl : N) (body : list N) | NextTx.

Inductive rkind := KR | KA | KN.   (* received() / acknowledge() / next_transmit() was called *)

Inductive out :=
| OUnit
| OPre                                   (* documented precondition not met: not executed *)
| OBool (b : bool)
| OTx (ok : bool)                        (* transmit buffer allocated and committed / ring full *)
| ONone                                  (* next_received(): nothing *)
| OPdu (size h : N) (body : list N)      (* next_received() *)
| OResp (k : rkind) (size h : N) (body : list N) (rc tc : N)
| OJunk.                                 (* unparsable output / FAULT; never produced by the model *)

Definition blen (b : list N) : N := N.of_nat (length b).
Definition mkhdr (hl : N) (body : list N) : N := hl + 256 * blen body.

Definition size_ok (lim overhead n : N) : bool :=
  (min_buffer_size <=? n) && (n <=? max_buffer_size) && (n + overhead <=? lim).

Definition step (c : cfg) (s : state) (o : op) : state * out :=
  match o with
  | MaxRx n => if size_ok (c_R c) (c_o c) n then (w_max_rx s n, OUnit) else (s, OPre)
  | MaxTx n => if size_ok (c_T c) (c_o c) n then (w_max_tx s n, OUnit) else (s, OPre)
  | Reset => (reset s, OUnit)
  | Stop => (w_stopped s true, OUnit)
  | Tx n hl body =>
      if (256 <=? hl) || has hl header_rfu_mask || (blen body =? 0)
         || (n <? blen body + 2 + c_o c) || (max_tx s + c_o c <? n) then (s, OPre)
      else
        match alloc_front (c_T c) (txr s) n with
        | None => (s, OTx false)
        | Some off =>
            if stopped s then (s, OTx true)
            else
              let h := mkhdr hl body in
              let h' := if sn s then N.lor h sn_flag else h in
              (w_txr (w_sn s (negb (sn s))) (push (c_o c) (txr s) (mkE off h' body)), OTx true)
        end
  | Pend => (s, OBool (negb (match r_q (txr s) with [] => true | _ => false end)))
  | NextRecv =>
      match r_q (rxr s) with
      | [] => (s, ONone)
      | e :: _ => (s, OPdu (msz (c_o c) (e_hdr e)) (e_hdr e) (e_body e))
      end
  | FreeRecv =>
      match r_q (rxr s) with
      | [] => (s, OPre)
      | _ :: _ => (w_rxr s (pop (rxr s)), OUnit)
      end
  | Rx hl body =>
      if (256 <=? hl) || (max_rx s - 2 <? blen body) then (s, OPre)
      else
        match alloc_front (c_R c) (rxr s) (max_rx s + c_o c) with
        | None => let '(s', (sz, h, b)) := next_transmit c s in (s', OResp KN sz h b 0 0)
        | Some off =>
            let '(s', (sz, h, b), rc, tc) := received c s off (mkhdr hl body) body in
            (s', OResp KR sz h b rc tc)
        end
  | Mic hl body =>
      if (256 <=? hl) || (max_rx s - 2 <? blen body) then (s, OPre)
      else
        match alloc_front (c_R c) (rxr s) (max_rx s + c_o c) with
        | None => let '(s', (sz, h, b)) := next_transmit c s in (s', OResp KN sz h b 0 0)
        | Some _ =>
            let '(s', (sz, h, b), tc) := acknowledge_pdu c s (mkhdr hl body) in
            (s', OResp KA sz h b 0 tc)
        end
  | NextTx => let '(s', (sz, h, b)) := next_transmit c s in (s', OResp KN sz h b 0 0)
  end.

Fixpoint run (c : cfg) (s : state) (ops : list op) : list (op * out) :=
  match ops with
  | [] => []
  | o :: t => let '(s', r) := step c s o in (o, r) :: run c s' t
  end.

Fixpoint final (c : cfg) (s : state) (ops : list op) : state :=
  match ops with
  | [] => s
  | o :: t => final c (fst (step c s o)) t
  end.

(* ---- counter::increment() of bindings/nordic/nrf52/nrf52.cpp: uint32_t low; uint8_t high ---- *)
Definition counter := (N * N)%type.
Definition counter_zero : counter := (0, 0).
Definition counter_increment (k : counter) : counter :=
  let low := (fst k + 1) mod 4294967296 in
  (low, if low =? 0 then (snd k + 1) mod 256 else snd k).
(* counter::copy_to: write_32bit( target, low ); target[4] = high *)
Definition counter_bytes (k : counter) : list N :=
  [fst k mod 256; (fst k / 256) mod 256; (fst k / 65536) mod 256; (fst k / 16777216) mod 256; snd k].
Definition counter_value (k : counter) : N := fst k + 4294967296 * snd k.
