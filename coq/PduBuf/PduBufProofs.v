(* Proofs for the link layer PDU buffer (C15, C16, C17).

   Part A  header arithmetic (|, & ~, >> 8 on the 16 bit header) reduced to single bits
   Part B  refinement: the monitor accepts every trace of the model (relation Rel between model
           state and the monitor's abstract peripheral, preserved by every operation)
   Part C  the abstract peripheral in closed loop with a conformant central over a faulty channel:
           the alternating-bit invariant SI (DESIGN.md 12.2) and the end-to-end statements
   Part D  packet counter *)
From Coq Require Import Lia ZifyBool.
From BT Require Import Base.ListX Base.Bits2 PduBuf.PduBufModel PduBuf.PduBufSpec.
Local Open Scope N_scope.

(* ===================================================================== Part A: headers *)

Lemma has_pow2 h k : has h (2 ^ k) = N.testbit h k.
Proof.
  unfold has. destruct (N.testbit h k) eqn:E.
  - apply negb_true_iff, N.eqb_neq. intros Z.
    assert (H : N.testbit (N.land h (2 ^ k)) k = false) by (rewrite Z; apply N.bits_0).
    rewrite N.land_spec, E, N.pow2_bits_true in H. discriminate.
  - apply negb_false_iff, N.eqb_eq. apply N.bits_inj_0. intros i.
    rewrite N.land_spec, N.pow2_bits_eqb. destruct (N.eqb_spec k i); subst; rewrite ?E; auto using andb_false_r.
Qed.

Lemma has_nesn h : has h nesn_flag = N.testbit h 2. Proof. exact (has_pow2 h 2). Qed.
Lemma has_sn h : has h sn_flag = N.testbit h 3. Proof. exact (has_pow2 h 3). Qed.

Lemma testbit_setb h k b i :
  N.testbit (setb h (2 ^ k) b) i = if k =? i then b else N.testbit h i.
Proof.
  unfold setb. destruct b.
  - rewrite N.lor_spec, N.pow2_bits_eqb. destruct (k =? i); auto using orb_true_r, orb_false_r.
  - rewrite N.ldiff_spec, N.pow2_bits_eqb. destruct (k =? i); simpl; auto using andb_false_r, andb_true_r.
Qed.

Lemma testbit_lor_pow2 h k i :
  N.testbit (N.lor h (2 ^ k)) i = if k =? i then true else N.testbit h i.
Proof. exact (testbit_setb h k true i). Qed.

(* a mask k and a flag m without common bits: | m and & ~m do not change h & k *)
Lemma land_lor_indep h m k : N.land m k = 0 -> N.land (N.lor h m) k = N.land h k.
Proof. intros H. rewrite N.land_lor_distr_l, H. apply N.lor_0_r. Qed.

Lemma land_ldiff_indep h m k : N.land m k = 0 -> N.land (N.ldiff h m) k = N.land h k.
Proof.
  intros H. apply N.bits_inj. intros i. rewrite !N.land_spec, N.ldiff_spec.
  assert (B : N.testbit (N.land m k) i = false) by (rewrite H; apply N.bits_0).
  rewrite N.land_spec in B.
  destruct (N.testbit h i), (N.testbit m i), (N.testbit k i); simpl in *; auto; discriminate.
Qed.

Lemma land_setb_indep h m k b : N.land m k = 0 -> N.land (setb h m b) k = N.land h k.
Proof. destruct b; simpl; [apply land_lor_indep | apply land_ldiff_indep]. Qed.

Lemma hdr_len_lor h m : m < 256 -> hdr_len (N.lor h m) = hdr_len h.
Proof.
  intros H. unfold hdr_len. rewrite N.shiftr_lor.
  replace (N.shiftr m 8) with 0; [apply N.lor_0_r|].
  rewrite N.shiftr_div_pow2. symmetry. apply N.div_small. exact H.
Qed.

Lemma hdr_len_ldiff h m : m < 256 -> hdr_len (N.ldiff h m) = hdr_len h.
Proof.
  intros H. unfold hdr_len. rewrite N.shiftr_ldiff.
  replace (N.shiftr m 8) with 0; [apply N.ldiff_0_r|].
  rewrite N.shiftr_div_pow2. symmetry. apply N.div_small. exact H.
Qed.

Lemma hdr_len_setb h m b : m < 256 -> hdr_len (setb h m b) = hdr_len h.
Proof. destruct b; simpl; [apply hdr_len_lor | apply hdr_len_ldiff]. Qed.

Lemma has_indep_lor h m k : N.land m k = 0 -> has (N.lor h m) k = has h k.
Proof. intros H. unfold has. rewrite land_lor_indep; auto. Qed.
Lemma has_indep_setb h m k b : N.land m k = 0 -> has (setb h m b) k = has h k.
Proof. intros H. unfold has. rewrite land_setb_indep; auto. Qed.

Lemma has_setb_same h k b : has (setb h (2 ^ k) b) (2 ^ k) = b.
Proof. rewrite has_pow2, testbit_setb, N.eqb_refl. reflexivity. Qed.

Lemma has_lor_same h k : has (N.lor h (2 ^ k)) (2 ^ k) = true.
Proof. exact (has_setb_same h k true). Qed.

(* h & k only looks at the low byte when k is a byte *)
Lemma land_low x k : N.land 255 k = k -> N.land x k = N.land (x mod 256) k.
Proof.
  intros H. change 256 with (2 ^ 8). rewrite <- N.land_ones. change (N.ones 8) with 255.
  rewrite <- N.land_assoc, H. reflexivity.
Qed.

Lemma mkhdr_mod hl body : hl < 256 -> (mkhdr hl body) mod 256 = hl.
Proof.
  intros H. unfold mkhdr. rewrite N.mul_comm, N.mod_add by discriminate. apply N.mod_small, H.
Qed.

Lemma mkhdr_land hl body k : hl < 256 -> N.land 255 k = k -> N.land (mkhdr hl body) k = N.land hl k.
Proof. intros H K. rewrite (land_low (mkhdr hl body) k K), mkhdr_mod; auto. Qed.

Lemma mkhdr_has hl body k : hl < 256 -> N.land 255 k = k -> has (mkhdr hl body) k = has hl k.
Proof. intros H K. unfold has. rewrite mkhdr_land; auto. Qed.

Lemma mkhdr_len hl body : hl < 256 -> hdr_len (mkhdr hl body) = blen body.
Proof.
  intros H. unfold hdr_len, mkhdr. rewrite N.shiftr_div_pow2. change (2 ^ 8) with 256.
  rewrite N.mul_comm, N.div_add by discriminate. rewrite N.div_small by exact H. reflexivity.
Qed.

(* ( header & 0xff00 ) != 0 is "length byte != 0" (finite sweep over low byte x length byte; the
   statement is kept in unfolded form so that the kernel never re-evaluates the sweep lazily) *)
Definition len_test (hl len : N) : bool := Bool.eqb (N.land (hl + 256 * len) 65280 =? 0) (len =? 0).
Lemma len_sweep_true : forallb (fun hl => forallb (len_test hl) (Nrange 256)) (Nrange 256) = true.
Proof. vm_compute. reflexivity. Qed.

Lemma mkhdr_len_land hl body :
  hl < 256 -> blen body < 256 -> (N.land (mkhdr hl body) 65280 =? 0) = (blen body =? 0).
Proof.
  intros H L. pose proof len_sweep_true as S.
  rewrite forallb_forall in S. pose proof (S hl (In_Nrange 256 hl H)) as S1.
  rewrite forallb_forall in S1. pose proof (S1 (blen body) (In_Nrange 256 _ L)) as S2.
  apply eqb_prop in S2. exact S2.
Qed.

(* the facts used below, for the three flags and the masks 3 (LLID), 8 (SN), 224 (RFU) *)
Lemma llid_setb_nesn h b : llid (setb h nesn_flag b) = llid h.
Proof. unfold llid. apply land_setb_indep. reflexivity. Qed.
Lemma llid_lor_md h : llid (N.lor h more_data_flag) = llid h.
Proof. unfold llid. apply land_lor_indep. reflexivity. Qed.
Lemma llid_lor_sn h : llid (N.lor h sn_flag) = llid h.
Proof. unfold llid. apply land_lor_indep. reflexivity. Qed.
Lemma sn_setb_nesn h b : has (setb h nesn_flag b) sn_flag = has h sn_flag.
Proof. apply has_indep_setb. reflexivity. Qed.
Lemma sn_lor_md h : has (N.lor h more_data_flag) sn_flag = has h sn_flag.
Proof. apply has_indep_lor. reflexivity. Qed.
Lemma sn_lor_sn h : has (N.lor h sn_flag) sn_flag = true.
Proof. exact (has_lor_same h 3). Qed.
Lemma rfu_setb_nesn h b : N.land (setb h nesn_flag b) header_rfu_mask = N.land h header_rfu_mask.
Proof. apply land_setb_indep. reflexivity. Qed.
Lemma rfu_lor_md h : N.land (N.lor h more_data_flag) header_rfu_mask = N.land h header_rfu_mask.
Proof. apply land_lor_indep. reflexivity. Qed.
Lemma rfu_lor_sn h : N.land (N.lor h sn_flag) header_rfu_mask = N.land h header_rfu_mask.
Proof. apply land_lor_indep. reflexivity. Qed.
Lemma len_setb_nesn h b : hdr_len (setb h nesn_flag b) = hdr_len h.
Proof. apply hdr_len_setb. reflexivity. Qed.
Lemma len_lor_md h : hdr_len (N.lor h more_data_flag) = hdr_len h.
Proof. apply hdr_len_lor. reflexivity. Qed.
Lemma len_lor_sn h : hdr_len (N.lor h sn_flag) = hdr_len h.
Proof. apply hdr_len_lor. reflexivity. Qed.
Lemma nesn_setb_nesn h b : has (setb h nesn_flag b) nesn_flag = b.
Proof. exact (has_setb_same h 2 b). Qed.

Global Hint Rewrite llid_setb_nesn llid_lor_md llid_lor_sn sn_setb_nesn sn_lor_md sn_lor_sn rfu_setb_nesn
  rfu_lor_md rfu_lor_sn len_setb_nesn len_lor_md len_lor_sn nesn_setb_nesn : hdr.

Lemma land_sub h a b : N.land h a = 0 -> N.land a b = b -> N.land h b = 0.
Proof. intros H K. rewrite <- K, N.land_assoc, H. reflexivity. Qed.

Lemma leqb_refl a : leqb a a = true.
Proof. induction a; simpl; auto. rewrite N.eqb_refl. auto. Qed.

Lemma leqb_eq a b : leqb a b = true -> a = b.
Proof.
  revert b; induction a as [|x a IH]; intros [|y b] H; simpl in H; try discriminate; auto.
  apply andb_true_iff in H. destruct H as [H1 H2]. apply N.eqb_eq in H1. f_equal; auto.
Qed.

(* ===================================================================== Part B: refinement *)
Local Opaque N.add N.mul N.sub.

Definition key (e : elem) : N * list N := (llid (e_hdr e), e_body e).
Definition raw (e : elem) : N * list N := (e_hdr e, e_body e).
Definition lenok (e : elem) : Prop := hdr_len (e_hdr e) = blen (e_body e).
Definition good (e : elem) : Prop := lenok e /\ N.land (e_hdr e) header_rfu_mask = 0.

(* sequence numbers of the queued PDUs alternate, starting with b *)
Fixpoint alt (b : bool) (q : list elem) : Prop :=
  match q with
  | [] => True
  | e :: t => has (e_hdr e) sn_flag = b /\ alt (negb b) t
  end.
(* ... and the next committed PDU gets *)
Fixpoint endsn (b : bool) (q : list elem) : bool :=
  match q with
  | [] => b
  | _ :: t => endsn (negb b) t
  end.

Lemma alt_app b q e : alt b (q ++ [e]) <-> alt b q /\ has (e_hdr e) sn_flag = endsn b q.
Proof.
  revert b; induction q as [|x q IH]; intros b; simpl.
  - tauto.
  - rewrite IH. tauto.
Qed.

Lemma endsn_app b q e : endsn b (q ++ [e]) = negb (endsn b q).
Proof. revert b; induction q as [|x q IH]; intros b; simpl; auto. Qed.

Definition empty_ok (h : N) (b : bool) : Prop :=
  llid h = ll_empty_id /\ has h sn_flag = b /\ hdr_len h = 0 /\ N.land h header_rfu_mask = 0.

Definition TxRel (s : state) (m : mon) : Prop :=
  let q := r_q (txr s) in
  m_txq m = map key q /\ Forall good q /\
  match m_cur m with
  | CNone => next_empty s = false /\ alt (m_sn m) q /\ sn s = endsn (m_sn m) q
  | CEmpty b => next_empty s = true /\ empty_sn s = b /\ empty_ok (empty_hdr s) b /\ m_sn m = negb b
                /\ alt (negb b) q /\ sn s = endsn (negb b) q
  | CData b => next_empty s = false /\ m_sn m = negb b /\ alt b q /\ q <> [] /\ sn s = endsn b q
  end.

Record Rel (cf : cfg) (s : state) (m : mon) : Prop := mkRel {
  R_o : m_o m = c_o cf;
  R_nesn : m_nesn m = nesn s;
  R_rxq : m_rxq m = map raw (r_q (rxr s));
  R_rxgood : Forall lenok (r_q (rxr s));
  R_stopped : m_stopped m = stopped s;
  R_maxrx : max_rx s <= 251;
  R_tx : m_txdead m = false -> TxRel s m }.

Lemma Rel_init cf : Rel cf (init cf) (minit cf).
Proof.
  constructor; simpl; auto; try (unfold min_buffer_size; lia).
  intros _. unfold TxRel; simpl. repeat split; auto.
Qed.

Lemma empty_new_ok (sq nb : bool) :
  empty_ok (setb (if sq then sn_flag + ll_empty_id else ll_empty_id) nesn_flag nb) sq.
Proof. destruct sq, nb; vm_compute; auto. Qed.

Lemma data_matches_ok o e b h :
  good e -> has (e_hdr e) sn_flag = b ->
  llid h = llid (e_hdr e) -> has h sn_flag = has (e_hdr e) sn_flag -> hdr_len h = hdr_len (e_hdr e) ->
  N.land h header_rfu_mask = N.land (e_hdr e) header_rfu_mask ->
  data_matches o (key e) b (msz o h) h (e_body e) = true.
Proof.
  intros [G1 G2] S L1 L2 L3 L4. unfold data_matches, key, msz. simpl fst; simpl snd.
  unfold lenok in G1.
  rewrite L1, L2, L3, L4, S, G1, G2, leqb_refl, !N.eqb_refl, eqb_reflx. reflexivity.
Qed.

Lemma empty_matches_ok o h b : empty_ok h b -> empty_matches o b (2 + o) h [] = true.
Proof.
  intros (A & B & C & D). unfold empty_matches. rewrite A, B, C, D, eqb_reflx, !N.eqb_refl. reflexivity.
Qed.

Lemma empty_ok_setb h b nb : empty_ok h b -> empty_ok (setb h nesn_flag nb) b.
Proof. intros (A & B & C & D). unfold empty_ok. autorewrite with hdr. auto. Qed.

Lemma good_w_hdr e h :
  good e -> hdr_len h = hdr_len (e_hdr e) -> N.land h header_rfu_mask = N.land (e_hdr e) header_rfu_mask ->
  good (w_hdr e h).
Proof. intros [G1 G2] A B. unfold good, lenok in *. simpl. rewrite A, B. auto. Qed.

Lemma key_w_hdr e h : llid h = llid (e_hdr e) -> key (w_hdr e h) = key e.
Proof. intros A. unfold key. simpl. rewrite A. reflexivity. Qed.

Lemma data_hdr_facts e (md nb : bool) :
  let h := setb (if md then N.lor (e_hdr e) more_data_flag else e_hdr e) nesn_flag nb in
  llid h = llid (e_hdr e) /\ has h sn_flag = has (e_hdr e) sn_flag /\ hdr_len h = hdr_len (e_hdr e) /\
  N.land h header_rfu_mask = N.land (e_hdr e) header_rfu_mask.
Proof. destruct md; simpl; autorewrite with hdr; auto. Qed.

(* what next_transmit() leaves alone, and the NESN it sends *)
Lemma next_transmit_frame cf s s' sz h b :
  next_transmit cf s = (s', (sz, h, b)) ->
  has h nesn_flag = nesn s /\ nesn s' = nesn s /\ rxr s' = rxr s /\ stopped s' = stopped s /\ max_rx s' = max_rx s.
Proof.
  unfold next_transmit, with_nesn. intros H.
  destruct (next_empty s).
  - destruct (r_q (txr s)) as [|e t]; inversion H; subst; clear H; simpl; autorewrite with hdr; auto.
  - destruct (r_q (txr s)) as [|e t]; inversion H; subst; clear H; simpl; autorewrite with hdr; auto.
Qed.

Lemma next_transmit_tx cf s m s' sz h b tag :
  m_o m = c_o cf -> m_nesn m = nesn s -> m_txdead m = false -> TxRel s m ->
  next_transmit cf s = (s', (sz, h, b)) ->
  exists m', check_resp tag m sz h b = (Ok, m') /\ TxRel s' m' /\
             m_o m' = m_o m /\ m_nesn m' = m_nesn m /\ m_rxq m' = m_rxq m /\ m_stopped m' = m_stopped m
             /\ m_txdead m' = false.
Proof.
  intros Ho Hn Hd T H.
  pose proof (next_transmit_frame _ _ _ _ _ _ H) as (Fn & _).
  unfold check_resp. rewrite Fn, Hn, eqb_reflx, Hd. simpl negb. cbv iota.
  unfold TxRel in T. destruct T as (Tq & Tg & Tc).
  unfold next_transmit, with_nesn in H.
  destruct (m_cur m) as [|be|bd] eqn:Ec.
  - (* nothing in flight *)
    destruct Tc as (Ne & Ta & Ts). rewrite Ne in H.
    destruct (r_q (txr s)) as [|e t] eqn:Eq.
    + (* a new empty PDU *)
      inversion H; subst; clear H. rewrite Tq. simpl map. cbv iota.
      rewrite Ho. simpl in Ts. rewrite Ts.
      rewrite (empty_matches_ok _ _ _ (empty_new_ok (m_sn m) (nesn s))).
      eexists; split; [reflexivity|]. unfold TxRel. simpl. rewrite Eq. simpl.
      repeat split; auto; apply empty_new_ok.
    + (* a new data PDU *)
      inversion H; subst; clear H. rewrite Tq. simpl map. cbv iota.
      inversion Tg as [|? ? Ge Gt]; subst. destruct Ta as [Ta1 Ta2].
      match goal with |- context [if ?c then N.lor (e_hdr e) more_data_flag else e_hdr e] => set (md := c) end.
      destruct (data_hdr_facts e md (nesn s)) as (A1 & A2 & A3 & A4).
      set (h1 := if md then N.lor (e_hdr e) more_data_flag else e_hdr e) in *.
      rewrite Ho, (data_matches_ok (c_o cf) e (m_sn m) _ Ge Ta1 A1 A2 A3 A4).
      eexists; split; [reflexivity|]. unfold TxRel. simpl.
      rewrite key_w_hdr by exact A1. rewrite Ne.
      repeat split; auto.
      * constructor; auto. apply good_w_hdr; auto.
      * rewrite A2. auto.
      * discriminate.
  - (* an empty PDU in flight *)
    destruct Tc as (Ne & Tes & Teo & Tsn & Ta & Ts). rewrite Ne in H.
    destruct (r_q (txr s)) as [|e t] eqn:Eq.
    + inversion H; subst; clear H.
      rewrite Ho, (empty_matches_ok _ _ _ (empty_ok_setb _ _ (nesn s) Teo)).
      eexists; split; [reflexivity|]. unfold TxRel. rewrite Ec. simpl. rewrite Eq.
      repeat split; auto; apply (empty_ok_setb _ _ _ Teo).
    + inversion H; subst; clear H. simpl.
      rewrite Ho, (empty_matches_ok _ _ _ (empty_ok_setb _ _ (nesn s) Teo)).
      eexists; split; [reflexivity|]. unfold TxRel. rewrite Ec. simpl.
      inversion Tg as [|? ? Ge Gt]; subst. destruct Ta as [Ta1 Ta2].
      rewrite key_w_hdr by (simpl; autorewrite with hdr; auto).
      repeat split; auto; try apply (empty_ok_setb _ _ _ Teo).
      * constructor; auto. apply good_w_hdr; auto; autorewrite with hdr; auto.
      * autorewrite with hdr. auto.
  - (* a data PDU in flight *)
    destruct Tc as (Ne & Tsn & Ta & Tne & Ts). rewrite Ne in H.
    destruct (r_q (txr s)) as [|e t] eqn:Eq; [congruence|].
    inversion H; subst; clear H. rewrite Tq. simpl map. cbv iota.
    inversion Tg as [|? ? Ge Gt]; subst. destruct Ta as [Ta1 Ta2].
    match goal with |- context [if ?c then N.lor (e_hdr e) more_data_flag else e_hdr e] => set (md := c) end.
    destruct (data_hdr_facts e md (nesn s)) as (A1 & A2 & A3 & A4).
    set (h1 := if md then N.lor (e_hdr e) more_data_flag else e_hdr e) in *.
    rewrite Ho, (data_matches_ok (c_o cf) e bd _ Ge Ta1 A1 A2 A3 A4).
    eexists; split; [reflexivity|]. unfold TxRel. rewrite Ec. simpl.
    rewrite key_w_hdr by exact A1. rewrite Ne.
    repeat split; auto.
    * constructor; auto. apply good_w_hdr; auto.
    * rewrite A2. auto.
    * discriminate.
Qed.

Lemma check_resp_txdead tag m sz h b v m' :
  check_resp tag m sz h b = (v, m') -> m_txdead m' = m_txdead m.
Proof.
  unfold check_resp. intros H.
  destruct (negb _); [inversion H; auto|].
  destruct (m_txdead m) eqn:D; [inversion H; subst; auto|].
  destruct (m_cur m).
  - destruct (m_txq m).
    + destruct (empty_matches _ _ _ _ _); inversion H; subst; simpl; auto.
    + destruct (data_matches _ _ _ _ _ _); inversion H; subst; simpl; auto.
  - destruct (empty_matches _ _ _ _ _); inversion H; subst; simpl; auto.
  - destruct (m_txq m).
    + inversion H; subst; simpl; auto.
    + destruct (data_matches _ _ _ _ _ _); inversion H; subst; simpl; auto.
Qed.

Lemma next_transmit_rel cf s m s' sz h b tag :
  Rel cf s m -> next_transmit cf s = (s', (sz, h, b)) ->
  exists m', check_resp tag m sz h b = (Ok, m') /\ Rel cf s' m'.
Proof.
  intros R H. destruct R as [Ro Rn Rq Rg Rs Rm Rt].
  pose proof (next_transmit_frame _ _ _ _ _ _ H) as (Fn & F1 & F2 & F3 & F4).
  destruct (m_txdead m) eqn:D.
  - exists m. split.
    + unfold check_resp. rewrite Fn, Rn, eqb_reflx, D. reflexivity.
    + constructor; try congruence.
  - destruct (next_transmit_tx cf s m s' sz h b tag Ro Rn D (Rt eq_refl) H)
      as (m' & C & T & Mo & Mn & Mq & Ms & Md).
    exists m'. split; auto. constructor; try congruence.
Qed.

Lemma ack_bit_frame s b s' tc :
  ack_bit s b = (s', tc) ->
  nesn s' = nesn s /\ rxr s' = rxr s /\ stopped s' = stopped s /\ max_rx s' = max_rx s.
Proof.
  unfold ack_bit. intros H. destruct (next_empty s).
  - destruct (Bool.eqb _ _); inversion H; subst; simpl; auto.
  - destruct (r_q (txr s)); [inversion H; subst; auto|].
    destruct (Bool.eqb _ _); inversion H; subst; simpl; auto.
Qed.

Lemma m_ack_frame m b m' etc :
  m_ack m b = (m', etc) ->
  m_o m' = m_o m /\ m_nesn m' = m_nesn m /\ m_rxq m' = m_rxq m /\ m_stopped m' = m_stopped m.
Proof.
  unfold m_ack. intros H. destruct (m_txdead m); [inversion H; subst; auto|].
  destruct (m_cur m); destruct (Bool.eqb _ _); inversion H; subst; simpl; auto.
Qed.

Lemma ack_bit_tx s m b s' tc m' etc :
  m_txdead m = false -> TxRel s m -> ack_bit s b = (s', tc) -> m_ack m b = (m', etc) ->
  m_txdead m' = false -> TxRel s' m' /\ tc = etc.
Proof.
  intros D (Tq & Tg & Tc) H M D'. unfold m_ack in M. rewrite D in M. unfold ack_bit in H.
  destruct (m_cur m) as [|be|bd] eqn:Ec.
  - destruct Tc as (Ne & Ta & Ts). rewrite Ne in H.
    destruct (Bool.eqb (m_sn m) b) eqn:E; inversion M; subst; clear M; [|simpl in D'; discriminate].
    destruct (r_q (txr s)) as [|e t] eqn:Eq.
    + inversion H; subst. split; auto. unfold TxRel. rewrite Ec, Eq. simpl. repeat split; auto.
    + destruct Ta as [Ta1 Ta2]. rewrite Ta1, E in H. inversion H; subst. split; auto.
      unfold TxRel. rewrite Ec, Eq. simpl. repeat split; auto.
  - destruct Tc as (Ne & Tes & Teo & Tsn & Ta & Ts). rewrite Ne, Tes in H.
    destruct (Bool.eqb be b) eqn:E; inversion M; subst; clear M; inversion H; subst; clear H.
    + split; auto. unfold TxRel. rewrite Ec. repeat split; auto; apply Teo.
    + split; auto. unfold TxRel. simpl. rewrite Tsn. repeat split; auto.
  - destruct Tc as (Ne & Tsn & Ta & Tne & Ts). rewrite Ne in H.
    destruct (r_q (txr s)) as [|e t] eqn:Eq; [congruence|].
    destruct Ta as [Ta1 Ta2]. rewrite Ta1 in H.
    destruct (Bool.eqb bd b) eqn:E; inversion M; subst; clear M; inversion H; subst; clear H.
    + split; auto. unfold TxRel. rewrite Ec, Eq. simpl. repeat split; auto; discriminate.
    + split; auto. unfold TxRel. simpl. rewrite Tq, Tsn. simpl.
      inversion Tg; subst. rewrite Eq. simpl. repeat split; auto.
Qed.

Lemma ack_bit_rel cf s m b s' tc m' etc :
  Rel cf s m -> ack_bit s b = (s', tc) -> m_ack m b = (m', etc) ->
  Rel cf s' m' /\ (m_txdead m' = false -> tc = etc).
Proof.
  intros [Ro Rn Rq Rg Rs Rm Rt] H M.
  pose proof (ack_bit_frame _ _ _ _ H) as (F1 & F2 & F3 & F4).
  pose proof (m_ack_frame _ _ _ _ M) as (G1 & G2 & G3 & G4).
  destruct (m_txdead m) eqn:D.
  - assert (m' = m) by (unfold m_ack in M; rewrite D in M; inversion M; auto). subst m'.
    split; [|congruence]. constructor; try congruence.
  - split.
    + constructor; try congruence. intros D'. apply (ack_bit_tx s m b s' tc m' etc D (Rt eq_refl) H M D').
    + intros D'. apply (ack_bit_tx s m b s' tc m' etc D (Rt eq_refl) H M D').
Qed.

(* changing only the receive side of the model / the monitor keeps the transmit relation *)
Lemma TxRel_frame s m s' m' :
  TxRel s m -> txr s' = txr s -> next_empty s' = next_empty s -> empty_sn s' = empty_sn s ->
  empty_hdr s' = empty_hdr s -> sn s' = sn s ->
  m_txq m' = m_txq m -> m_cur m' = m_cur m -> m_sn m' = m_sn m -> TxRel s' m'.
Proof.
  unfold TxRel. intros T A B C D E F G H. rewrite A, B, C, D, E, F, G, H. exact T.
Qed.

Lemma blen_app (a : list N) x : blen (a ++ [x]) = blen a + 1.
Proof. unfold blen. rewrite app_length. simpl. lia. Qed.

Lemma accept_rel cf s1 m1 off hl body s2 rc m2 erc :
  Rel cf s1 m1 -> hl < 256 -> blen body < 256 ->
  accept cf s1 off (mkhdr hl body) body = (s2, rc) -> m_accept m1 hl body = (m2, erc) ->
  Rel cf s2 m2 /\ rc = erc /\ m_txdead m2 = m_txdead m1.
Proof.
  intros [Ro1 Rn1 Rq1 Rg1 Rs1 Rm1 Rt1] P1 BL A M.
  unfold accept in A. unfold m_accept in M.
  rewrite (mkhdr_has hl body sn_flag P1 eq_refl) in A.
  rewrite (mkhdr_len_land hl body P1 BL) in A.
  change (N.land (mkhdr hl body) 3) with (llid (mkhdr hl body)) in A.
  assert (LL : llid (mkhdr hl body) = llid hl) by (unfold llid; apply mkhdr_land; auto).
  rewrite LL in A. rewrite Rn1 in M.
  destruct (Bool.eqb (has hl sn_flag) (nesn s1)) eqn:New.
  - destruct (blen body =? 0) eqn:Z; simpl negb in *; cbv iota in A; simpl andb in M; cbv iota in M.
    + inversion A; subst; clear A. inversion M; subst; clear M. simpl. split; [|split]; auto.
      constructor; simpl; auto; try congruence; try (intros D; apply (TxRel_frame s1 m1); auto).
    + destruct (llid hl =? 0) eqn:L0; simpl negb in *; cbv iota in A, M; inversion A; subst; clear A;
        inversion M; subst; clear M; simpl.
      * split; [|split]; auto.
        constructor; simpl; auto; try congruence; try (intros D; apply (TxRel_frame s1 m1); auto).
      * split; [|split]; auto.
        constructor; simpl; auto; try congruence; try (intros D; apply (TxRel_frame s1 m1); auto).
        -- rewrite map_app, Rq1. reflexivity.
        -- apply Forall_app. split; auto. constructor; auto. unfold lenok. simpl. apply mkhdr_len; auto.
  - inversion A; subst; clear A. inversion M; subst; clear M. split; [|split]; auto.
    constructor; auto.
Qed.

Lemma step_rel cf s m o s' r :
  Rel cf s m -> step cf s o = (s', r) -> exists m', mstep m o r = (Ok, m') /\ Rel cf s' m'.
Proof.
  intros R H. pose proof R as [Ro Rn Rq Rg Rs Rm Rt].
  destruct o as [n|n| | |n hl body| | | |hl body|hl body| ]; unfold step in H.
  - (* MaxRx *)
    destruct (size_ok (c_R cf) (c_o cf) n) eqn:E; inversion H; subst; clear H; exists m; split; auto.
    constructor; simpl; auto; try congruence.
    unfold size_ok in E. rewrite !andb_true_iff in E. destruct E as [[_ E] _].
    apply N.leb_le in E. exact E.
  - (* MaxTx *)
    destruct (size_ok (c_T cf) (c_o cf) n) eqn:E; inversion H; subst; clear H; exists m; split; auto.
    constructor; simpl; auto; try congruence.
  - (* Reset *)
    inversion H; subst; clear H. eexists; split; [reflexivity|].
    constructor; simpl; auto; try (unfold min_buffer_size; lia).
    intros _. unfold TxRel; simpl. auto.
  - (* Stop *)
    inversion H; subst; clear H. eexists; split; [reflexivity|].
    constructor; simpl; auto; try congruence.
  - (* Tx *)
    destruct ((256 <=? hl) || has hl header_rfu_mask || (blen body =? 0) || (n <? blen body + 2 + c_o cf)
              || (max_tx s + c_o cf <? n)) eqn:Pre.
    { inversion H; subst; clear H. exists m; split; auto. }
    rewrite !orb_false_iff in Pre. destruct Pre as [[[[P1 P2] P3] P4] P5].
    apply N.leb_gt in P1.
    destruct (alloc_front (c_T cf) (txr s) n) as [off|]; [|inversion H; subst; exists m; split; auto].
    destruct (stopped s) eqn:St.
    { inversion H; subst; clear H. exists m. split; auto. simpl. rewrite Rs. reflexivity. }
    inversion H; subst; clear H. simpl. rewrite Rs.
    eexists; split; [reflexivity|].
    set (h' := if sn s then N.lor (mkhdr hl body) sn_flag else mkhdr hl body).
    assert (R2 : N.land hl header_rfu_mask = 0).
    { unfold has in P2. apply negb_false_iff, N.eqb_eq in P2. exact P2. }
    assert (K1 : llid h' = llid hl).
    { unfold h'. destruct (sn s); autorewrite with hdr; unfold llid; apply mkhdr_land; auto. }
    assert (K2 : hdr_len h' = blen body).
    { unfold h'. destruct (sn s); autorewrite with hdr; apply mkhdr_len; auto. }
    assert (K3 : N.land h' header_rfu_mask = 0).
    { unfold h'. destruct (sn s); autorewrite with hdr; rewrite mkhdr_land; auto. }
    destruct (N.land hl 28 =? 0) eqn:E28.
    2:{ constructor; simpl; auto; try congruence. }
    apply N.eqb_eq in E28.
    assert (K4 : has h' sn_flag = sn s).
    { unfold h'. destruct (sn s); autorewrite with hdr; auto.
      rewrite mkhdr_has by auto. unfold has. rewrite (land_sub hl 28 sn_flag E28 eq_refl). reflexivity. }
    constructor; simpl; auto; try congruence.
    intros D. specialize (Rt D). destruct Rt as (Tq & Tg & Tc).
    unfold TxRel. simpl. rewrite map_app, Tq. simpl.
    split; [unfold key; simpl; rewrite K1; reflexivity|]. split.
    { apply Forall_app. split; auto. constructor; auto. split; auto. }
    destruct (m_cur m).
    + destruct Tc as (Ne & Ta & Ts). rewrite endsn_app, <- Ts. repeat split; auto.
      apply alt_app. split; auto. simpl. rewrite K4. exact Ts.
    + destruct Tc as (Ne & Tes & Teo & Tsn & Ta & Ts). rewrite endsn_app, <- Ts. repeat split; auto; try apply Teo.
      apply alt_app. split; auto. simpl. rewrite K4. exact Ts.
    + destruct Tc as (Ne & Tsn & Ta & Tne & Ts). rewrite endsn_app, <- Ts. repeat split; auto.
      * apply alt_app. split; auto. simpl. rewrite K4. exact Ts.
      * destruct (r_q (txr s)); simpl; discriminate.
  - (* Pend *)
    inversion H; subst; clear H. simpl.
    destruct (m_txdead m) eqn:D; simpl; [exists m; split; auto|].
    destruct (Rt eq_refl) as (Tq & _). rewrite Tq.
    destruct (r_q (txr s')); simpl; exists m; split; auto.
  - (* NextRecv *)
    destruct (r_q (rxr s)) as [|e t] eqn:Eq; inversion H; subst; clear H; simpl; rewrite Rq; simpl.
    + exists m; split; auto.
    + rewrite N.eqb_refl, leqb_refl. simpl.
      inversion Rg as [|? ? Ge Gt]; subst. unfold lenok in Ge. unfold msz. rewrite Ge, Ro, N.eqb_refl.
      exists m; split; auto.
  - (* FreeRecv *)
    destruct (r_q (rxr s)) as [|e t] eqn:Eq; inversion H; subst; clear H; simpl; rewrite Rq; simpl.
    + exists m; split; auto.
    + eexists; split; [reflexivity|].
      inversion Rg; subst. constructor; simpl; auto; try congruence; rewrite ?Eq; simpl; auto.
  - (* Rx *)
    destruct ((256 <=? hl) || (max_rx s - 2 <? blen body)) eqn:Pre.
    { inversion H; subst; clear H. exists m; split; auto. }
    rewrite orb_false_iff in Pre. destruct Pre as [P1 P2]. apply N.leb_gt in P1. apply N.ltb_ge in P2.
    destruct (alloc_front (c_R cf) (rxr s) (max_rx s + c_o cf)) as [off|].
    2:{ destruct (next_transmit cf s) as [s1 [[sz h] b]] eqn:NT. inversion H; subst; clear H.
        destruct (next_transmit_rel cf s m s' sz h b t_nesn_nobuf R NT) as (m' & C & R').
        exists m'. simpl. rewrite C. simpl. auto. }
    unfold received in H.
    destruct (ack_bit s (has (mkhdr hl body) nesn_flag)) as [s1 tc] eqn:AB.
    rewrite mkhdr_has in AB by auto.
    destruct (m_ack m (has hl nesn_flag)) as [m1 etc] eqn:MA.
    destruct (ack_bit_rel cf s m _ s1 tc m1 etc R AB MA) as (R1 & TC).
    assert (BL : blen body < 256) by lia.
    destruct (accept cf s1 off (mkhdr hl body) body) as [s2 rc] eqn:ACC.
    destruct (m_accept m1 hl body) as [m2 erc] eqn:MACC.
    destruct (accept_rel cf s1 m1 off hl body s2 rc m2 erc R1 P1 BL ACC MACC) as (R2 & RC & D2).
    destruct (next_transmit cf s2) as [s3 [[sz h] b]] eqn:NT. inversion H; subst; clear H.
    destruct (next_transmit_rel cf s2 m2 s' sz h b t_nesn_rx R2 NT) as (m3 & C & R3).
    simpl mstep. rewrite MA, MACC, C. pose proof (check_resp_txdead _ _ _ _ _ _ _ C) as D3.
    rewrite N.eqb_refl. simpl negb. cbv iota.
    unfold tc_ok. destruct (m_txdead m3) eqn:D; simpl.
    + exists m3; auto.
    + rewrite (TC ltac:(congruence)), N.eqb_refl. simpl. exists m3; auto.
  - (* Mic *)
    destruct ((256 <=? hl) || (max_rx s - 2 <? blen body)) eqn:Pre.
    { inversion H; subst; clear H. exists m; split; auto. }
    rewrite orb_false_iff in Pre. destruct Pre as [P1 P2]. apply N.leb_gt in P1. apply N.ltb_ge in P2.
    destruct (alloc_front (c_R cf) (rxr s) (max_rx s + c_o cf)) as [off|].
    2:{ destruct (next_transmit cf s) as [s1 [[sz h] b]] eqn:NT. inversion H; subst; clear H.
        destruct (next_transmit_rel cf s m s' sz h b t_nesn_nobuf R NT) as (m' & C & R').
        exists m'. simpl. rewrite C. simpl. auto. }
    unfold acknowledge_pdu in H.
    change (N.land (mkhdr hl body) 3) with (llid (mkhdr hl body)) in H.
    assert (LL : llid (mkhdr hl body) = llid hl) by (unfold llid; apply mkhdr_land; auto).
    rewrite LL, mkhdr_has in H by auto.
    simpl mstep.
    destruct (negb (llid hl =? 0)) eqn:L0.
    + destruct (ack_bit s (has hl nesn_flag)) as [s1 tc] eqn:AB.
      destruct (m_ack m (has hl nesn_flag)) as [m1 etc] eqn:MA.
      destruct (ack_bit_rel cf s m _ s1 tc m1 etc R AB MA) as (R1 & TC).
      destruct (next_transmit cf s1) as [s3 [[sz h] b]] eqn:NT. inversion H; subst; clear H.
      destruct (next_transmit_rel cf s1 m1 s' sz h b t_nesn_mic R1 NT) as (m3 & C & R3).
      rewrite C. pose proof (check_resp_txdead _ _ _ _ _ _ _ C) as D3. simpl.
      unfold tc_ok. destruct (m_txdead m3) eqn:D; simpl.
      * exists m3; auto.
      * rewrite (TC ltac:(congruence)), N.eqb_refl. simpl. exists m3; auto.
    + destruct (next_transmit cf s) as [s3 [[sz h] b]] eqn:NT. inversion H; subst; clear H.
      destruct (next_transmit_rel cf s m s' sz h b t_nesn_mic R NT) as (m3 & C & R3).
      rewrite C. simpl. unfold tc_ok. rewrite orb_true_r. simpl. exists m3; auto.
  - (* NextTx *)
    destruct (next_transmit cf s) as [s1 [[sz h] b]] eqn:NT. inversion H; subst; clear H.
    destruct (next_transmit_rel cf s m s' sz h b t_nesn_nt R NT) as (m' & C & R').
    exists m'. simpl. rewrite C. simpl. auto.
Qed.

Lemma grun_model cf s m g ops :
  Rel cf s m -> exists m' g', grun m g (run cf s ops) = Some (m', g') /\ Rel cf (final cf s ops) m'.
Proof.
  revert s m g; induction ops as [|o t IH]; intros s m g R; simpl.
  - eauto.
  - destruct (step cf s o) as [s' r] eqn:E. simpl.
    destruct (step_rel cf s m o s' r R E) as (m' & M & R'). rewrite M. apply IH. exact R'.
Qed.

Lemma grun_monitor p m g tr pos v : grun m g tr = Some v -> monitor_from p m pos tr = None.
Proof.
  revert m g pos; induction tr as [|[o r] t IH]; intros m g pos H; simpl in *; auto.
  unfold judge. destruct (mstep m o r) as [[|tag] m']; [|discriminate]. eapply IH; eauto.
Qed.

(* T1: the monitor (every clause, hence the clauses of each property) accepts every trace of the model *)
Theorem monitor_accepts_model (p : prop) (cf : cfg) (ops : list op) :
  monitor p cf (run cf (init cf) ops) = None.
Proof.
  destruct (grun_model cf (init cf) (minit cf) g0 ops (Rel_init cf)) as (m' & g' & G & _).
  unfold monitor. eapply grun_monitor; eauto.
Qed.

(* ===================================================================== Part C: closed loop *)

Definition nlen (A : Type) (l : list A) : N := N.of_nat (length l).
Arguments nlen {A} l.

(* receive direction: central's (sn, current PDU, completed PDUs) vs. the peripheral's
   (nesn, receive FIFO) and history *)
Definition SIrx (c : central) (m : mon) (g : ghost) : Prop :=
  g_acc g = c_done c ++ rx_in_flight c m /\
  (Bool.eqb (m_nesn m) (c_sn c) = false -> c_cur c <> None) /\
  (forall p, c_cur c = Some p -> fst p < 4) /\
  map pkey (g_freed g ++ m_rxq m) = filter storable (g_acc g) /\
  g_rxc g = nlen (filter counted (g_acc g)).

(* transmit direction *)
Definition SItx (c : central) (m : mon) (g : ghost) : Prop :=
  m_txdead m = false /\
  match m_cur m with
  | CNone => c_nesn c = m_sn m
  | CEmpty s => m_sn m = negb s
  | CData s => m_sn m = negb s /\ m_txq m <> []
  end /\
  Forall (fun p => counted p = true) (m_txq m) /\
  filter counted (c_acc c) = g_popped g ++ tx_in_flight c m /\
  g_comm g = g_popped g ++ m_txq m /\
  g_txc g = nlen (g_popped g).

Definition SI (c : central) (m : mon) (g : ghost) : Prop := SIrx c m g /\ SItx c m g.

Lemma SI_init cf : SI cen_init (minit cf) g0.
Proof.
  split.
  - unfold SIrx, rx_in_flight; simpl. repeat split; auto; try discriminate.
  - unfold SItx, tx_in_flight; simpl. repeat split; auto.
Qed.

(* the header the central sends *)
Lemma cen_hl_facts c p md :
  fst p < 4 ->
  cen_hl c p md < 256 /\ has (cen_hl c p md) nesn_flag = c_nesn c /\ has (cen_hl c p md) sn_flag = c_sn c
  /\ llid (cen_hl c p md) = fst p.
Proof.
  intros H. unfold cen_hl.
  assert (E : fst p = 0 \/ fst p = 1 \/ fst p = 2 \/ fst p = 3) by lia.
  destruct E as [E|[E|[E|E]]]; rewrite E; destruct (c_nesn c), (c_sn c), md; vm_compute; auto.
Qed.

Lemma filter_app_one (A : Type) (f : A -> bool) l x :
  filter f (l ++ [x]) = filter f l ++ (if f x then [x] else []).
Proof. rewrite filter_app. simpl. destruct (f x); auto. Qed.

Lemma nlen_app_one (A : Type) (l : list A) x : nlen (l ++ [x]) = nlen l + 1.
Proof. unfold nlen. rewrite app_length. simpl. lia. Qed.

(* ---- receive direction ---- *)

(* the central takes the next PDU *)
Lemma SIrx_load c m g fresh :
  SIrx c m g -> cpdu_ok fresh = true -> SIrx (cen_load c fresh) m g /\ c_cur (cen_load c fresh) <> None.
Proof.
  intros (A & B & C & D & E) F. unfold cen_load. destruct (c_cur c) as [p|] eqn:Cur.
  - split; [|congruence]. unfold SIrx. rewrite Cur. auto.
  - split; [|simpl; congruence].
    assert (N : Bool.eqb (m_nesn m) (c_sn c) = true).
    { destruct (Bool.eqb (m_nesn m) (c_sn c)) eqn:X; auto. exfalso. apply B; auto. }
    unfold SIrx, rx_in_flight in *. simpl. rewrite N in *. repeat split; auto.
    + intros; discriminate.
    + intros p P. inversion P; subst. apply N.ltb_lt. exact F.
Qed.

(* received(): the acceptance decision for the central's current PDU *)
Lemma SIrx_accept c m g p md m2 erc :
  SIrx c m g -> c_cur c = Some p ->
  m_accept m (cen_hl c p md) (snd p) = (m2, erc) ->
  let g2 := if Bool.eqb (has (cen_hl c p md) sn_flag) (m_nesn m)
            then gw_acc g (g_acc g ++ [(llid (cen_hl c p md), snd p)]) else g in
  SIrx c m2 (g_count g2 erc 0) /\ m_txq m2 = m_txq m /\ m_cur m2 = m_cur m /\ m_sn m2 = m_sn m /\ m_txdead m2 = m_txdead m.
Proof.
  intros (A & B & C & D & E) Cur M. pose proof (C p Cur) as P4.
  destruct (cen_hl_facts c p md P4) as (H1 & H2 & H3 & H4).
  unfold m_accept in M. rewrite H3, H4 in *.
  destruct (Bool.eqb (c_sn c) (m_nesn m)) eqn:New.
  - (* new PDU *)
    assert (N1 : Bool.eqb (m_nesn m) (c_sn c) = true) by (rewrite eqb_true_iff in *; congruence).
    assert (N2 : Bool.eqb (negb (m_nesn m)) (c_sn c) = false) by (destruct (m_nesn m), (c_sn c); simpl in *; congruence).
    unfold SIrx, rx_in_flight in A. rewrite N1 in A. rewrite app_nil_r in A.
    assert (PK : pkey (mkhdr (cen_hl c p md) (snd p), snd p) = p).
    { unfold pkey. simpl. unfold llid. rewrite mkhdr_land by auto. fold (llid (cen_hl c p md)). rewrite H4.
      destruct p; reflexivity. }
    assert (PP : (fst p, snd p) = p) by (destruct p; reflexivity).
    destruct (negb (blen (snd p) =? 0)) eqn:NE; destruct (negb (fst p =? 0)) eqn:L0; simpl in M;
      inversion M; subst; clear M; (split; [|simpl; auto]);
      unfold SIrx, rx_in_flight, cen_pdu; simpl; rewrite Cur, N2, PP;
      (split; [rewrite A; reflexivity|]); (split; [congruence|]); (split; [intros q Q; inversion Q; subst; exact P4|]).
    + assert (S1 : storable p = true) by (unfold storable; rewrite NE, L0; reflexivity).
      assert (S2 : counted p = true) by (unfold counted; rewrite NE; reflexivity).
      split.
      * rewrite app_assoc, map_app, D. simpl. rewrite PK, filter_app_one, S1. reflexivity.
      * rewrite filter_app_one, E, S2, nlen_app_one. reflexivity.
    + assert (S1 : storable p = false) by (unfold storable; rewrite NE, L0; reflexivity).
      assert (S2 : counted p = true) by (unfold counted; rewrite NE; reflexivity).
      split.
      * rewrite D, filter_app_one, S1, app_nil_r. reflexivity.
      * rewrite filter_app_one, E, S2, nlen_app_one. reflexivity.
    + assert (S1 : storable p = false) by (unfold storable; rewrite NE; reflexivity).
      assert (S2 : counted p = false) by (unfold counted; rewrite NE; reflexivity).
      split.
      * rewrite D, filter_app_one, S1, app_nil_r. reflexivity.
      * rewrite filter_app_one, E, S2, app_nil_r. lia.
    + assert (S1 : storable p = false) by (unfold storable; rewrite NE; reflexivity).
      assert (S2 : counted p = false) by (unfold counted; rewrite NE; reflexivity).
      split.
      * rewrite D, filter_app_one, S1, app_nil_r. reflexivity.
      * rewrite filter_app_one, E, S2, app_nil_r. lia.
  - (* retransmission *)
    inversion M; subst; clear M. simpl. split; auto.
    unfold SIrx. simpl. repeat split; auto. lia.
Qed.

(* the central sees the peripheral's NESN *)
Definition cen_ack (c : central) (b : bool) : central :=
  if Bool.eqb b (c_sn c) then c
  else mkCen (negb (c_sn c)) (c_nesn c) None (c_done c ++ [cen_pdu c]) (c_acc c).
Definition cen_new (c : central) (h : N) (body : list N) : central :=
  if Bool.eqb (has h sn_flag) (c_nesn c)
  then mkCen (c_sn c) (negb (c_nesn c)) (c_cur c) (c_done c) (c_acc c ++ [(llid h, body)])
  else c.
Lemma cen_recv_split c h body : cen_recv c h body = cen_new (cen_ack c (has h nesn_flag)) h body.
Proof. reflexivity. Qed.

Lemma SIrx_cen_ack c m g :
  SIrx c m g -> c_cur c <> None -> SIrx (cen_ack c (m_nesn m)) m g.
Proof.
  intros (A & B & C & D & E) Cur. unfold cen_ack.
  destruct (Bool.eqb (m_nesn m) (c_sn c)) eqn:X.
  - unfold SIrx. auto.
  - unfold SIrx, rx_in_flight in *. simpl. rewrite X in A.
    assert (Y : Bool.eqb (m_nesn m) (negb (c_sn c)) = true) by (destruct (m_nesn m), (c_sn c); simpl in *; congruence).
    rewrite Y. repeat split; auto.
    + rewrite app_nil_r. exact A.
    + intros; discriminate.
    + intros; discriminate.
Qed.

(* frame: only the receive fields of central, monitor and history matter *)
Lemma SIrx_frame c m g c' m' g' :
  SIrx c m g -> c_sn c' = c_sn c -> c_cur c' = c_cur c -> c_done c' = c_done c ->
  m_nesn m' = m_nesn m -> m_rxq m' = m_rxq m ->
  g_acc g' = g_acc g -> g_freed g' = g_freed g -> g_rxc g' = g_rxc g -> SIrx c' m' g'.
Proof.
  unfold SIrx, rx_in_flight, cen_pdu. intros H A B C D E F G I. rewrite A, B, C, D, E, F, G, I. exact H.
Qed.

Lemma SItx_frame c m g c' m' g' :
  SItx c m g -> c_nesn c' = c_nesn c -> c_acc c' = c_acc c ->
  m_txq m' = m_txq m -> m_cur m' = m_cur m -> m_sn m' = m_sn m -> m_txdead m' = m_txdead m ->
  g_comm g' = g_comm g -> g_popped g' = g_popped g -> g_txc g' = g_txc g -> SItx c' m' g'.
Proof.
  unfold SItx, tx_in_flight. intros H A B C D E F G I J. rewrite A, B, C, D, E, F, G, I, J. exact H.
Qed.

(* ---- transmit direction ---- *)

Lemma data_matches_inv o p s sz h b :
  data_matches o p s sz h b = true -> has h sn_flag = s /\ (llid h, b) = p.
Proof.
  unfold data_matches. rewrite !andb_true_iff. intros [[[[[A B] C] D] E] F].
  apply N.eqb_eq in A. apply eqb_prop in B. apply leqb_eq in D. split; auto.
  destruct p; simpl in *. congruence.
Qed.

Lemma empty_matches_inv o s sz h b :
  empty_matches o s sz h b = true -> has h sn_flag = s /\ b = [].
Proof.
  unfold empty_matches. rewrite !andb_true_iff. intros [[[[[A B] C] D] E] F].
  apply eqb_prop in B. apply leqb_eq in D. auto.
Qed.

Lemma check_resp_nesn tag m sz h b m' :
  check_resp tag m sz h b = (Ok, m') ->
  has h nesn_flag = m_nesn m /\ m_nesn m' = m_nesn m /\ m_rxq m' = m_rxq m /\ m_o m' = m_o m.
Proof.
  unfold check_resp. intros H.
  destruct (Bool.eqb (has h nesn_flag) (m_nesn m)) eqn:E; simpl in H; [|discriminate].
  apply eqb_prop in E. split; auto.
  destruct (m_txdead m); [inversion H; subst; auto|].
  destruct (m_cur m).
  - destruct (m_txq m).
    + destruct (empty_matches _ _ _ _ _); inversion H; subst; simpl; auto.
    + destruct (data_matches _ _ _ _ _ _); inversion H; subst; simpl; auto.
  - destruct (empty_matches _ _ _ _ _); inversion H; subst; simpl; auto.
  - destruct (m_txq m).
    + inversion H.
    + destruct (data_matches _ _ _ _ _ _); inversion H; subst; simpl; auto.
Qed.

Lemma counted_empty (x : N) : counted (x, []) = false.
Proof. reflexivity. Qed.

(* the response: lost, or seen by the central *)
Lemma SItx_resp c m g tag sz h b m' :
  SItx c m g -> check_resp tag m sz h b = (Ok, m') ->
  SItx c m' g /\ SItx (cen_new c h b) m' g.
Proof.
  intros (D & St & Fc & Ca & Co & Tc) H. unfold check_resp in H.
  destruct (negb (Bool.eqb (has h nesn_flag) (m_nesn m))); [discriminate|]. rewrite D in H.
  unfold cen_new.
  destruct (m_cur m) as [|se|sd] eqn:Ec.
  - (* a new PDU is sent *)
    destruct (m_txq m) as [|p t] eqn:Eq.
    + destruct (empty_matches (m_o m) (m_sn m) sz h b) eqn:EM; inversion H; subst; clear H.
      destruct (empty_matches_inv _ _ _ _ _ EM) as (Hs & Hb). subst b.
      rewrite Hs, St, eqb_reflx.
      split; unfold SItx, tx_in_flight in *; simpl; rewrite ?Ec, ?Eq in *; simpl in *; repeat split; auto.
      rewrite filter_app_one, counted_empty, app_nil_r. exact Ca.
    + destruct (data_matches (m_o m) p (m_sn m) sz h b) eqn:DM; inversion H; subst; clear H.
      destruct (data_matches_inv _ _ _ _ _ _ DM) as (Hs & Hb).
      rewrite Hs, St, eqb_reflx. inversion Fc as [|? ? Fp Ft]; subst.
      split; unfold SItx, tx_in_flight in *; simpl; rewrite ?Ec, ?Eq in *; simpl in *.
      * rewrite <- St, eqb_reflx. repeat split; auto; try discriminate.
      * assert (X : Bool.eqb (negb (m_sn m)) (m_sn m) = false) by (destruct (m_sn m); reflexivity).
        rewrite X. repeat split; auto; try discriminate.
        rewrite filter_app_one, Fp, Ca, app_nil_r. reflexivity.
  - (* the empty PDU in flight again *)
    destruct (empty_matches (m_o m) se sz h b) eqn:EM; inversion H; subst; clear H.
    destruct (empty_matches_inv _ _ _ _ _ EM) as (Hs & Hb). subst b.
    unfold tx_in_flight in Ca. rewrite Ec in Ca.
    split; [unfold SItx, tx_in_flight; rewrite Ec; repeat split; auto|].
    destruct (Bool.eqb (has h sn_flag) (c_nesn c)); [|unfold SItx, tx_in_flight; rewrite Ec; repeat split; auto].
    unfold SItx, tx_in_flight; simpl; rewrite Ec. repeat split; auto.
    rewrite filter_app_one, counted_empty, app_nil_r. exact Ca.
  - (* the data PDU in flight again *)
    destruct St as [St Ne].
    destruct (m_txq m) as [|p t] eqn:Eq; [congruence|].
    destruct (data_matches (m_o m) p sd sz h b) eqn:DM; inversion H; subst; clear H.
    destruct (data_matches_inv _ _ _ _ _ _ DM) as (Hs & Hb).
    inversion Fc as [|? ? Fp Ft]; subst.
    unfold tx_in_flight in Ca. rewrite Ec, Eq in Ca. simpl in Ca.
    split; [unfold SItx, tx_in_flight; rewrite Ec, Eq; simpl; repeat split; auto; discriminate|].
    destruct (Bool.eqb (has h sn_flag) (c_nesn c)) eqn:X;
      [|unfold SItx, tx_in_flight; rewrite Ec, Eq; simpl; repeat split; auto; discriminate].
    apply eqb_prop in X.
    unfold SItx, tx_in_flight; simpl; rewrite Ec, Eq. simpl.
    rewrite <- X in Ca. rewrite eqb_reflx in Ca. rewrite <- X.
    assert (Y : Bool.eqb (negb (has h sn_flag)) (has h sn_flag) = false) by (destruct (has h sn_flag); reflexivity).
    rewrite Y. repeat split; auto; try discriminate.
    rewrite filter_app_one, Fp, Ca, app_nil_r. reflexivity.
Qed.

Lemma firstn1_app (A : Type) (l : list A) x : l <> [] -> firstn 1 (l ++ [x]) = firstn 1 l.
Proof. destruct l; simpl; congruence. Qed.

(* the central's NESN reaches the peripheral *)
Lemma SItx_ack c m g m1 etc :
  SItx c m g -> m_ack m (c_nesn c) = (m1, etc) ->
  SItx c m1 (g_count (ack_ghost m g (c_nesn c)) 0 etc) /\
  m_nesn m1 = m_nesn m /\ m_rxq m1 = m_rxq m.
Proof.
  intros (D & St & Fc & Ca & Co & Tc) M. unfold m_ack in M. unfold ack_ghost. rewrite D in *.
  unfold tx_in_flight in Ca.
  destruct (m_cur m) as [|se|sd] eqn:Ec.
  - rewrite <- St, eqb_reflx in M. inversion M; subst; clear M. split; auto.
    unfold SItx, tx_in_flight. simpl. rewrite Ec. repeat split; auto. lia.
  - destruct (Bool.eqb se (c_nesn c)) eqn:X; inversion M; subst; clear M; (split; [|auto]).
    + unfold SItx, tx_in_flight. simpl. rewrite Ec. repeat split; auto. lia.
    + unfold SItx, tx_in_flight. simpl. repeat split; auto; try lia.
  - destruct St as [St Ne].
    assert (XY : Bool.eqb sd (c_nesn c) = Bool.eqb (c_nesn c) sd) by (destruct sd, (c_nesn c); reflexivity).
    destruct (Bool.eqb sd (c_nesn c)) eqn:X; inversion M; subst; clear M; (split; [|auto]).
    + rewrite <- XY in Ca. unfold SItx, tx_in_flight. simpl. rewrite Ec, <- XY. repeat split; auto. lia.
    + rewrite <- XY in Ca.
      destruct (m_txq m) as [|p t] eqn:Eq; [congruence|]. simpl in *.
      inversion Fc; subst. unfold SItx, tx_in_flight. simpl. repeat split; auto.
      * destruct sd, (c_nesn c); simpl in *; congruence.
      * rewrite app_nil_r. exact Ca.
      * rewrite <- app_assoc. exact Co.
      * rewrite nlen_app_one. lia.
Qed.

Lemma ack_ghost_rx m g b :
  g_acc (ack_ghost m g b) = g_acc g /\ g_freed (ack_ghost m g b) = g_freed g /\ g_rxc (ack_ghost m g b) = g_rxc g.
Proof.
  unfold ack_ghost. destruct (m_txdead m); auto. destruct (m_cur m); auto. destruct (Bool.eqb _ _); auto.
Qed.

Lemma tc_ok_inv m tc etc : m_txdead m = false -> negb (tc_ok m tc etc) = false -> tc = etc.
Proof.
  unfold tc_ok. intros D H. rewrite D in H. simpl in H. apply negb_false_iff, N.eqb_eq in H. exact H.
Qed.

(* ---- one operation of the closed loop ---- *)

Definition cen_after (c : central) (lost : bool) (r : out) : central :=
  match r with
  | OResp _ _ h b _ _ => if lost then c else cen_recv c h b
  | _ => c
  end.

Lemma cen_new_ack_tx c x h b :
  c_nesn (cen_new (cen_ack c x) h b) = c_nesn (cen_new c h b) /\
  c_acc (cen_new (cen_ack c x) h b) = c_acc (cen_new c h b).
Proof.
  unfold cen_new, cen_ack. destruct (Bool.eqb x (c_sn c)); simpl; auto.
  destruct (Bool.eqb (has h sn_flag) (c_nesn c)); simpl; auto.
Qed.

Lemma cen_new_rx c h b :
  c_sn (cen_new c h b) = c_sn c /\ c_cur (cen_new c h b) = c_cur c /\ c_done (cen_new c h b) = c_done c.
Proof. unfold cen_new. destruct (Bool.eqb _ _); simpl; auto. Qed.

Lemma cen_ack_tx c x : c_nesn (cen_ack c x) = c_nesn c /\ c_acc (cen_ack c x) = c_acc c.
Proof. unfold cen_ack. destruct (Bool.eqb _ _); simpl; auto. Qed.

(* the common tail: the response is checked by the monitor and then lost or seen by the central *)
Lemma SI_resp c m g tag sz h b m' (lost : bool) :
  SI c m g -> c_cur c <> None -> check_resp tag m sz h b = (Ok, m') ->
  SI (if lost then c else cen_recv c h b) m' g.
Proof.
  intros [Srx Stx] Cur C.
  destruct (check_resp_nesn _ _ _ _ _ _ C) as (Hn & Mn & Mq & Mo).
  destruct (SItx_resp c m g tag sz h b m' Stx C) as (T1 & T2).
  destruct lost.
  - split; auto. apply (SIrx_frame c m g); auto.
  - rewrite cen_recv_split, Hn. split.
    + destruct (cen_new_rx (cen_ack c (m_nesn m)) h b) as (A1 & A2 & A3).
      apply (SIrx_frame (cen_ack c (m_nesn m)) m g); auto. apply SIrx_cen_ack; auto.
    + destruct (cen_new_ack_tx c (m_nesn m) h b) as (A1 & A2).
      apply (SItx_frame (cen_new c h b) m' g); auto.
Qed.

Lemma SI_count0 c m g : SI c m g -> SI c m (g_count g 0 0).
Proof.
  intros [Srx Stx]. split.
  - apply (SIrx_frame c m g); auto. simpl. lia.
  - apply (SItx_frame c m g); auto. simpl. lia.
Qed.

Lemma negb_eqb_false a b : negb (a =? b) = false -> a = b.
Proof. intros H. apply negb_false_iff, N.eqb_eq in H. exact H. Qed.

Lemma SItx_dead c m g : SItx c m g -> m_txdead m = false.
Proof. intros (D & _). exact D. Qed.

(* received() for the central's current PDU *)
Lemma SI_rx c m g p md r m' lost :
  SI c m g -> c_cur c = Some p ->
  mstep m (Rx (cen_hl c p md) (snd p)) r = (Ok, m') ->
  SI (cen_after c lost r) m' (gstep m g (Rx (cen_hl c p md) (snd p)) r).
Proof.
  intros S Cur H. pose proof S as [Srx Stx].
  assert (P4 : fst p < 4) by (destruct Srx as (_ & _ & C & _); apply C; auto).
  destruct (cen_hl_facts c p md P4) as (H1 & H2 & H3 & H4).
  assert (CurN : c_cur c <> None) by congruence.
  destruct r as [| | | | | |k sz h b rc tc|]; simpl in H; try discriminate.
  - inversion H; subst. exact S.
  - destruct k.
    + (* received() *)
      rewrite H2 in H.
      destruct (m_ack m (c_nesn c)) as [m1 etc] eqn:MA.
      destruct (m_accept m1 (cen_hl c p md) (snd p)) as [m2 erc] eqn:MACC.
      destruct (check_resp t_nesn_rx m2 sz h b) as [[|tag] m3] eqn:C; [|discriminate].
      destruct (negb (rc =? erc)) eqn:RC; [discriminate|].
      destruct (negb (tc_ok m3 tc etc)) eqn:TC; [discriminate|]. inversion H; subst m3; clear H.
      apply negb_eqb_false in RC. subst erc.
      destruct (SItx_ack c m g m1 etc Stx MA) as (T1 & N1 & Q1).
      set (g1 := ack_ghost m g (c_nesn c)) in *.
      destruct (ack_ghost_rx m g (c_nesn c)) as (G1 & G2 & G3). fold g1 in G1, G2, G3.
      assert (R1 : SIrx c m1 g1) by (apply (SIrx_frame c m g); auto).
      destruct (SIrx_accept c m1 g1 p md m2 rc R1 Cur MACC) as (R2 & X1 & X2 & X3 & X4).
      cbv zeta in R2.
      assert (D3 : m_txdead m' = false).
      { rewrite (check_resp_txdead _ _ _ _ _ _ _ C), X4. apply (SItx_dead c m1 _ T1). }
      pose proof (tc_ok_inv m' tc etc D3 TC) as TE. subst etc.
      simpl gstep. rewrite H2, MA. simpl fst. fold g1.
      set (g2 := if Bool.eqb (has (cen_hl c p md) sn_flag) (m_nesn m1)
                 then gw_acc g1 (g_acc g1 ++ [(llid (cen_hl c p md), snd p)]) else g1) in *.
      assert (S2 : SI c m2 (g_count g2 rc tc)).
      { split.
        - apply (SIrx_frame c m2 (g_count g2 rc 0)); auto.
        - apply (SItx_frame c m1 (g_count g1 0 tc)); auto;
            unfold g2; destruct (Bool.eqb _ _); reflexivity. }
      apply (SI_resp c m2 _ t_nesn_rx sz h b m' lost S2 CurN C).
    + discriminate.
    + (* no receive buffer: next_transmit() only *)
      destruct (check_resp t_nesn_nobuf m sz h b) as [[|tag] m3] eqn:C; [|discriminate].
      destruct (negb (rc =? 0)) eqn:RC; [discriminate|].
      destruct (negb (tc =? 0)) eqn:TC; [discriminate|]. inversion H; subst m3; clear H.
      apply negb_eqb_false in RC. apply negb_eqb_false in TC. subst rc tc.
      simpl gstep. apply (SI_resp c m _ t_nesn_nobuf sz h b m' lost (SI_count0 c m g S) CurN C).
Qed.

(* acknowledge(): CRC ok, MIC failed *)
Lemma SI_mic c m g p md r m' lost :
  SI c m g -> c_cur c = Some p ->
  mstep m (Mic (cen_hl c p md) (snd p)) r = (Ok, m') ->
  SI (cen_after c lost r) m' (gstep m g (Mic (cen_hl c p md) (snd p)) r).
Proof.
  intros S Cur H. pose proof S as [Srx Stx].
  assert (P4 : fst p < 4) by (destruct Srx as (_ & _ & C & _); apply C; auto).
  destruct (cen_hl_facts c p md P4) as (H1 & H2 & H3 & H4).
  assert (CurN : c_cur c <> None) by congruence.
  destruct r as [| | | | | |k sz h b rc tc|]; simpl in H; try discriminate.
  - inversion H; subst. exact S.
  - destruct k.
    + discriminate.
    + rewrite H2, H4 in H. simpl gstep. rewrite H2, H4.
      destruct (negb (fst p =? 0)) eqn:L0.
      * destruct (m_ack m (c_nesn c)) as [m1 etc] eqn:MA.
        destruct (check_resp t_nesn_mic m1 sz h b) as [[|tag] m3] eqn:C; [|discriminate].
        destruct (negb (rc =? 0)) eqn:RC; [discriminate|].
        destruct (negb (tc_ok m3 tc etc)) eqn:TC; [discriminate|]. inversion H; subst m3; clear H.
        apply negb_eqb_false in RC. subst rc.
        destruct (SItx_ack c m g m1 etc Stx MA) as (T1 & N1 & Q1).
        set (g1 := ack_ghost m g (c_nesn c)) in *.
        destruct (ack_ghost_rx m g (c_nesn c)) as (G1 & G2 & G3). fold g1 in G1, G2, G3.
        assert (D3 : m_txdead m' = false).
        { rewrite (check_resp_txdead _ _ _ _ _ _ _ C). apply (SItx_dead c m1 _ T1). }
        pose proof (tc_ok_inv m' tc etc D3 TC) as TE. subst etc.
        assert (S2 : SI c m1 (g_count g1 0 tc)).
        { split; auto. apply (SIrx_frame c m g); auto. simpl. lia. }
        apply (SI_resp c m1 _ t_nesn_mic sz h b m' lost S2 CurN C).
      * destruct (check_resp t_nesn_mic m sz h b) as [[|tag] m3] eqn:C; [|discriminate].
        destruct (negb (rc =? 0)) eqn:RC; [discriminate|].
        destruct (negb (tc_ok m3 tc 0)) eqn:TC; [discriminate|]. inversion H; subst m3; clear H.
        apply negb_eqb_false in RC. subst rc.
        assert (D3 : m_txdead m' = false).
        { rewrite (check_resp_txdead _ _ _ _ _ _ _ C). apply (SItx_dead c m _ Stx). }
        pose proof (tc_ok_inv m' tc 0 D3 TC) as TE. subst tc.
        apply (SI_resp c m _ t_nesn_mic sz h b m' lost (SI_count0 c m g S) CurN C).
    + destruct (check_resp t_nesn_nobuf m sz h b) as [[|tag] m3] eqn:C; [|discriminate].
      destruct (negb (rc =? 0)) eqn:RC; [discriminate|].
      destruct (negb (tc =? 0)) eqn:TC; [discriminate|]. inversion H; subst m3; clear H.
      apply negb_eqb_false in RC. apply negb_eqb_false in TC. subst rc tc.
      simpl gstep. apply (SI_resp c m _ t_nesn_nobuf sz h b m' lost (SI_count0 c m g S) CurN C).
Qed.

(* the link layer calls the buffer *)
Lemma SI_ll c m g o r m' :
  SI c m g -> ll_op_ok o = true -> mstep m o r = (Ok, m') -> SI c m' (gstep m g o r).
Proof.
  intros S L H. pose proof S as [Srx Stx].
  destruct o as [n|n| | |n hl body| | | |hl body|hl body| ]; simpl in L; try discriminate.
  - destruct r; simpl in H; try discriminate; inversion H; subst; exact S.
  - destruct r; simpl in H; try discriminate; inversion H; subst; exact S.
  - destruct r; simpl in H; try discriminate; inversion H; subst. split.
    + apply (SIrx_frame c m g); auto.
    + apply (SItx_frame c m g); auto.
  - (* Tx *)
    apply andb_true_iff in L. destruct L as [L28 LB].
    destruct r as [| | |ok| | | |]; simpl in H; try discriminate.
    + inversion H; subst; exact S.
    + destruct ok; [|inversion H; subst; exact S].
      simpl gstep. destruct (m_stopped m); [inversion H; subst; exact S|].
      rewrite L28 in H. inversion H; subst; clear H. split.
      * apply (SIrx_frame c m g); auto.
      * destruct Stx as (D & St & Fc & Ca & Co & Tc). unfold SItx, tx_in_flight in *. simpl.
        assert (CT : counted (llid hl, body) = true) by exact LB.
        repeat split; auto.
        -- destruct (m_cur m); auto. destruct St as [St Ne]. split; auto.
           destruct (m_txq m); simpl; congruence.
        -- apply Forall_app. split; auto.
        -- destruct (m_cur m); auto. destruct St as [St Ne]. destruct (m_txq m); [congruence|]. simpl in *. exact Ca.
        -- rewrite Co, app_assoc. reflexivity.
  - (* Pend *)
    destruct r; simpl in H; try discriminate.
    destruct (m_txdead m || _); inversion H; subst; exact S.
  - (* NextRecv *)
    destruct r; simpl in H; try discriminate.
    + destruct (m_rxq m); inversion H; subst; exact S.
    + destruct (m_rxq m) as [|[h' b'] t]; [discriminate|].
      destruct (_ && _); inversion H; subst; exact S.
  - (* FreeRecv *)
    destruct r; simpl in H; try discriminate.
    + destruct (m_rxq m) as [|x t] eqn:Eq; [discriminate|]. inversion H; subst; clear H. simpl gstep. split.
      * destruct Srx as (A & B & C & D & E). unfold SIrx, rx_in_flight in *. simpl. rewrite Eq in *.
        repeat split; auto. simpl. rewrite <- app_assoc. exact D.
      * apply (SItx_frame c m g); auto.
    + destruct (m_rxq m); inversion H; subst; exact S.
Qed.

Lemma SI_load c m g fresh :
  SI c m g -> cpdu_ok fresh = true ->
  SI (cen_load c fresh) m g /\ exists p, c_cur (cen_load c fresh) = Some p.
Proof.
  intros [Srx Stx] F. destruct (SIrx_load c m g fresh Srx F) as (R & N). split.
  - split; auto. apply (SItx_frame c m g); auto; unfold cen_load; destruct (c_cur c); reflexivity.
  - destruct (c_cur (cen_load c fresh)) as [p|]; [eauto|congruence].
Qed.

(* T2: the closed loop keeps the refinement relation and the alternating-bit invariant; the whole
   trace is accepted by the monitor *)
Lemma sys_run_inv cf evs : forall c s m g,
  Rel cf s m -> SI c m g -> Forall (fun e => event_ok e = true) evs ->
  exists m' g', grun m g (snd (sys_run cf (c, s) evs)) = Some (m', g') /\
                Rel cf (snd (fst (sys_run cf (c, s) evs))) m' /\ SI (fst (fst (sys_run cf (c, s) evs))) m' g'.
Proof.
  induction evs as [|e t IH]; intros c s m g R S F.
  - simpl. eauto.
  - inversion F as [|? ? Fe Ft]; subst. simpl sys_run.
    destruct e as [o|fresh md f lost]; simpl in Fe.
    + (* link layer operation *)
      simpl sys_step. destruct (step cf s o) as [s' r] eqn:E.
      destruct (step_rel cf s m o s' r R E) as (m' & M & R').
      pose proof (SI_ll c m g o r m' S Fe M) as S'.
      destruct (IH c s' m' (gstep m g o r) R' S' Ft) as (m2 & g2 & G & R2 & S2).
      destruct (sys_run cf (c, s') t) as [[c2 s2] tr2]. simpl in *.
      rewrite M. eauto.
    + (* connection event *)
      destruct (SI_load c m g fresh S Fe) as (S1 & p & Cur).
      simpl sys_step. set (c1 := cen_load c fresh) in *.
      assert (CP : cen_pdu c1 = p) by (unfold cen_pdu; rewrite Cur; reflexivity).
      destruct f; simpl event_op.
      * (* the central's packet is lost *)
        destruct (IH c1 s m g R S1 Ft) as (m2 & g2 & G & R2 & S2).
        destruct (sys_run cf (c1, s) t) as [[c2 s2] tr2]. simpl in *. eauto.
      * rewrite CP.
        destruct (step cf s (Rx (cen_hl c1 p md) (snd p))) as [s' r] eqn:E.
        destruct (step_rel cf s m _ s' r R E) as (m' & M & R').
        pose proof (SI_rx c1 m g p md r m' lost S1 Cur M) as S'.
        fold (cen_after c1 lost r). set (c2 := cen_after c1 lost r) in *.
        destruct (IH c2 s' m' _ R' S' Ft) as (m2 & g2 & G & R2 & S2).
        destruct (sys_run cf (c2, s') t) as [[c3 s3] tr3]. simpl in *.
        rewrite M. eauto.
      * rewrite CP.
        destruct (step cf s (Mic (cen_hl c1 p md) (snd p))) as [s' r] eqn:E.
        destruct (step_rel cf s m _ s' r R E) as (m' & M & R').
        pose proof (SI_mic c1 m g p md r m' lost S1 Cur M) as S'.
        fold (cen_after c1 lost r). set (c2 := cen_after c1 lost r) in *.
        destruct (IH c2 s' m' _ R' S' Ft) as (m2 & g2 & G & R2 & S2).
        destruct (sys_run cf (c2, s') t) as [[c3 s3] tr3]. simpl in *.
        rewrite M. eauto.
Qed.

(* ---- the end-to-end statements ---- *)

(* what the system theorems conclude about the final central c, the final model state s and the
   monitor/ghost (m, g) of the trace *)
Definition end_to_end (c : central) (s : state) (m : mon) (g : ghost) : Prop :=
  (* the monitor's FIFOs are the model's rings *)
  m_rxq m = map raw (r_q (rxr s)) /\ m_txq m = map key (r_q (txr s)) /\ m_nesn m = nesn s /\
  (* receive direction: the PDUs handed to the link layer (freed ++ still queued) are exactly the
     storable PDUs the central has completed plus the one the peripheral has already accepted:
     in order, each exactly once *)
  g_acc g = c_done c ++ rx_in_flight c m /\
  map pkey (g_freed g ++ m_rxq m) = filter storable (c_done c ++ rx_in_flight c m) /\
  (* transmit direction: what the central accepted is what left the transmit FIFO plus possibly its
     head: a prefix of the committed PDUs, in order, each exactly once; a PDU leaves the FIFO only
     after the central accepted it *)
  filter counted (c_acc c) = g_popped g ++ tx_in_flight c m /\
  g_comm g = g_popped g ++ m_txq m /\
  (* packet counters *)
  g_rxc g = nlen (filter counted (c_done c ++ rx_in_flight c m)) /\
  g_txc g = nlen (g_popped g).

Theorem closed_loop_end_to_end (cf : cfg) (evs : list event) :
  Forall (fun e => event_ok e = true) evs ->
  exists m g,
    grun (minit cf) g0 (snd (sys_run cf (cen_init, init cf) evs)) = Some (m, g) /\
    end_to_end (fst (fst (sys_run cf (cen_init, init cf) evs))) (snd (fst (sys_run cf (cen_init, init cf) evs))) m g.
Proof.
  intros F.
  destruct (sys_run_inv cf evs cen_init (init cf) (minit cf) g0 (Rel_init cf) (SI_init cf) F)
    as (m & g & G & R & [Srx Stx]).
  exists m, g. split; auto.
  destruct Srx as (A & B & C & D & E). destruct Stx as (Dd & St & Fc & Ca & Co & Tc).
  destruct R as [Ro Rn Rq Rg Rs Rm Rt]. destruct (Rt Dd) as (Tq & _).
  unfold end_to_end. rewrite <- A. repeat split; auto.
Qed.

(* nonce synchronisation (C16): whenever the central sends a PDU the peripheral has not accepted
   yet, the peripheral's receive counter equals the number of non-empty PDUs the central has
   completed, i.e. the packet counter the central encrypts that PDU with; symmetric for the other
   direction *)
Lemma end_to_end_nonce c s m g :
  end_to_end c s m g ->
  (Bool.eqb (m_nesn m) (c_sn c) = true -> g_rxc g = nlen (filter counted (c_done c))) /\
  (tx_in_flight c m = [] -> g_txc g = nlen (filter counted (c_acc c))).
Proof.
  intros (_ & _ & _ & _ & _ & Ca & _ & Rc & Tc). split.
  - intros E. unfold rx_in_flight in Rc. rewrite E, app_nil_r in Rc. exact Rc.
  - intros E. rewrite Ca, E, app_nil_r. exact Tc.
Qed.

(* (c) a full receive buffer never acknowledges a PDU it did not store; and
   C17: a PDU failing the MIC check is never acknowledged, stored or counted *)
Lemma no_buffer_no_ack cf s hl body :
  alloc_front (c_R cf) (rxr s) (max_rx s + c_o cf) = None ->
  nesn (fst (step cf s (Rx hl body))) = nesn s /\ rxr (fst (step cf s (Rx hl body))) = rxr s /\
  (snd (step cf s (Rx hl body)) = OPre \/
   exists sz h b, snd (step cf s (Rx hl body)) = OResp KN sz h b 0 0 /\ has h nesn_flag = nesn s).
Proof.
  intros A. unfold step. destruct ((256 <=? hl) || (max_rx s - 2 <? blen body)); [simpl; auto|].
  rewrite A. destruct (next_transmit cf s) as [s' [[sz h] b]] eqn:NT.
  destruct (next_transmit_frame _ _ _ _ _ _ NT) as (F1 & F2 & F3 & _). simpl.
  repeat split; auto. right. eauto.
Qed.

Lemma mic_failure_no_ack cf s hl body :
  nesn (fst (step cf s (Mic hl body))) = nesn s /\ rxr (fst (step cf s (Mic hl body))) = rxr s /\
  (snd (step cf s (Mic hl body)) = OPre \/
   exists k sz h b tc, snd (step cf s (Mic hl body)) = OResp k sz h b 0 tc /\ has h nesn_flag = nesn s).
Proof.
  unfold step. destruct ((256 <=? hl) || (max_rx s - 2 <? blen body)); [simpl; auto|].
  destruct (alloc_front (c_R cf) (rxr s) (max_rx s + c_o cf)).
  - unfold acknowledge_pdu.
    destruct (if negb (N.land (mkhdr hl body) 3 =? 0) then ack_bit s (has (mkhdr hl body) nesn_flag) else (s, 0))
      as [s1 tc] eqn:AB.
    assert (F : nesn s1 = nesn s /\ rxr s1 = rxr s).
    { destruct (negb (N.land (mkhdr hl body) 3 =? 0)).
      - destruct (ack_bit_frame _ _ _ _ AB) as (A1 & A2 & _). auto.
      - inversion AB; subst; auto. }
    destruct F as [F1 F2].
    destruct (next_transmit cf s1) as [s' [[sz h] b]] eqn:NT.
    destruct (next_transmit_frame _ _ _ _ _ _ NT) as (G1 & G2 & G3 & _). simpl.
    repeat split; try congruence. right. exists KA, sz, h, b, tc. split; congruence.
  - destruct (next_transmit cf s) as [s' [[sz h] b]] eqn:NT.
    destruct (next_transmit_frame _ _ _ _ _ _ NT) as (F1 & F2 & F3 & _). simpl.
    repeat split; auto. right. exists KN, sz, h, b, 0. auto.
Qed.

(* the interrupt handler's table: acknowledge() is chosen exactly for "CRC ok, MIC failed, buffer
   available", received() exactly for a valid PDU with buffer, nothing without anchor *)
Lemma isr_table :
  forall a p c b,
    (isr_decide a p c b = ActAcknowledge <-> (a = true /\ c = true /\ p = false /\ b = true)) /\
    (isr_decide a p c b = ActReceived <-> (a = true /\ c = true /\ p = true /\ b = true)) /\
    (isr_decide a p c b = ActNone <-> (a = false \/ (p = false /\ c = false))).
Proof. intros [|] [|] [|] [|]; vm_compute; intuition congruence. Qed.

(* with the crypto radio a CRC error shows as a missing anchor, and a MIC failure is reported only
   for non-empty PDUs *)
Lemma received_pdu_flags_facts crc payload enc size mic bus endc :
  let '(a, p, c) := received_pdu_flags crc payload enc size mic bus endc in
  c = true /\ (crc = false -> a = false) /\ (size = 0 -> a = true -> p = true).
Proof.
  unfold received_pdu_flags. destruct crc, payload, enc, mic, bus, endc; simpl;
    repeat split; auto; try discriminate; intros; subst; simpl in *; auto.
Qed.

(* ===================================================================== Part D: packet counter *)
Local Transparent N.add N.mul N.sub.

Definition counter_ok (k : counter) : Prop := fst k < 4294967296 /\ snd k < 256.

Lemma counter_increment_spec k :
  counter_ok k ->
  counter_ok (counter_increment k) /\
  counter_value (counter_increment k) = (counter_value k + 1) mod 1099511627776.
Proof.
  destruct k as [lo hi]. unfold counter_ok, counter_increment, counter_value. simpl fst; simpl snd.
  intros [L H].
  destruct (N.eq_dec (lo + 1) 4294967296) as [E|E].
  - rewrite E. rewrite N.mod_same by discriminate. simpl (0 =? 0). cbv iota.
    destruct (N.eq_dec (hi + 1) 256) as [F|F].
    + rewrite F, N.mod_same by discriminate. split; [split; lia|].
      replace (lo + 4294967296 * hi + 1) with 1099511627776 by lia.
      rewrite N.mod_same by discriminate. reflexivity.
    + rewrite (N.mod_small (hi + 1) 256) by lia. split; [split; lia|].
      rewrite N.mod_small by lia. lia.
  - rewrite (N.mod_small (lo + 1)) by lia.
    destruct (lo + 1 =? 0) eqn:Z; [apply N.eqb_eq in Z; lia|].
    split; [split; lia|]. rewrite N.mod_small by lia. lia.
Qed.

Fixpoint counter_after (n : nat) : counter :=
  match n with O => counter_zero | S n' => counter_increment (counter_after n') end.

(* after n increments the counter holds n (mod 2^40); below 2^39 increments it is n itself, fits
   the 39 bit CCM packet counter, and different n give different nonces *)
Lemma counter_after_value n :
  counter_ok (counter_after n) /\ counter_value (counter_after n) = N.of_nat n mod 1099511627776.
Proof.
  induction n as [|n [IH1 IH2]].
  - split; [split; reflexivity|reflexivity].
  - simpl counter_after. destruct (counter_increment_spec _ IH1) as (A & B). split; auto.
    rewrite B, IH2. rewrite Nat2N.inj_succ, <- N.add_1_r.
    rewrite N.add_mod_idemp_l by discriminate. reflexivity.
Qed.

Lemma counter_no_reuse n1 n2 :
  N.of_nat n1 < 549755813888 -> N.of_nat n2 < 549755813888 ->
  counter_value (counter_after n1) = N.of_nat n1 /\ counter_value (counter_after n1) < 549755813888 /\
  (counter_bytes (counter_after n1) = counter_bytes (counter_after n2) -> n1 = n2).
Proof.
  intros H1 H2.
  destruct (counter_after_value n1) as ([L1 Hi1] & V1). destruct (counter_after_value n2) as ([L2 Hi2] & V2).
  rewrite N.mod_small in V1, V2 by lia. split; [auto|]. split; [lia|].
  intros B. unfold counter_bytes in B. injection B as B0 B1 B2 B3 B4.
  assert (E : fst (counter_after n1) = fst (counter_after n2)).
  { pose proof (N.div_mod' (fst (counter_after n1)) 256) as D1.
    pose proof (N.div_mod' (fst (counter_after n1) / 256) 256) as D2.
    pose proof (N.div_mod' (fst (counter_after n1) / 65536) 256) as D3.
    pose proof (N.div_mod' (fst (counter_after n2)) 256) as E1.
    pose proof (N.div_mod' (fst (counter_after n2) / 256) 256) as E2.
    pose proof (N.div_mod' (fst (counter_after n2) / 65536) 256) as E3.
    rewrite N.div_div in D2, D3, E2, E3 by discriminate.
    change (256 * 256) with 65536 in *. change (65536 * 256) with 16777216 in *.
    assert (X1 : fst (counter_after n1) / 16777216 < 256) by (apply N.div_lt_upper_bound; lia).
    assert (X2 : fst (counter_after n2) / 16777216 < 256) by (apply N.div_lt_upper_bound; lia).
    rewrite (N.mod_small _ 256 X1), (N.mod_small _ 256 X2) in B3. lia. }
  unfold counter_value in V1, V2. lia.
Qed.
