(* Proofs for the link layer PDU buffer (C15, C16, C17).

   Part A  header arithmetic (|, & ~, >> 8 on the 16 bit header) reduced to single bits
   Part B  refinement: the monitor accepts every trace of the model (relation Rel between model
           state and the monitor's abstract peripheral, preserved by every operation)
   Part C  the abstract peripheral in closed loop with a conformant central over a faulty channel:
           the alternating-bit invariant SI (DESIGN.md 12.2) and the end-to-end statements
   Part D  packet counter *)
From Coq Require Import Lia ZifyBool.
From BT Require Import Base.ListX Base.Bits2 PduBuf.PduBufModel PduBuf.PduBufSpec.
Local Open Scope N_scope.

(* ===================================================================== Part A: headers *)

Lemma has_pow2 h k : has h (2 ^ k) = N.testbit h k.
Proof.
  unfold has. destruct (N.testbit h k) eqn:E.
  - apply negb_true_iff, N.eqb_neq. intros Z.
    assert (H : N.testbit (N.land h (2 ^ k)) k = false) by (rewrite Z; apply N.bits_0).
    rewrite N.land_spec, E, N.pow2_bits_true in H. discriminate.
  - apply negb_false_iff, N.eqb_eq. apply N.bits_inj_0. intros i.
    rewrite N.land_spec, N.pow2_bits_eqb. destruct (N.eqb_spec k i); subst; rewrite ?E; auto using andb_false_r.
Qed.

Lemma has_nesn h : has h nesn_flag = N.testbit h 2. Proof. exact (has_pow2 h 2). Qed.
Lemma has_sn h : has h sn_flag = N.testbit h 3. Proof. exact (has_pow2 h 3). Qed.

Lemma testbit_setb h k b i :
  N.testbit (setb h (2 ^ k) b) i = if k =? i then b else N.testbit h i.
Proof.
  unfold setb. destruct b.
  - rewrite N.lor_spec, N.pow2_bits_eqb. destruct (k =? i); auto using orb_true_r, orb_false_r.
  - rewrite N.ldiff_spec, N.pow2_bits_eqb. destruct (k =? i); simpl; auto using andb_false_r, andb_true_r.
Qed.

Lemma testbit_lor_pow2 h k i :
  N.testbit (N.lor h (2 ^ k)) i = if k =? i then true else N.testbit h i.
Proof. exact (testbit_setb h k true i). Qed.

(* a mask k and a flag m without common bits: | m and & ~m do not change h & k *)
Lemma land_lor_indep h m k : N.land m k = 0 -> N.land (N.lor h m) k = N.land h k.
Proof. intros H. rewrite N.land_lor_distr_l, H. apply N.lor_0_r. Qed.

Lemma land_ldiff_indep h m k : N.land m k = 0 -> N.land (N.ldiff h m) k = N.land h k.
Proof.
  intros H. apply N.bits_inj. intros i. rewrite !N.land_spec, N.ldiff_spec.
  assert (B : N.testbit (N.land m k) i = false) by (rewrite H; apply N.bits_0).
  rewrite N.land_spec in B.
  destruct (N.testbit h i), (N.testbit m i), (N.testbit k i); simpl in *; auto; discriminate.
Qed.

Lemma land_setb_indep h m k b : N.land m k = 0 -> N.land (setb h m b) k = N.land h k.
Proof. destruct b; simpl; [apply land_lor_indep | apply land_ldiff_indep]. Qed.

Lemma hdr_len_lor h m : m < 256 -> hdr_len (N.lor h m) = hdr_len h.
Proof.
  intros H. unfold hdr_len. rewrite N.shiftr_lor.
  replace (N.shiftr m 8) with 0; [apply N.lor_0_r|].
  rewrite N.shiftr_div_pow2. symmetry. apply N.div_small. exact H.
Qed.

Lemma hdr_len_ldiff h m : m < 256 -> hdr_len (N.ldiff h m) = hdr_len h.
Proof.
  intros H. unfold hdr_len. rewrite N.shiftr_ldiff.
  replace (N.shiftr m 8) with 0; [apply N.ldiff_0_r|].
  rewrite N.shiftr_div_pow2. symmetry. apply N.div_small. exact H.
Qed.

Lemma hdr_len_setb h m b : m < 256 -> hdr_len (setb h m b) = hdr_len h.
Proof. destruct b; simpl; [apply hdr_len_lor | apply hdr_len_ldiff]. Qed.

Lemma has_indep_lor h m k : N.land m k = 0 -> has (N.lor h m) k = has h k.
Proof. intros H. unfold has. rewrite land_lor_indep; auto. Qed.
Lemma has_indep_setb h m k b : N.land m k = 0 -> has (setb h m b) k = has h k.
Proof. intros H. unfold has. rewrite land_setb_indep; auto. Qed.

Lemma has_setb_same h k b : has (setb h (2 ^ k) b) (2 ^ k) = b.
Proof. rewrite has_pow2, testbit_setb, N.eqb_refl. reflexivity. Qed.

Lemma has_lor_same h k : has (N.lor h (2 ^ k)) (2 ^ k) = true.
Proof. exact (has_setb_same h k true). Qed.

(* h & k only looks at the low byte when k is a byte *)
Lemma land_low x k : N.land 255 k = k -> N.land x k = N.land (x mod 256) k.
Proof.
  intros H. change 256 with (2 ^ 8). rewrite <- N.land_ones. change (N.ones 8) with 255.
  rewrite <- N.land_assoc, H. reflexivity.
Qed.

Lemma mkhdr_mod hl body : hl < 256 -> (mkhdr hl body) mod 256 = hl.
Proof.
  intros H. unfold mkhdr. rewrite N.mul_comm, N.mod_add by discriminate. apply N.mod_small, H.
Qed.

Lemma mkhdr_land hl body k : hl < 256 -> N.land 255 k = k -> N.land (mkhdr hl body) k = N.land hl k.
Proof. intros H K. rewrite (land_low (mkhdr hl body) k K), mkhdr_mod; auto. Qed.

Lemma mkhdr_has hl body k : hl < 256 -> N.land 255 k = k -> has (mkhdr hl body) k = has hl k.
Proof. intros H K. unfold has. rewrite mkhdr_land; auto. Qed.

Lemma mkhdr_len hl body : hl < 256 -> hdr_len (mkhdr hl body) = blen body.
Proof.
  intros H. unfold hdr_len, mkhdr. rewrite N.shiftr_div_pow2. change (2 ^ 8) with 256.
  rewrite N.mul_comm, N.div_add by discriminate. rewrite N.div_small by exact H. reflexivity.
Qed.

(* ( header & 0xff00 ) != 0 is "length byte != 0" (finite sweep over low byte x length byte; the
   statement is kept in unfolded form so that the kernel never re-evaluates the sweep lazily) *)
Definition len_test (hl len : N) : bool := Bool.eqb (N.land (hl + 256 * len) 65280 =? 0) (len =? 0).
Lemma len_sweep_true : forallb (fun hl => forallb (len_test hl) (Nrange 256)) (Nrange 256) = true.
Proof. vm_compute. reflexivity. Qed.

Lemma mkhdr_len_land hl body :
  hl < 256 -> blen body < 256 -> (N.land (mkhdr hl body) 65280 =? 0) = (blen body =? 0).
Proof.
  intros H L. pose proof len_sweep_true as S.
  rewrite forallb_forall in S. pose proof (S hl (In_Nrange 256 hl H)) as S1.
  rewrite forallb_forall in S1. pose proof (S1 (blen body) (In_Nrange 256 _ L)) as S2.
  apply eqb_prop in S2. exact S2.
Qed.
