(* Specification side of the link layer PDU buffer (properties C15, C16, C17):

   1. an executable monitor `mstep` that judges an OBSERVED trace of operations and outputs of
      ll_data_pdu_buffer (never model state). Beside the trace it keeps the abstract peripheral of
      the Core specification's acknowledgement scheme: the next expected sequence number, the FIFO
      of PDUs the link layer still has to be given, the FIFO of committed and not yet acknowledged
      PDUs, the PDU in flight and the sequence number of the next new PDU.
   2. the environment of the system theorems: a Core-specification conformant central (sn, nesn,
      retransmission until acknowledged) and a channel that loses, corrupts (CRC), or damages
      (MIC) the central's packet and independently loses the peripheral's response.
   3. the nRF52 interrupt handler's decision table and `received_pdu()` flags (modelled from
      bindings/nordic/nrf52, not tied).

   Monitor clauses (violation tags):
     shape        output of the wrong kind for the operation, FAULT, BAD...
     nesn_rx      response to received(): NESN is not "number of new PDUs accepted so far" mod 2
     nesn_nobuf   response without receive buffer: NESN moved (a PDU that was not stored was acknowledged)
     nesn_mic     response to acknowledge() (CRC ok, MIC bad): NESN moved (the PDU was acknowledged)
     nesn_nt      response of a plain next_transmit(): NESN moved
     deliver      next_received()/free_received() do not hand out exactly the accepted new non-empty
                  valid-LLID PDUs, once, in order, unchanged
     retransmit   the PDU in flight (not yet acknowledged) is not sent again unchanged (same SN,
                  LLID, length, payload)
     tx_new       a new PDU is not the oldest committed one / not an empty PDU when nothing is
                  committed / does not carry the next sequence number
     pend         pending_outgoing_data_available() wrong
     rx_counter   increment_receive_packet_counter() not called exactly once for a new non-empty PDU
                  (never for retransmissions, empty PDUs, without buffer)
     tx_counter   increment_transmit_packet_counter() not called exactly once when a committed PDU
                  is acknowledged (never for empty PDUs or retransmissions)
     mic_counter  receive counter advanced for a PDU whose MIC check failed
   Which clause belongs to which property: `tag_in`; how one observed operation is judged for one
   property: `judge`. *)
From BT Require Import Base.ListX PduBuf.PduBufModel.
Local Open Scope N_scope.

Inductive prop := P15 | P16 | P17.

Definition llid (h : N) : N := N.land h 3.

Fixpoint leqb (a b : list N) : bool :=
  match a, b with
  | [], [] => true
  | x :: a', y :: b' => (x =? y) && leqb a' b'
  | _, _ => false
  end.

(* the PDU in flight: transmitted at least once, not yet acknowledged *)
Inductive cur := CNone | CEmpty (s : bool) | CData (s : bool).

Record mon := mkM {
  m_o : N;                          (* layout overhead *)
  m_nesn : bool;                    (* next expected sequence number = parity of accepted new PDUs *)
  m_rxq : list (N * list N);        (* accepted, not yet freed: header as received, payload *)
  m_txq : list (N * list N);        (* committed, not yet acknowledged: LLID, payload *)
  m_cur : cur;
  m_sn : bool;                      (* sequence number of the next new PDU *)
  m_stopped : bool;
  m_txdead : bool }.                (* the environment left the protocol on the transmit side
                                       (acknowledged a PDU that was never sent; the link layer wrote
                                       protocol bits into a header): transmit clauses are off *)

Definition minit (c : cfg) : mon := mkM (c_o c) false [] [] CNone false false false.

Definition mw_nesn m v := mkM (m_o m) v (m_rxq m) (m_txq m) (m_cur m) (m_sn m) (m_stopped m) (m_txdead m).
Definition mw_rxq m v := mkM (m_o m) (m_nesn m) v (m_txq m) (m_cur m) (m_sn m) (m_stopped m) (m_txdead m).
Definition mw_txq m v := mkM (m_o m) (m_nesn m) (m_rxq m) v (m_cur m) (m_sn m) (m_stopped m) (m_txdead m).
Definition mw_cur m v := mkM (m_o m) (m_nesn m) (m_rxq m) (m_txq m) v (m_sn m) (m_stopped m) (m_txdead m).
Definition mw_sn m v := mkM (m_o m) (m_nesn m) (m_rxq m) (m_txq m) (m_cur m) v (m_stopped m) (m_txdead m).
Definition mw_stopped m v := mkM (m_o m) (m_nesn m) (m_rxq m) (m_txq m) (m_cur m) (m_sn m) v (m_txdead m).
Definition mw_txdead m v := mkM (m_o m) (m_nesn m) (m_rxq m) (m_txq m) (m_cur m) (m_sn m) (m_stopped m) v.

Inductive verdict := Ok | Bad (tag : nat).
Definition t_shape := 1%nat.
Definition t_nesn_rx := 2%nat.
Definition t_nesn_nobuf := 3%nat.
Definition t_nesn_mic := 4%nat.
Definition t_nesn_nt := 5%nat.
Definition t_deliver := 6%nat.
Definition t_retransmit := 7%nat.
Definition t_tx_new := 8%nat.
Definition t_pend := 9%nat.
Definition t_rx_counter := 10%nat.
Definition t_tx_counter := 11%nat.
Definition t_mic_counter := 12%nat.

Definition tag_in (p : prop) (t : nat) : bool :=
  match p with
  | P15 => existsb (Nat.eqb t) [t_shape; t_nesn_rx; t_nesn_nobuf; t_nesn_mic; t_nesn_nt; t_deliver; t_retransmit; t_tx_new; t_pend]
  | P16 => existsb (Nat.eqb t) [t_shape; t_nesn_mic; t_rx_counter; t_tx_counter; t_mic_counter]
  | P17 => existsb (Nat.eqb t) [t_shape; t_nesn_mic; t_deliver; t_mic_counter]
  end.

(* the response is the committed PDU p = (LLID, payload) with sequence number s *)
Definition data_matches (o : N) (p : N * list N) (s : bool) (size h : N) (body : list N) : bool :=
  (llid h =? fst p) && Bool.eqb (has h sn_flag) s && (hdr_len h =? blen (snd p)) && leqb body (snd p)
  && (size =? blen (snd p) + 2 + o) && (N.land h header_rfu_mask =? 0).

(* the response is an empty PDU with sequence number s *)
Definition empty_matches (o : N) (s : bool) (size h : N) (body : list N) : bool :=
  (llid h =? ll_empty_id) && Bool.eqb (has h sn_flag) s && (hdr_len h =? 0) && leqb body []
  && (size =? 2 + o) && (N.land h header_rfu_mask =? 0).

(* every response: NESN, and the transmit side of the acknowledgement scheme *)
Definition check_resp (tag_nesn : nat) (m : mon) (size h : N) (body : list N) : verdict * mon :=
  if negb (Bool.eqb (has h nesn_flag) (m_nesn m)) then (Bad tag_nesn, m)
  else if m_txdead m then (Ok, m)
  else
    match m_cur m with
    | CData s =>
        match m_txq m with
        | p :: _ => if data_matches (m_o m) p s size h body then (Ok, m) else (Bad t_retransmit, m)
        | [] => (Bad t_retransmit, m)
        end
    | CEmpty s => if empty_matches (m_o m) s size h body then (Ok, m) else (Bad t_retransmit, m)
    | CNone =>
        match m_txq m with
        | p :: _ =>
            if data_matches (m_o m) p (m_sn m) size h body
            then (Ok, mw_sn (mw_cur m (CData (m_sn m))) (negb (m_sn m))) else (Bad t_tx_new, m)
        | [] =>
            if empty_matches (m_o m) (m_sn m) size h body
            then (Ok, mw_sn (mw_cur m (CEmpty (m_sn m))) (negb (m_sn m))) else (Bad t_tx_new, m)
        end
    end.

(* the NESN of a processed incoming header; second component: expected number of
   increment_transmit_packet_counter() calls *)
Definition m_ack (m : mon) (b : bool) : mon * N :=
  if m_txdead m then (m, 0)
  else
    match m_cur m with
    | CData s => if Bool.eqb s b then (m, 0) else (mw_cur (mw_txq m (tl (m_txq m))) CNone, 1)
    | CEmpty s => if Bool.eqb s b then (m, 0) else (mw_cur m CNone, 0)
    | CNone => if Bool.eqb (m_sn m) b then (m, 0) else (mw_txdead m true, 0)
    end.

(* a PDU with header low byte hl and payload pb passed CRC and MIC and there was a buffer: it is new
   iff its SN is the expected one; new PDUs are acknowledged; stored if non-empty with a valid LLID;
   second component: expected number of increment_receive_packet_counter() calls *)
Definition m_accept (m1 : mon) (hl : N) (pb : list N) : mon * N :=
  if Bool.eqb (has hl sn_flag) (m_nesn m1) then
    (mw_nesn (if negb (blen pb =? 0) && negb (llid hl =? 0)
              then mw_rxq m1 (m_rxq m1 ++ [(mkhdr hl pb, pb)]) else m1) (negb (m_nesn m1)),
     if negb (blen pb =? 0) then 1 else 0)
  else (m1, 0).

Definition tc_ok (m : mon) (tc etc : N) : bool := m_txdead m || (tc =? etc).

Definition mstep (m : mon) (o : op) (r : out) : verdict * mon :=
  match o, r with
  | MaxRx _, OUnit | MaxRx _, OPre | MaxTx _, OUnit | MaxTx _, OPre => (Ok, m)
  | Reset, OUnit => (Ok, mkM (m_o m) false [] [] CNone false false false)
  | Stop, OUnit => (Ok, mw_stopped m true)
  | Tx _ _ _, OPre | Tx _ _ _, OTx false => (Ok, m)
  | Tx _ hl body, OTx true =>
      if m_stopped m then (Ok, m)
      else
        let m1 := mw_txq m (m_txq m ++ [(llid hl, body)]) in
        (Ok, if N.land hl 28 =? 0 then m1 else mw_txdead m1 true)
  | Pend, OBool b =>
      if m_txdead m || Bool.eqb b (negb (match m_txq m with [] => true | _ => false end))
      then (Ok, m) else (Bad t_pend, m)
  | NextRecv, ONone =>
      match m_rxq m with [] => (Ok, m) | _ => (Bad t_deliver, m) end
  | NextRecv, OPdu size h body =>
      match m_rxq m with
      | (h', b') :: _ =>
          if (h =? h') && leqb body b' && (size =? blen b' + 2 + m_o m) then (Ok, m) else (Bad t_deliver, m)
      | [] => (Bad t_deliver, m)
      end
  | FreeRecv, OPre =>
      match m_rxq m with [] => (Ok, m) | _ => (Bad t_deliver, m) end
  | FreeRecv, OUnit =>
      match m_rxq m with [] => (Bad t_deliver, m) | _ :: t => (Ok, mw_rxq m t) end
  | Rx _ _, OPre | Mic _ _, OPre => (Ok, m)
  | Rx hl pb, OResp KR size h body rc tc =>
      let '(m1, etc) := m_ack m (has hl nesn_flag) in
      let '(m2, erc) := m_accept m1 hl pb in
      match check_resp t_nesn_rx m2 size h body with
      | (Ok, m3) =>
          if negb (rc =? erc) then (Bad t_rx_counter, m3)
          else if negb (tc_ok m3 tc etc) then (Bad t_tx_counter, m3)
          else (Ok, m3)
      | bad => bad
      end
  | Mic hl pb, OResp KA size h body rc tc =>
      let '(m1, etc) := if negb (llid hl =? 0) then m_ack m (has hl nesn_flag) else (m, 0) in
      match check_resp t_nesn_mic m1 size h body with
      | (Ok, m3) =>
          if negb (rc =? 0) then (Bad t_mic_counter, m3)
          else if negb (tc_ok m3 tc etc) then (Bad t_tx_counter, m3)
          else (Ok, m3)
      | bad => bad
      end
  | Rx _ _, OResp KN size h body rc tc | Mic _ _, OResp KN size h body rc tc =>
      match check_resp t_nesn_nobuf m size h body with
      | (Ok, m3) =>
          if negb (rc =? 0) then (Bad t_rx_counter, m3)
          else if negb (tc =? 0) then (Bad t_tx_counter, m3)
          else (Ok, m3)
      | bad => bad
      end
  | NextTx, OResp KN size h body rc tc =>
      match check_resp t_nesn_nt m size h body with
      | (Ok, m3) =>
          if negb (rc =? 0) then (Bad t_rx_counter, m3)
          else if negb (tc =? 0) then (Bad t_tx_counter, m3)
          else (Ok, m3)
      | bad => bad
      end
  | _, _ => (Bad t_shape, m)
  end.

(* The counter clauses on their own (they do not influence the abstract state). *)
Definition counter_tag (t : nat) : bool := existsb (Nat.eqb t) [t_rx_counter; t_tx_counter; t_mic_counter].

Definition counter_verdict (m : mon) (o : op) (r : out) : verdict :=
  match o, r with
  | Rx hl pb, OResp KR _ _ _ rc tc =>
      let '(m1, etc) := m_ack m (has hl nesn_flag) in
      let '(m2, erc) := m_accept m1 hl pb in
      if negb (rc =? erc) then Bad t_rx_counter
      else if negb (tc_ok m2 tc etc) then Bad t_tx_counter else Ok
  | Mic hl pb, OResp KA _ _ _ rc tc =>
      let '(m1, etc) := if negb (llid hl =? 0) then m_ack m (has hl nesn_flag) else (m, 0) in
      if negb (rc =? 0) then Bad t_mic_counter
      else if negb (tc_ok m1 tc etc) then Bad t_tx_counter else Ok
  | _, OResp KN _ _ _ rc tc =>
      if negb (rc =? 0) then Bad t_rx_counter else if negb (tc =? 0) then Bad t_tx_counter else Ok
  | _, _ => Ok
  end.

(* One observed operation judged for property p:
     JOk m'   no clause of p is violated, go on with m'
     JBad t   clause t of p is violated
     JStop    a clause of another property is violated in a way that makes the abstract state
              meaningless: the judgement for p ends here (that property's check reports it)
   A violated counter clause does not stop the other properties (counters are not part of the
   state); a violated state clause of another property still lets p report a counter clause
   violated by the same operation. *)
Inductive jres := JOk (m : mon) | JBad (tag : nat) | JStop.

Definition judge (p : prop) (m : mon) (o : op) (r : out) : jres :=
  match mstep m o r with
  | (Ok, m') => JOk m'
  | (Bad tag, m') =>
      if tag_in p tag then JBad tag
      else if counter_tag tag then JOk m'
      else match counter_verdict m o r with
           | Bad t2 => if tag_in p t2 then JBad t2 else JStop
           | Ok => JStop
           end
  end.

(* first violation of a clause of property p: Some (position, tag) *)
Fixpoint monitor_from (p : prop) (m : mon) (pos : nat) (tr : list (op * out)) : option (nat * nat) :=
  match tr with
  | [] => None
  | (o, r) :: t =>
      match judge p m o r with
      | JOk m' => monitor_from p m' (S pos) t
      | JBad tag => Some (pos, tag)
      | JStop => None
      end
  end.

Definition monitor (p : prop) (c : cfg) (tr : list (op * out)) : option (nat * nat) :=
  monitor_from p (minit c) O tr.

(* no clause at all is violated *)
Fixpoint accepted_from (m : mon) (tr : list (op * out)) : option mon :=
  match tr with
  | [] => Some m
  | (o, r) :: t =>
      match mstep m o r with
      | (Ok, m') => accepted_from m' t
      | (Bad _, _) => None
      end
  end.

(* configurations the headers accept (static_asserts of ll_data_pdu_buffer) *)
Definition wf_cfg (c : cfg) : Prop :=
  c_o c <= 1 /\ min_buffer_size + c_o c <= c_T c /\ min_buffer_size + c_o c <= c_R c.

(* ------------------------------------------------------------------------------------------
   The nRF52 interrupt handler (nrf52.hpp radio_interrupt_handler, state evt_wait_connect) and
   radio_hardware_with_crypto_support::received_pdu() (nrf52.cpp). Modelled, not tied. *)
Inductive isr_action := ActNone | ActNextTransmit | ActReceived | ActAcknowledge.

Definition isr_decide (valid_anchor valid_pdu valid_crc have_buffer : bool) : isr_action :=
  if valid_anchor && (valid_pdu || valid_crc) then
    if negb have_buffer || negb valid_crc then ActNextTransmit
    else if valid_pdu then ActReceived else ActAcknowledge
  else ActNone.

(* received_pdu(): crc_ok = CRCSTATUS ok, payload = EVENTS_PAYLOAD, encrypted = receive_encrypted_,
   size = length byte, mic_failed = MICSTATUS check failed, bus = CCM EVENTS_ERROR,
   endcrypt = CCM EVENTS_ENDCRYPT *)
Definition received_pdu_flags (crc_ok payload encrypted : bool) (size : N) (mic_failed bus endcrypt : bool)
  : bool * bool * bool :=
  let timeout := negb crc_ok || negb payload in
  let crc_error := negb timeout && negb crc_ok in
  let mic_error := encrypted && negb (size =? 0) && mic_failed in
  let bus_error := encrypted && bus in
  let not_decrypt := encrypted && negb (size =? 0) && negb endcrypt in
  let valid_anchor := negb timeout && negb bus_error in
  let valid_pdu := valid_anchor && negb crc_error && negb not_decrypt && negb mic_error in
  (valid_anchor, valid_pdu, negb crc_error).

(* ------------------------------------------------------------------------------------------
   Environment of the system theorems: conformant central + lossy channel. *)
Definition cpdu := (N * list N)%type.    (* LLID (1..3; 0 = reserved), payload; (1, []) is the empty PDU *)

Record central := mkCen {
  c_sn : bool;                 (* transmitSeqNum: SN of the PDU being delivered *)
  c_nesn : bool;               (* nextExpectedSeqNum *)
  c_cur : option cpdu;         (* the PDU being (re)transmitted *)
  c_done : list cpdu;          (* ghost: PDUs whose acknowledgement the central has seen *)
  c_acc : list (N * list N) }. (* ghost: (LLID, payload) of the new PDUs accepted from the peripheral *)

Definition cen_init : central := mkCen false false None [] [].

Definition bit (b : bool) (m : N) : N := if b then m else 0.

(* low header byte the central sends; md = the central's more-data bit (free) *)
Definition cen_hl (c : central) (p : cpdu) (md : bool) : N :=
  fst p + bit (c_nesn c) nesn_flag + bit (c_sn c) sn_flag + bit md more_data_flag.

(* the central takes a fresh PDU only when the previous one has been acknowledged *)
Definition cen_load (c : central) (fresh : cpdu) : central :=
  match c_cur c with
  | Some _ => c
  | None => mkCen (c_sn c) (c_nesn c) (Some fresh) (c_done c) (c_acc c)
  end.

Definition cen_pdu (c : central) : cpdu := match c_cur c with Some p => p | None => (1, []) end.

(* the central gets a response with a valid CRC: header h, payload body *)
Definition cen_recv (c : central) (h : N) (body : list N) : central :=
  let c1 :=
    if Bool.eqb (has h nesn_flag) (c_sn c) then c
    else mkCen (negb (c_sn c)) (c_nesn c) None (c_done c ++ [cen_pdu c]) (c_acc c) in
  if Bool.eqb (has h sn_flag) (c_nesn c1)
  then mkCen (c_sn c1) (negb (c_nesn c1)) (c_cur c1) (c_done c1) (c_acc c1 ++ [(llid h, body)])
  else c1.

(* what the channel does to the central's packet in one connection event *)
Inductive fate := ReqLost | ReqOk | ReqMic.

Inductive event :=
| ELL (o : op)                                              (* the link layer calls the buffer *)
| EConn (fresh : cpdu) (md : bool) (f : fate) (resp_lost : bool).

(* link layer operations of a running connection *)
Definition ll_op_ok (o : op) : bool :=
  match o with
  | MaxRx _ | MaxTx _ | Stop | Pend | NextRecv | FreeRecv => true
  | Tx _ hl body => (N.land hl 28 =? 0) && negb (blen body =? 0)
  | _ => false
  end.

Definition cpdu_ok (p : cpdu) : bool := (fst p <? 4).

Definition event_ok (e : event) : bool :=
  match e with
  | ELL o => ll_op_ok o
  | EConn fresh _ _ _ => cpdu_ok fresh
  end.

(* the operation the peripheral's radio performs for the event, if any *)
Definition event_op (c : central) (md : bool) (f : fate) : option op :=
  match f with
  | ReqLost => None
  | ReqOk => Some (Rx (cen_hl c (cen_pdu c) md) (snd (cen_pdu c)))
  | ReqMic => Some (Mic (cen_hl c (cen_pdu c) md) (snd (cen_pdu c)))
  end.

(* closed loop: the peripheral is the model *)
Definition sys_step (cf : cfg) (cs : central * state) (e : event) : central * state * list (op * out) :=
  let '(c, s) := cs in
  match e with
  | ELL o => let '(s', r) := step cf s o in (c, s', [(o, r)])
  | EConn fresh md f lost =>
      let c1 := cen_load c fresh in
      match event_op c1 md f with
      | None => (c1, s, [])
      | Some o =>
          let '(s', r) := step cf s o in
          let c2 := match r with
                    | OResp _ _ h body _ _ => if lost then c1 else cen_recv c1 h body
                    | _ => c1
                    end in
          (c2, s', [(o, r)])
      end
  end.

Fixpoint sys_run (cf : cfg) (cs : central * state) (evs : list event) : central * state * list (op * out) :=
  match evs with
  | [] => (cs, [])
  | e :: t =>
      let '(cs1, tr1) := sys_step cf cs e in
      let '(cs2, tr2) := sys_run cf cs1 t in
      (cs2, tr1 ++ tr2)
  end.

(* ------------------------------------------------------------------------------------------
   Ghost history of an observed trace (what the end-to-end statements talk about), computed beside
   the monitor from operations and outputs only. *)
Record ghost := mkG {
  g_acc : list cpdu;             (* new PDUs the peripheral accepted: (LLID, payload), empty and invalid-LLID ones included *)
  g_freed : list (N * list N);   (* PDUs handed to the link layer and freed: header as received, payload *)
  g_comm : list (N * list N);    (* PDUs committed by the link layer: (LLID, payload) *)
  g_popped : list (N * list N);  (* PDUs removed from the transmit FIFO (considered delivered) *)
  g_rxc : N;                     (* calls of increment_receive_packet_counter() *)
  g_txc : N }.                   (* calls of increment_transmit_packet_counter() *)

Definition g0 : ghost := mkG [] [] [] [] 0 0.

Definition gw_acc g v := mkG v (g_freed g) (g_comm g) (g_popped g) (g_rxc g) (g_txc g).
Definition gw_freed g v := mkG (g_acc g) v (g_comm g) (g_popped g) (g_rxc g) (g_txc g).
Definition gw_comm g v := mkG (g_acc g) (g_freed g) v (g_popped g) (g_rxc g) (g_txc g).
Definition gw_popped g v := mkG (g_acc g) (g_freed g) (g_comm g) v (g_rxc g) (g_txc g).
Definition g_count g rc tc := mkG (g_acc g) (g_freed g) (g_comm g) (g_popped g) (g_rxc g + rc) (g_txc g + tc).

Definition ack_ghost (m : mon) (g : ghost) (b : bool) : ghost :=
  if m_txdead m then g
  else match m_cur m with
       | CData s => if Bool.eqb s b then g else gw_popped g (g_popped g ++ firstn 1 (m_txq m))
       | _ => g
       end.

Definition gstep (m : mon) (g : ghost) (o : op) (r : out) : ghost :=
  match o, r with
  | Reset, OUnit => g0
  | Tx _ hl body, OTx true => if m_stopped m then g else gw_comm g (g_comm g ++ [(llid hl, body)])
  | FreeRecv, OUnit => gw_freed g (g_freed g ++ firstn 1 (m_rxq m))
  | Rx hl pb, OResp KR _ _ _ rc tc =>
      let g1 := ack_ghost m g (has hl nesn_flag) in
      let m1 := fst (m_ack m (has hl nesn_flag)) in
      let g2 := if Bool.eqb (has hl sn_flag) (m_nesn m1) then gw_acc g1 (g_acc g1 ++ [(llid hl, pb)]) else g1 in
      g_count g2 rc tc
  | Mic hl pb, OResp KA _ _ _ rc tc =>
      g_count (if negb (llid hl =? 0) then ack_ghost m g (has hl nesn_flag) else g) rc tc
  | _, OResp _ _ _ _ rc tc => g_count g rc tc
  | _, _ => g
  end.

(* monitor (all clauses) and ghost history along a trace; None: some clause is violated *)
Fixpoint grun (m : mon) (g : ghost) (tr : list (op * out)) : option (mon * ghost) :=
  match tr with
  | [] => Some (m, g)
  | (o, r) :: t =>
      match mstep m o r with
      | (Ok, m') => grun m' (gstep m g o r) t
      | (Bad _, _) => None
      end
  end.

(* a PDU of the central that the peripheral has to hand to its link layer / that advances the
   receive packet counter *)
Definition storable (p : cpdu) : bool := negb (blen (snd p) =? 0) && negb (fst p =? 0).
Definition counted (p : N * list N) : bool := negb (blen (snd p) =? 0).
Definition pkey (x : N * list N) : N * list N := (llid (fst x), snd x).

(* the PDU of the central that the peripheral has accepted while the central does not know yet *)
Definition rx_in_flight (c : central) (m : mon) : list cpdu :=
  if Bool.eqb (m_nesn m) (c_sn c) then [] else [cen_pdu c].
(* the committed PDU the central has accepted while the peripheral does not know yet *)
Definition tx_in_flight (c : central) (m : mon) : list (N * list N) :=
  match m_cur m with
  | CData s => if Bool.eqb (c_nesn c) s then [] else firstn 1 (m_txq m)
  | _ => []
  end.
