(* C38: proofs about create_passkey (ToolBoxModel.v): range, termination under the stated hypothesis,
   and the counting form of uniformity. *)
From Coq Require Import Arith ZArith NArith List Lia Bool Zify.
From BT Require Import ToolBox.Octets ToolBox.OctetsLemmas ToolBox.ToolBoxModel ToolBox.ToolBoxSpec.
Import ListNotations.
Local Open Scope N_scope.

(* ---------------------------------------------------------------- bits *)
Lemma testbit_high a n i : a < 2 ^ n -> n <= i -> N.testbit a i = false.
Proof.
  intros Ha Hi. rewrite <- (N.mod_small a (2 ^ n)) by assumption. apply N.mod_pow2_bits_high. assumption.
Qed.

Lemma land_shiftl_low a b n : a < 2 ^ n -> N.land a (N.shiftl b n) = 0.
Proof.
  intros Ha. apply N.bits_inj. intros i. rewrite N.land_spec, N.bits_0.
  destruct (N.ltb_spec i n) as [Hi|Hi].
  - rewrite N.shiftl_spec_low by assumption. apply andb_false_r.
  - rewrite (testbit_high a n i) by assumption. reflexivity.
Qed.

Lemma lor_shiftl_add a b n : a < 2 ^ n -> N.lor a (N.shiftl b n) = a + b * 2 ^ n.
Proof.
  intros Ha. pose proof (land_shiftl_low a b n Ha) as H.
  rewrite <- (N.lxor_lor _ _ H), <- (N.add_nocarry_lxor _ _ H), N.shiftl_mul_pow2. reflexivity.
Qed.

Lemma sample20_closed b0 b1 b2 :
  b0 < 256 -> b1 < 256 -> sample20 b0 b1 b2 = b0 + 256 * b1 + 65536 * (b2 mod 16).
Proof.
  intros H0 H1. unfold sample20, passkey_mask.
  rewrite (N.shiftl_mul_pow2 b1 8).
  rewrite (lor_shiftl_add (b1 * 2 ^ 8) b2 16) by (change (2 ^ 8) with 256; change (2 ^ 16) with 65536; lia).
  replace (b1 * 2 ^ 8 + b2 * 2 ^ 16) with ((b1 + b2 * 256) * 2 ^ 8) by (change (2 ^ 8) with 256; change (2 ^ 16) with 65536; lia).
  rewrite <- (N.shiftl_mul_pow2 (b1 + b2 * 256) 8).
  rewrite (lor_shiftl_add b0 _ 8) by (change (2 ^ 8) with 256; lia).
  change 0xFFFFF with (N.ones 20). rewrite N.land_ones.
  change (2 ^ 8) with 256. change (2 ^ 20) with 1048576. nlia.
Qed.

Lemma sample20_lt b0 b1 b2 : b0 < 256 -> b1 < 256 -> sample20 b0 b1 b2 < 2 ^ 20.
Proof. intros. rewrite sample20_closed by assumption. change (2 ^ 20) with 1048576. nlia. Qed.

(* ---------------------------------------------------------------- range *)
Lemma passkey_loop_range fuel s v s' : passkey_loop fuel s = Some (v, s') -> v < passkey_limit.
Proof.
  revert s. induction fuel as [|f IH]; intros s H; cbn [passkey_loop] in H; [discriminate|].
  destruct (random_number8 s) as [b0 s1]. destruct (random_number8 s1) as [b1 s2].
  destruct (random_number8 s2) as [b2 s3].
  destruct (sample20 b0 b1 b2 <? passkey_limit) eqn:E.
  - inversion H; subst. apply N.ltb_lt. assumption.
  - eapply IH. eassumption.
Qed.

Lemma passkey_array_le v : v < 2 ^ 24 -> passkey_array v = N_to_le 16 v.
Proof.
  intros Hv. unfold passkey_array.
  change 0xFF with (N.ones 8). rewrite !N.land_ones, !N.shiftr_div_pow2.
  change (2 ^ 8) with 256. change (2 ^ 16) with 65536.
  change 16%nat with (3 + 13)%nat. rewrite N_to_le_app.
  cbn [N_to_le app]. change (N.of_nat 3) with 3. change (256 ^ 3) with 16777216.
  change (2 ^ 24) with 16777216 in Hv.
  rewrite (N.div_small v 16777216) by assumption.
  replace (v / 256 / 256) with (v / 65536) by nlia.
  reflexivity.
Qed.

(* a TK returned by create_passkey is the 128 bit little endian representation of a number below
   10^6, and the value handed to the display callback (read_32bit of the first four octets) is that number *)
Theorem create_passkey_range fuel s tk s' :
  create_passkey fuel s = Some (tk, s') ->
  passkey_ok tk /\ read_32bit tk = le_to_N tk /\ tk = N_to_le 16 (le_to_N tk).
Proof.
  unfold create_passkey. destruct (passkey_loop fuel s) as [[v s'']|] eqn:E; [|discriminate].
  intros H. inversion H; subst. clear H. apply passkey_loop_range in E. unfold passkey_limit in E.
  assert (Hv : v < 2 ^ 24) by (change (2 ^ 24) with 16777216; lia).
  rewrite (passkey_array_le v Hv).
  assert (Hle : le_to_N (N_to_le 16 v) = v).
  { rewrite le_to_N_N_to_le. apply N.mod_small. change (256 ^ N.of_nat 16) with (2 ^ 128).
    eapply N.lt_trans; [exact Hv|]. reflexivity. }
  split; [split; [|split]|split].
  - apply N_to_le_length.
  - apply N_to_le_bytes.
  - rewrite Hle. assumption.
  - unfold read_32bit. rewrite le_to_N_firstn by apply N_to_le_bytes. rewrite Hle.
    apply N.mod_small. change (256 ^ N.of_nat 4) with 4294967296. change (2 ^ 24) with 16777216 in Hv. lia.
  - rewrite Hle. reflexivity.
Qed.

(* ---------------------------------------------------------------- termination *)
Definition sample_of (s : list N) : N :=
  sample20 (hd 0 s mod 256) (hd 0 (tl s) mod 256) (hd 0 (tl (tl s)) mod 256).
(* the n-th three byte sample of the stream is acceptable *)
Definition accept_at (n : nat) (s : list N) : Prop := sample_of (skipn (3 * n) s) < passkey_limit.

Lemma skipn_plus (a b : nat) (l : list N) : skipn (a + b) l = skipn a (skipn b l).
Proof.
  revert l. induction b as [|b IH]; intros l.
  - rewrite Nat.add_0_r. reflexivity.
  - rewrite Nat.add_succ_r. destruct l as [|x l]; cbn [skipn]; [rewrite skipn_nil; reflexivity|apply IH].
Qed.

Lemma tl3_skipn (s : list N) : tl (tl (tl s)) = skipn 3 s.
Proof. destruct s as [|a [|b [|c s]]]; reflexivity. Qed.

Lemma passkey_loop_unfold f s :
  passkey_loop (S f) s =
  if sample_of s <? passkey_limit then Some (sample_of s, skipn 3 s) else passkey_loop f (skipn 3 s).
Proof. cbn [passkey_loop random_number8]. unfold sample_of. rewrite tl3_skipn. reflexivity. Qed.

Theorem passkey_loop_terminates fuel s :
  (exists n, (n < fuel)%nat /\ accept_at n s) -> passkey_loop fuel s <> None.
Proof.
  revert s. induction fuel as [|f IH]; intros s [n [Hn Ha]]; [lia|].
  rewrite passkey_loop_unfold. destruct (sample_of s <? passkey_limit) eqn:E; [discriminate|].
  apply IH. destruct n as [|n'].
  - unfold accept_at in Ha. change (3 * 0)%nat with 0%nat in Ha. cbn [skipn] in Ha.
    apply N.ltb_ge in E. lia.
  - exists n'. split; [lia|]. unfold accept_at in *.
    replace (3 * S n')%nat with (3 * n' + 3)%nat in Ha by lia.
    rewrite skipn_plus in Ha. exact Ha.
Qed.

(* past its end the stream reads as zeros, and a sample with a zero third byte is acceptable:
   length s / 3 + 1 iterations are always enough *)
Lemma sample_of_third_zero s : hd 0 (tl (tl s)) = 0 -> sample_of s < passkey_limit.
Proof.
  intros E. unfold sample_of. rewrite E. rewrite sample20_closed by nlia. unfold passkey_limit. nlia.
Qed.

Lemma sample_of_short s : (length s < 3)%nat -> sample_of s < passkey_limit.
Proof.
  intros H. apply sample_of_third_zero.
  destruct s as [|a [|b [|c s]]]; cbn in *; try reflexivity; lia.
Qed.

Theorem passkey_loop_enough_fuel fuel s : (length s / 3 < fuel)%nat -> passkey_loop fuel s <> None.
Proof.
  intros H. apply passkey_loop_terminates. exists (length s / 3)%nat. split; [assumption|].
  unfold accept_at. apply sample_of_short. rewrite skipn_length.
  pose proof (Nat.div_mod (length s) 3 ltac:(lia)). pose proof (Nat.mod_upper_bound (length s) 3 ltac:(lia)). lia.
Qed.

(* ---------------------------------------------------------------- uniformity (counting form) *)
(* [rejected_prefix k pre]: pre consists of k three byte samples, each of them out of range *)
Inductive rejected_prefix : nat -> list N -> Prop :=
| rp_nil : rejected_prefix 0 []
| rp_cons k b0 b1 b2 rest :
    b0 < 256 -> b1 < 256 -> b2 < 256 -> passkey_limit <= sample20 b0 b1 b2 ->
    rejected_prefix k rest -> rejected_prefix (S k) (b0 :: b1 :: b2 :: rest).

Lemma sample_of_bytes b0 b1 b2 rest :
  b0 < 256 -> b1 < 256 -> b2 < 256 -> sample_of (b0 :: b1 :: b2 :: rest) = sample20 b0 b1 b2.
Proof. intros. unfold sample_of. cbn [hd tl]. rewrite !N.mod_small by assumption. reflexivity. Qed.

Lemma passkey_loop_skips_rejected k pre :
  rejected_prefix k pre -> forall fuel rest, passkey_loop (k + fuel) (pre ++ rest) = passkey_loop fuel rest.
Proof.
  induction 1 as [|k b0 b1 b2 r H0 H1 H2 Hr Hp IH]; intros fuel rest; [reflexivity|].
  cbn [Nat.add app]. rewrite passkey_loop_unfold, sample_of_bytes by assumption.
  apply N.ltb_ge in Hr. rewrite Hr. cbn [skipn]. apply IH.
Qed.

(* after any prefix of rejected samples, an acceptable sample decides the result: its 20 bit value
   comes back unchanged and exactly its three bytes are consumed *)
Theorem passkey_accepted_sample_is_result k pre b0 b1 b2 rest fuel :
  rejected_prefix k pre -> b0 < 256 -> b1 < 256 -> b2 < 256 ->
  sample20 b0 b1 b2 < passkey_limit -> (k < fuel)%nat ->
  create_passkey fuel (pre ++ b0 :: b1 :: b2 :: rest) = Some (N_to_le 16 (sample20 b0 b1 b2), rest).
Proof.
  intros Hp H0 H1 H2 Ha Hf. unfold create_passkey.
  replace fuel with (k + S (fuel - S k))%nat by lia.
  rewrite (passkey_loop_skips_rejected k pre Hp).
  rewrite passkey_loop_unfold, sample_of_bytes by assumption.
  apply N.ltb_lt in Ha. rewrite Ha. cbn [skipn].
  rewrite passkey_array_le; [reflexivity|].
  eapply N.lt_trans; [apply sample20_lt; assumption|]. reflexivity.
Qed.

(* byte triples are in bijection with (20 bit value, discarded high nibble) pairs *)
Definition triple_of (v h : N) : N * N * N := (v mod 256, (v / 256) mod 256, v / 65536 + 16 * h).

Theorem sample20_triple_of v h :
  v < 2 ^ 20 -> h < 16 ->
  let '(b0, b1, b2) := triple_of v h in
  b0 < 256 /\ b1 < 256 /\ b2 < 256 /\ sample20 b0 b1 b2 = v /\ b2 / 16 = h.
Proof.
  intros Hv Hh. unfold triple_of. change (2 ^ 20) with 1048576 in Hv.
  assert (B0 : v mod 256 < 256) by nlia. assert (B1 : (v / 256) mod 256 < 256) by nlia.
  repeat split; try assumption; try nlia.
  rewrite sample20_closed by assumption. nlia.
Qed.

Theorem triple_of_sample20 b0 b1 b2 :
  b0 < 256 -> b1 < 256 -> b2 < 256 -> triple_of (sample20 b0 b1 b2) (b2 / 16) = (b0, b1, b2).
Proof.
  intros H0 H1 H2. unfold triple_of. rewrite sample20_closed by assumption.
  f_equal; [f_equal|]; nlia.
Qed.

(* ---------------------------------------------------------------- the code as found *)
Definition passkey_v0_in_range : Prop := forall s, le_to_N (fst (create_passkey_v0 s)) < 1000000.
Lemma passkey_v0_refuted : ~ passkey_v0_in_range.
Proof. intros H. specialize (H [255; 255; 255]). vm_compute in H. discriminate. Qed.
Lemma passkey_v0_witness : le_to_N (fst (create_passkey_v0 [255; 255; 255])) = 16777215.
Proof. vm_compute. reflexivity. Qed.
