(* The Gallina AES-128 of Aes.v satisfies the hypothesis the C37 theorems put on the block cipher:
   a 16 octet key gives a 16 octet result (for any data argument). *)
From Coq Require Import Arith NArith List Lia Bool.
From BT Require Import ToolBox.Octets ToolBox.OctetsLemmas ToolBox.Aes.
Import ListNotations.
Local Open Scope N_scope.

Lemma sbox_bytes : forallb byteb sbox = true.
Proof. vm_compute. reflexivity. Qed.

Lemma sub_byte x : sub x < 256.
Proof.
  unfold sub. destruct (nth_in_or_default (N.to_nat x) sbox 0) as [H | ->]; [|lia].
  pose proof sbox_bytes as B. rewrite forallb_forall in B. specialize (B _ H).
  unfold byteb in B. apply N.ltb_lt. exact B.
Qed.

Lemma nth_sub_byte i s : nth i (map sub s) 0 < 256.
Proof.
  destruct (nth_in_or_default i (map sub s) 0) as [H | ->]; [|lia].
  apply in_map_iff in H. destruct H as [y [<- _]]. apply sub_byte.
Qed.

Ltac explode l :=
  repeat (let x := fresh "x" in destruct l as [|x l]; cbn [length] in *; try lia).
Ltac forall_inv :=
  repeat match goal with H : Forall _ (_ :: _) |- _ => inversion H; clear H; subst end.

Lemma next_key_block rc k : rc < 256 -> block k -> block (next_key rc k).
Proof.
  intros Hrc [Hl Hb]. unfold bytes in Hb. explode k. forall_inv. unfold is_byte in *.
  split; [reflexivity|].
  cbv [next_key slice firstn skipn xorl map rot_word app hd tl].
  unfold bytes. repeat constructor; unfold is_byte;
    repeat (apply lxor_byte); try apply sub_byte; try assumption; lia.
Qed.

Lemma final_round_block rc k s : rc < 256 -> block k -> block (xorl (shift_rows (map sub s)) (next_key rc k)).
Proof.
  intros Hrc Hk. destruct (next_key_block rc k Hrc Hk) as [L B]. split.
  - rewrite xorl_length. unfold shift_rows. rewrite map_length. reflexivity.
  - apply bytes_xorl; [|assumption]. unfold bytes, shift_rows. apply Forall_forall. intros x Hx.
    apply in_map_iff in Hx. destruct Hx as [i [<- _]]. apply nth_sub_byte.
Qed.

Lemma rounds_block : forall rcs k s, rcs <> [] -> Forall (fun rc => rc < 256) rcs -> block k -> block (rounds rcs k s).
Proof.
  induction rcs as [|rc rest IH]; intros k s Hne Hrc Hk; [congruence|].
  inversion Hrc as [|? ? H1 H2]; subst. destruct rest as [|rc2 rest].
  - cbn [rounds]. apply final_round_block; assumption.
  - change (rounds (rc :: rc2 :: rest) k s)
      with (rounds (rc2 :: rest) (next_key rc k) (xorl (mix_columns (shift_rows (map sub s))) (next_key rc k))).
    apply IH; [congruence|assumption|apply next_key_block; assumption].
Qed.

Theorem aes128_block k b : block k -> block (aes128 k b).
Proof.
  intros Hk. unfold aes128. apply rounds_block; [discriminate| |assumption].
  unfold rcon. repeat (constructor; [lia|]). constructor.
Qed.

Corollary aes128_block' : forall k b, block k -> length b = 16%nat -> block (aes128 k b).
Proof. intros k b Hk _. apply aes128_block. assumption. Qed.
