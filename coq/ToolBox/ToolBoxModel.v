(* Executable model of bluetoe/bindings/nordic/nrf52/security_tool_box.cpp (C37, C38) and of the
   session key derivation in nrf52.cpp (radio_hardware_with_crypto_support::setup_encryption).
   Definitions only.  The code is transcribed as written: little endian arrays, aes_le() reversing key,
   data and result around the ECB peripheral, the hand-unrolled CMAC chains, the reversed buffer
   layouts of f5 / f6.

   External code is a Section variable:
     aes         the ECB peripheral: key, cleartext -> ciphertext (FIPS-197 byte order)
     uecc_valid  uECC_valid_public_key on 64 octets X || Y (each big endian)
   and the RNG peripheral is the explicit byte stream argument of the functions that draw from it
   (past its end the stream continues with zeros, as the emulated peripheral does).
   A pointer argument ( const std::uint8_t* ) is the list of the octets behind it; [skipn off] is
   pointer arithmetic. *)
From Coq Require Import NArith List.
From BT Require Import ToolBox.Octets ToolBox.Aes ToolBox.P256.
Import ListNotations.
Local Open Scope N_scope.

(* ---------------------------------------------------------------- random numbers *)
(* random_number8(): one byte of the RNG's VALUE register (std::uint8_t) *)
Definition random_number8 (s : list N) : N * list N := ((hd 0 s) mod 256, tl s).

Definition passkey_limit : N := 1000000.
Definition passkey_mask : N := 0xFFFFF.

(* value = ( b0 | ( b1 << 8 ) | ( b2 << 16 ) ) & 0xFFFFF *)
Definition sample20 (b0 b1 b2 : N) : N :=
  N.land (N.lor b0 (N.lor (N.shiftl b1 8) (N.shiftl b2 16))) passkey_mask.

(* the do { ... } while ( value >= passkey_limit ) loop of the repaired create_passkey(); [fuel] bounds
   the number of iterations (None = fuel exhausted; the C++ loop has no bound) *)
Fixpoint passkey_loop (fuel : nat) (s : list N) : option (N * list N) :=
  match fuel with
  | O => None
  | S f =>
      let '(b0, s1) := random_number8 s in
      let '(b1, s2) := random_number8 s1 in
      let '(b2, s3) := random_number8 s2 in
      let value := sample20 b0 b1 b2 in
      if value <? passkey_limit then Some (value, s3) else passkey_loop f s3
  end.

Definition passkey_array (value : N) : list N :=
  [ N.land value 0xFF; N.land (N.shiftr value 8) 0xFF; (N.shiftr value 16) mod 256 ] ++ repeat 0 13%nat.

(* security_tool_box::create_passkey() after fix/C38-passkey-range: the TK and the rest of the stream *)
Definition create_passkey (fuel : nat) (s : list N) : option (list N * list N) :=
  match passkey_loop fuel s with
  | None => None
  | Some (value, s') => Some (passkey_array value, s')
  end.

(* security_tool_box::create_passkey() as found (commit 6f71f7c and before): three raw random bytes *)
Definition create_passkey_v0 (s : list N) : list N * list N :=
  let '(b0, s1) := random_number8 s in
  let '(b1, s2) := random_number8 s1 in
  let '(b2, s3) := random_number8 s2 in
  ([b0; b1; b2] ++ repeat 0 13%nat, s3).

(* ---------------------------------------------------------------- static helpers *)
(* left_shift(): output[i] = ( input[i] << 1 ) | overflow; overflow = ( input[i] & 0x80 ) ? 1 : 0 *)
Fixpoint left_shift_from (overflow : N) (input : list N) : list N :=
  match input with
  | [] => []
  | b :: t => (N.lor (N.shiftl b 1) overflow) mod 256
              :: left_shift_from (if N.land b 0x80 =? 0 then 0 else 1) t
  end.
Definition left_shift (input : list N) : list N := left_shift_from 0 input.

Definition cmac_C : list N := 0x87 :: repeat 0 15%nat.          (* uint128_t C = {{ 0x87 }} *)
Definition f5_salt : list N :=
  [0xBE; 0x83; 0x60; 0x5A; 0xDB; 0x0B; 0x37; 0x60; 0x38; 0xA5; 0xF5; 0xAA; 0x91; 0x83; 0x88; 0x6C].
Definition f5_m0_fill : list N := [0x65; 0x6c; 0x74; 0x62].
Definition f5_m3_fill : list N := [0x80; 0x00; 0x01].
(* addr.is_random() ? 1 : 0 *)
Definition addr_type (t : N) : N := if t =? 0 then 0 else 1.
(* write_64bit: eight octets, least significant first *)
Definition write_64bit (v : N) : list N := N_to_le 8 v.
(* read_32bit *)
Definition read_32bit (l : list N) : N := le_to_N (firstn 4 l).

(* ---------------------------------------------------------------- line protocol *)
Inductive op : Type :=
| Passkey (stream : list N)
| Aes (k d : list N) | Shl (x : list N) | K1 (k : list N) | K2 (k : list N)
| C1 (k r p1 p2 : list N) | S1 (k srand mrand : list N) | Sk (key skdm skds : list N)
| F4 (u v k z : list N) | G2 (u v x y : list N)
| F5 (dh n1 n2 t1 a1 t2 a2 : list N)
| F6 (key n1 n2 r io t1 a1 t2 a2 : list N)
| Valid (pk : list N)
| Malformed.

Inductive out : Type :=
| OPasskey (tk : list N) (drawn : N)
| OBytes (b : list N)
| OPair (a b : list N)
| OBool (b : bool)
| OBadArg
| OFault.

(* the harness' argument check: exact lengths (the C++ API takes fixed size arrays) *)
Definition shape (args : list (nat * list N)) : bool := forallb (fun a => blockb (fst a) (snd a)) args.
Definition args_of (o : op) : option (list (nat * list N)) :=
  match o with
  | Passkey s => Some [(length s, s)]
  | Aes k d => Some [(16, k); (16, d)]
  | Shl x => Some [(16, x)]
  | K1 k | K2 k => Some [(16, k)]
  | C1 k r p1 p2 => Some [(16, k); (16, r); (16, p1); (16, p2)]
  | S1 k a b => Some [(16, k); (16, a); (16, b)]
  | Sk k m s => Some [(16, k); (8, m); (8, s)]
  | F4 u v k z => Some [(32, u); (32, v); (16, k); (1, z)]
  | G2 u v x y => Some [(32, u); (32, v); (16, x); (16, y)]
  | F5 dh n1 n2 t1 a1 t2 a2 => Some [(32, dh); (16, n1); (16, n2); (1, t1); (6, a1); (1, t2); (6, a2)]
  | F6 key n1 n2 r io t1 a1 t2 a2 =>
      Some [(16, key); (16, n1); (16, n2); (16, r); (3, io); (1, t1); (6, a1); (1, t2); (6, a2)]
  | Valid pk => Some [(64, pk)]
  | Malformed => None
  end%nat.
Definition well_shaped (o : op) : bool :=
  match args_of o with Some a => shape a | None => false end.


Definition state : Type := unit.
Definition init_gen : state := tt.

Section Model.
  Variable aes : list N -> list N -> list N.
  Variable uecc_valid : list N -> bool.

  (* aes_le( key, data ): key and data reversed into the ECB job, ciphertext reversed out of it *)
  Definition aes_le (key data : list N) : list N := rev (aes (rev key) (rev (firstn 16 data))).

  Definition subkey_step (k : list N) : list N :=
    if N.land (last k 0) 0x80 =? 0 then left_shift k else xorl (left_shift k) cmac_C.
  Definition k1_subkey (key : list N) : list N := subkey_step (aes_le key zero16).
  Definition k2_subkey (key : list N) : list N := subkey_step (k1_subkey key).

  (* ---- LE legacy pairing *)
  Definition c1 (temp_key rand p1 p2 : list N) : list N :=
    let p1_ := aes_le temp_key (xorl rand p1) in
    aes_le temp_key (xorl p1_ p2).

  Definition s1 (temp_key srand mrand : list N) : list N :=
    let r := firstn 8 mrand ++ firstn 8 srand in          (* r[0..8) = mrand[0..8), r[8..16) = srand[0..8) *)
    aes_le temp_key r.

  (* ---- link layer session key (nrf52.cpp setup_encryption): aes_le( key, SKDm | SKDs ) *)
  Definition session_key (key : list N) (skdm skds : N) : list N :=
    let session_descriminator := blit 8 (write_64bit skds) (blit 0 (write_64bit skdm) zero16) in
    aes_le key session_descriminator.

  (* ---- LE secure connections *)
  Definition is_valid_public_key (public_key : list N) : bool :=
    uecc_valid (rev (slice 0 32 public_key) ++ rev (slice 32 32 public_key)).

  Definition f4 (u v k : list N) (z : N) : list N :=
    let m4 := repeat 0 14%nat ++ [0x80; z] in
    let t0 := aes_le k (skipn 16 u) in
    let t1 := aes_le k (xorl t0 u) in
    let t2 := aes_le k (xorl t1 (skipn 16 v)) in
    let t3 := aes_le k (xorl t2 v) in
    aes_le k (xorl t3 (xorl (k2_subkey k) m4)).

  Definition f5_cmac (key buffer : list N) : list N :=
    let m0 := skipn 48 buffer in
    let m1 := skipn 32 buffer in
    let m2 := skipn 16 buffer in
    let m3 := buffer in
    let t0 := aes_le key m0 in
    let t1 := aes_le key (xorl t0 m1) in
    let t2 := aes_le key (xorl t1 m2) in
    aes_le key (xorl t2 (xorl (k2_subkey key) m3)).

  Definition f5_key (dh_key : list N) : list N :=
    let t0 := aes_le f5_salt (skipn 16 dh_key) in
    aes_le f5_salt (xorl t0 (xorl (k1_subkey f5_salt) dh_key)).

  Definition f5_buffer (nonce_central nonce_peripheral : list N) (t1 : N) (a1 : list N) (t2 : N) (a2 : list N) : list N :=
    let b := repeat 0 64%nat in
    let b := blit (11 + 48) f5_m0_fill b in
    let b := blit 10 f5_m3_fill b in
    let b := blit (32 + 11) nonce_central b in
    let b := blit (16 + 11) nonce_peripheral b in
    let b := blit (16 + 10) [addr_type t1] b in
    let b := blit (16 + 4) a1 b in
    let b := blit (16 + 3) [addr_type t2] b in
    blit 13 a2 b.

  Definition f5 (dh_key nonce_central nonce_peripheral : list N) (t1 : N) (a1 : list N) (t2 : N) (a2 : list N)
    : list N * list N :=
    let buffer := f5_buffer nonce_central nonce_peripheral t1 a1 t2 a2 in
    let key := f5_key dh_key in
    let mac_key := f5_cmac key buffer in
    let buffer := blit (15 + 48) [1] buffer in              (* increment counter *)
    let ltk := f5_cmac key buffer in
    (mac_key, ltk).

  Definition f6_buffer (io_caps : list N) (t1 : N) (a1 : list N) (t2 : N) (a2 : list N) : list N :=
    let b := repeat 0 32%nat in
    let b := blit (16 + 13) io_caps b in
    let b := blit (16 + 12) [addr_type t1] b in
    let b := blit 22 a1 b in
    let b := blit (16 + 5) [addr_type t2] b in
    let b := blit 15 a2 b in
    blit 14 [0x80] b.

  Definition f6 (key n1 n2 r io_caps : list N) (t1 : N) (a1 : list N) (t2 : N) (a2 : list N) : list N :=
    let m4_m3 := f6_buffer io_caps t1 a1 t2 a2 in
    let m3 := skipn 16 m4_m3 in
    let m4 := m4_m3 in
    let t0 := aes_le key n1 in
    let t1' := aes_le key (xorl t0 n2) in
    let t2' := aes_le key (xorl t1' r) in
    let t3 := aes_le key (xorl t2' m3) in
    aes_le key (xorl t3 (xorl (k2_subkey key) m4)).

  Definition g2 (u v x y : list N) : N :=
    let t0 := aes_le x (skipn 16 u) in
    let t1 := aes_le x (xorl t0 u) in
    let t2 := aes_le x (xorl t1 (skipn 16 v)) in
    let t3 := aes_le x (xorl t2 v) in
    let t4 := aes_le x (xorl t3 (xorl (k1_subkey x) y)) in
    read_32bit t4.

  (* ---------------------------------------------------------------- line protocol *)

  Definition exec (o : op) : out :=
    match o with
    | Passkey s =>
        (* the stream continues with zeros and 0 is an acceptable sample: length s / 3 + 1 iterations suffice *)
        let fuel := S (Nat.div (length s) 3) in
        let padded := s ++ repeat 0 (Nat.mul 3 fuel) in
        match create_passkey fuel padded with
        | Some (tk, s') => OPasskey tk (N.of_nat (Nat.sub (length padded) (length s')))
        | None => OFault
        end
    | Aes k d => OBytes (aes_le k d)
    | Shl x => OBytes (left_shift x)
    | K1 k => OBytes (k1_subkey k)
    | K2 k => OBytes (k2_subkey k)
    | C1 k r p1 p2 => OBytes (c1 k r p1 p2)
    | S1 k a b => OBytes (s1 k a b)
    | Sk k m s => OBytes (session_key k (le_to_N m) (le_to_N s))
    | F4 u v k z => OBytes (f4 u v k (hd 0 z))
    | G2 u v x y => OBytes (N_to_le 4 (g2 u v x y))
    | F5 dh n1 n2 t1 a1 t2 a2 => let '(m, l) := f5 dh n1 n2 (hd 0 t1) a1 (hd 0 t2) a2 in OPair m l
    | F6 key n1 n2 r io t1 a1 t2 a2 => OBytes (f6 key n1 n2 r io (hd 0 t1) a1 (hd 0 t2) a2)
    | Valid pk => OBool (is_valid_public_key pk)
    | Malformed => OBadArg
    end.

  Definition step_gen (s : state) (o : op) : state * out :=
    (s, if well_shaped o then exec o else OBadArg).
End Model.

(* the executable instance: Gallina AES-128, curve equation in N arithmetic *)
Definition init : state := init_gen.
Definition step : state -> op -> state * out := step_gen aes128 valid_be.
Fixpoint run (s : state) (ops : list op) : list (op * out) :=
  match ops with
  | [] => []
  | o :: t => let '(s', r) := step s o in (o, r) :: run s' t
  end.
