(* The curve P-256 (FIPS 186-4 D.1.2.3 / Core Vol 3 Part H 2.3.5.6.1): definitions only.
   uECC itself is not modelled; [valid_be] is the executable instance of the Section variable
   [uecc_valid] (what uECC_valid_public_key is assumed - and differentially tested - to decide). *)
From Coq Require Import NArith List.
From BT Require Import ToolBox.Octets.
Import ListNotations.
Local Open Scope N_scope.

Definition p256_p : N := 0xffffffff00000001000000000000000000000000ffffffffffffffffffffffff.
Definition p256_b : N := 0x5ac635d8aa3a93e7b3ebbd55769886bc651d06b0cc53b0f63bce3c3e27d2604b.

(* (x, y) is an affine point of the curve: coordinates reduced, y^2 = x^3 - 3x + b (mod p).
   (The point at infinity has no affine coordinates; (0,0) does not satisfy the equation.) *)
Definition on_p256 (x y : N) : Prop :=
  x < p256_p /\ y < p256_p /\ (y * y) mod p256_p = (x * x * x + (p256_p - 3) * x + p256_b) mod p256_p.
Definition on_p256b (x y : N) : bool :=
  (x <? p256_p) && (y <? p256_p) && ((y * y) mod p256_p =? (x * x * x + (p256_p - 3) * x + p256_b) mod p256_p).

(* 64 octets X || Y, each coordinate big endian: uECC's "native" public key format *)
Definition valid_be (key : list N) : bool := on_p256b (be_to_N (firstn 32 key)) (be_to_N (skipn 32 key)).
