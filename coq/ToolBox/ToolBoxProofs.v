(* C37: the little endian code of security_tool_box.cpp (ToolBoxModel.v) computes the functions of
   the Core specification (ToolBoxSpec.v) modulo byte reversal - for every block cipher [aes] that
   maps a 16 octet key and a 16 octet block to a 16 octet block. *)
From Coq Require Import Arith ZArith NArith List Lia Bool Zify.
From BT Require Import Base.Bits2 ToolBox.Octets ToolBox.OctetsLemmas ToolBox.P256
  ToolBox.ToolBoxModel ToolBox.ToolBoxSpec.
Import ListNotations.
Local Open Scope N_scope.

#[local] Hint Rewrite app_length rev_length xorl_length repeat_length N_to_le_length : len.
Ltac len := autorewrite with len in *; cbn [length] in *; try rewrite ?firstn_length, ?skipn_length in *; lia.

Lemma rev_eq_swap (a b : list N) : rev a = b -> a = rev b.
Proof. intros <-. rewrite rev_involutive. reflexivity. Qed.

Lemma block_rev l : block l -> block (rev l).
Proof. intros [H1 H2]. split; [rewrite rev_length; assumption|apply bytes_rev; assumption]. Qed.
Lemma block_len l : block l -> length l = 16%nat.
Proof. intros [H _]. exact H. Qed.

(* ---------------------------------------------------------------- left_shift is doubling *)
Definition shift_sweep_ok : bool :=
  forallb (fun b => forallb (fun ov =>
     (((N.lor (N.shiftl b 1) ov) mod 256) =? (2 * b + ov) mod 256)
     && ((if N.land b 0x80 =? 0 then 0 else 1) =? b / 128)
     && (Bool.eqb (N.land b 0x80 =? 0) (b <? 128))) [0; 1]) (Nrange 256).
Lemma shift_sweep_ok_true : shift_sweep_ok = true.
Proof. vm_compute. reflexivity. Qed.

(* finite sweep over b < 256, ov < 2 *)
Lemma shift_sweep b ov : b < 256 -> ov < 2 ->
  (N.lor (N.shiftl b 1) ov) mod 256 = (2 * b + ov) mod 256 /\
  (if N.land b 0x80 =? 0 then 0 else 1) = b / 128 /\
  (N.land b 0x80 =? 0) = (b <? 128).
Proof.
  intros Hb Hov. pose proof shift_sweep_ok_true as H. unfold shift_sweep_ok in H.
  rewrite forallb_forall in H. specialize (H b (In_Nrange 256 b Hb)).
  rewrite forallb_forall in H.
  assert (Hin : In ov [0; 1]) by (cbn; lia).
  specialize (H ov Hin). rewrite !andb_true_iff in H. destruct H as [[H1 H2] H3].
  apply N.eqb_eq in H1. apply N.eqb_eq in H2. apply eqb_prop in H3. auto.
Qed.

Lemma left_shift_from_length ov l : length (left_shift_from ov l) = length l.
Proof. revert ov. induction l; intros; cbn; [reflexivity|]. rewrite IHl. reflexivity. Qed.

Lemma left_shift_from_bytes ov l : bytes (left_shift_from ov l).
Proof.
  revert ov. induction l; intros; cbn [left_shift_from]; constructor; [|apply IHl].
  unfold is_byte. nlia.
Qed.

Lemma left_shift_from_value ov l : bytes l -> ov < 2 ->
  le_to_N (left_shift_from ov l) = (2 * le_to_N l + ov) mod 256 ^ N.of_nat (length l).
Proof.
  intros Hl. revert ov. induction Hl as [|b t Hb Ht IH]; intros ov Hov; cbn [left_shift_from le_to_N length].
  - change (N.of_nat 0) with 0. rewrite N.pow_0_r, N.mod_1_r. reflexivity.
  - unfold is_byte in Hb. destruct (shift_sweep b ov Hb Hov) as [E1 [E2 _]].
    rewrite E1, E2. rewrite IH by nlia.
    rewrite Nat2N.inj_succ, N.pow_succ_r'.
    set (P := 256 ^ N.of_nat (length t)). set (T := le_to_N t).
    rewrite (N.mod_mul_r (2 * (b + 256 * T) + ov) 256 P) by (unfold P; try apply N.pow_nonzero; lia).
    replace ((2 * (b + 256 * T) + ov) mod 256) with ((2 * b + ov) mod 256) by nlia.
    replace ((2 * (b + 256 * T) + ov) / 256) with (2 * T + b / 128) by nlia.
    reflexivity.
Qed.

Lemma left_shift_is_doubling l : block l ->
  left_shift l = N_to_le 16 ((2 * le_to_N l) mod 2 ^ 128).
Proof.
  intros [Hlen Hb]. unfold left_shift.
  rewrite <- (N_to_le_le_to_N (left_shift_from 0 l)) by apply left_shift_from_bytes.
  rewrite left_shift_from_length, Hlen.
  rewrite left_shift_from_value by (assumption || lia). rewrite Hlen, N.add_0_r.
  change (256 ^ N.of_nat 16) with (2 ^ 128). reflexivity.
Qed.

Lemma msb_test l : block l -> (N.land (last l 0) 0x80 =? 0) = (le_to_N l <? 2 ^ 127).
Proof.
  intros [Hlen Hb].
  assert (Hne : l <> []) by (intros ->; discriminate).
  destruct (exists_last Hne) as [l' [m E]]. subst l.
  rewrite last_last. apply bytes_app_inv in Hb. destruct Hb as [Hl' Hm].
  inversion Hm as [|? ? Hm' _]; subst. unfold is_byte in Hm'.
  destruct (shift_sweep m 0 Hm' ltac:(lia)) as [_ [_ E]]. rewrite E.
  rewrite le_to_N_app. cbn [le_to_N]. rewrite app_length in Hlen. cbn [length] in Hlen.
  assert (L : length l' = 15%nat) by lia.
  pose proof (le_to_N_bound l' Hl') as B. rewrite L in *.
  change (256 ^ N.of_nat 15) with 1329227995784915872903807060280344576 in *.
  change (2 ^ 127) with 170141183460469231731687303715884105728.
  destruct (m <? 128) eqn:E1; symmetry; [apply N.ltb_lt; apply N.ltb_lt in E1|apply N.ltb_ge; apply N.ltb_ge in E1]; lia.
Qed.

Section Proofs.
  Variable aes : list N -> list N -> list N.
  (* the block cipher maps a 16 octet key and a 16 octet block to a 16 octet block *)
  Hypothesis aes_block : forall k b, block k -> length b = 16%nat -> block (aes k b).

  Notation aes_le := (aes_le aes).
  Notation subkey_step := (ToolBoxModel.subkey_step).

  Lemma aes_len k b : block k -> length b = 16%nat -> length (aes k b) = 16%nat.
  Proof. intros. apply block_len. apply aes_block; assumption. Qed.

  (* ---------------------------------------------------------------- sub-keys *)
  Lemma const_Rb_bytes : bytes const_Rb.
  Proof. unfold const_Rb. apply bytes_app; [apply bytes_repeat0|]. constructor; [unfold is_byte; lia|constructor]. Qed.

  Lemma dbl_block l : block (dbl l).
  Proof.
    unfold dbl, N_to_be. set (s := rev (N_to_le 16 _)).
    assert (Hs : block s).
    { split; unfold s; [rewrite rev_length, N_to_le_length; reflexivity|apply bytes_rev, N_to_le_bytes]. }
    destruct (be_to_N l <? 2 ^ 127); [assumption|].
    destruct Hs as [H1 H2]. split; [rewrite xorl_length; assumption|apply bytes_xorl; [assumption|apply const_Rb_bytes]].
  Qed.

  Lemma subkey_step_is_dbl l : block l -> subkey_step l = rev (dbl (rev l)).
  Proof.
    intros Hl. unfold ToolBoxModel.subkey_step, dbl. rewrite be_to_N_rev'.
    rewrite (msb_test l Hl). unfold N_to_be. rewrite <- (left_shift_is_doubling l Hl).
    destruct (le_to_N l <? 2 ^ 127).
    - rewrite rev_involutive. reflexivity.
    - rewrite xorl_rev by (rewrite rev_length; unfold left_shift; rewrite left_shift_from_length; destruct Hl as [-> _]; reflexivity).
      rewrite rev_involutive. reflexivity.
  Qed.

  Lemma aes_le_block k d : block k -> (16 <= length d)%nat -> block (aes_le k d).
  Proof.
    intros Hk Hd. unfold ToolBoxModel.aes_le. apply block_rev. apply aes_block; [apply block_rev; assumption|].
    rewrite rev_length, firstn_length. lia.
  Qed.

  Lemma k1_is_K1 k : block k -> k1_subkey aes k = rev (cmac_K1 aes (rev k)) /\ block (k1_subkey aes k).
  Proof.
    intros Hk. unfold k1_subkey, cmac_K1.
    assert (B : block (aes_le k zero16)) by (apply aes_le_block; [assumption|cbn; lia]).
    rewrite (subkey_step_is_dbl _ B). unfold ToolBoxModel.aes_le.
    rewrite rev_involutive. change (rev (firstn 16 zero16)) with zero16.
    split; [reflexivity|]. apply block_rev, dbl_block.
  Qed.

  Lemma k2_is_K2 k : block k -> k2_subkey aes k = rev (cmac_K2 aes (rev k)) /\ block (k2_subkey aes k).
  Proof.
    intros Hk. unfold k2_subkey, cmac_K2. destruct (k1_is_K1 k Hk) as [E B].
    rewrite (subkey_step_is_dbl _ B). rewrite E, rev_involutive.
    split; [reflexivity|]. apply block_rev, dbl_block.
  Qed.

  (* ---------------------------------------------------------------- chains *)
  (* t := aes_le( k, xor_( t, m ) ) over the blocks [ms] (pointers: only the first 16 octets are read) *)
  Definition chain_le (k t : list N) (ms : list (list N)) : list N :=
    fold_left (fun t m => aes_le k (xorl t m)) ms t.
  Definition chain_be (K X : list N) (Ms : list (list N)) : list N :=
    fold_left (fun x m => aes K (xorl x m)) Ms X.
  Definition be_blocks (ms : list (list N)) : list (list N) := map (fun m => rev (firstn 16 m)) ms.

  Lemma aes_le_xor k t m : block k -> length t = 16%nat -> (16 <= length m)%nat ->
    rev (aes_le k (xorl t m)) = aes (rev k) (xorl (rev t) (rev (firstn 16 m))) /\
    length (aes_le k (xorl t m)) = 16%nat.
  Proof.
    intros Hk Ht Hm. split.
    - unfold ToolBoxModel.aes_le. rewrite rev_involutive.
      rewrite (firstn_all2 (n := 16) (xorl t m)) by (rewrite xorl_length; lia).
      rewrite (xorl_firstn t m), Ht.
      rewrite xorl_rev by (rewrite firstn_length; lia). reflexivity.
    - apply block_len, aes_le_block; [assumption|rewrite xorl_length; lia].
  Qed.

  Lemma aes_le_zero k m : (16 <= length m)%nat -> aes_le k m = aes_le k (xorl zero16 m).
  Proof.
    intros Hm. unfold ToolBoxModel.aes_le. f_equal. f_equal. f_equal.
    rewrite (xorl_firstn zero16 m). change (length zero16) with 16%nat.
    unfold zero16. rewrite xorl_zero_l by (rewrite firstn_length; lia).
    rewrite firstn_firstn. reflexivity.
  Qed.

  Lemma chain_rev k : block k -> forall ms t, length t = 16%nat ->
    Forall (fun m => (16 <= length m)%nat) ms ->
    rev (chain_le k t ms) = chain_be (rev k) (rev t) (be_blocks ms) /\ length (chain_le k t ms) = 16%nat.
  Proof.
    intros Hk. induction ms as [|m ms IH]; intros t Ht Hms; cbn [chain_le chain_be be_blocks map fold_left].
    - split; [reflexivity|assumption].
    - inversion Hms as [|? ? Hm Hms']; subst.
      destruct (aes_le_xor k t m Hk Ht Hm) as [E L].
      destruct (IH (aes_le k (xorl t m)) L Hms') as [E' L']. unfold chain_le, chain_be, be_blocks in *.
      rewrite E', E. split; [reflexivity|assumption].
  Qed.

  Lemma concat_blocks_length (Ms : list (list N)) :
    Forall (fun m => length m = 16%nat) Ms -> length (concat Ms) = (16 * length Ms)%nat.
  Proof. induction 1 as [|m Ms Hm _ IH]; cbn [concat length]; [reflexivity|]. rewrite app_length, IH, Hm. lia. Qed.

  Definition m_last (K last : list N) : list N :=
    if Nat.eqb (length last) 16 then xorl last (cmac_K1 aes K) else xorl (pad last) (cmac_K2 aes K).

  Lemma cmac_loop_chain K : forall Ms X n last,
    Forall (fun m => length m = 16%nat) Ms -> (0 < length last <= 16)%nat -> (length Ms < n)%nat ->
    cmac_loop aes n K X (concat Ms ++ last) = aes K (xorl (m_last K last) (chain_be K X Ms)).
  Proof.
    induction Ms as [|B Ms IH]; intros X n last HMs Hl Hn; (destruct n as [|n]; [lia|]); cbn [cmac_loop concat app].
    - destruct (Nat.leb_spec (length last) 16) as [_|]; [|lia]. reflexivity.
    - inversion HMs as [|? ? HB HMs']; subst. rewrite <- app_assoc.
      destruct (Nat.leb_spec (length (B ++ concat Ms ++ last)) 16) as [H|_].
      { rewrite !app_length in H. lia. }
      rewrite firstn_app, HB, Nat.sub_diag, firstn_all2 by lia. cbn [firstn]. rewrite app_nil_r.
      rewrite skipn_app, HB, Nat.sub_diag, skipn_all2 by lia. cbn [skipn app].
      rewrite IH by (assumption || cbn [length] in Hn; lia). reflexivity.
  Qed.

  Lemma cmac_chain K Ms last :
    Forall (fun m => length m = 16%nat) Ms -> (0 < length last <= 16)%nat ->
    cmac aes K (concat Ms ++ last) = aes K (xorl (m_last K last) (chain_be K zero16 Ms)).
  Proof.
    intros HMs Hl. unfold cmac. apply cmac_loop_chain; try assumption.
    rewrite app_length, (concat_blocks_length Ms HMs).
    apply Nat.lt_succ_r. apply Nat.div_le_lower_bound; lia.
  Qed.

  Lemma be_blocks_16 ms : Forall (fun m => (16 <= length m)%nat) ms ->
    Forall (fun m => length m = 16%nat) (be_blocks ms).
  Proof.
    induction 1 as [|m ms Hm _ IH]; cbn [be_blocks map]; constructor; [|assumption].
    rewrite rev_length, firstn_length. lia.
  Qed.

  Lemma pad_length p : (length p < 16)%nat -> length (pad p) = 16%nat.
  Proof. intros. unfold pad. rewrite app_length. cbn [length]. rewrite repeat_length. lia. Qed.

  (* the hand-unrolled CMAC of the code, last block complete ( k1 ) *)
  Lemma cmac_model_full k ms lastm :
    block k -> Forall (fun m => (16 <= length m)%nat) ms -> length lastm = 16%nat ->
    rev (aes_le k (xorl (chain_le k zero16 ms) (xorl (k1_subkey aes k) lastm)))
    = cmac aes (rev k) (concat (be_blocks ms) ++ rev lastm).
  Proof.
    intros Hk Hms Hl.
    destruct (chain_rev k Hk ms zero16 eq_refl Hms) as [E L].
    destruct (k1_is_K1 k Hk) as [EK BK].
    assert (LK : length (xorl (k1_subkey aes k) lastm) = 16%nat) by (rewrite xorl_length; apply block_len; assumption).
    destruct (aes_le_xor k _ (xorl (k1_subkey aes k) lastm) Hk L ltac:(lia)) as [E2 _].
    rewrite E2, E. rewrite (firstn_all2 (n := 16)) by lia.
    rewrite xorl_rev by (rewrite (block_len _ BK); lia).
    rewrite EK, rev_involutive.
    rewrite cmac_chain by (try apply be_blocks_16; try assumption; rewrite rev_length; lia).
    unfold m_last. rewrite rev_length, Hl. cbn [Nat.eqb].
    change (rev zero16) with zero16 in *.
    set (X := chain_be _ _ _) in *. set (K1 := cmac_K1 aes (rev k)).
    assert (LX : length X = 16%nat).
    { rewrite <- E, rev_length. assumption. }
    assert (LK1 : length K1 = 16%nat).
    { unfold K1, cmac_K1. apply block_len, dbl_block. }
    f_equal. rewrite (xorl_comm (rev lastm) K1) by (rewrite rev_length; lia).
    apply xorl_comm. rewrite xorl_length. lia.
  Qed.

  (* last block incomplete ( k2 ): [lastm] is the padded last block as the code lays it out *)
  Lemma cmac_model_part k ms lastm p :
    block k -> Forall (fun m => (16 <= length m)%nat) ms -> (0 < length p < 16)%nat -> rev lastm = pad p ->
    rev (aes_le k (xorl (chain_le k zero16 ms) (xorl (k2_subkey aes k) lastm)))
    = cmac aes (rev k) (concat (be_blocks ms) ++ p).
  Proof.
    intros Hk Hms Hp Hl.
    assert (Ll : length lastm = 16%nat) by (rewrite <- (rev_length lastm), Hl; apply pad_length; lia).
    destruct (chain_rev k Hk ms zero16 eq_refl Hms) as [E L].
    destruct (k2_is_K2 k Hk) as [EK BK].
    assert (LK : length (xorl (k2_subkey aes k) lastm) = 16%nat) by (rewrite xorl_length; apply block_len; assumption).
    destruct (aes_le_xor k _ (xorl (k2_subkey aes k) lastm) Hk L ltac:(lia)) as [E2 _].
    rewrite E2, E. rewrite (firstn_all2 (n := 16)) by lia.
    rewrite xorl_rev by (rewrite (block_len _ BK); lia).
    rewrite EK, rev_involutive, Hl.
    rewrite cmac_chain by (try apply be_blocks_16; try assumption; lia).
    unfold m_last. replace (Nat.eqb (length p) 16) with false by (symmetry; apply Nat.eqb_neq; lia).
    change (rev zero16) with zero16 in *.
    set (X := chain_be _ _ _) in *. set (K2 := cmac_K2 aes (rev k)).
    assert (LX : length X = 16%nat).
    { rewrite <- E, rev_length. assumption. }
    assert (LK2 : length K2 = 16%nat).
    { unfold K2, cmac_K2. apply block_len, dbl_block. }
    assert (LP : length (pad p) = 16%nat) by (apply pad_length; lia).
    f_equal. rewrite (xorl_comm (pad p) K2) by lia.
    apply xorl_comm. rewrite xorl_length. lia.
  Qed.

  (* ---------------------------------------------------------------- legacy pairing, session key *)
  Lemma aes_le_plain k d : length d = 16%nat -> aes_le k d = rev (aes (rev k) (rev d)).
  Proof. intros H. unfold ToolBoxModel.aes_le. rewrite firstn_all2 by lia. reflexivity. Qed.

  Theorem c1_correct k r p1 p2 :
    block k -> length r = 16%nat -> length p1 = 16%nat -> length p2 = 16%nat ->
    c1 aes k r p1 p2 = rev (c1_spec aes (rev k) (rev r) (rev p1) (rev p2)).
  Proof.
    intros Hk Hr H1 H2. unfold c1, c1_spec.
    assert (Lx : length (xorl r p1) = 16%nat) by (rewrite xorl_length; assumption).
    assert (L1 : length (aes_le k (xorl r p1)) = 16%nat) by (apply block_len, aes_le_block; [assumption|lia]).
    rewrite (aes_le_plain k (xorl (aes_le k (xorl r p1)) p2)) by (rewrite xorl_length; assumption).
    rewrite xorl_rev by lia.
    rewrite (aes_le_plain k (xorl r p1)) by assumption.
    rewrite rev_involutive, xorl_rev by lia. reflexivity.
  Qed.

  Theorem s1_correct k srand mrand :
    block k -> length srand = 16%nat -> length mrand = 16%nat ->
    s1 aes k srand mrand = rev (s1_spec aes (rev k) (rev srand) (rev mrand)).
  Proof.
    intros Hk Hs Hm. unfold s1, s1_spec.
    rewrite aes_le_plain by (rewrite app_length, !firstn_length; lia).
    rewrite rev_app_distr, !skipn_rev, Hs, Hm. reflexivity.
  Qed.

  Theorem session_key_correct key skdm skds :
    block key ->
    session_key aes key skdm skds = rev (session_key_spec aes (rev key) skdm skds).
  Proof.
    intros Hk. unfold session_key, session_key_spec, write_64bit, N_to_be.
    assert (E : blit 8 (N_to_le 8 skds) (blit 0 (N_to_le 8 skdm) zero16) = N_to_le 8 skdm ++ N_to_le 8 skds)
      by reflexivity.
    rewrite E. rewrite aes_le_plain by (rewrite app_length, !N_to_le_length; reflexivity).
    rewrite rev_app_distr. reflexivity.
  Qed.

  (* ---------------------------------------------------------------- public key *)
  Variable uecc_valid : list N -> bool.
  Hypothesis uecc_decides_curve : forall key, length key = 64%nat -> uecc_valid key = valid_be key.

  Lemma on_p256b_spec x y : on_p256b x y = true <-> on_p256 x y.
  Proof.
    unfold on_p256b, on_p256. rewrite !andb_true_iff, !N.ltb_lt, N.eqb_eq. tauto.
  Qed.

  Lemma is_valid_public_key_eq pk :
    length pk = 64%nat ->
    is_valid_public_key uecc_valid pk = on_p256b (le_to_N (firstn 32 pk)) (le_to_N (skipn 32 pk)).
  Proof.
    intros Hl. unfold is_valid_public_key, slice. change (skipn 0 pk) with pk.
    rewrite (firstn_all2 (n := 32) (skipn 32 pk)) by (rewrite skipn_length; lia).
    set (A := rev (firstn 32 pk)). set (B := rev (skipn 32 pk)).
    assert (LA : length A = 32%nat) by (unfold A; rewrite rev_length, firstn_length; lia).
    assert (LB : length B = 32%nat) by (unfold B; rewrite rev_length, skipn_length; lia).
    rewrite uecc_decides_curve by (rewrite app_length; lia).
    unfold valid_be.
    rewrite firstn_app, skipn_app, LA, Nat.sub_diag.
    rewrite (firstn_all2 (n := 32) A), (skipn_all2 (n := 32) A) by lia.
    change (firstn 0 B) with (@nil N). change (skipn 0 B) with B. rewrite app_nil_r. cbn [app].
    unfold A, B.
    rewrite !be_to_N_rev'. reflexivity.
  Qed.

  Theorem is_valid_public_key_correct pk :
    length pk = 64%nat ->
    (is_valid_public_key uecc_valid pk = true <-> on_p256 (le_to_N (firstn 32 pk)) (le_to_N (skipn 32 pk))).
  Proof. intros Hl. rewrite (is_valid_public_key_eq pk Hl). apply on_p256b_spec. Qed.
End Proofs.
