(* Specification for C37 / C38: the cryptographic tool box as the Core specification defines it, on
   octet strings written most significant octet first, over an arbitrary block cipher
   [aes : key -> block -> block] (Section variable; the security function e of Vol 3 Part H 2.2.1),
   and the executable monitor that judges observed (operation, output) pairs of the line protocol. *)
From Coq Require Import NArith List Bool.
From BT Require Import ToolBox.Octets ToolBox.Aes ToolBox.P256 ToolBox.ToolBoxModel.
Import ListNotations.
Local Open Scope N_scope.

Section Spec.
  Variable aes : list N -> list N -> list N.

  (* ---------------------------------------------------------------- AES-CMAC, RFC 4493 *)
  Definition const_Rb : list N := repeat 0 15%nat ++ [0x87].
  (* one step of sub-key generation (RFC 4493 2.3 step 2/3) on the 128 bit string as a number:
     L << 1, xor const_Rb if MSB(L) = 1 *)
  Definition dbl (l : list N) : list N :=
    let v := be_to_N l in
    let s := N_to_be 16 ((2 * v) mod 2 ^ 128) in
    if v <? 2 ^ 127 then s else xorl s const_Rb.
  Definition cmac_K1 (k : list N) : list N := dbl (aes k zero16).
  Definition cmac_K2 (k : list N) : list N := dbl (cmac_K1 k).
  (* padding(x) = x || 10^i *)
  Definition pad (m : list N) : list N := m ++ 0x80 :: repeat 0 (15 - length m)%nat.

  (* RFC 4493 2.4, arbitrary message length: X := AES(K, X xor M_i) over all blocks but the last;
     M_last := M_n xor K1 (complete block) or padding(M_n) xor K2; T := AES(K, M_last xor X).
     [n] is fuel >= the number of blocks. *)
  Fixpoint cmac_loop (n : nat) (k x m : list N) : list N :=
    match n with
    | O => []
    | S n' =>
        if Nat.leb (length m) 16 then
          let m_last := if Nat.eqb (length m) 16 then xorl m (cmac_K1 k) else xorl (pad m) (cmac_K2 k) in
          aes k (xorl m_last x)
        else cmac_loop n' k (aes k (xorl x (firstn 16 m))) (skipn 16 m)
    end.
  Definition cmac (k m : list N) : list N := cmac_loop (S (Nat.div (length m) 16)) k zero16 m.

  (* ---------------------------------------------------------------- Vol 3 Part H 2.2.3, 2.2.4: legacy pairing *)
  (* c1 = e(k, e(k, r XOR p1) XOR p2); p1 = pres||preq||rat'||iat', p2 = padding||ia||ra are
     assembled by the security manager (not by the tool box) *)
  Definition c1_spec (k r p1 p2 : list N) : list N := aes k (xorl (aes k (xorl r p1)) p2).
  (* s1(k, r1, r2) = e(k, r'), r' = r1' || r2', r1' / r2' the least significant 64 bits of r1 / r2 *)
  Definition s1_spec (k r1 r2 : list N) : list N := aes k (skipn 8 r1 ++ skipn 8 r2).

  (* ---------------------------------------------------------------- Vol 6 Part B 5.1.3.1: session key *)
  (* SK = e(LTK, SKD), SKD = SKDs || SKDm (SKDm the least significant 64 bits) *)
  Definition session_key_spec (ltk : list N) (skdm skds : N) : list N :=
    aes ltk (N_to_be 8 skds ++ N_to_be 8 skdm).

  (* ---------------------------------------------------------------- Vol 3 Part H 2.2.6 - 2.2.9: secure connections *)
  Definition f4_spec (u v x : list N) (z : N) : list N := cmac x (u ++ v ++ [z]).

  Definition f5_SALT : list N :=
    [0x6C; 0x88; 0x83; 0x91; 0xAA; 0xF5; 0xA5; 0x38; 0x60; 0x37; 0x0B; 0xDB; 0x5A; 0x60; 0x83; 0xBE].
  Definition f5_keyID : list N := [0x62; 0x74; 0x6c; 0x65].
  Definition f5_length : list N := [0x01; 0x00].      (* 256 *)
  (* a1, a2: 7 octets, address type then the address most significant octet first *)
  Definition f5_spec (w n1 n2 a1 a2 : list N) : list N * list N :=
    let t := cmac f5_SALT w in
    ( cmac t ([0] ++ f5_keyID ++ n1 ++ n2 ++ a1 ++ a2 ++ f5_length),
      cmac t ([1] ++ f5_keyID ++ n1 ++ n2 ++ a1 ++ a2 ++ f5_length) ).      (* (MacKey, LTK) *)

  Definition f6_spec (w n1 n2 r iocap a1 a2 : list N) : list N :=
    cmac w (n1 ++ n2 ++ r ++ iocap ++ a1 ++ a2).

  Definition g2_spec (u v x y : list N) : N := be_to_N (cmac x (u ++ v ++ y)) mod 2 ^ 32.
End Spec.

(* what the theorems assume of the block cipher: a 16 octet key and a 16 octet block give a 16 octet block *)
Definition block_cipher (aes : list N -> list N -> list N) : Prop :=
  forall k b, block k -> length b = 16%nat -> block (aes k b).
(* what is assumed of uECC_valid_public_key (64 octets X || Y, big endian): it decides the curve equation *)
Definition decides_p256 (uecc_valid : list N -> bool) : Prop :=
  forall key, length key = 64%nat -> uecc_valid key = valid_be key.

(* ---------------------------------------------------------------- C38 *)
(* what a displayed passkey / temporary key must be: the 128 bit value, least significant octet
   first, of a number below 10^6 (Vol 3 Part H 2.3.5.2: 000000 .. 999999) *)
Definition passkey_ok (tk : list N) : Prop := length tk = 16%nat /\ bytes tk /\ le_to_N tk < 1000000.
Definition passkey_okb (tk : list N) : bool := blockb 16 tk && (le_to_N tk <? 1000000).

(* ---------------------------------------------------------------- monitor *)
Inductive verdict := Ok | Bad (tag : nat).
Definition t_shape := 1%nat.
Definition t_fault := 2%nat.
Definition t_passkey_range := 3%nat.
Definition t_aes := 4%nat.
Definition t_subkey := 5%nat.
Definition t_c1 := 6%nat.
Definition t_s1 := 7%nat.
Definition t_session_key := 8%nat.
Definition t_f4 := 9%nat.
Definition t_g2 := 10%nat.
Definition t_f5 := 11%nat.
Definition t_f6 := 12%nat.
Definition t_public_key := 13%nat.

Fixpoint list_eqb (a b : list N) : bool :=
  match a, b with
  | [], [] => true
  | x :: a', y :: b' => (x =? y) && list_eqb a' b'
  | _, _ => false
  end.

Definition mon : Type := unit.
Definition minit : mon := tt.

(* the value the Core specification defines for an operation (arguments as the C++ API takes them:
   least significant octet first), as the output the line protocol prints; None where the monitor
   does not prescribe one value *)
Definition a7 (t a : list N) : list N := addr_type (hd 0 t) :: rev a.
Definition expected (o : op) : option out :=
  match o with
  | Passkey _ | Malformed => None
  | Aes k d => Some (OBytes (rev (aes128 (rev k) (rev d))))
  | Shl x => Some (OBytes (rev (N_to_be 16 ((2 * be_to_N (rev x)) mod 2 ^ 128))))
  | K1 k => Some (OBytes (rev (cmac_K1 aes128 (rev k))))
  | K2 k => Some (OBytes (rev (cmac_K2 aes128 (rev k))))
  | C1 k r p1 p2 => Some (OBytes (rev (c1_spec aes128 (rev k) (rev r) (rev p1) (rev p2))))
  | S1 k a b => Some (OBytes (rev (s1_spec aes128 (rev k) (rev a) (rev b))))
  | Sk k m s => Some (OBytes (rev (session_key_spec aes128 (rev k) (le_to_N m) (le_to_N s))))
  | F4 u v k z => Some (OBytes (rev (f4_spec aes128 (rev u) (rev v) (rev k) (hd 0 z))))
  | G2 u v x y => Some (OBytes (N_to_le 4 (g2_spec aes128 (rev u) (rev v) (rev x) (rev y))))
  | F5 dh n1 n2 t1 a1 t2 a2 =>
      let '(m, l) := f5_spec aes128 (rev dh) (rev n1) (rev n2) (a7 t1 a1) (a7 t2 a2) in
      Some (OPair (rev m) (rev l))
  | F6 key n1 n2 r io t1 a1 t2 a2 =>
      Some (OBytes (rev (f6_spec aes128 (rev key) (rev n1) (rev n2) (rev r) (rev io) (a7 t1 a1) (a7 t2 a2))))
  | Valid pk => Some (OBool (on_p256b (le_to_N (firstn 32 pk)) (le_to_N (skipn 32 pk))))
  end.

Definition out_eqb (a b : out) : bool :=
  match a, b with
  | OBytes x, OBytes y => list_eqb x y
  | OPair x1 x2, OPair y1 y2 => list_eqb x1 y1 && list_eqb x2 y2
  | OBool x, OBool y => Bool.eqb x y
  | OBadArg, OBadArg => true
  | _, _ => false
  end.

Definition tag_of (o : op) : nat :=
  match o with
  | Passkey _ => t_passkey_range
  | Aes _ _ => t_aes
  | Shl _ | K1 _ | K2 _ => t_subkey
  | C1 _ _ _ _ => t_c1 | S1 _ _ _ => t_s1 | Sk _ _ _ => t_session_key
  | F4 _ _ _ _ => t_f4 | G2 _ _ _ _ => t_g2
  | F5 _ _ _ _ _ _ _ => t_f5 | F6 _ _ _ _ _ _ _ _ _ => t_f6
  | Valid _ => t_public_key
  | Malformed => t_shape
  end.

Definition mstep (m : mon) (o : op) (r : out) : verdict * mon :=
  ( match r with
    | OFault => Bad t_fault
    | _ =>
      if negb (well_shaped o) then (match r with OBadArg => Ok | _ => Bad t_shape end)
      else match o, r with
           | Passkey _, OPasskey tk _ => if passkey_okb tk then Ok else Bad t_passkey_range
           | Passkey _, _ => Bad t_shape
           | _, _ => match expected o with
                     | Some e => if out_eqb r e then Ok else Bad (tag_of o)
                     | None => Bad t_shape
                     end
           end
    end, m ).

Fixpoint monitor_from (m : mon) (pos : nat) (tr : list (op * out)) : option (nat * nat) :=
  match tr with
  | [] => None
  | (o, r) :: t =>
      match mstep m o r with
      | (Ok, m') => monitor_from m' (S pos) t
      | (Bad tag, _) => Some (pos, tag)
      end
  end.
Definition monitor (tr : list (op * out)) : option (nat * nat) := monitor_from minit O tr.
