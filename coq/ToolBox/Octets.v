(* Octet strings for the security tool box (C37, C38): definitions only.
   Bytes are N (kept < 256 by construction), buffers are lists; list positions are nat. *)
From Coq Require Import NArith List.
Import ListNotations.
Local Open Scope N_scope.

(* std::transform( a.begin(), a.end(), b, a.begin(), xor ): as long as [a], reads [b] sequentially *)
Fixpoint xorl (a b : list N) : list N :=
  match a with
  | [] => []
  | x :: a' => N.lxor x (hd 0 b) :: xorl a' (tl b)
  end.

Definition slice (off len : nat) (l : list N) : list N := firstn len (skipn off l).
(* std::copy( src.begin(), src.end(), &buf[ off ] ) *)
Definition blit (off : nat) (src buf : list N) : list N :=
  firstn off buf ++ src ++ skipn (off + length src) buf.

Definition zero16 : list N := repeat 0 16%nat.
Definition is_byte (b : N) : Prop := b < 256.
Definition bytes (l : list N) : Prop := Forall is_byte l.
Definition block (l : list N) : Prop := length l = 16%nat /\ bytes l.
Definition byteb (b : N) : bool := b <? 256.
Definition blockb (n : nat) (l : list N) : bool := Nat.eqb (length l) n && forallb byteb l.

(* little endian: least significant octet first (the byte order of the C++ API, read_32bit/write_64bit) *)
Fixpoint le_to_N (l : list N) : N :=
  match l with
  | [] => 0
  | b :: t => b + 256 * le_to_N t
  end.
Fixpoint N_to_le (n : nat) (v : N) : list N :=
  match n with
  | O => []
  | S n' => v mod 256 :: N_to_le n' (v / 256)
  end.
(* big endian: most significant octet first (the way the Core specification and RFC 4493 write values) *)
Definition be_to_N (l : list N) : N := fold_left (fun acc b => acc * 256 + b) l 0.
Definition N_to_be (n : nat) (v : N) : list N := rev (N_to_le n v).
