(* Lemmas about octet strings (ToolBox/Octets.v): xor, byte reversal, little / big endian numbers. *)
From Coq Require Import Arith ZArith NArith List Lia Bool Zify.
From BT Require Import Base.Bits2 ToolBox.Octets.
Import ListNotations.
Local Open Scope N_scope.

(* lia with N.div / N.modulo by constants *)
Ltac nlia := zify; Z.to_euclidean_division_equations; lia.

(* ---------------------------------------------------------------- bytes *)
Lemma lxor_byte a b : a < 256 -> b < 256 -> N.lxor a b < 256.
Proof.
  intros Ha Hb. destruct (N.eq_dec (N.lxor a b) 0) as [->|Hz]; [lia|].
  change 256 with (2 ^ 8). apply N.log2_lt_pow2; [lia|].
  eapply N.le_lt_trans; [apply N.log2_lxor|].
  apply N.max_lub_lt.
  - destruct (N.eq_dec a 0) as [->|]; [cbn; lia|]. apply N.log2_lt_pow2; [lia|exact Ha].
  - destruct (N.eq_dec b 0) as [->|]; [cbn; lia|]. apply N.log2_lt_pow2; [lia|exact Hb].
Qed.

Lemma bytes_app a b : bytes a -> bytes b -> bytes (a ++ b).
Proof. unfold bytes. intros. apply Forall_app. split; assumption. Qed.
Lemma bytes_app_inv a b : bytes (a ++ b) -> bytes a /\ bytes b.
Proof. unfold bytes. intros H. apply Forall_app in H. exact H. Qed.
Lemma bytes_rev a : bytes a -> bytes (rev a).
Proof. unfold bytes. intros. apply Forall_rev. assumption. Qed.
Lemma bytes_firstn n a : bytes a -> bytes (firstn n a).
Proof. unfold bytes. intros H. rewrite <- (firstn_skipn n a) in H. apply Forall_app in H. tauto. Qed.
Lemma bytes_skipn n a : bytes a -> bytes (skipn n a).
Proof. unfold bytes. intros H. rewrite <- (firstn_skipn n a) in H. apply Forall_app in H. tauto. Qed.
Lemma bytes_repeat0 n : bytes (repeat 0 n).
Proof. unfold bytes. induction n; cbn; constructor; [unfold is_byte; lia|assumption]. Qed.
Lemma bytes_cons x l : x < 256 -> bytes l -> bytes (x :: l).
Proof. intros. constructor; assumption. Qed.

Lemma blockb_spec n l : blockb n l = true <-> length l = n /\ bytes l.
Proof.
  unfold blockb, bytes. rewrite andb_true_iff, Nat.eqb_eq, forallb_forall, Forall_forall.
  unfold byteb, is_byte. split; intros [H1 H2]; split; auto; intros x Hx; specialize (H2 x Hx);
    [apply N.ltb_lt|apply N.ltb_lt]; assumption.
Qed.

(* ---------------------------------------------------------------- xorl *)
Lemma xorl_length a b : length (xorl a b) = length a.
Proof. revert b. induction a; intros; cbn; [reflexivity|]. rewrite IHa. reflexivity. Qed.

Lemma xorl_app a1 a2 b1 b2 :
  length a1 = length b1 -> xorl (a1 ++ a2) (b1 ++ b2) = xorl a1 b1 ++ xorl a2 b2.
Proof.
  revert b1. induction a1; intros [|y b1] H; cbn in *; try discriminate; [reflexivity|].
  rewrite IHa1 by lia. reflexivity.
Qed.

Lemma xorl_rev a b : length a = length b -> rev (xorl a b) = xorl (rev a) (rev b).
Proof.
  revert b. induction a; intros [|y b] H; cbn in *; try discriminate; [reflexivity|].
  rewrite IHa by lia. rewrite xorl_app by (rewrite !rev_length; lia). reflexivity.
Qed.

Lemma xorl_firstn a b : xorl a b = xorl a (firstn (length a) b).
Proof.
  revert b. induction a as [|x a IH]; intros b; [reflexivity|].
  destruct b as [|y b]; [reflexivity|].
  cbn [length firstn xorl hd tl]. rewrite <- IH. reflexivity.
Qed.

Lemma xorl_prefix a b c : length a = length b -> xorl a (b ++ c) = xorl a b.
Proof.
  intros H. rewrite (xorl_firstn a (b ++ c)). rewrite H, firstn_app, Nat.sub_diag, firstn_all.
  cbn. rewrite app_nil_r. reflexivity.
Qed.

Lemma xorl_zero_l n m : length m = n -> xorl (repeat 0 n) m = m.
Proof.
  revert m. induction n; intros [|x m] H; cbn in *; try discriminate; [reflexivity|].
  rewrite IHn by lia. reflexivity.
Qed.

Lemma xorl_comm a b : length a = length b -> xorl a b = xorl b a.
Proof.
  revert b. induction a; intros [|y b] H; cbn in *; try discriminate; [reflexivity|].
  rewrite IHa by lia. rewrite N.lxor_comm. reflexivity.
Qed.

Lemma xorl_assoc a b c : length a = length b -> length b = length c ->
  xorl (xorl a b) c = xorl a (xorl b c).
Proof.
  revert b c. induction a; intros [|y b] [|z c] H1 H2; cbn in *; try discriminate; [reflexivity|].
  rewrite IHa by lia. rewrite N.lxor_assoc. reflexivity.
Qed.

Lemma bytes_xorl a b : bytes a -> bytes b -> bytes (xorl a b).
Proof.
  unfold bytes. revert b. induction a; intros b Ha Hb; cbn; [constructor|].
  inversion Ha; subst. constructor.
  - destruct b as [|y b]; cbn; [rewrite N.lxor_0_r; assumption|].
    inversion Hb; subst. apply lxor_byte; assumption.
  - apply IHa; [assumption|]. destruct b; cbn; [constructor|inversion Hb; assumption].
Qed.

(* ---------------------------------------------------------------- numbers *)
Lemma le_to_N_app a b : le_to_N (a ++ b) = le_to_N a + 256 ^ N.of_nat (length a) * le_to_N b.
Proof.
  induction a; cbn [app le_to_N length].
  - change (N.of_nat 0) with 0. rewrite N.pow_0_r. lia.
  - rewrite IHa, Nat2N.inj_succ, N.pow_succ_r'. lia.
Qed.

Lemma le_to_N_bound l : bytes l -> le_to_N l < 256 ^ N.of_nat (length l).
Proof.
  induction 1 as [|x l Hx Hl IH]; cbn [le_to_N length]; [change (N.of_nat 0) with 0; rewrite N.pow_0_r; lia|].
  rewrite Nat2N.inj_succ, N.pow_succ_r'. unfold is_byte in Hx. lia.
Qed.

Lemma N_to_le_length n v : length (N_to_le n v) = n.
Proof. revert v. induction n; intros; cbn; [reflexivity|]. rewrite IHn. reflexivity. Qed.

Lemma N_to_le_bytes n v : bytes (N_to_le n v).
Proof.
  revert v. induction n; intros; cbn; constructor; [|apply IHn].
  unfold is_byte. nlia.
Qed.

Lemma N_to_le_le_to_N l : bytes l -> N_to_le (length l) (le_to_N l) = l.
Proof.
  induction 1 as [|x l Hx Hl IH]; cbn [le_to_N length N_to_le]; [reflexivity|].
  unfold is_byte in Hx.
  replace ((x + 256 * le_to_N l) mod 256) with x by nlia.
  replace ((x + 256 * le_to_N l) / 256) with (le_to_N l) by nlia.
  rewrite IH. reflexivity.
Qed.

Lemma le_to_N_N_to_le n v : le_to_N (N_to_le n v) = v mod 256 ^ N.of_nat n.
Proof.
  revert v. induction n; intros; cbn [N_to_le le_to_N].
  - change (N.of_nat 0) with 0. rewrite N.pow_0_r, N.mod_1_r. reflexivity.
  - rewrite IHn, Nat2N.inj_succ, N.pow_succ_r'.
    rewrite (N.mod_mul_r v 256 (256 ^ N.of_nat n)) by (try apply N.pow_nonzero; lia). reflexivity.
Qed.

Lemma N_to_le_mod n v : N_to_le n (v mod 256 ^ N.of_nat n) = N_to_le n v.
Proof.
  rewrite <- (le_to_N_N_to_le n v).
  rewrite <- (N_to_le_length n v) at 1. apply N_to_le_le_to_N. apply N_to_le_bytes.
Qed.

Lemma be_to_N_rev l : be_to_N l = le_to_N (rev l).
Proof.
  unfold be_to_N.
  assert (H : forall acc, fold_left (fun a b => a * 256 + b) l acc
                          = le_to_N (rev l) + acc * 256 ^ N.of_nat (length l)).
  { induction l; intros acc; cbn [fold_left rev length].
    - change (N.of_nat 0) with 0. rewrite N.pow_0_r. cbn [le_to_N]. lia.
    - rewrite IHl, le_to_N_app, rev_length. cbn [le_to_N].
      rewrite Nat2N.inj_succ, N.pow_succ_r'. lia. }
  rewrite H. lia.
Qed.

Lemma be_to_N_rev' l : be_to_N (rev l) = le_to_N l.
Proof. rewrite be_to_N_rev, rev_involutive. reflexivity. Qed.

Lemma le_to_N_firstn n l : bytes l -> le_to_N (firstn n l) = le_to_N l mod 256 ^ N.of_nat n.
Proof.
  intros Hl. destruct (Nat.le_gt_cases (length l) n) as [Hn|Hn].
  - rewrite firstn_all2 by assumption. symmetry. apply N.mod_small.
    eapply N.lt_le_trans; [apply le_to_N_bound; assumption|].
    apply N.pow_le_mono_r; lia.
  - rewrite <- (firstn_skipn n l) at 2. rewrite le_to_N_app.
    rewrite firstn_length_le by lia.
    pose proof (le_to_N_bound (firstn n l) (bytes_firstn n l Hl)) as B.
    rewrite firstn_length_le in B by lia.
    set (P := 256 ^ N.of_nat n) in *. set (A := le_to_N (firstn n l)) in *.
    set (C := le_to_N (skipn n l)).
    rewrite (N.mul_comm P C), N.mod_add by (unfold P; apply N.pow_nonzero; lia).
    symmetry. apply N.mod_small. exact B.
Qed.

Lemma N_to_le_app a b v :
  N_to_le (a + b) v = N_to_le a v ++ N_to_le b (v / 256 ^ N.of_nat a).
Proof.
  revert v. induction a; intros v; cbn [Nat.add N_to_le app].
  - change (N.of_nat 0) with 0. rewrite N.pow_0_r, N.div_1_r. reflexivity.
  - rewrite IHa. f_equal. f_equal. rewrite Nat2N.inj_succ, N.pow_succ_r'.
    rewrite N.div_div by (try apply N.pow_nonzero; lia). reflexivity.
Qed.

(* ---------------------------------------------------------------- slices *)
Lemma rev_firstn_skipn_16 (l : list N) :
  length l = 32%nat -> rev l = rev (skipn 16 l) ++ rev (firstn 16 l).
Proof. intros _. rewrite <- rev_app_distr, firstn_skipn. reflexivity. Qed.

Lemma firstn_rev (n : nat) (l : list N) : firstn n (rev l) = rev (skipn (length l - n) l).
Proof.
  destruct (Nat.le_gt_cases (length l) n) as [H|H].
  - replace (length l - n)%nat with 0%nat by lia. cbn. apply firstn_all2. rewrite rev_length. lia.
  - rewrite <- (firstn_skipn (length l - n) l) at 1. rewrite rev_app_distr.
    rewrite firstn_app. rewrite rev_length, skipn_length.
    replace (n - (length l - (length l - n)))%nat with 0%nat by lia. cbn. rewrite app_nil_r.
    apply firstn_all2. rewrite rev_length, skipn_length. lia.
Qed.

Lemma skipn_rev (n : nat) (l : list N) : skipn n (rev l) = rev (firstn (length l - n) l).
Proof.
  destruct (Nat.le_gt_cases (length l) n) as [H|H].
  - replace (length l - n)%nat with 0%nat by lia. cbn. apply skipn_all2. rewrite rev_length. lia.
  - rewrite <- (firstn_skipn (length l - n) l) at 1. rewrite rev_app_distr.
    rewrite skipn_app. rewrite rev_length, skipn_length.
    replace (n - (length l - (length l - n)))%nat with 0%nat by lia. cbn.
    rewrite skipn_all2 by (rewrite rev_length, skipn_length; lia). reflexivity.
Qed.
