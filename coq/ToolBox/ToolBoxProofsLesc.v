(* C37, LE secure connections part: f4, g2, f6, f5 of security_tool_box.cpp are AES-CMAC over the
   layouts of Core Vol 3 Part H 2.2.6 - 2.2.9, modulo byte reversal.  Built on the chain / CMAC
   lemmas of ToolBoxProofs.v; the buffer layouts are checked by splitting the fixed length inputs
   into their octets and computing both sides. *)
From Coq Require Import Arith ZArith NArith List Lia Bool.
From BT Require Import ToolBox.Octets ToolBox.OctetsLemmas ToolBox.ToolBoxModel ToolBox.ToolBoxSpec
  ToolBox.ToolBoxProofs.
Import ListNotations.
Local Open Scope N_scope.

(* split a list of known length into its elements *)
Ltac explode l :=
  repeat (let x := fresh "x" in destruct l as [|x l]; cbn [length] in *; try lia).

Lemma f5_salt_block : block f5_salt.
Proof.
  split; [reflexivity|]. unfold f5_salt. repeat (constructor; [unfold is_byte; lia|]). constructor.
Qed.
Lemma f5_salt_rev : rev f5_salt = f5_SALT.
Proof. reflexivity. Qed.

Section Lesc.
  Variable aes : list N -> list N -> list N.
  Hypothesis aes_block : forall k b, block k -> length b = 16%nat -> block (aes k b).

  Theorem f4_correct u v k z :
    block k -> length u = 32%nat -> length v = 32%nat ->
    f4 aes u v k z = rev (f4_spec aes (rev u) (rev v) (rev k) z).
  Proof.
    intros Hk Hu Hv. apply rev_eq_swap. unfold f4, f4_spec.
    rewrite (aes_le_zero aes k (skipn 16 u)) by (rewrite skipn_length; lia).
    replace (rev u ++ rev v ++ [z]) with (concat (be_blocks [skipn 16 u; u; skipn 16 v; v]) ++ [z])
      by (explode u; explode v; reflexivity).
    apply (cmac_model_part aes aes_block k [skipn 16 u; u; skipn 16 v; v] (repeat 0 14 ++ [0x80; z]) [z]).
    - assumption.
    - repeat constructor; rewrite ?skipn_length; lia.
    - cbn; lia.
    - reflexivity.
  Qed.

  Lemma g2_mac u v x y :
    block x -> length u = 32%nat -> length v = 32%nat -> length y = 16%nat ->
    rev (aes_le aes x (xorl (chain_le aes x zero16 [skipn 16 u; u; skipn 16 v; v]) (xorl (k1_subkey aes x) y)))
    = cmac aes (rev x) (rev u ++ rev v ++ rev y).
  Proof.
    intros Hx Hu Hv Hy.
    replace (rev u ++ rev v ++ rev y) with (concat (be_blocks [skipn 16 u; u; skipn 16 v; v]) ++ rev y)
      by (explode u; explode v; reflexivity).
    apply (cmac_model_full aes aes_block x [skipn 16 u; u; skipn 16 v; v] y).
    - assumption.
    - repeat constructor; rewrite ?skipn_length; lia.
    - assumption.
  Qed.

  Theorem g2_correct u v x y :
    block x -> length u = 32%nat -> length v = 32%nat -> length y = 16%nat ->
    g2 aes u v x y = g2_spec aes (rev u) (rev v) (rev x) (rev y).
  Proof.
    intros Hx Hu Hv Hy. unfold g2, g2_spec.
    rewrite (aes_le_zero aes x (skipn 16 u)) by (rewrite skipn_length; lia).
    pose proof (g2_mac u v x y Hx Hu Hv Hy) as E. cbn [chain_le fold_left] in E.
    set (t4 := aes_le aes x _) in *.
    assert (B : block t4).
    { unfold t4. apply aes_le_block; [assumption|assumption|]. rewrite xorl_length.
      apply Nat.eq_le_incl. symmetry. apply block_len. apply aes_le_block; try assumption.
      rewrite xorl_length. apply Nat.eq_le_incl. symmetry. apply block_len.
      apply aes_le_block; try assumption. rewrite xorl_length. apply Nat.eq_le_incl. symmetry.
      apply block_len. apply aes_le_block; try assumption. rewrite xorl_length.
      apply Nat.eq_le_incl. symmetry. apply block_len. apply aes_le_block; try assumption.
      rewrite xorl_length. cbn. lia. }
    rewrite <- E, be_to_N_rev'. unfold read_32bit.
    rewrite le_to_N_firstn by (destruct B; assumption). reflexivity.
  Qed.

  Theorem f6_correct key n1 n2 r io t1 a1 t2 a2 :
    block key -> length n1 = 16%nat -> length n2 = 16%nat -> length r = 16%nat ->
    length io = 3%nat -> length a1 = 6%nat -> length a2 = 6%nat ->
    f6 aes key n1 n2 r io t1 a1 t2 a2
    = rev (f6_spec aes (rev key) (rev n1) (rev n2) (rev r) (rev io) (addr_type t1 :: rev a1) (addr_type t2 :: rev a2)).
  Proof.
    intros Hk H1 H2 Hr Hio Ha1 Ha2. apply rev_eq_swap. unfold f6, f6_spec.
    set (buf := f6_buffer io t1 a1 t2 a2).
    assert (Lbuf : length buf = 32%nat) by (unfold buf; explode io; explode a1; explode a2; reflexivity).
    rewrite (aes_le_zero aes key n1) by lia.
    destruct (k2_is_K2 aes aes_block key Hk) as [_ BK].
    rewrite (xorl_firstn (k2_subkey aes key) buf), (block_len _ BK).
    replace (rev n1 ++ rev n2 ++ rev r ++ rev io ++ (addr_type t1 :: rev a1) ++ addr_type t2 :: rev a2)
      with (concat (be_blocks [n1; n2; r; skipn 16 buf]) ++ [hd 0 a2])
      by (unfold buf; explode io; explode a1; explode a2; explode n1; explode n2; explode r; reflexivity).
    apply (cmac_model_part aes aes_block key [n1; n2; r; skipn 16 buf] (firstn 16 buf) [hd 0 a2]).
    - assumption.
    - repeat constructor; rewrite ?skipn_length; lia.
    - cbn; lia.
    - unfold buf. explode io; explode a1; explode a2. reflexivity.
  Qed.

  Lemma f5_key_correct dh :
    length dh = 32%nat -> rev (f5_key aes dh) = cmac aes f5_SALT (rev dh) /\ block (f5_key aes dh).
  Proof.
    intros Hd. unfold f5_key. split.
    - rewrite (aes_le_zero aes f5_salt (skipn 16 dh)) by (rewrite skipn_length; lia).
      destruct (k1_is_K1 aes aes_block f5_salt f5_salt_block) as [_ BK].
      rewrite (xorl_firstn (k1_subkey aes f5_salt) dh), (block_len _ BK).
      rewrite <- f5_salt_rev.
      replace (rev dh) with (concat (be_blocks [skipn 16 dh]) ++ rev (firstn 16 dh)) by (explode dh; reflexivity).
      apply (cmac_model_full aes aes_block f5_salt [skipn 16 dh] (firstn 16 dh)).
      + apply f5_salt_block.
      + repeat constructor; rewrite ?skipn_length; lia.
      + rewrite firstn_length; lia.
    - apply aes_le_block; [assumption|apply f5_salt_block|]. rewrite xorl_length.
      apply Nat.eq_le_incl. symmetry. apply block_len. apply aes_le_block; [assumption|apply f5_salt_block|].
      rewrite skipn_length; lia.
  Qed.

  Lemma f5_cmac_correct key buffer p :
    block key -> length buffer = 64%nat -> (0 < length p < 16)%nat -> rev (firstn 16 buffer) = pad p ->
    rev (f5_cmac aes key buffer)
    = cmac aes (rev key) (concat (be_blocks [skipn 48 buffer; skipn 32 buffer; skipn 16 buffer]) ++ p).
  Proof.
    intros Hk Hb Hp Hl. unfold f5_cmac.
    rewrite (aes_le_zero aes key (skipn 48 buffer)) by (rewrite skipn_length; lia).
    destruct (k2_is_K2 aes aes_block key Hk) as [_ BK].
    rewrite (xorl_firstn (k2_subkey aes key) buffer), (block_len _ BK).
    apply (cmac_model_part aes aes_block key [skipn 48 buffer; skipn 32 buffer; skipn 16 buffer] (firstn 16 buffer) p).
    - assumption.
    - repeat constructor; rewrite ?skipn_length; lia.
    - assumption.
    - assumption.
  Qed.

  Theorem f5_correct dh nc np t1 a1 t2 a2 :
    length dh = 32%nat -> length nc = 16%nat -> length np = 16%nat -> length a1 = 6%nat -> length a2 = 6%nat ->
    f5 aes dh nc np t1 a1 t2 a2
    = let '(mac_key, ltk) := f5_spec aes (rev dh) (rev nc) (rev np) (addr_type t1 :: rev a1) (addr_type t2 :: rev a2) in
      (rev mac_key, rev ltk).
  Proof.
    intros Hd Hc Hp Ha1 Ha2. unfold f5, f5_spec.
    destruct (f5_key_correct dh Hd) as [ET BT]. rewrite <- ET.
    set (key := f5_key aes dh) in *. set (buf := f5_buffer nc np t1 a1 t2 a2).
    f_equal; apply rev_eq_swap.
    - rewrite (f5_cmac_correct key buf (rev (firstn 3 a2) ++ f5_length)).
      + f_equal. unfold buf. explode nc; explode np; explode a1; explode a2. reflexivity.
      + assumption.
      + unfold buf. explode nc; explode np; explode a1; explode a2. reflexivity.
      + rewrite app_length, rev_length, firstn_length, Ha2. cbn. lia.
      + unfold buf. explode nc; explode np; explode a1; explode a2. reflexivity.
    - rewrite (f5_cmac_correct key (blit (15 + 48) [1] buf) (rev (firstn 3 a2) ++ f5_length)).
      + f_equal. unfold buf. explode nc; explode np; explode a1; explode a2. reflexivity.
      + assumption.
      + unfold buf. explode nc; explode np; explode a1; explode a2. reflexivity.
      + rewrite app_length, rev_length, firstn_length, Ha2. cbn. lia.
      + unfold buf. explode nc; explode np; explode a1; explode a2. reflexivity.
  Qed.
End Lesc.
