(* The executable instance (Gallina AES-128, curve equation) of the tool box model is accepted by the
   monitor on every operation: the monitor compares with the SPEC functions, so this is the C37
   theorems instantiated and glued to the line protocol.  Plus the counterexample showing that the
   public key statement needs its hypothesis. *)
From Coq Require Import Arith ZArith NArith List Lia Bool.
From BT Require Import ToolBox.Octets ToolBox.OctetsLemmas ToolBox.Aes ToolBox.AesProofs ToolBox.P256
  ToolBox.ToolBoxModel ToolBox.ToolBoxSpec ToolBox.PasskeyProofs ToolBox.ToolBoxProofs ToolBox.ToolBoxProofsLesc.
Import ListNotations.
Local Open Scope N_scope.

Lemma list_eqb_refl l : list_eqb l l = true.
Proof. induction l; cbn; [reflexivity|]. rewrite N.eqb_refl, IHl. reflexivity. Qed.

Lemma out_eqb_refl_bytes b : out_eqb (OBytes b) (OBytes b) = true.
Proof. apply list_eqb_refl. Qed.

(* ---------------------------------------------------------------- passkey op *)
Lemma padded_accept s m : (3 <= m)%nat -> accept_at (length s / 3) (s ++ repeat 0 m).
Proof.
  intros Hm. unfold accept_at. set (n := (length s / 3)%nat).
  assert (Hn : (3 * n <= length s)%nat) by (unfold n; apply Nat.mul_div_le; lia).
  assert (Hr : (length s - 3 * n < 3)%nat).
  { unfold n. pose proof (Nat.div_mod (length s) 3 ltac:(lia)). pose proof (Nat.mod_upper_bound (length s) 3 ltac:(lia)). lia. }
  rewrite skipn_app. replace (3 * n - length s)%nat with 0%nat by lia. cbn [skipn].
  pose proof (skipn_length (3 * n) s) as L. set (r := skipn (3 * n) s) in *.
  apply sample_of_third_zero.
  destruct m as [|[|[|m]]]; try lia.
  destruct r as [|a [|b [|c r]]]; cbn in *; try reflexivity; lia.
Qed.

Lemma passkey_okb_of tk : passkey_ok tk -> passkey_okb tk = true.
Proof.
  intros [H1 [H2 H3]]. unfold passkey_okb. apply andb_true_iff. split.
  - apply blockb_spec. split; assumption.
  - apply N.ltb_lt. assumption.
Qed.

Lemma exec_passkey aes uv s :
  exists tk n, exec aes uv (Passkey s) = OPasskey tk n /\ passkey_okb tk = true.
Proof.
  cbn [exec]. set (fuel := S (length s / 3)). set (padded := s ++ repeat 0 (3 * fuel)).
  destruct (create_passkey fuel padded) as [[tk s']|] eqn:E.
  - exists tk, (N.of_nat (length padded - length s')). split; [reflexivity|].
    apply passkey_okb_of. apply (create_passkey_range fuel padded tk s' E).
  - exfalso. unfold create_passkey in E.
    destruct (passkey_loop fuel padded) as [[v s'']|] eqn:E2; [discriminate|].
    revert E2. apply passkey_loop_terminates. exists (length s / 3)%nat. split; [unfold fuel; lia|].
    apply padded_accept. unfold fuel. lia.
Qed.

(* ---------------------------------------------------------------- crypto ops *)
Ltac shape_hyps W :=
  unfold well_shaped, args_of, shape in W; cbn [forallb fst snd] in W;
  rewrite ?andb_true_iff in W;
  repeat match goal with H : _ /\ _ |- _ => destruct H end;
  repeat match goal with H : blockb _ _ = true |- _ => apply blockb_spec in H; destruct H end.

Lemma valid_be_decides : decides_p256 valid_be.
Proof. intros key _. reflexivity. Qed.

Lemma expected_is_exec o :
  well_shaped o = true ->
  match o with
  | Passkey _ => True
  | _ => expected o = Some (exec aes128 valid_be o)
  end.
Proof.
  intros W. pose proof aes128_block' as AB.
  destruct o; try exact I; shape_hyps W; cbn [expected exec].
  - (* Aes *) rewrite (aes_le_plain aes128 k d) by assumption. reflexivity.
  - (* Shl *) rewrite be_to_N_rev'. unfold N_to_be. rewrite rev_involutive.
    rewrite left_shift_is_doubling by (split; assumption). reflexivity.
  - (* K1 *) rewrite (proj1 (k1_is_K1 aes128 AB k ltac:(split; assumption))). reflexivity.
  - (* K2 *) rewrite (proj1 (k2_is_K2 aes128 AB k ltac:(split; assumption))). reflexivity.
  - (* C1 *) rewrite (c1_correct aes128 AB k r p1 p2) by (try split; assumption). reflexivity.
  - (* S1 *) rewrite (s1_correct aes128 k srand mrand) by (try split; assumption). reflexivity.
  - (* Sk *) rewrite (session_key_correct aes128 key) by (split; assumption). reflexivity.
  - (* F4 *) rewrite (f4_correct aes128 AB u v k) by (try split; assumption). reflexivity.
  - (* G2 *) rewrite (g2_correct aes128 AB u v x y) by (try split; assumption). reflexivity.
  - (* F5 *) unfold a7. rewrite (f5_correct aes128 AB dh n1 n2 (hd 0 t1) a1 (hd 0 t2) a2) by assumption.
    destruct (f5_spec aes128 _ _ _ _ _) as [m l]. reflexivity.
  - (* F6 *) unfold a7. rewrite (f6_correct aes128 AB key n1 n2 r io (hd 0 t1) a1 (hd 0 t2) a2) by (try split; assumption).
    reflexivity.
  - (* Valid *) rewrite (is_valid_public_key_eq valid_be valid_be_decides pk) by assumption. reflexivity.
  - (* Malformed *) discriminate.
Qed.

Lemma out_eqb_refl r : (match r with OPasskey _ _ | OFault => False | _ => True end) -> out_eqb r r = true.
Proof.
  destruct r; intros H; try contradiction; cbn [out_eqb].
  - apply list_eqb_refl.
  - rewrite !list_eqb_refl. reflexivity.
  - destruct b; reflexivity.
  - reflexivity.
Qed.

Theorem mstep_accepts_model s o : mstep minit o (snd (step s o)) = (Ok, minit).
Proof.
  unfold step, step_gen, mstep. cbn [snd]. destruct (well_shaped o) eqn:W; cbn [negb].
  - pose proof (expected_is_exec o W) as E. destruct o.
    + destruct (exec_passkey aes128 valid_be stream) as [tk [n [E1 E2]]]. rewrite E1, E2. reflexivity.
    + cbn [exec] in *; rewrite E; cbn [out_eqb]; rewrite ?list_eqb_refl; reflexivity.
    + cbn [exec] in *; rewrite E; cbn [out_eqb]; rewrite ?list_eqb_refl; reflexivity.
    + cbn [exec] in *; rewrite E; cbn [out_eqb]; rewrite ?list_eqb_refl; reflexivity.
    + cbn [exec] in *; rewrite E; cbn [out_eqb]; rewrite ?list_eqb_refl; reflexivity.
    + cbn [exec] in *; rewrite E; cbn [out_eqb]; rewrite ?list_eqb_refl; reflexivity.
    + cbn [exec] in *; rewrite E; cbn [out_eqb]; rewrite ?list_eqb_refl; reflexivity.
    + cbn [exec] in *; rewrite E; cbn [out_eqb]; rewrite ?list_eqb_refl; reflexivity.
    + cbn [exec] in *; rewrite E; cbn [out_eqb]; rewrite ?list_eqb_refl; reflexivity.
    + cbn [exec] in *; rewrite E; cbn [out_eqb]; rewrite ?list_eqb_refl; reflexivity.
    + rewrite E. cbn [exec]. destruct (f5 aes128 _ _ _ _ _ _ _) as [m l]. cbn [out_eqb].
      rewrite !list_eqb_refl. reflexivity.
    + cbn [exec] in *; rewrite E; cbn [out_eqb]; rewrite ?list_eqb_refl; reflexivity.
    + rewrite E. cbn [exec out_eqb]. destruct (is_valid_public_key valid_be pk); reflexivity.
    + discriminate.
  - reflexivity.
Qed.

Theorem monitor_accepts_model : forall ops, monitor (run init ops) = None.
Proof.
  intros ops. unfold monitor. generalize init, O.
  induction ops as [|o ops IH]; intros s pos; cbn [run monitor_from]; [reflexivity|].
  destruct (step s o) as [s' r] eqn:E. cbn [monitor_from].
  pose proof (mstep_accepts_model s o) as M. rewrite E in M. cbn [snd] in M.
  rewrite M. apply IH.
Qed.

(* ---------------------------------------------------------------- public key: hypothesis needed *)
Lemma public_key_full_refuted :
  ~ (forall uecc_valid pk, length pk = 64%nat ->
       (is_valid_public_key uecc_valid pk = true <-> on_p256 (le_to_N (firstn 32 pk)) (le_to_N (skipn 32 pk)))).
Proof.
  intros H. specialize (H (fun _ => true) (repeat 0 64%nat) eq_refl). destruct H as [H _].
  specialize (H eq_refl). destruct H as [_ [_ H]]. vm_compute in H. discriminate.
Qed.
