(* Where the CCCD attributes are (AttDbModel.v: attribute_at): the CCCD attribute number cci directly follows
   the value attribute of its characteristic, and there is exactly one attribute index with that number. *)
From Coq Require Import Lia ZifyBool.
From BT Require Import Base.ListX AttDb.AttDbModel AttDb.AttDbNotifProofs.
Local Open Scope N_scope.

Lemma char_nattrs_ge2x ch : 2 <= char_nattrs ch.
Proof. unfold char_nattrs. lia. Qed.

Lemma tail_no_cccd (ch : char_decl) k s' ch' cci' :
  nth_error ((match c_name ch with Some n => [AUserDesc n] | None => [] end) ++ map (fun d => ADesc (fst d) (snd d)) (c_descs ch)) k
  = Some (ACccd s' ch' cci') -> False.
Proof.
  intros H. apply nth_error_In in H. apply in_app_or in H. destruct H as [H|H].
  - destruct (c_name ch); [destruct H as [H|[]]; discriminate|destruct H].
  - apply in_map_iff in H. destruct H as (d & H & _). discriminate.
Qed.

(* inside one characteristic: the CCCD attribute is attribute 2, right behind the value attribute *)
Lemma char_cccd_index s ch g cci0 i s' ch' cci :
  char_attribute_at s ch g cci0 i = Some (ACccd s' ch' cci) ->
  i = 2 /\ has_cccd ch = true /\ cci = cci0 /\ s' = s /\ ch' = ch.
Proof.
  unfold char_attribute_at, char_attrs, char_tail_attrs. intros H.
  destruct (N.to_nat i) as [|[|k]] eqn:E; cbn [nth_error] in H; try discriminate.
  destruct (has_cccd ch) eqn:Hc.
  - destruct k as [|k]; cbn [app nth_error] in H.
    + inversion H; subst. repeat split; auto. lia.
    + exfalso. eapply (tail_no_cccd ch); eauto.
  - exfalso. cbn [app] in H. eapply (tail_no_cccd ch); eauto.
Qed.

Lemma chars_cccd_prev s : forall cs g cci0 i s' ch' cci,
  chars_attribute_at s cs g cci0 i = Some (ACccd s' ch' cci) ->
  1 <= i /\ exists g', chars_attribute_at s cs g cci0 (i - 1) = Some (AValue s' ch' g' cci) /\ has_cccd ch' = true.
Proof.
  induction cs as [|ch t IH]; intros g cci0 i s' ch' cci H; cbn [chars_attribute_at] in *; [discriminate|].
  destruct (i <? char_nattrs ch) eqn:E.
  - apply N.ltb_lt in E. destruct (char_cccd_index _ _ _ _ _ _ _ _ H) as (-> & Hc & -> & -> & ->).
    split; [lia|]. exists g. replace (2 - 1 <? char_nattrs ch) with true by (symmetry; apply N.ltb_lt; lia).
    split; [reflexivity|exact Hc].
  - apply N.ltb_ge in E. apply IH in H. destruct H as (H1 & g' & H2 & H3). pose proof (char_nattrs_ge2x ch).
    split; [lia|]. exists g'. replace (i - 1 <? char_nattrs ch) with false by (symmetry; apply N.ltb_ge; lia).
    replace (i - 1 - char_nattrs ch) with (i - char_nattrs ch - 1) by lia. auto.
Qed.

Lemma chars_cccd_unique s : forall cs g cci0 i j s1 ch1 s2 ch2 cci,
  chars_attribute_at s cs g cci0 i = Some (ACccd s1 ch1 cci) ->
  chars_attribute_at s cs g cci0 j = Some (ACccd s2 ch2 cci) -> i = j.
Proof.
  induction cs as [|ch t IH]; intros g cci0 i j s1 ch1 s2 ch2 cci H1 H2; cbn [chars_attribute_at] in *; [discriminate|].
  destruct (i <? char_nattrs ch) eqn:Ei, (j <? char_nattrs ch) eqn:Ej.
  - apply char_cccd_index in H1, H2. destruct H1 as (-> & _), H2 as (-> & _). reflexivity.
  - apply char_cccd_index in H1. destruct H1 as (_ & Hc & -> & _). apply chars_attribute_cccd in H2.
    unfold char_nccc, b2n in H2. rewrite Hc in H2. lia.
  - apply char_cccd_index in H2. destruct H2 as (_ & Hc & -> & _). apply chars_attribute_cccd in H1.
    unfold char_nccc, b2n in H1. rewrite Hc in H1. lia.
  - apply N.ltb_ge in Ei, Ej. pose proof (IH _ _ _ _ _ _ _ _ _ H1 H2). lia.
Qed.

Lemma svc_attr_cccd_is_chars s g cci0 i s' ch' cci :
  svc_attribute_at s g cci0 i = Some (ACccd s' ch' cci) ->
  svc_nsattrs s <= i /\ chars_attribute_at s (s_chars s) g cci0 (i - svc_nsattrs s) = Some (ACccd s' ch' cci).
Proof.
  unfold svc_attribute_at. destruct (i <? svc_nsattrs s) eqn:E.
  - destruct (i =? 0); [discriminate|]. destruct (nth_error _ _); discriminate.
  - apply N.ltb_ge in E. auto.
Qed.

Lemma svcs_cccd_unique : forall ss g cci0 i j s1 ch1 s2 ch2 cci,
  svcs_attribute_at ss g cci0 i = Some (ACccd s1 ch1 cci) ->
  svcs_attribute_at ss g cci0 j = Some (ACccd s2 ch2 cci) -> i = j.
Proof.
  induction ss as [|s t IH]; intros g cci0 i j s1 ch1 s2 ch2 cci H1 H2; cbn [svcs_attribute_at] in *; [discriminate|].
  destruct (i <? svc_nattrs s) eqn:Ei, (j <? svc_nattrs s) eqn:Ej.
  - apply svc_attr_cccd_is_chars in H1, H2. destruct H1 as (A1 & H1), H2 as (A2 & H2).
    pose proof (chars_cccd_unique _ _ _ _ _ _ _ _ _ _ _ H1 H2). lia.
  - apply svc_attr_cccd_is_chars in H1. destruct H1 as (_ & H1). apply chars_attribute_cccd in H1.
    apply svcs_attribute_cccd in H2. unfold svc_nccc in H2. lia.
  - apply svc_attr_cccd_is_chars in H2. destruct H2 as (_ & H2). apply chars_attribute_cccd in H2.
    apply svcs_attribute_cccd in H1. unfold svc_nccc in H1. lia.
  - apply N.ltb_ge in Ei, Ej. pose proof (IH _ _ _ _ _ _ _ _ _ H1 H2). lia.
Qed.

(* exactly one attribute index carries the CCCD number cci *)
Theorem cccd_index_unique c i j s1 ch1 s2 ch2 cci :
  attribute_at c i = Some (ACccd s1 ch1 cci) -> attribute_at c j = Some (ACccd s2 ch2 cci) -> i = j.
Proof. unfold attribute_at. apply svcs_cccd_unique. Qed.

Lemma svcs_cccd_prev : forall ss g cci0 i s' ch' cci,
  svcs_attribute_at ss g cci0 i = Some (ACccd s' ch' cci) ->
  1 <= i /\ exists g', svcs_attribute_at ss g cci0 (i - 1) = Some (AValue s' ch' g' cci) /\ has_cccd ch' = true.
Proof.
  induction ss as [|s t IH]; intros g cci0 i s' ch' cci H; cbn [svcs_attribute_at] in *; [discriminate|].
  destruct (i <? svc_nattrs s) eqn:Ei.
  - apply N.ltb_lt in Ei. apply svc_attr_cccd_is_chars in H. destruct H as (A & H).
    apply chars_cccd_prev in H. destruct H as (B & g' & H & Hc). split; [lia|]. exists g'.
    replace (i - 1 <? svc_nattrs s) with true by (symmetry; apply N.ltb_lt; lia).
    unfold svc_attribute_at. replace (i - 1 <? svc_nsattrs s) with false by (symmetry; apply N.ltb_ge; lia).
    replace (i - 1 - svc_nsattrs s) with (i - svc_nsattrs s - 1) by lia. auto.
  - apply N.ltb_ge in Ei. apply IH in H. destruct H as (B & g' & H & Hc). split; [lia|]. exists g'.
    assert (1 <= svc_nattrs s) by (unfold svc_nattrs, svc_nsattrs; lia).
    replace (i - 1 <? svc_nattrs s) with false by (symmetry; apply N.ltb_ge; lia).
    replace (i - 1 - svc_nattrs s) with (i - svc_nattrs s - 1) by lia. auto.
Qed.

(* the CCCD attribute stands right behind the value attribute of its characteristic *)
Theorem cccd_follows_value c i s ch cci :
  attribute_at c i = Some (ACccd s ch cci) ->
  1 <= i /\ exists g, attribute_at c (i - 1) = Some (AValue s ch g cci) /\ has_cccd ch = true.
Proof. unfold attribute_at. apply svcs_cccd_prev. Qed.

(* ------------------------------------------------------------------ forward: the value attribute of a characteristic with CCCD is followed by the CCCD *)
Lemma char_value_next s ch g cci0 i s' ch' g' cci :
  char_attribute_at s ch g cci0 i = Some (AValue s' ch' g' cci) -> has_cccd ch' = true ->
  i = 1 /\ 3 <= char_nattrs ch /\ char_attribute_at s ch g cci0 2 = Some (ACccd s' ch' cci).
Proof.
  unfold char_attribute_at, char_attrs, char_tail_attrs. intros H Hc.
  destruct (N.to_nat i) as [|[|k]] eqn:E; cbn [nth_error] in H; try discriminate.
  - inversion H; subst. rewrite Hc. split; [lia|]. split; [unfold char_nattrs, char_nccc, b2n; rewrite Hc; lia|]. reflexivity.
  - exfalso. apply nth_error_In in H. apply in_app_or in H. destruct H as [H|H].
    + destruct (has_cccd ch); [destruct H as [H|[]]; discriminate|destruct H].
    + apply in_app_or in H. destruct H as [H|H].
      * destruct (c_name ch); [destruct H as [H|[]]; discriminate|destruct H].
      * apply in_map_iff in H. destruct H as (d & H & _). discriminate.
Qed.

Lemma chars_value_next s : forall cs g cci0 i s' ch' g' cci,
  chars_attribute_at s cs g cci0 i = Some (AValue s' ch' g' cci) -> has_cccd ch' = true ->
  chars_attribute_at s cs g cci0 (i + 1) = Some (ACccd s' ch' cci).
Proof.
  induction cs as [|ch t IH]; intros g cci0 i s' ch' g' cci H Hc; cbn [chars_attribute_at] in *; [discriminate|].
  destruct (i <? char_nattrs ch) eqn:E.
  - destruct (char_value_next _ _ _ _ _ _ _ _ _ H Hc) as (-> & L3 & H2).
    replace (1 + 1 <? char_nattrs ch) with true by (symmetry; apply N.ltb_lt; lia). exact H2.
  - apply N.ltb_ge in E. replace (i + 1 <? char_nattrs ch) with false by (symmetry; apply N.ltb_ge; lia).
    replace (i + 1 - char_nattrs ch) with (i - char_nattrs ch + 1) by lia. eapply IH; eauto.
Qed.

Lemma svcs_value_next : forall ss g cci0 i s' ch' g' cci,
  svcs_attribute_at ss g cci0 i = Some (AValue s' ch' g' cci) -> has_cccd ch' = true ->
  svcs_attribute_at ss g cci0 (i + 1) = Some (ACccd s' ch' cci).
Proof.
  induction ss as [|s t IH]; intros g cci0 i s' ch' g' cci H Hc; cbn [svcs_attribute_at] in *; [discriminate|].
  destruct (i <? svc_nattrs s) eqn:E.
  - apply N.ltb_lt in E. unfold svc_attribute_at in H. destruct (i <? svc_nsattrs s) eqn:E2.
    + destruct (i =? 0); [discriminate|]. destruct (nth_error _ _); discriminate.
    + apply N.ltb_ge in E2. pose proof (chars_value_next _ _ _ _ _ _ _ _ _ H Hc) as Nx.
      assert (Bd : i - svc_nsattrs s + 1 < sumN char_nattrs (s_chars s)).
      { clear -Nx. revert Nx. generalize (i - svc_nsattrs s + 1) as j. generalize g, cci0.
        induction (s_chars s) as [|ch t' IH']; intros g0 c0 j Nx; cbn [chars_attribute_at sumN] in *; [discriminate|].
        destruct (j <? char_nattrs ch) eqn:Ej; [apply N.ltb_lt in Ej; lia|]. apply N.ltb_ge in Ej. apply IH' in Nx. lia. }
      replace (i + 1 <? svc_nattrs s) with true by (symmetry; apply N.ltb_lt; unfold svc_nattrs; lia).
      unfold svc_attribute_at. replace (i + 1 <? svc_nsattrs s) with false by (symmetry; apply N.ltb_ge; lia).
      replace (i + 1 - svc_nsattrs s) with (i - svc_nsattrs s + 1) by lia. exact Nx.
  - apply N.ltb_ge in E. replace (i + 1 <? svc_nattrs s) with false by (symmetry; apply N.ltb_ge; lia).
    replace (i + 1 - svc_nattrs s) with (i - svc_nattrs s + 1) by lia. eapply IH; eauto.
Qed.

Theorem value_followed_by_cccd c i s ch g cci :
  attribute_at c i = Some (AValue s ch g cci) -> has_cccd ch = true -> attribute_at c (i + 1) = Some (ACccd s ch cci).
Proof. unfold attribute_at. apply svcs_value_next. Qed.
