(* The attribute a notification reads (AttDbModel.v: all_infos = characteristics_with_attribute_indizes of
   find_notification_data_in_list): if EVERY service has at least one characteristic, first_attribute_index + 1
   of every characteristic of the sorted list is the index of its own value attribute, and its declaration
   order number among the characteristics with CCCD (ci_pos) is the ClientCharacteristicIndex of that attribute.
   (A service without characteristics breaks this: C10_right_characteristic_refuted.) *)
From Coq Require Import Lia ZifyBool Permutation.
From BT Require Import Base.ListX AttDb.AttDbModel AttDb.AttDbNotifProofs.
Local Open Scope N_scope.

(* the same traversal as chars_infos / svcs_infos, carrying the CCCD number like attribute_at does *)
Fixpoint chars_icci (c : cfg) (s : service_decl) (cs : list char_decl) (gci : nat) (offset lastend cci : N) : list (cinfo * N) :=
  match cs with
  | [] => []
  | ch :: t =>
      let first := lastend + offset in
      (mkCI s ch gci first (characteristic_priority c s ch) 0, cci)
      :: chars_icci c s t (S gci) 0 (first + char_nattrs ch) (cci + char_nccc ch)
  end.

Fixpoint svcs_icci (c : cfg) (ss : list service_decl) (gci : nat) (lastend cci : N) : list (cinfo * N) :=
  match ss with
  | [] => []
  | s :: t =>
      let l := chars_icci c s (s_chars s) gci (svc_nsattrs s) lastend cci in
      l ++ svcs_icci c t (gci + length (s_chars s))%nat (infos_end (map fst l) lastend) (cci + svc_nccc s)
  end.

Lemma chars_icci_fst c s : forall cs gci off le cci, map fst (chars_icci c s cs gci off le cci) = chars_infos c s cs gci off le.
Proof. induction cs as [|ch t IH]; intros; cbn [chars_icci chars_infos map fst]; auto. rewrite IH. reflexivity. Qed.

Lemma svcs_icci_fst c : forall ss gci le cci, map fst (svcs_icci c ss gci le cci) = svcs_infos c ss gci le.
Proof.
  induction ss as [|s t IH]; intros; cbn [svcs_icci svcs_infos map]; auto.
  rewrite map_app, chars_icci_fst, IH. reflexivity.
Qed.

(* ------------------------------------------------------------------ infos_end of a service with characteristics *)
Lemma infos_end_cons x l le : l <> [] -> infos_end (x :: l) le = infos_end l le.
Proof.
  intros N. unfold infos_end. cbn [rev]. destruct (rev l) as [|y r] eqn:E.
  - exfalso. apply N. apply (f_equal (@rev _)) in E. rewrite rev_involutive in E. exact E.
  - reflexivity.
Qed.

Lemma chars_infos_end c s : forall cs gci off le le',
  cs <> [] -> infos_end (chars_infos c s cs gci off le) le' = le + off + sumN char_nattrs cs.
Proof.
  induction cs as [|ch t IH]; intros gci off le le' N; [contradiction|].
  destruct t as [|ch2 t'].
  - cbn [chars_infos sumN]. unfold infos_end. cbn [rev app ci_first ci_char]. lia.
  - change (chars_infos c s (ch :: ch2 :: t') gci off le)
      with (mkCI s ch gci (le + off) (characteristic_priority c s ch) 0 :: chars_infos c s (ch2 :: t') (S gci) 0 (le + off + char_nattrs ch)).
    rewrite infos_end_cons by (cbn [chars_infos]; discriminate).
    rewrite IH by discriminate. cbn [sumN]. lia.
Qed.

(* ------------------------------------------------------------------ the value attribute *)
Lemma char_nattrs_ge2 ch : 2 <= char_nattrs ch.
Proof. unfold char_nattrs. lia. Qed.

Lemma chars_icci_attr c s : forall cs gci off le cci0 x cci,
  In (x, cci) (chars_icci c s cs gci off le cci0) ->
  le + off <= ci_first x /\ ci_first x + 2 <= le + off + sumN char_nattrs cs
  /\ chars_attribute_at s cs gci cci0 (ci_first x + 1 - (le + off)) = Some (AValue (ci_svc x) (ci_char x) (ci_gci x) cci).
Proof.
  induction cs as [|ch t IH]; intros gci off le cci0 x cci H; cbn [chars_icci] in H; [destruct H|].
  pose proof (char_nattrs_ge2 ch) as G2. cbn [sumN chars_attribute_at].
  destruct H as [H|H].
  - inversion H; subst; clear H. cbn [ci_first ci_svc ci_char ci_gci].
    split; [lia|]. split; [lia|].
    replace (le + off + 1 - (le + off)) with 1 by lia.
    replace (1 <? char_nattrs ch) with true by (symmetry; apply N.ltb_lt; lia).
    reflexivity.
  - apply IH in H. destruct H as (A & B & C).
    split; [lia|]. split; [lia|].
    replace (ci_first x + 1 - (le + off) <? char_nattrs ch) with false by (symmetry; apply N.ltb_ge; lia).
    replace (ci_first x + 1 - (le + off) - char_nattrs ch) with (ci_first x + 1 - (le + off + char_nattrs ch + 0)) by lia.
    exact C.
Qed.

Definition all_nonempty (ss : list service_decl) : bool := forallb (fun s => negb (Nat.eqb (length (s_chars s)) 0)) ss.

Lemma svcs_icci_attr c : forall ss gci base cci0 x cci,
  all_nonempty ss = true ->
  In (x, cci) (svcs_icci c ss gci base cci0) ->
  base <= ci_first x /\ ci_first x + 2 <= base + sumN svc_nattrs ss
  /\ svcs_attribute_at ss gci cci0 (ci_first x + 1 - base) = Some (AValue (ci_svc x) (ci_char x) (ci_gci x) cci).
Proof.
  induction ss as [|s t IH]; intros gci base cci0 x cci NE H; cbn [svcs_icci] in H; [destruct H|].
  cbn [all_nonempty forallb] in NE. apply andb_true_iff in NE. destruct NE as [NE1 NE2].
  assert (Hne : s_chars s <> []).
  { destruct (s_chars s); [cbn in NE1; discriminate|discriminate]. }
  cbn [sumN svcs_attribute_at]. set (T := sumN svc_nattrs t) in *. unfold svc_nattrs.
  apply in_app_or in H. destruct H as [H|H].
  - apply chars_icci_attr in H. destruct H as (A & B & C).
    split; [unfold svc_nsattrs in *; lia|]. split; [lia|].
    replace (ci_first x + 1 - base <? svc_nsattrs s + sumN char_nattrs (s_chars s)) with true by (symmetry; apply N.ltb_lt; lia).
    unfold svc_attribute_at.
    replace (ci_first x + 1 - base <? svc_nsattrs s) with false by (symmetry; apply N.ltb_ge; lia).
    replace (ci_first x + 1 - base - svc_nsattrs s) with (ci_first x + 1 - (base + svc_nsattrs s)) by lia.
    exact C.
  - rewrite chars_icci_fst, chars_infos_end in H by exact Hne.
    apply IH in H; [|exact NE2]. fold T in H. destruct H as (A & B & C).
    split; [lia|]. split; [lia|].
    replace (ci_first x + 1 - base <? svc_nsattrs s + sumN char_nattrs (s_chars s)) with false by (symmetry; apply N.ltb_ge; lia).
    replace (ci_first x + 1 - base - (svc_nsattrs s + sumN char_nattrs (s_chars s)))
      with (ci_first x + 1 - (base + svc_nsattrs s + sumN char_nattrs (s_chars s))) by lia.
    exact C.
Qed.

(* ------------------------------------------------------------------ CCCD numbers of the characteristics with CCCD *)
Definition with_cccd (e : cinfo * N) : bool := has_cccd (ci_char (fst e)).

Lemma chars_icci_cccd c s : forall cs gci off le cci0,
  map snd (filter with_cccd (chars_icci c s cs gci off le cci0))
  = map (fun i => cci0 + N.of_nat i) (seq 0 (length (filter with_cccd (chars_icci c s cs gci off le cci0))))
  /\ N.of_nat (length (filter with_cccd (chars_icci c s cs gci off le cci0))) = sumN char_nccc cs.
Proof.
  induction cs as [|ch t IH]; intros gci off le cci0; cbn [chars_icci filter sumN]; [split; reflexivity|].
  change (with_cccd (mkCI s ch gci (le + off) (characteristic_priority c s ch) 0, cci0)) with (has_cccd ch).
  destruct (IH (S gci) 0 (le + off + char_nattrs ch) (cci0 + char_nccc ch)) as (A & B).
  assert (Ec : char_nccc ch = b2n (has_cccd ch)) by reflexivity.
  destruct (has_cccd ch) eqn:Hc; unfold b2n in Ec.
  - cbn [map snd length seq]. split.
    + f_equal; [lia|]. rewrite A. rewrite <- seq_shift, map_map. apply map_ext. intros i. lia.
    + lia.
  - split.
    + rewrite A. apply map_ext. intros i. lia.
    + lia.
Qed.

Lemma map_seq_from (f : nat -> N) m : forall a, map f (seq a m) = map (fun i => f (a + i)%nat) (seq 0 m).
Proof.
  induction m as [|m IH]; intros a; cbn [seq map]; auto. f_equal; [f_equal; lia|].
  rewrite IH. rewrite <- (seq_shift m 0), map_map. apply map_ext. intros i. f_equal. lia.
Qed.

Lemma svcs_icci_cccd c : forall ss gci le cci0,
  map snd (filter with_cccd (svcs_icci c ss gci le cci0))
  = map (fun i => cci0 + N.of_nat i) (seq 0 (length (filter with_cccd (svcs_icci c ss gci le cci0)))).
Proof.
  induction ss as [|s t IH]; intros gci le cci0; cbn [svcs_icci filter]; [reflexivity|].
  rewrite filter_app, map_app, app_length.
  destruct (chars_icci_cccd c s (s_chars s) gci (svc_nsattrs s) le cci0) as (A & B).
  rewrite A, IH. rewrite seq_app, map_app. f_equal.
  rewrite (map_seq_from (fun i => cci0 + N.of_nat i)). apply map_ext. intros i. unfold svc_nccc in *. lia.
Qed.

(* ------------------------------------------------------------------ glue *)
Lemma filter_map_fst (l : list (cinfo * N)) :
  filter (fun x => has_cccd (ci_char x)) (map fst l) = map fst (filter with_cccd l).
Proof.
  induction l as [|e t IH]; cbn [map filter]; auto. unfold with_cccd at 1.
  destruct (has_cccd (ci_char (fst e))); cbn [map]; rewrite IH; reflexivity.
Qed.

Lemma number_from_nth (F : list (cinfo * N)) : forall n x,
  In x (number_from set_pos (map fst F) n) ->
  exists j e, nth_error F j = Some e /\ x = set_pos (fst e) (n + N.of_nat j).
Proof.
  induction F as [|e t IH]; intros n x H; cbn [map number_from] in H; [destruct H|].
  destruct H as [H|H].
  - exists O, e. split; [reflexivity|]. rewrite <- H. f_equal. lia.
  - destruct (IH _ _ H) as (j & e' & N & E). exists (S j), e'. split; [exact N|]. rewrite E. f_equal. lia.
Qed.

Theorem value_attribute_of_sorted c x :
  all_nonempty (services c) = true -> In x (sorted_infos c) ->
  attribute_at c (ci_first x + 1) = Some (AValue (ci_svc x) (ci_char x) (ci_gci x) (ci_pos x)).
Proof.
  intros NE H. apply (Permutation_in _ (sorted_infos_perm c)) in H.
  unfold cccd_infos in H. change (fun (x : cinfo) (n : N) => _) with set_pos in H.
  set (L := svcs_icci c (services c) O 0 0).
  assert (EL : all_infos c = map fst L) by (unfold L, all_infos; rewrite svcs_icci_fst; reflexivity).
  rewrite EL, filter_map_fst in H.
  destruct (number_from_nth _ _ _ H) as (j & e & Nj & Ex).
  assert (Se : snd e = N.of_nat j).
  { pose proof (svcs_icci_cccd c (services c) O 0 0) as S. fold L in S.
    assert (Hj : (j < length (filter with_cccd L))%nat) by (apply nth_error_Some; congruence).
    apply (f_equal (fun l => nth_error l j)) in S. rewrite nth_error_map, Nj in S. cbn [option_map] in S.
    rewrite nth_error_map in S. rewrite (nth_error_nth' _ O) in S by (rewrite seq_length; exact Hj).
    rewrite seq_nth in S by exact Hj. cbn [option_map] in S. inversion S. lia. }
  assert (Ie : In (fst e, snd e) L).
  { apply nth_error_In in Nj. apply filter_In in Nj. destruct Nj as [Nj _]. destruct e. exact Nj. }
  destruct (svcs_icci_attr c (services c) O 0 0 (fst e) (snd e) NE Ie) as (_ & _ & A).
  subst x. cbn [set_pos ci_first ci_svc ci_char ci_gci ci_pos].
  unfold attribute_at. rewrite N.sub_0_r in A. rewrite A, Se. reflexivity.
Qed.
