(* find_notification_data_in_list (AttDbModel.v: cccd_infos, stable_sort, sorted_infos, cccd_indices,
   cccd_position, find_notification_data_by_index): for EVERY configuration and priority declaration

     - the priority sort is a permutation of the characteristics with a CCCD,
     - their declaration order numbers (ci_pos = ClientCharacteristicIndex) are 0 .. k-1, k =
       number_of_client_configs,
     - so the position [cccd_position c cci] that the CCCD attribute number cci uses in the per
       connection store is < k, is a bijection, and is exactly the index under which
       find_notification_data_by_index returns that characteristic.
   Used by C09 and C10. *)
From Coq Require Import Lia ZifyBool Permutation.
From BT Require Import Base.ListX AttDb.AttDbModel.
Local Open Scope N_scope.

(* ------------------------------------------------------------------ index_ofN *)
Lemma len_cons (A : Type) (a : A) t : len (a :: t) = 1 + len t.
Proof. unfold len. cbn [length]. lia. Qed.

Lemma index_ofN_in x l : In x l -> index_ofN x l < len l /\ nth_error l (N.to_nat (index_ofN x l)) = Some x.
Proof.
  induction l as [|a t IH]; cbn [index_ofN In]; [tauto|]. intros H. rewrite len_cons.
  destruct (x =? a) eqn:E.
  - apply N.eqb_eq in E. subst. split; [lia|reflexivity].
  - destruct H as [H|H]; [subst; rewrite N.eqb_refl in E; discriminate|].
    destruct (IH H) as (A & B). split; [lia|].
    replace (N.to_nat (1 + index_ofN x t)) with (S (N.to_nat (index_ofN x t))) by lia. exact B.
Qed.

Lemma index_ofN_nth l : NoDup l -> forall i x, nth_error l i = Some x -> index_ofN x l = N.of_nat i.
Proof.
  induction 1 as [|a t Na ND IH]; intros [|i] x H; cbn [index_ofN nth_error] in *; try discriminate.
  - inversion H; subst. rewrite N.eqb_refl. reflexivity.
  - destruct (x =? a) eqn:E.
    + apply N.eqb_eq in E. subst. exfalso. apply Na. eapply nth_error_In; eauto.
    + rewrite (IH _ _ H). lia.
Qed.

(* ------------------------------------------------------------------ the sort is a permutation *)
Lemma stable_insert_perm x l : Permutation (stable_insert x l) (x :: l).
Proof.
  induction l as [|f t IH]; simpl; auto.
  destruct (ci_prio f <? ci_prio x); auto.
  eapply perm_trans; [apply perm_skip; exact IH|]. apply perm_swap.
Qed.

Lemma stable_sort_perm l : Permutation (stable_sort l) l.
Proof.
  induction l as [|x t IH]; simpl; auto.
  eapply perm_trans; [apply stable_insert_perm|]. apply perm_skip. exact IH.
Qed.

Lemma sorted_infos_perm c : Permutation (sorted_infos c) (cccd_infos c).
Proof. apply stable_sort_perm. Qed.

(* ------------------------------------------------------------------ declaration order numbers *)
Definition set_pos (x : cinfo) (n : N) : cinfo := mkCI (ci_svc x) (ci_char x) (ci_gci x) (ci_first x) (ci_prio x) n.

Lemma number_from_pos l : forall n, map ci_pos (number_from set_pos l n) = map (fun i => n + N.of_nat i) (seq 0 (length l)).
Proof.
  induction l as [|x t IH]; intros n; simpl; auto. f_equal; [lia|].
  rewrite IH. rewrite <- seq_shift, map_map. apply map_ext. intros i. lia.
Qed.

Lemma number_from_length (A : Type) (f : A -> N -> A) l : forall n, length (number_from f l n) = length l.
Proof. induction l; intros; simpl; auto. Qed.

Definition n_cccd (c : cfg) : nat := length (filter (fun x => has_cccd (ci_char x)) (all_infos c)).

Lemma cccd_infos_pos c : map ci_pos (cccd_infos c) = map N.of_nat (seq 0 (n_cccd c)).
Proof.
  unfold cccd_infos. change (fun (x : cinfo) (n : N) => _) with set_pos.
  rewrite number_from_pos. apply map_ext. intros; lia.
Qed.

Lemma cccd_infos_length c : length (cccd_infos c) = n_cccd c.
Proof. unfold cccd_infos. apply number_from_length. Qed.

Lemma cccd_indices_perm c : Permutation (cccd_indices c) (map N.of_nat (seq 0 (n_cccd c))).
Proof.
  unfold cccd_indices. rewrite <- cccd_infos_pos. apply Permutation_map. apply sorted_infos_perm.
Qed.

Lemma seqN_in k x : In x (map N.of_nat (seq 0 k)) <-> x < N.of_nat k.
Proof.
  rewrite in_map_iff. split.
  - intros (i & <- & H). apply in_seq in H. lia.
  - intros H. exists (N.to_nat x). split; [lia|]. apply in_seq. lia.
Qed.

Lemma seqN_nodup k : NoDup (map N.of_nat (seq 0 k)).
Proof.
  apply FinFun.Injective_map_NoDup; [|apply seq_NoDup]. intros a b H. lia.
Qed.

Lemma cccd_indices_nodup c : NoDup (cccd_indices c).
Proof. eapply Permutation_NoDup; [apply Permutation_sym, cccd_indices_perm|apply seqN_nodup]. Qed.

Lemma cccd_indices_length c : length (cccd_indices c) = n_cccd c.
Proof. rewrite (Permutation_length (cccd_indices_perm c)), map_length, seq_length. reflexivity. Qed.

Lemma cccd_indices_in c x : In x (cccd_indices c) <-> x < N.of_nat (n_cccd c).
Proof.
  rewrite <- seqN_in. split; apply Permutation_in; [|apply Permutation_sym]; apply cccd_indices_perm.
Qed.

(* ------------------------------------------------------------------ cccd_position *)
(* the CCCD attribute number cci (declaration order) uses position p = cccd_position c cci of the per
   connection store: p < k, and the p-th characteristic of the SORTED list (the one
   find_notification_data_by_index( p ) returns) is the characteristic number cci *)
Theorem cccd_position_sorted c cci :
  cci < N.of_nat (n_cccd c) ->
  cccd_position c cci < N.of_nat (n_cccd c)
  /\ exists x, nth_error (sorted_infos c) (N.to_nat (cccd_position c cci)) = Some x /\ ci_pos x = cci.
Proof.
  intros H. unfold cccd_position.
  assert (L : len (cccd_indices c) = N.of_nat (n_cccd c)) by (unfold len; rewrite cccd_indices_length; reflexivity).
  replace (len (cccd_indices c) =? 0) with false by (symmetry; apply N.eqb_neq; lia).
  destruct (index_ofN_in cci (cccd_indices c)) as (A & B); [apply cccd_indices_in; exact H|].
  split; [lia|].
  unfold cccd_indices in B. rewrite nth_error_map in B.
  destruct (nth_error (sorted_infos c) _) as [x|]; [|discriminate]. exists x. split; auto.
  inversion B. reflexivity.
Qed.

(* conversely: the characteristic at position p of the sorted list has its CCCD at position p *)
Theorem sorted_cccd_position c p x :
  nth_error (sorted_infos c) p = Some x -> cccd_position c (ci_pos x) = N.of_nat p /\ ci_pos x < N.of_nat (n_cccd c).
Proof.
  intros H.
  assert (I : nth_error (cccd_indices c) p = Some (ci_pos x)) by (unfold cccd_indices; rewrite nth_error_map, H; reflexivity).
  assert (In (ci_pos x) (cccd_indices c)) by (eapply nth_error_In; eauto).
  split; [|apply cccd_indices_in; auto].
  unfold cccd_position.
  assert (len (cccd_indices c) <> 0).
  { unfold len. destruct (cccd_indices c); [destruct p; discriminate|simpl; lia]. }
  replace (len (cccd_indices c) =? 0) with false by (symmetry; apply N.eqb_neq; auto).
  apply index_ofN_nth; auto. apply cccd_indices_nodup.
Qed.

(* cccd_position is injective on the CCCD numbers *)
Corollary cccd_position_inj c a b :
  a < N.of_nat (n_cccd c) -> b < N.of_nat (n_cccd c) -> cccd_position c a = cccd_position c b -> a = b.
Proof.
  intros Ha Hb E.
  destruct (cccd_position_sorted c a Ha) as (_ & x & Hx & Px).
  destruct (cccd_position_sorted c b Hb) as (_ & y & Hy & Py).
  rewrite E in Hx. rewrite Hx in Hy. inversion Hy. subst. reflexivity.
Qed.

Lemma sorted_infos_length c : length (sorted_infos c) = n_cccd c.
Proof. rewrite (Permutation_length (sorted_infos_perm c)). apply cccd_infos_length. Qed.

Lemma find_notification_data_by_index_snd c i : snd (find_notification_data_by_index c i) = i.
Proof. unfold find_notification_data_by_index. destruct (nth_error _ _); reflexivity. Qed.

(* ------------------------------------------------------------------ k = number_of_client_configs *)
Lemma chars_infos_chars c s : forall cs gci off le, map ci_char (chars_infos c s cs gci off le) = cs.
Proof. induction cs as [|ch t IH]; intros; simpl; auto. rewrite IH. reflexivity. Qed.

Lemma svcs_infos_chars c : forall ss gci le, map ci_char (svcs_infos c ss gci le) = flat_map s_chars ss.
Proof.
  induction ss as [|s t IH]; intros; simpl; auto. rewrite map_app, chars_infos_chars, IH. reflexivity.
Qed.

Lemma filter_map_length (A B : Type) (f : A -> B) (p : B -> bool) l :
  length (filter (fun x => p (f x)) l) = length (filter p (map f l)).
Proof. induction l as [|x t IH]; simpl; auto. destruct (p (f x)); simpl; rewrite IH; reflexivity. Qed.

Lemma count_cccd_chars cs : N.of_nat (length (filter has_cccd cs)) = sumN char_nccc cs.
Proof.
  induction cs as [|ch t IH]; cbn [filter length sumN]; auto. unfold char_nccc at 1, b2n.
  destruct (has_cccd ch); cbn [length]; lia.
Qed.

Lemma count_cccd_svcs ss : N.of_nat (length (filter has_cccd (flat_map s_chars ss))) = sumN svc_nccc ss.
Proof.
  induction ss as [|s t IH]; cbn [flat_map filter length sumN]; auto. rewrite filter_app, app_length, Nat2N.inj_add, IH.
  unfold svc_nccc at 1. rewrite count_cccd_chars. reflexivity.
Qed.

Theorem n_cccd_is_number_of_client_configs c : N.of_nat (n_cccd c) = number_of_client_configs c.
Proof.
  unfold n_cccd, number_of_client_configs, all_infos.
  rewrite (filter_map_length _ _ ci_char has_cccd), svcs_infos_chars. apply count_cccd_svcs.
Qed.

(* ------------------------------------------------------------------ the CCCD numbers of the attributes *)
Lemma char_attribute_cccd s ch gci cci0 index s' ch' cci :
  char_attribute_at s ch gci cci0 index = Some (ACccd s' ch' cci) -> has_cccd ch = true /\ cci = cci0 /\ ch' = ch /\ s' = s.
Proof.
  unfold char_attribute_at, char_attrs, char_tail_attrs. intros H. apply nth_error_In in H.
  destruct H as [H|[H|H]]; try discriminate.
  apply in_app_or in H. destruct H as [H|H].
  - destruct (has_cccd ch); [|destruct H]. destruct H as [H|[]]. inversion H. auto.
  - apply in_app_or in H. destruct H as [H|H].
    + destruct (c_name ch); [destruct H as [H|[]]; discriminate|destruct H].
    + apply in_map_iff in H. destruct H as (d & H & _). discriminate.
Qed.

Lemma chars_attribute_cccd s : forall cs gci cci0 index s' ch' cci,
  chars_attribute_at s cs gci cci0 index = Some (ACccd s' ch' cci) -> cci0 <= cci /\ cci < cci0 + sumN char_nccc cs.
Proof.
  induction cs as [|ch t IH]; intros gci cci0 index s' ch' cci H; simpl in H; [discriminate|].
  destruct (index <? char_nattrs ch).
  - apply char_attribute_cccd in H. destruct H as (Hc & -> & _). simpl. unfold char_nccc at 1. rewrite Hc. unfold b2n. lia.
  - apply IH in H. simpl. lia.
Qed.

Lemma svcs_attribute_cccd : forall ss gci cci0 index s' ch' cci,
  svcs_attribute_at ss gci cci0 index = Some (ACccd s' ch' cci) -> cci0 <= cci /\ cci < cci0 + sumN svc_nccc ss.
Proof.
  induction ss as [|s t IH]; intros gci cci0 index s' ch' cci H; simpl in H; [discriminate|].
  destruct (index <? svc_nattrs s).
  - unfold svc_attribute_at in H. destruct (index <? svc_nsattrs s).
    + destruct (index =? 0); [discriminate|]. destruct (nth_error _ _); discriminate.
    + apply chars_attribute_cccd in H. simpl. unfold svc_nccc at 1. lia.
  - apply IH in H. simpl. lia.
Qed.

Theorem attribute_cccd_number c index s ch cci :
  attribute_at c index = Some (ACccd s ch cci) -> cci < number_of_client_configs c.
Proof. unfold attribute_at, number_of_client_configs. intros H. apply svcs_attribute_cccd in H. lia. Qed.

(* the CCCD attribute of every characteristic uses a position inside the store, and the characteristic
   find_notification_data_by_index returns for that position is the one with that CCCD number *)
Theorem cccd_attribute_position c index s ch cci :
  attribute_at c index = Some (ACccd s ch cci) ->
  cccd_position c cci < number_of_client_configs c
  /\ exists x, nth_error (sorted_infos c) (N.to_nat (cccd_position c cci)) = Some x /\ ci_pos x = cci
               /\ find_notification_data_by_index c (cccd_position c cci) = (ci_first x + 1, cccd_position c cci).
Proof.
  intros H. apply attribute_cccd_number in H. rewrite <- n_cccd_is_number_of_client_configs in *.
  destruct (cccd_position_sorted c cci H) as (A & x & B & C). split; auto. exists x. repeat split; auto.
  unfold find_notification_data_by_index. rewrite B. reflexivity.
Qed.
