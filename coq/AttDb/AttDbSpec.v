(* Specification of the attribute data base (property C04) and its executable monitor.

   The abstract object is the DECLARATION: the attributes in declaration order, each with the handle
   it asks for (0 = none). [assign] walks that list: next handle = max( previous + 1, requested ).
   Everything else is stated against it:
     (a) handle_by_index i            = i-th assigned handle (non-zero, strictly increasing)
     (b) first_index_by_handle h      = least index whose handle is >= h (invalid if there is none)
         index_by_handle h            = the index carrying exactly h (invalid if there is none)
     (c) a characteristic declaration = properties, assigned handle of the value attribute, uuid
     (d) an include declaration       = assigned first and last handle of the included service (+ uuid16)
   The monitor judges observed tables (the harness' dump line) and observed Read Responses only. *)
From BT Require Import Base.ListX AttDb.AttDbModel.
Local Open Scope N_scope.

(* ------------------------------------------------------------------ the declaration *)
Definition char_requests (c : char_decl) : list N :=
  let extra := N.to_nat (char_nattrs c - 2) in
  match c_handle c with
  | HNone => 0 :: 0 :: repeat 0 extra
  | HOne h => h :: 0 :: repeat 0 extra
  | HThree d v cc => d :: v :: (match extra with O => [] | S k => cc :: repeat 0 k end)
  end.

Definition svc_requests (s : service_decl) : list N :=
  (match s_handle s with Some h => h | None => 0 end)
  :: repeat 0 (length (s_includes s)) ++ flat_map char_requests (s_chars s).

Definition requests (c : cfg) : list N := flat_map svc_requests (services c).

Fixpoint assign_from (prev : N) (reqs : list N) : list N :=
  match reqs with
  | [] => []
  | r :: t => let h := N.max (prev + 1) r in h :: assign_from h t
  end.

(* the handle of every attribute, in declaration order *)
Definition assign (c : cfg) : list N := assign_from 0 (requests c).

(* ------------------------------------------------------------------ tables derived from a handle list *)
Fixpoint first_ge (l : list N) (h : N) (i : N) : N :=          (* least index with handle >= h *)
  match l with
  | [] => invalid_index
  | x :: t => if h <=? x then i else first_ge t h (i + 1)
  end.

Fixpoint index_eq (l : list N) (h : N) (i : N) : N :=          (* the index with handle = h *)
  match l with
  | [] => invalid_index
  | x :: t => if h =? x then i else index_eq t h (i + 1)
  end.

Fixpoint increasing_from (prev : N) (l : list N) : bool :=
  match l with [] => true | x :: t => (prev <? x) && increasing_from x t end.

Fixpoint seqN (from : N) (n : nat) : list N :=
  match n with O => [] | S k => from :: seqN (from + 1) k end.

Fixpoint listN_eqb (a b : list N) : bool :=
  match a, b with
  | [], [] => true
  | x :: a', y :: b' => (x =? y) && listN_eqb a' b'
  | _, _ => false
  end.

(* ------------------------------------------------------------------ expected declaration values *)
(* attribute kinds in declaration order (what the declaration says, not what attribute_at returns) *)
Definition svc_decl_attrs (s : service_decl) : list attr :=
  AService s :: map AInclude (s_includes s)
  ++ flat_map (fun ch => char_attrs s ch O 0) (s_chars s).
Definition decl_attrs (c : cfg) : list attr := flat_map svc_decl_attrs (services c).

(* first and last assigned handle of every service, in order *)
Fixpoint svc_ranges (ss : list service_decl) (hs : list N) : list (uuid * N * N) :=
  match ss with
  | [] => []
  | s :: t =>
      let n := N.to_nat (svc_nattrs s) in
      (s_uuid s, nth 0 hs 0, nth (n - 1) hs 0) :: svc_ranges t (skipn n hs)
  end.

Fixpoint range_of (l : list (uuid * N * N)) (u : uuid) : option (N * N) :=
  match l with
  | [] => None
  | (x, f, e) :: t => if uuid_eqb x u then Some (f, e) else range_of t u
  end.

Definition lo_hi (x : N) : list N := [x mod 256; (x / 256) mod 256].

(* the value a Read Request has to return for the i-th declared attribute, if C04 says something about it *)
Definition expected_value (c : cfg) (i : nat) : option (list N) :=
  match nth_error (decl_attrs c) i with
  | Some (ACharDecl _ ch) =>
      Some (char_properties ch :: lo_hi (nth (S i) (assign c) 0) ++ uuid_bytes (c_uuid ch))
  | Some (AInclude u) =>
      match range_of (svc_ranges (services c) (assign c)) u with
      | Some (f, e) => Some (lo_hi f ++ lo_hi e ++ (match u with U16 v => lo_hi v | U128 _ => [] end))
      | None => None
      end
  | _ => None
  end.

(* ------------------------------------------------------------------ monitor *)
Inductive verdict := Ok | Bad (tag : nat).
Definition t_handles := 1%nat.        (* (a) handle_by_index differs from the assigned handles *)
Definition t_index_by_handle := 2%nat. (* (b) index_by_handle / first_index_by_handle table *)
Definition t_decl_value := 3%nat.     (* (c) characteristic declaration *)
Definition t_include_value := 4%nat.  (* (d) include declaration *)
Definition t_uuids := 5%nat.          (* attribute_at(i).uuid differs from the declared attribute type *)
Definition t_shape := 6%nat.

(* the dump: handle_by_index for all indices, first_index_by_handle / index_by_handle for handles
   0 .. last + 2, attribute_at( i ).uuid *)
Definition check_dump (c : cfg) (hbi fibh ibh uuids : list N) : verdict :=
  let a := assign c in
  if negb (listN_eqb hbi a && increasing_from 0 hbi) then Bad t_handles
  else if negb (listN_eqb uuids (map attr_uuid (decl_attrs c))) then Bad t_uuids
  else
    let hs := seqN 0 (length fibh) in
    if negb (listN_eqb fibh (map (fun h => first_ge a h 0) hs) && listN_eqb ibh (map (fun h => index_eq a h 0) hs)
             && (N.of_nat (length fibh) =? fold_right N.max 0 a + 3) && (length ibh =? length fibh)%nat)
    then Bad t_index_by_handle
    else Ok.

(* a Read Request for [handle] answered with [resp] (out_size >= 23, so nothing relevant is clipped
   below 22 bytes): declarations must carry the assigned handles *)
Definition check_read (c : cfg) (handle : N) (resp : list N) : verdict :=
  let i := index_eq (assign c) handle 0 in
  if i =? invalid_index then Ok
  else match expected_value c (N.to_nat i) with
       | None => Ok
       | Some v =>
           if listN_eqb resp (11 :: firstn 22 v) then Ok
           else match nth_error (decl_attrs c) (N.to_nat i) with
                | Some (AInclude _) => Bad t_include_value
                | _ => Bad t_decl_value
                end
       end.

(* ------------------------------------------------------------------ handles reported in responses *)
(* C04: every handle that a response reports is the handle under which that attribute is accessed.
   Judged on observed discovery responses (Find Information, Read By Type, Read By Group Type, Find By
   Type Value): every entry must name a handle of [assign cfg] whose declared attribute is the one the
   entry describes (type; declaration value incl. the value handle; group end and service uuid). *)
Definition t_reported_handle := 7%nat.

Fixpoint rh_chunks (fuel : nat) (n : nat) (l : list N) : list (list N) :=
  match fuel, l with
  | O, _ | _, [] => []
  | S f, _ => firstn n l :: rh_chunks f n (skipn n l)
  end.

Definition rh_w16 (l : list N) (i : nat) : N := nth i l 0 + 256 * nth (S i) l 0.

(* the declared attribute living at handle h of the assignment *)
Definition attr_at_handle (c : cfg) (h : N) : option (nat * attr) :=
  let i := index_eq (assign c) h 0 in
  if i =? invalid_index then None
  else match nth_error (decl_attrs c) (N.to_nat i) with Some a => Some (N.to_nat i, a) | None => None end.

(* the attribute type as it appears on the air: 2 or 16 bytes *)
Definition attr_type_bytes (a : attr) : list N :=
  match a with
  | AValue _ ch _ _ => uuid_bytes (c_uuid ch)
  | _ => lo_hi (attr_uuid a)
  end.

Definition base_uuid_tail : list N := [251; 52; 155; 95; 128; 0; 0; 128; 0; 16; 0; 0].
(* a 16 byte type that is a 16 bit uuid on the Bluetooth base uuid stands for the 16 bit uuid *)
Definition norm_type (ty : list N) : list N :=
  if (length ty =? 16)%nat && listN_eqb (firstn 12 ty) base_uuid_tail && (nth 14 ty 1 =? 0) && (nth 15 ty 1 =? 0)
  then [nth 12 ty 0; nth 13 ty 0] else ty.

Definition is_prefix (p l : list N) : bool := listN_eqb p (firstn (length p) l).

(* first / last assigned handle of every service *)
Fixpoint rh_svc_groups (ss : list service_decl) (hs : list N) : list (service_decl * N * N) :=
  match ss with
  | [] => []
  | s :: t =>
      let n := N.to_nat (svc_nattrs s) in
      (s, nth 0 hs 0, nth (n - 1) hs 0) :: rh_svc_groups t (skipn n hs)
  end.

Fixpoint group_at (l : list (service_decl * N * N)) (first : N) : option (service_decl * N) :=
  match l with
  | [] => None
  | (s, f, e) :: t => if f =? first then Some (s, e) else group_at t first
  end.

(* one (first, last [, uuid]) group entry: a primary service of the declaration with its assigned range *)
Definition group_entry_ok (c : cfg) (e uuid : list N) (check_uuid : bool) : bool :=
  match group_at (rh_svc_groups (services c) (assign c)) (rh_w16 e 0) with
  | Some (s, last) =>
      negb (s_secondary s) && (rh_w16 e 2 =? last)
      && (if check_uuid then listN_eqb uuid (uuid_bytes (s_uuid s)) else true)
  | None => false
  end.

Definition check_discovery (c : cfg) (pdu resp : list N) : verdict :=
  let ok (b : bool) := if b then Ok else Bad t_reported_handle in
  match pdu, resp with
  | 4 :: _, 5 :: fmt :: rest =>                 (* Find Information *)
      let size := if fmt =? 1 then 4%nat else 18%nat in
      ok (forallb (fun e =>
            (length e =? size)%nat &&
            match attr_at_handle c (rh_w16 e 0) with
            | Some (_, a) => listN_eqb (skipn 2 e) (attr_type_bytes a)
            | None => false
            end) (rh_chunks (length rest) size rest))
  | 8 :: _, 9 :: l :: rest =>                   (* Read By Type *)
      let ty := norm_type (skipn 5 pdu) in
      (* a LAST entry cut short (the 8 bit size counter of collect_attributes, C01 (c') / C02) is judged on
         what is there: its handle, its type and the prefix of its value; the framing itself is C01's clause *)
      ok (forallb (fun e =>
            (2 <=? length e)%nat &&
            match attr_at_handle c (rh_w16 e 0) with
            | Some (i, a) =>
                listN_eqb (attr_type_bytes a) ty &&
                match a with
                | AService s => is_prefix (skipn 2 e) (uuid_bytes (s_uuid s))
                | ACharDecl _ _ | AInclude _ =>
                    match expected_value c i with Some v => is_prefix (skipn 2 e) v | None => false end
                | _ => true
                end
            | None => false
            end) (rh_chunks (length rest) (N.to_nat l) rest))
  | 16 :: _, 17 :: l :: rest =>                 (* Read By Group Type *)
      ok (forallb (fun e => (length e =? N.to_nat l)%nat && group_entry_ok c e (skipn 4 e) true)
                  (rh_chunks (length rest) (N.to_nat l) rest))
  | 6 :: _, 7 :: rest =>                        (* Find By Type Value: the value is the service uuid *)
      ok (forallb (fun e => (length e =? 4)%nat && group_entry_ok c e (skipn 7 pdu) true) (rh_chunks (length rest) 4 rest))
  | _, _ => Ok
  end.
