(* Specification of the attribute data base (property C04) and its executable monitor.

   The abstract object is the DECLARATION: the attributes in declaration order, each with the handle
   it asks for (0 = none). [assign] walks that list: next handle = max( previous + 1, requested ).
   Everything else is stated against it:
     (a) handle_by_index i            = i-th assigned handle (non-zero, strictly increasing)
     (b) first_index_by_handle h      = least index whose handle is >= h (invalid if there is none)
         index_by_handle h            = the index carrying exactly h (invalid if there is none)
     (c) a characteristic declaration = properties, assigned handle of the value attribute, uuid
     (d) an include declaration       = assigned first and last handle of the included service (+ uuid16)
   The monitor judges observed tables (the harness' dump line) and observed Read Responses only. *)
From BT Require Import Base.ListX AttDb.AttDbModel.
Local Open Scope N_scope.

(* ------------------------------------------------------------------ the declaration *)
Definition char_requests (c : char_decl) : list N :=
  let extra := N.to_nat (char_nattrs c - 2) in
  match c_handle c with
  | HNone => 0 :: 0 :: repeat 0 extra
  | HOne h => h :: 0 :: repeat 0 extra
  | HThree d v cc => d :: v :: (match extra with O => [] | S k => cc :: repeat 0 k end)
  end.

Definition svc_requests (s : service_decl) : list N :=
  (match s_handle s with Some h => h | None => 0 end)
  :: repeat 0 (length (s_includes s)) ++ flat_map char_requests (s_chars s).

Definition requests (c : cfg) : list N := flat_map svc_requests (services c).

Fixpoint assign_from (prev : N) (reqs : list N) : list N :=
  match reqs with
  | [] => []
  | r :: t => let h := N.max (prev + 1) r in h :: assign_from h t
  end.

(* the handle of every attribute, in declaration order *)
Definition assign (c : cfg) : list N := assign_from 0 (requests c).

(* ------------------------------------------------------------------ tables derived from a handle list *)
Fixpoint first_ge (l : list N) (h : N) (i : N) : N :=          (* least index with handle >= h *)
  match l with
  | [] => invalid_index
  | x :: t => if h <=? x then i else first_ge t h (i + 1)
  end.

Fixpoint index_eq (l : list N) (h : N) (i : N) : N :=          (* the index with handle = h *)
  match l with
  | [] => invalid_index
  | x :: t => if h =? x then i else index_eq t h (i + 1)
  end.

Fixpoint increasing_from (prev : N) (l : list N) : bool :=
  match l with [] => true | x :: t => (prev <? x) && increasing_from x t end.

Fixpoint seqN (from : N) (n : nat) : list N :=
  match n with O => [] | S k => from :: seqN (from + 1) k end.

Fixpoint listN_eqb (a b : list N) : bool :=
  match a, b with
  | [], [] => true
  | x :: a', y :: b' => (x =? y) && listN_eqb a' b'
  | _, _ => false
  end.

(* ------------------------------------------------------------------ expected declaration values *)
(* attribute kinds in declaration order (what the declaration says, not what attribute_at returns) *)
Definition svc_decl_attrs (s : service_decl) : list attr :=
  AService s :: map AInclude (s_includes s)
  ++ flat_map (fun ch => char_attrs s ch O 0) (s_chars s).
Definition decl_attrs (c : cfg) : list attr := flat_map svc_decl_attrs (services c).

(* first and last assigned handle of every service, in order *)
Fixpoint svc_ranges (ss : list service_decl) (hs : list N) : list (uuid * N * N) :=
  match ss with
  | [] => []
  | s :: t =>
      let n := N.to_nat (svc_nattrs s) in
      (s_uuid s, nth 0 hs 0, nth (n - 1) hs 0) :: svc_ranges t (skipn n hs)
  end.

Fixpoint range_of (l : list (uuid * N * N)) (u : uuid) : option (N * N) :=
  match l with
  | [] => None
  | (x, f, e) :: t => if uuid_eqb x u then Some (f, e) else range_of t u
  end.

Definition lo_hi (x : N) : list N := [x mod 256; (x / 256) mod 256].

(* the value a Read Request has to return for the i-th declared attribute, if C04 says something about it *)
Definition expected_value (c : cfg) (i : nat) : option (list N) :=
  match nth_error (decl_attrs c) i with
  | Some (ACharDecl _ ch) =>
      Some (char_properties ch :: lo_hi (nth (S i) (assign c) 0) ++ uuid_bytes (c_uuid ch))
  | Some (AInclude u) =>
      match range_of (svc_ranges (services c) (assign c)) u with
      | Some (f, e) => Some (lo_hi f ++ lo_hi e ++ (match u with U16 v => lo_hi v | U128 _ => [] end))
      | None => None
      end
  | _ => None
  end.

(* ------------------------------------------------------------------ monitor *)
Inductive verdict := Ok | Bad (tag : nat).
Definition t_handles := 1%nat.        (* (a) handle_by_index differs from the assigned handles *)
Definition t_index_by_handle := 2%nat. (* (b) index_by_handle / first_index_by_handle table *)
Definition t_decl_value := 3%nat.     (* (c) characteristic declaration *)
Definition t_include_value := 4%nat.  (* (d) include declaration *)
Definition t_uuids := 5%nat.          (* attribute_at(i).uuid differs from the declared attribute type *)
Definition t_shape := 6%nat.

(* the dump: handle_by_index for all indices, first_index_by_handle / index_by_handle for handles
   0 .. last + 2, attribute_at( i ).uuid *)
Definition check_dump (c : cfg) (hbi fibh ibh uuids : list N) : verdict :=
  let a := assign c in
  if negb (listN_eqb hbi a && increasing_from 0 hbi) then Bad t_handles
  else if negb (listN_eqb uuids (map attr_uuid (decl_attrs c))) then Bad t_uuids
  else
    let hs := seqN 0 (length fibh) in
    if negb (listN_eqb fibh (map (fun h => first_ge a h 0) hs) && listN_eqb ibh (map (fun h => index_eq a h 0) hs)
             && (N.of_nat (length fibh) =? fold_right N.max 0 a + 3) && (length ibh =? length fibh)%nat)
    then Bad t_index_by_handle
    else Ok.

(* a Read Request for [handle] answered with [resp] (out_size >= 23, so nothing relevant is clipped
   below 22 bytes): declarations must carry the assigned handles *)
Definition check_read (c : cfg) (handle : N) (resp : list N) : verdict :=
  let i := index_eq (assign c) handle 0 in
  if i =? invalid_index then Ok
  else match expected_value c (N.to_nat i) with
       | None => Ok
       | Some v =>
           if listN_eqb resp (11 :: firstn 22 v) then Ok
           else match nth_error (decl_attrs c) (N.to_nat i) with
                | Some (AInclude _) => Bad t_include_value
                | _ => Bad t_decl_value
                end
       end.
