(* Proofs for property C04: the handle mapping of attribute_handle.hpp against the abstract
   assignment [assign] (AttDbSpec.v), for all well formed configurations of any size. *)
From Coq Require Import Lia ZifyBool.
From BT Require Import Base.ListX AttDb.AttDbModel AttDb.AttDbSpec.
Local Open Scope N_scope.

(* ------------------------------------------------------------------ basics *)
Lemma u16_small x : x < 65536 -> u16 x = x.
Proof. intros. unfold u16. apply N.mod_small; auto. Qed.

Definition consecutive (p : N) (k : nat) : list N := map (fun j => p + 1 + N.of_nat j) (seq 0 k).

Lemma consecutive_length p k : length (consecutive p k) = k.
Proof. unfold consecutive. rewrite map_length, seq_length; auto. Qed.

Lemma consecutive_S p k : consecutive p (S k) = (p + 1) :: consecutive (p + 1) k.
Proof.
  unfold consecutive. simpl. f_equal. 1: lia.
  rewrite <- seq_shift, map_map. apply map_ext. intros; lia.
Qed.

Lemma consecutive_nth p k j : (j < k)%nat -> nth j (consecutive p k) 0 = p + 1 + N.of_nat j.
Proof.
  revert p j; induction k as [|k IH]; intros p j H; [lia|].
  rewrite consecutive_S. destruct j as [|j]; simpl; [lia|].
  rewrite IH by lia. lia.
Qed.

Lemma assign_from_zeros p k rest :
  assign_from p (repeat 0 k ++ rest) = consecutive p k ++ assign_from (p + N.of_nat k) rest.
Proof.
  revert p; induction k as [|k IH]; intros p.
  - simpl. f_equal. lia.
  - rewrite consecutive_S. simpl. replace (N.max (p + 1) 0) with (p + 1) by lia.
    f_equal. rewrite IH. f_equal. f_equal. lia.
Qed.

Lemma assign_from_length p l : length (assign_from p l) = length l.
Proof. revert p; induction l; intros; simpl; auto. Qed.

Lemma last_cons_default (A : Type) (l : list A) a d : last (a :: l) d = last l a.
Proof.
  revert a d; induction l as [|x t IH]; intros a d; [reflexivity|].
  change (last (a :: x :: t) d) with (last (x :: t) d). rewrite (IH x d), (IH x a). reflexivity.
Qed.

Lemma assign_from_app p l1 l2 :
  assign_from p (l1 ++ l2) = assign_from p l1 ++ assign_from (last (assign_from p l1) p) l2.
Proof.
  revert p; induction l1 as [|r t IH]; intros p; simpl app; [reflexivity|].
  cbn [assign_from]. cbv zeta. rewrite IH. cbn [app]. f_equal. f_equal. f_equal.
  symmetry. apply last_cons_default.
Qed.

(* the assigned handles are non-zero and strictly increasing, whatever is requested *)
Lemma assign_from_increasing p l : increasing_from p (assign_from p l) = true.
Proof.
  revert p; induction l as [|r t IH]; intros p; simpl; auto.
  rewrite IH. rewrite andb_true_r. apply N.ltb_lt. lia.
Qed.

(* ------------------------------------------------------------------ strictly increasing lists *)
Lemma increasing_from_lower p l x : increasing_from p l = true -> In x l -> p < x.
Proof.
  revert p; induction l as [|y t IH]; intros p H Hin; simpl in *; [tauto|].
  apply andb_true_iff in H. destruct H as [H1 H2]. apply N.ltb_lt in H1.
  destruct Hin as [->|Hin]; auto. specialize (IH _ H2 Hin). lia.
Qed.

Lemma first_ge_shift l h i : first_ge l h i <> invalid_index -> first_ge l h (i + 1) = first_ge l h i + 1.
Proof.
  revert i; induction l as [|x t IH]; intros i H; simpl in *; [congruence|].
  destruct (h <=? x); auto.
Qed.

Lemma first_ge_all_lt l h i : (forall x, In x l -> x < h) -> first_ge l h i = invalid_index.
Proof.
  revert i; induction l as [|x t IH]; intros i H; simpl; auto.
  assert (x < h) by (apply H; simpl; auto).
  destruct (h <=? x) eqn:E; [apply N.leb_le in E; lia|].
  apply IH. intros; apply H; simpl; auto.
Qed.

Lemma first_ge_app l1 l2 h i :
  (forall x, In x l1 -> x < h) -> first_ge (l1 ++ l2) h i = first_ge l2 h (i + N.of_nat (length l1)).
Proof.
  revert i; induction l1 as [|x t IH]; intros i H; simpl.
  - f_equal; lia.
  - assert (x < h) by (apply H; simpl; auto).
    destruct (h <=? x) eqn:E; [apply N.leb_le in E; lia|].
    rewrite IH by (intros; apply H; simpl; auto). f_equal; lia.
Qed.

Lemma first_ge_app_l l1 l2 h i :
  (exists x, In x l1 /\ h <= x) -> first_ge (l1 ++ l2) h i = first_ge l1 h i.
Proof.
  revert i; induction l1 as [|x t IH]; intros i [y [Hin Hy]]; simpl in *; [tauto|].
  destruct (h <=? x) eqn:E; auto.
  apply IH. destruct Hin as [->|Hin]; [apply N.leb_gt in E; lia|]. exists y; auto.
Qed.

Lemma first_ge_consecutive p k h i :
  p < h -> h <= p + N.of_nat k -> first_ge (consecutive p k) h i = i + (h - p - 1).
Proof.
  revert p i; induction k as [|k IH]; intros p i H1 H2; [lia|].
  rewrite consecutive_S. simpl.
  destruct (h <=? p + 1) eqn:E.
  - apply N.leb_le in E. lia.
  - apply N.leb_gt in E. rewrite IH by lia. lia.
Qed.

Lemma index_eq_all_gt l h q i : increasing_from q l = true -> h <= q -> index_eq l h i = invalid_index.
Proof.
  revert q i; induction l as [|z t IH]; intros q i H Hq; simpl in *; auto.
  apply andb_true_iff in H. destruct H as [H1 H2]. apply N.ltb_lt in H1.
  assert (E : (h =? z) = false) by (apply N.eqb_neq; lia). rewrite E.
  apply (IH z); auto; lia.
Qed.

(* on a strictly increasing list index_eq is first_ge followed by the equality test of index_by_handle *)
Lemma index_eq_first_ge p l h i :
  increasing_from p l = true ->
  index_eq l h i =
    (let r := first_ge l h i in
     if negb (r =? invalid_index) && negb (nth (N.to_nat (r - i)) l 0 =? h) then invalid_index else r).
Proof.
  revert p i; induction l as [|x t IH]; intros p i H; simpl in *.
  - reflexivity.
  - apply andb_true_iff in H. destruct H as [H1 H2]. apply N.ltb_lt in H1.
    destruct (h =? x) eqn:E.
    + apply N.eqb_eq in E. subst x. rewrite N.leb_refl. simpl.
      replace (i - i) with 0 by lia. simpl. rewrite N.eqb_refl. simpl.
      destruct (i =? invalid_index); reflexivity.
    + apply N.eqb_neq in E. destruct (h <=? x) eqn:E2.
      * apply N.leb_le in E2. simpl. replace (i - i) with 0 by lia. simpl.
        assert (Hx : (x =? h) = false) by (apply N.eqb_neq; lia). rewrite Hx. simpl.
        assert (Hall : index_eq t h (i + 1) = invalid_index) by (apply (index_eq_all_gt t h x); auto; lia).
        rewrite Hall. destruct (i =? invalid_index) eqn:Ei; simpl; [apply N.eqb_eq in Ei; congruence|reflexivity].
      * rewrite (IH x (i + 1) H2). cbv zeta.
        destruct (first_ge t h (i + 1) =? invalid_index) eqn:E3; simpl; auto.
        apply N.eqb_neq in E3.
        assert (Hge : i + 1 <= first_ge t h (i + 1)).
        { clear -E3. revert E3. generalize (i + 1). induction t as [|z t' IHt]; intros j Hj; simpl in *; [congruence|].
          destruct (h <=? z); [lia|]. specialize (IHt _ Hj). lia. }
        replace (N.to_nat (first_ge t h (i + 1) - i)) with (S (N.to_nat (first_ge t h (i + 1) - (i + 1)))) by lia.
        reflexivity.
Qed.

(* ------------------------------------------------------------------ one characteristic *)
Definition extra (c : char_decl) : nat := N.to_nat (char_nattrs c - 2).

Lemma char_nattrs_extra c : char_nattrs c = 2 + N.of_nat (extra c).
Proof.
  unfold extra, char_nattrs, char_nccc, len.
  destruct (has_cccd c); destruct (is_some (c_name c)); cbv [b2n]; rewrite N2Nat.id; lia.
Qed.

(* the handles of the attributes of a characteristic placed at start handle [sh] *)
Definition char_hlist (sh : N) (c : char_decl) : list N :=
  let h := select_handles sh c in
  ch_decl h :: ch_value h :: match extra c with O => [] | S k => ch_cccd h :: consecutive (ch_cccd h) k end.

Lemma char_hlist_length sh c : length (char_hlist sh c) = N.to_nat (char_nattrs c).
Proof.
  unfold char_hlist. rewrite char_nattrs_extra. cbv zeta. destruct (extra c); cbn [length]; [lia|].
  rewrite consecutive_length. lia.
Qed.

(* the conditions wf_b (chars_handles_ok) puts on a characteristic placed at [sh] *)
Definition char_ok (sh : N) (c : char_decl) : Prop :=
  let h := select_handles sh c in
  sh <= ch_decl h /\
  match c_handle c with HThree d v cc => d < v /\ (cc = 0 \/ v < cc) | _ => True end /\
  ch_decl h + 2 < 65536 /\ ch_value h + 1 < 65536 /\ ch_cccd h + char_nattrs c < 65536.

Lemma chars_handles_ok_cons c t sh :
  chars_handles_ok (c :: t) sh = true -> char_ok sh c /\ chars_handles_ok t (char_end_handle sh c) = true.
Proof.
  cbn [chars_handles_ok]. cbv zeta. intros H.
  apply andb_true_iff in H. destruct H as [H H6].
  apply andb_true_iff in H. destruct H as [H H5].
  apply andb_true_iff in H. destruct H as [H H4].
  apply andb_true_iff in H. destruct H as [H H3].
  apply andb_true_iff in H. destruct H as [H1 H2].
  split; auto. unfold char_ok. cbv zeta.
  apply N.leb_le in H1. apply N.ltb_lt in H3, H4, H5.
  repeat split; auto.
  destruct (c_handle c); auto.
  apply andb_true_iff in H2. destruct H2 as [Ha Hb]. split; [apply N.ltb_lt; auto|].
  apply orb_true_iff in Hb. destruct Hb as [Hb|Hb]; [left; apply N.eqb_eq; auto|right; apply N.ltb_lt; auto].
Qed.

(* decl < value < cccd, all below 2^16 *)
Lemma char_ok_order sh c :
  char_ok sh c ->
  let h := select_handles sh c in
  ch_decl h < ch_value h /\ ch_value h < ch_cccd h /\ ch_cccd h < 65536.
Proof.
  unfold char_ok, select_handles. cbv zeta.
  destruct (c_handle c) as [|h|d v cc]; cbn [ch_decl ch_value ch_cccd]; intros (H1 & H2 & H3 & H4 & H5).
  - rewrite (u16_small (sh + 1)) in * by lia. rewrite (u16_small (sh + 2)) in * by lia. lia.
  - rewrite (u16_small (h + 1)) in * by lia. rewrite (u16_small (h + 2)) in * by lia. lia.
  - destruct (cc =? 0) eqn:E.
    + rewrite (u16_small (v + 1)) in * by lia. lia.
    + apply N.eqb_neq in E. lia.
Qed.

Lemma char_end_handle_eq sh c :
  char_ok sh c ->
  char_end_handle sh c =
    match extra c with O => ch_value (select_handles sh c) + 1 | S k => ch_cccd (select_handles sh c) + N.of_nat (S k) end.
Proof.
  intros H. pose proof (char_ok_order sh c H) as Ho. cbv zeta in Ho.
  destruct H as (H1 & H2 & H3 & H4 & H5).
  unfold char_end_handle. cbv zeta. pose proof (char_nattrs_extra c) as E.
  destruct (extra c) as [|k] eqn:Ek.
  - replace (char_nattrs c =? 2) with true by (symmetry; apply N.eqb_eq; lia).
    apply u16_small. lia.
  - replace (char_nattrs c =? 2) with false by (symmetry; apply N.eqb_neq; lia).
    rewrite u16_small by lia. lia.
Qed.

(* the characteristic's handles lie in [sh, end handle) and increase strictly *)
Lemma char_hlist_bounds sh c x :
  char_ok sh c -> In x (char_hlist sh c) -> sh <= x /\ x < char_end_handle sh c.
Proof.
  intros H Hin. pose proof (char_ok_order sh c H) as Ho. cbv zeta in Ho.
  rewrite (char_end_handle_eq sh c H).
  destruct H as (H1 & H2 & H3 & H4 & H5).
  unfold char_hlist in Hin. cbv zeta in Hin.
  destruct (extra c) as [|k]; simpl in Hin.
  - destruct Hin as [<-|[<-|[]]]; lia.
  - destruct Hin as [<-|[<-|[<-|Hin]]]; try lia.
    unfold consecutive in Hin. apply in_map_iff in Hin. destruct Hin as [j [<- Hj]].
    apply in_seq in Hj. lia.
Qed.

Lemma char_end_handle_gt sh c : char_ok sh c -> sh < char_end_handle sh c /\ char_end_handle sh c < 65536.
Proof.
  intros H. pose proof (char_ok_order sh c H) as Ho. cbv zeta in Ho.
  rewrite (char_end_handle_eq sh c H). pose proof (char_nattrs_extra c) as E.
  destruct H as (H1 & H2 & H3 & H4 & H5).
  destruct (extra c); lia.
Qed.

(* the abstract assignment over the requests of the characteristic yields exactly these handles *)
Lemma char_assign sh c rest :
  1 <= sh -> char_ok sh c ->
  assign_from (sh - 1) (char_requests c ++ rest) = char_hlist sh c ++ assign_from (char_end_handle sh c - 1) rest.
Proof.
  intros Hsh H. pose proof (char_ok_order sh c H) as Ho. cbv zeta in Ho.
  rewrite (char_end_handle_eq sh c H).
  destruct H as (H1 & H2 & H3 & H4 & H5).
  unfold char_requests, char_hlist. cbv zeta. fold (extra c).
  unfold select_handles in *.
  destruct (c_handle c) as [|h|d v cc]; cbn [ch_decl ch_value ch_cccd] in *.
  - rewrite (u16_small (sh + 1)) in * by lia. rewrite (u16_small (sh + 2)) in * by lia.
    cbn [app assign_from]. cbv zeta.
    replace (N.max (sh - 1 + 1) 0) with sh by lia. replace (N.max (sh + 1) 0) with (sh + 1) by lia.
    f_equal. f_equal. rewrite assign_from_zeros.
    destruct (extra c) as [|k].
    + cbn [consecutive seq map app]. f_equal. lia.
    + rewrite consecutive_S. cbn [app]. repeat (first [lia | f_equal]).
  - rewrite (u16_small (h + 1)) in * by lia. rewrite (u16_small (h + 2)) in * by lia.
    cbn [app assign_from]. cbv zeta.
    replace (N.max (sh - 1 + 1) h) with h by lia. replace (N.max (h + 1) 0) with (h + 1) by lia.
    f_equal. f_equal. rewrite assign_from_zeros.
    destruct (extra c) as [|k].
    + cbn [consecutive seq map app]. f_equal. lia.
    + rewrite consecutive_S. cbn [app]. repeat (first [lia | f_equal]).
  - cbn [app assign_from]. cbv zeta.
    replace (N.max (sh - 1 + 1) d) with d by lia. replace (N.max (d + 1) v) with v by lia.
    f_equal. f_equal.
    destruct (extra c) as [|k]; cbn [app].
    + f_equal. lia.
    + cbn [assign_from]. cbv zeta. destruct (cc =? 0) eqn:E.
      * apply N.eqb_eq in E. subst cc. rewrite (u16_small (v + 1)) in * by lia.
        replace (N.max (v + 1) 0) with (v + 1) by lia. f_equal.
        rewrite assign_from_zeros. repeat (first [lia | f_equal]).
      * apply N.eqb_neq in E. replace (N.max (v + 1) cc) with cc by lia. f_equal.
        rewrite assign_from_zeros. repeat (first [lia | f_equal]).
Qed.

(* characteristic_attribute_handle_by_index *)
Lemma char_hbi sh si c k :
  char_ok sh c -> (k < N.to_nat (char_nattrs c))%nat ->
  char_handle_by_index sh si c (si + N.of_nat k) = nth k (char_hlist sh c) 0.
Proof.
  intros H Hk. pose proof (char_ok_order sh c H) as Ho. cbv zeta in Ho.
  destruct H as (H1 & H2 & H3 & H4 & H5).
  unfold char_handle_by_index, char_hlist. cbv zeta.
  replace (si + N.of_nat k - si) with (N.of_nat k) by lia.
  rewrite char_nattrs_extra in Hk, H5.
  destruct k as [|[|[|k]]]; try reflexivity.
  - destruct (extra c); [lia|reflexivity].
  - destruct (extra c) as [|e]; [lia|].
    replace (N.of_nat (S (S (S k))) =? 0) with false by (symmetry; apply N.eqb_neq; lia).
    replace (N.of_nat (S (S (S k))) =? 1) with false by (symmetry; apply N.eqb_neq; lia).
    replace (N.of_nat (S (S (S k))) =? 2) with false by (symmetry; apply N.eqb_neq; lia).
    cbn [nth]. rewrite consecutive_nth by lia. rewrite u16_small by lia. lia.
Qed.

(* characteristic_attribute_index_by_handle, for the handles the iteration routes to this characteristic *)
Lemma char_ibh sh si c handle :
  char_ok sh c -> handle < char_end_handle sh c ->
  char_index_by_handle sh si c handle = first_ge (char_hlist sh c) handle si.
Proof.
  intros H Hh. pose proof (char_ok_order sh c H) as Ho. cbv zeta in Ho.
  rewrite (char_end_handle_eq sh c H) in Hh.
  destruct H as (H1 & H2 & H3 & H4 & H5).
  unfold char_index_by_handle, char_hlist. cbv zeta. cbn [first_ge].
  destruct (handle <=? ch_decl (select_handles sh c)) eqn:E1; [reflexivity|].
  destruct (handle <=? ch_value (select_handles sh c)) eqn:E2; [reflexivity|].
  apply N.leb_gt in E1, E2.
  destruct (extra c) as [|k]; [lia|]. cbn [first_ge].
  destruct (handle <=? ch_cccd (select_handles sh c)) eqn:E3; [lia|].
  apply N.leb_gt in E3. rewrite first_ge_consecutive by lia. lia.
Qed.

Lemma char_hlist_last sh c : char_ok sh c -> In (char_end_handle sh c - 1) (char_hlist sh c).
Proof.
  intros H. rewrite (char_end_handle_eq sh c H). unfold char_hlist. cbv zeta.
  destruct (extra c) as [|k].
  - right. left. lia.
  - right. right. destruct k as [|k].
    + left. lia.
    + right. unfold consecutive. apply in_map_iff. exists k. split; [lia|]. apply in_seq. lia.
Qed.

(* ------------------------------------------------------------------ the characteristics of a service *)
Fixpoint chars_hlist (cs : list char_decl) (sh : N) : list N :=
  match cs with
  | [] => []
  | c :: t => char_hlist sh c ++ chars_hlist t (char_end_handle sh c)
  end.

Lemma chars_hlist_length cs sh : length (chars_hlist cs sh) = N.to_nat (sumN char_nattrs cs).
Proof.
  revert sh; induction cs as [|c t IH]; intros sh; cbn [chars_hlist sumN]; [reflexivity|].
  rewrite app_length, char_hlist_length, IH. lia.
Qed.

Lemma chars_end_ge cs sh : chars_handles_ok cs sh = true -> sh <= chars_end_handle cs sh.
Proof.
  revert sh; induction cs as [|c t IH]; intros sh H; cbn [chars_end_handle]; [lia|].
  apply chars_handles_ok_cons in H. destruct H as [Hc Ht].
  specialize (IH _ Ht). pose proof (char_end_handle_gt sh c Hc). lia.
Qed.

Lemma chars_hlist_bounds cs sh x :
  chars_handles_ok cs sh = true -> In x (chars_hlist cs sh) -> sh <= x /\ x < chars_end_handle cs sh.
Proof.
  revert sh; induction cs as [|c t IH]; intros sh H Hin; cbn [chars_hlist chars_end_handle] in *; [destruct Hin|].
  apply chars_handles_ok_cons in H. destruct H as [Hc Ht].
  pose proof (char_end_handle_gt sh c Hc). pose proof (chars_end_ge _ _ Ht).
  apply in_app_or in Hin. destruct Hin as [Hin|Hin].
  - pose proof (char_hlist_bounds sh c x Hc Hin). lia.
  - specialize (IH _ Ht Hin). lia.
Qed.

Lemma chars_assign cs sh rest :
  1 <= sh -> chars_handles_ok cs sh = true ->
  assign_from (sh - 1) (flat_map char_requests cs ++ rest)
  = chars_hlist cs sh ++ assign_from (chars_end_handle cs sh - 1) rest.
Proof.
  revert sh; induction cs as [|c t IH]; intros sh Hsh H; cbn [flat_map chars_hlist chars_end_handle app]; [reflexivity|].
  apply chars_handles_ok_cons in H. destruct H as [Hc Ht].
  rewrite <- app_assoc. rewrite (char_assign sh c _ Hsh Hc).
  pose proof (char_end_handle_gt sh c Hc).
  rewrite IH by (auto; lia). rewrite app_assoc. reflexivity.
Qed.

Lemma chars_hbi cs sh si k :
  chars_handles_ok cs sh = true -> (k < length (chars_hlist cs sh))%nat ->
  chars_handle_by_index cs sh si (si + N.of_nat k) = nth k (chars_hlist cs sh) 0.
Proof.
  revert sh si k; induction cs as [|c t IH]; intros sh si k H Hk; cbn [chars_hlist chars_handle_by_index] in *.
  - simpl in Hk. lia.
  - apply chars_handles_ok_cons in H. destruct H as [Hc Ht].
    pose proof (char_hlist_length sh c) as Hl.
    destruct (si + N.of_nat k <? si + char_nattrs c) eqn:E.
    + apply N.ltb_lt in E. rewrite app_nth1 by lia. apply char_hbi; auto. lia.
    + apply N.ltb_ge in E. rewrite app_nth2 by lia. rewrite app_length in Hk.
      replace (si + N.of_nat k) with (si + char_nattrs c + N.of_nat (k - length (char_hlist sh c))) by lia.
      apply IH; auto. lia.
Qed.

Lemma chars_ibh cs sh si h :
  chars_handles_ok cs sh = true ->
  chars_index_by_handle cs sh si h = first_ge (chars_hlist cs sh) h si.
Proof.
  revert sh si; induction cs as [|c t IH]; intros sh si H; cbn [chars_hlist chars_index_by_handle]; [reflexivity|].
  apply chars_handles_ok_cons in H. destruct H as [Hc Ht].
  destruct (h <? char_end_handle sh c) eqn:E.
  - apply N.ltb_lt in E. rewrite (char_ibh sh si c h Hc E).
    symmetry. apply first_ge_app_l. exists (char_end_handle sh c - 1). split; [apply char_hlist_last; auto|lia].
  - apply N.ltb_ge in E. rewrite first_ge_app.
    + rewrite char_hlist_length. rewrite IH by auto. f_equal. lia.
    + intros x Hx. pose proof (char_hlist_bounds sh c x Hc Hx). lia.
Qed.

Lemma chars_hlist_reach cs q h :
  chars_handles_ok cs q = true -> q <= h -> h < chars_end_handle cs q ->
  exists x, In x (chars_hlist cs q) /\ h <= x.
Proof.
  revert q; induction cs as [|c t IH]; intros q H Hq Hh; cbn [chars_end_handle chars_hlist] in *; [lia|].
  apply chars_handles_ok_cons in H. destruct H as [Hc Ht].
  destruct (h <? char_end_handle q c) eqn:E3.
  - apply N.ltb_lt in E3. exists (char_end_handle q c - 1). split; [|lia].
    apply in_or_app. left. apply char_hlist_last; auto.
  - apply N.ltb_ge in E3. destruct (IH _ Ht E3 Hh) as [x [Hx1 Hx2]].
    exists x. split; auto. apply in_or_app. right. auto.
Qed.

(* ------------------------------------------------------------------ the services *)
Definition no_includes_b (ss : list service_decl) : bool :=
  forallb (fun s => match s_includes s with [] => true | _ => false end) ss.

Fixpoint svcs_hlist (ss : list service_decl) (sh : N) : list N :=
  match ss with
  | [] => []
  | s :: t => svc_handle sh s :: chars_hlist (s_chars s) (svc_handle sh s + 1) ++ svcs_hlist t (svc_end_handle sh s)
  end.

Lemma svcs_handles_ok_cons s t sh :
  svcs_handles_ok (s :: t) sh = true ->
  sh <= svc_handle sh s /\ svc_handle sh s + 1 < 65536 /\
  chars_handles_ok (s_chars s) (svc_handle sh s + 1) = true /\
  svc_end_handle sh s = chars_end_handle (s_chars s) (svc_handle sh s + 1) /\
  svcs_handles_ok t (svc_end_handle sh s) = true.
Proof.
  cbn [svcs_handles_ok]. intros H.
  apply andb_true_iff in H. destruct H as [H H4].
  apply andb_true_iff in H. destruct H as [H H3].
  apply andb_true_iff in H. destruct H as [H1 H2].
  apply N.leb_le in H1. apply N.ltb_lt in H2.
  repeat split; auto. unfold svc_end_handle. rewrite u16_small by auto. reflexivity.
Qed.

Lemma svcs_hlist_length ss sh : length (svcs_hlist ss sh) = N.to_nat (sumN svc_nattrs ss) \/ no_includes_b ss = false.
Proof.
  revert sh; induction ss as [|s t IH]; intros sh; cbn [svcs_hlist sumN no_includes_b forallb]; [left; reflexivity|].
  destruct (s_includes s) eqn:E; [|right; reflexivity]. cbn [andb].
  destruct (IH (svc_end_handle sh s)) as [IH'|IH']; [left|right; exact IH'].
  cbn [length]. rewrite app_length, chars_hlist_length, IH'.
  unfold svc_nattrs, svc_nsattrs, len. rewrite E. cbn [length]. lia.
Qed.

Lemma svcs_assign ss sh :
  1 <= sh -> svcs_handles_ok ss sh = true -> no_includes_b ss = true ->
  assign_from (sh - 1) (flat_map svc_requests ss) = svcs_hlist ss sh.
Proof.
  revert sh; induction ss as [|s t IH]; intros sh Hsh H Hn; cbn [flat_map svcs_hlist]; [reflexivity|].
  apply svcs_handles_ok_cons in H. destruct H as (H1 & H2 & H3 & H4 & H5).
  cbn [no_includes_b forallb] in Hn. apply andb_true_iff in Hn. destruct Hn as [Hi Hn].
  unfold svc_requests. destruct (s_includes s) eqn:E; [|discriminate]. cbn [length repeat app].
  cbn [assign_from]. cbv zeta.
  assert (Hm : N.max (sh - 1 + 1) (match s_handle s with Some h => h | None => 0 end) = svc_handle sh s).
  { unfold svc_handle in *. destruct (s_handle s); lia. }
  rewrite Hm. f_equal.
  replace (svc_handle sh s) with (svc_handle sh s + 1 - 1) at 1 by lia.
  rewrite chars_assign by (auto; lia). f_equal.
  rewrite <- H4. pose proof (chars_end_ge _ _ H3). apply IH; auto. lia.
Qed.

Lemma svcs_hlist_bounds ss sh x :
  svcs_handles_ok ss sh = true -> In x (svcs_hlist ss sh) -> sh <= x.
Proof.
  revert sh; induction ss as [|s t IH]; intros sh H Hin; cbn [svcs_hlist] in *; [destruct Hin|].
  apply svcs_handles_ok_cons in H. destruct H as (H1 & H2 & H3 & H4 & H5).
  pose proof (chars_end_ge _ _ H3).
  destruct Hin as [<-|Hin]; [lia|]. apply in_app_or in Hin. destruct Hin as [Hin|Hin].
  - pose proof (chars_hlist_bounds _ _ _ H3 Hin). lia.
  - specialize (IH _ H5 Hin). lia.
Qed.

Lemma svcs_hbi ss sh si k :
  svcs_handles_ok ss sh = true -> no_includes_b ss = true -> (k < length (svcs_hlist ss sh))%nat ->
  svcs_handle_by_index ss sh si (si + N.of_nat k) = nth k (svcs_hlist ss sh) 0.
Proof.
  revert sh si k; induction ss as [|s t IH]; intros sh si k H Hn Hk; cbn [svcs_hlist svcs_handle_by_index] in *.
  - simpl in Hk. lia.
  - apply svcs_handles_ok_cons in H. destruct H as (H1 & H2 & H3 & H4 & H5).
    cbn [no_includes_b forallb] in Hn. apply andb_true_iff in Hn. destruct Hn as [Hi Hn].
    assert (Hna : svc_nattrs s = 1 + sumN char_nattrs (s_chars s)).
    { unfold svc_nattrs, svc_nsattrs, len. destruct (s_includes s); [cbn [length]; lia|discriminate]. }
    pose proof (chars_hlist_length (s_chars s) (svc_handle sh s + 1)) as Hl.
    rewrite (u16_small (svc_handle sh s + 1)) by auto.
    destruct (si + N.of_nat k <? si + svc_nattrs s) eqn:E.
    + apply N.ltb_lt in E. destruct k as [|k].
      * replace (si + N.of_nat 0 =? si) with true by (symmetry; apply N.eqb_eq; lia). reflexivity.
      * replace (si + N.of_nat (S k) =? si) with false by (symmetry; apply N.eqb_neq; lia).
        cbn [nth]. rewrite app_nth1 by lia.
        replace (si + N.of_nat (S k)) with (si + 1 + N.of_nat k) by lia.
        apply chars_hbi; auto. lia.
    + apply N.ltb_ge in E. destruct k as [|k]; [lia|]. cbn [nth length] in *.
      rewrite app_length in Hk. rewrite app_nth2 by lia.
      replace (si + N.of_nat (S k)) with (si + svc_nattrs s + N.of_nat (k - length (chars_hlist (s_chars s) (svc_handle sh s + 1)))) by lia.
      apply IH; auto. lia.
Qed.

Lemma svcs_fibh ss sh si h :
  svcs_handles_ok ss sh = true -> no_includes_b ss = true ->
  svcs_first_index_by_handle ss sh si h = first_ge (svcs_hlist ss sh) h si.
Proof.
  revert sh si; induction ss as [|s t IH]; intros sh si H Hn; cbn [svcs_hlist svcs_first_index_by_handle]; [reflexivity|].
  apply svcs_handles_ok_cons in H. destruct H as (H1 & H2 & H3 & H4 & H5).
  cbn [no_includes_b forallb] in Hn. apply andb_true_iff in Hn. destruct Hn as [Hi Hn].
  assert (Hna : svc_nattrs s = 1 + sumN char_nattrs (s_chars s)).
  { unfold svc_nattrs, svc_nsattrs, len. destruct (s_includes s); [cbn [length]; lia|discriminate]. }
  pose proof (chars_end_ge _ _ H3) as Hge.
  rewrite (u16_small (svc_handle sh s + 1)) by auto.
  cbn [first_ge].
  destruct (h <? svc_end_handle sh s) eqn:E.
  - apply N.ltb_lt in E. destruct (h <=? svc_handle sh s) eqn:E2; [reflexivity|].
    apply N.leb_gt in E2. rewrite chars_ibh by auto.
    symmetry. apply first_ge_app_l.
    apply chars_hlist_reach; auto; lia.
  - apply N.ltb_ge in E.
    assert (Hs : (h <=? svc_handle sh s) = false) by (apply N.leb_gt; lia). rewrite Hs.
    rewrite first_ge_app.
    + rewrite chars_hlist_length. rewrite IH by auto. f_equal. lia.
    + intros x Hx. pose proof (chars_hlist_bounds _ _ _ H3 Hx). lia.
Qed.

(* ------------------------------------------------------------------ the whole configuration *)
Definition no_includes (c : cfg) : Prop := no_includes_b (services c) = true.

Lemma wf_handles_ok c : wf c -> svcs_handles_ok (services c) 1 = true.
Proof.
  unfold wf, wf_b. intros H.
  repeat (apply andb_true_iff in H; destruct H as [H ?]). assumption.
Qed.

Lemma wf_attr_bound c : wf c -> number_of_attributes c < 65535.
Proof.
  unfold wf, wf_b. intros H.
  repeat (apply andb_true_iff in H; destruct H as [H ?]).
  match goal with X : (number_of_attributes c <? 65535) = true |- _ => apply N.ltb_lt in X; exact X end.
Qed.

Lemma assign_is_hlist c : wf c -> no_includes c -> assign c = svcs_hlist (services c) 1.
Proof.
  intros Hw Hn. unfold assign, requests.
  change 0 with (1 - 1). apply svcs_assign; auto; [lia|apply wf_handles_ok; auto].
Qed.

Lemma assign_length c : wf c -> no_includes c -> length (assign c) = N.to_nat (number_of_attributes c).
Proof.
  intros Hw Hn. rewrite assign_is_hlist by auto.
  destruct (svcs_hlist_length (services c) 1) as [H|H]; [exact H|]. unfold no_includes in Hn. congruence.
Qed.

(* (a) pointwise *)
Lemma handle_by_index_nth c i :
  wf c -> no_includes c -> i < number_of_attributes c ->
  handle_by_index c i = nth (N.to_nat i) (assign c) 0.
Proof.
  intros Hw Hn Hi. pose proof (assign_length c Hw Hn) as Hl.
  rewrite assign_is_hlist in * by auto. unfold handle_by_index.
  replace i with (0 + N.of_nat (N.to_nat i)) at 1 by lia.
  apply svcs_hbi; auto; [apply wf_handles_ok; auto|lia].
Qed.

Lemma map_seqN_nth (f : N -> N) (l : list N) :
  (forall i, (i < length l)%nat -> f (N.of_nat i) = nth i l 0) ->
  map f (seqN 0 (length l)) = l.
Proof.
  assert (G : forall (l : list N) (from : N) (f : N -> N),
             (forall i, (i < length l)%nat -> f (from + N.of_nat i) = nth i l 0) -> map f (seqN from (length l)) = l).
  { clear. induction l as [|x t IH]; intros from f H; cbn [length seqN map]; [reflexivity|].
    f_equal.
    - specialize (H O). cbn [nth length] in H. rewrite <- H by lia. f_equal. lia.
    - apply IH. intros i Hi. specialize (H (S i)). cbn [nth length] in H. rewrite <- H by lia. f_equal. lia. }
  intros H. apply G. intros i Hi. rewrite <- H by auto. f_equal.
Qed.

(* (a) handle_by_index over all indices is the abstract assignment *)
Theorem handle_by_index_is_assign c :
  wf c -> no_includes c ->
  map (handle_by_index c) (seqN 0 (N.to_nat (number_of_attributes c))) = assign c.
Proof.
  intros Hw Hn. rewrite <- (assign_length c Hw Hn).
  apply map_seqN_nth. intros i Hi. rewrite handle_by_index_nth; auto.
  - f_equal. lia.
  - rewrite (assign_length c Hw Hn) in Hi. lia.
Qed.

Theorem assign_increasing c : increasing_from 0 (assign c) = true.
Proof. apply assign_from_increasing. Qed.

(* (b) first_index_by_handle = least index with handle >= h *)
Theorem first_index_by_handle_spec c h :
  wf c -> no_includes c -> first_index_by_handle c h = first_ge (assign c) h 0.
Proof.
  intros Hw Hn. rewrite assign_is_hlist by auto. unfold first_index_by_handle.
  apply svcs_fibh; auto. apply wf_handles_ok; auto.
Qed.

Lemma first_ge_range l h i :
  first_ge l h i = invalid_index \/ (i <= first_ge l h i /\ first_ge l h i < i + N.of_nat (length l)).
Proof.
  revert i; induction l as [|x t IH]; intros i; cbn [first_ge length]; [left; reflexivity|].
  destruct (h <=? x); [right; lia|].
  destruct (IH (i + 1)) as [H|H]; [left; exact H|right; lia].
Qed.

(* what first_ge computes *)
Lemma first_ge_spec l h i r :
  first_ge l h i = r -> r <> invalid_index ->
  h <= nth (N.to_nat (r - i)) l 0 /\ forall j, (j < N.to_nat (r - i))%nat -> nth j l 0 < h.
Proof.
  revert i; induction l as [|x t IH]; intros i H Hr; cbn [first_ge] in H; [congruence|].
  destruct (h <=? x) eqn:E.
  - subst r. replace (i - i) with 0 by lia. cbn [N.to_nat nth]. split; [apply N.leb_le; auto|intros; lia].
  - apply N.leb_gt in E. destruct (first_ge_range t h (i + 1)) as [Hx|Hx]; [congruence|].
    destruct (IH _ H Hr) as [I1 I2]. rewrite H in Hx.
    replace (N.to_nat (r - i)) with (S (N.to_nat (r - (i + 1)))) by lia. cbn [nth]. split; auto.
    intros [|j] Hj; cbn [nth]; auto. apply I2. lia.
Qed.

Theorem index_by_handle_spec c h :
  wf c -> no_includes c -> index_by_handle c h = index_eq (assign c) h 0.
Proof.
  intros Hw Hn. unfold index_by_handle. cbv zeta.
  rewrite (index_eq_first_ge 0 (assign c) h 0 (assign_increasing c)). cbv zeta.
  rewrite (first_index_by_handle_spec c h Hw Hn).
  destruct (first_ge (assign c) h 0 =? invalid_index) eqn:E; cbn [negb andb]; [reflexivity|].
  apply N.eqb_neq in E.
  destruct (first_ge_range (assign c) h 0) as [Hx|Hx]; [congruence|].
  rewrite handle_by_index_nth; auto.
  - replace (first_ge (assign c) h 0 - 0) with (first_ge (assign c) h 0) by lia. reflexivity.
  - rewrite (assign_length c Hw Hn) in Hx. lia.
Qed.

Lemma index_eq_nth p l i j :
  increasing_from p l = true -> (i < length l)%nat -> index_eq l (nth i l 0) j = j + N.of_nat i.
Proof.
  revert p i j; induction l as [|x t IH]; intros p i j H Hi; cbn [length] in Hi; [lia|].
  cbn [increasing_from] in H. apply andb_true_iff in H. destruct H as [H1 H2]. apply N.ltb_lt in H1.
  destruct i as [|i]; cbn [nth index_eq].
  - rewrite N.eqb_refl. lia.
  - assert (Hlt : x < nth i t 0) by (apply (increasing_from_lower x t); auto; apply nth_In; lia).
    replace (nth i t 0 =? x) with false by (symmetry; apply N.eqb_neq; lia).
    rewrite (IH x) by (auto; lia). lia.
Qed.

Lemma index_eq_not_in l h j : ~ In h l -> index_eq l h j = invalid_index.
Proof.
  revert j; induction l as [|x t IH]; intros j H; cbn [index_eq]; [reflexivity|].
  destruct (h =? x) eqn:E; [apply N.eqb_eq in E; subst; exfalso; apply H; left; reflexivity|].
  apply IH. intros Hin. apply H. right. exact Hin.
Qed.

(* (b) inverse laws *)
Theorem index_by_handle_inverse c i :
  wf c -> no_includes c -> i < number_of_attributes c ->
  index_by_handle c (handle_by_index c i) = i /\ handle_by_index c i <> invalid_handle.
Proof.
  intros Hw Hn Hi. pose proof (assign_length c Hw Hn) as Hl.
  rewrite index_by_handle_spec by auto. rewrite handle_by_index_nth by auto. split.
  - rewrite (index_eq_nth 0) by (try apply assign_increasing; lia). lia.
  - assert (0 < nth (N.to_nat i) (assign c) 0); [|unfold invalid_handle; lia].
    apply (increasing_from_lower 0 (assign c)); [apply assign_increasing|apply nth_In; lia].
Qed.

Theorem index_by_handle_other c h :
  wf c -> no_includes c ->
  (forall i, i < number_of_attributes c -> handle_by_index c i <> h) ->
  index_by_handle c h = invalid_index.
Proof.
  intros Hw Hn H. pose proof (assign_length c Hw Hn) as Hl.
  rewrite index_by_handle_spec by auto. apply index_eq_not_in. intros Hin.
  apply (In_nth _ _ 0) in Hin. destruct Hin as [k [Hk1 Hk2]].
  apply (H (N.of_nat k)); [lia|]. rewrite handle_by_index_nth by (auto; lia).
  rewrite Nat2N.id. exact Hk2.
Qed.

(* ------------------------------------------------------------------ (c) characteristic declarations *)
Lemma char_attribute_at_decl s c g cci i s' ch' :
  char_attribute_at s c g cci i = Some (ACharDecl s' ch') -> i = 0 /\ ch' = c.
Proof.
  unfold char_attribute_at, char_attrs. intros H.
  destruct (N.to_nat i) as [|[|k]] eqn:E; cbn [nth_error] in H.
  - inversion H. split; [lia|reflexivity].
  - discriminate.
  - apply nth_error_In in H. unfold char_tail_attrs in H.
    apply in_app_or in H. destruct H as [H|H].
    + destruct (has_cccd c); [destruct H as [H|[]]; discriminate|destruct H].
    + apply in_app_or in H. destruct H as [H|H].
      * destruct (c_name c); [destruct H as [H|[]]; discriminate|destruct H].
      * apply in_map_iff in H. destruct H as [d [H _]]. discriminate.
Qed.

Lemma chars_attribute_at_decl s cs g cci i s' ch' :
  chars_attribute_at s cs g cci i = Some (ACharDecl s' ch') -> i + 1 < sumN char_nattrs cs /\ In ch' cs.
Proof.
  revert g cci i; induction cs as [|c t IH]; intros g cci i H; cbn [chars_attribute_at sumN] in *; [discriminate|].
  pose proof (char_nattrs_extra c).
  destruct (i <? char_nattrs c) eqn:E.
  - apply char_attribute_at_decl in H. destruct H as [-> ->]. split; [lia|left; reflexivity].
  - apply N.ltb_ge in E. apply IH in H. destruct H as [H1 H2]. split; [lia|right; exact H2].
Qed.

Lemma svcs_attribute_at_decl ss g cci i s' ch' :
  svcs_attribute_at ss g cci i = Some (ACharDecl s' ch') -> i + 1 < sumN svc_nattrs ss.
Proof.
  revert g cci i; induction ss as [|s t IH]; intros g cci i H; cbn [svcs_attribute_at sumN] in *; [discriminate|].
  destruct (i <? svc_nattrs s) eqn:E.
  - unfold svc_attribute_at in H. destruct (i <? svc_nsattrs s) eqn:E2.
    + destruct (i =? 0); [discriminate|]. destruct (nth_error (s_includes s) (N.to_nat (i - 1))); discriminate.
    + apply N.ltb_ge in E2. apply chars_attribute_at_decl in H. destruct H as [H _].
      unfold svc_nattrs. lia.
  - apply N.ltb_ge in E. apply IH in H. lia.
Qed.

(* (c) the value of a characteristic declaration: properties, ASSIGNED handle of the value attribute, uuid *)
Theorem char_declaration_value c i s ch :
  wf c -> no_includes c -> attribute_at c i = Some (ACharDecl s ch) ->
  exists vh, vh = nth (N.to_nat (i + 1)) (assign c) 0 /\ vh <> invalid_handle /\ vh = handle_by_index c (i + 1).
Proof.
  intros Hw Hn H. unfold attribute_at in H. apply svcs_attribute_at_decl in H.
  fold (number_of_attributes c) in H.
  destruct (index_by_handle_inverse c (i + 1) Hw Hn H) as [_ Hnz].
  exists (handle_by_index c (i + 1)). repeat split; auto.
  apply handle_by_index_nth; auto.
Qed.

(* ------------------------------------------------------------------ fixed handles are honoured *)
Definition honoured (r h : N) : Prop := r = 0 \/ h = r.

Lemma honoured_zeros p k : Forall2 honoured (repeat 0 k) (consecutive p k).
Proof.
  revert p; induction k as [|k IH]; intros p; [constructor|].
  rewrite consecutive_S. cbn [repeat]. constructor; [left; reflexivity|apply IH].
Qed.

Lemma char_honoured sh c : Forall2 honoured (char_requests c) (char_hlist sh c).
Proof.
  unfold char_requests, char_hlist, select_handles. cbv zeta. fold (extra c).
  destruct (c_handle c) as [|h|d v cc]; cbn [ch_decl ch_value ch_cccd].
  - constructor; [left; reflexivity|]. constructor; [left; reflexivity|].
    destruct (extra c) as [|k]; [constructor|]. cbn [repeat]. constructor; [left; reflexivity|apply honoured_zeros].
  - constructor; [right; reflexivity|]. constructor; [left; reflexivity|].
    destruct (extra c) as [|k]; [constructor|]. cbn [repeat]. constructor; [left; reflexivity|apply honoured_zeros].
  - constructor; [right; reflexivity|]. constructor; [right; reflexivity|].
    destruct (extra c) as [|k]; [constructor|]. constructor; [|apply honoured_zeros].
    destruct (cc =? 0) eqn:E; [left; apply N.eqb_eq; exact E|right; reflexivity].
Qed.

Lemma chars_honoured cs sh : Forall2 honoured (flat_map char_requests cs) (chars_hlist cs sh).
Proof.
  revert sh; induction cs as [|c t IH]; intros sh; cbn [flat_map chars_hlist]; [constructor|].
  apply Forall2_app; [apply char_honoured|apply IH].
Qed.

Lemma svcs_honoured ss sh : no_includes_b ss = true -> Forall2 honoured (flat_map svc_requests ss) (svcs_hlist ss sh).
Proof.
  revert sh; induction ss as [|s t IH]; intros sh Hn; cbn [flat_map svcs_hlist]; [constructor|].
  cbn [no_includes_b forallb] in Hn. apply andb_true_iff in Hn. destruct Hn as [Hi Hn].
  unfold svc_requests. destruct (s_includes s); [|discriminate]. cbn [length repeat app].
  constructor.
  - unfold svc_handle, honoured. destruct (s_handle s); [right; reflexivity|left; reflexivity].
  - apply Forall2_app; [apply chars_honoured|apply IH; exact Hn].
Qed.

(* every handle requested by attribute_handle<> / attribute_handles<> is the handle assigned *)
Theorem fixed_handles_honoured c :
  wf c -> no_includes c -> Forall2 honoured (requests c) (assign c).
Proof.
  intros Hw Hn. rewrite assign_is_hlist by auto. apply svcs_honoured. exact Hn.
Qed.
