(* attribute_at as a list (AttDbModel.v), and from it: the value attributes carry the global characteristic numbers
   0, 1, 2, ... in index order. *)
From Coq Require Import Lia ZifyBool.
From BT Require Import Base.ListX AttDb.AttDbModel.
Local Open Scope N_scope.

Fixpoint chars_alist (s : service_decl) (cs : list char_decl) (g : nat) (cci : N) : list attr :=
  match cs with
  | [] => []
  | ch :: t => char_attrs s ch g cci ++ chars_alist s t (S g) (cci + char_nccc ch)
  end.
Definition svc_alist (s : service_decl) (g : nat) (cci : N) : list attr :=
  AService s :: map AInclude (s_includes s) ++ chars_alist s (s_chars s) g cci.
Fixpoint svcs_alist (ss : list service_decl) (g : nat) (cci : N) : list attr :=
  match ss with
  | [] => []
  | s :: t => svc_alist s g cci ++ svcs_alist t (g + length (s_chars s))%nat (cci + svc_nccc s)
  end.

Lemma char_attrs_len s ch g cci : len (char_attrs s ch g cci) = char_nattrs ch.
Proof.
  unfold char_attrs, char_tail_attrs, char_nattrs, char_nccc, len. cbn [length]. rewrite !app_length, map_length.
  destruct (has_cccd ch), (c_name ch); cbn [length b2n is_some]; lia.
Qed.

Lemma nth_error_app_N (A : Type) (l1 l2 : list A) (i : N) :
  nth_error (l1 ++ l2) (N.to_nat i) = if i <? len l1 then nth_error l1 (N.to_nat i) else nth_error l2 (N.to_nat (i - len l1)).
Proof.
  unfold len. destruct (i <? N.of_nat (length l1)) eqn:E.
  - apply N.ltb_lt in E. apply nth_error_app1. lia.
  - apply N.ltb_ge in E. rewrite nth_error_app2 by lia. f_equal. lia.
Qed.

Lemma chars_alist_at s : forall cs g cci i, chars_attribute_at s cs g cci i = nth_error (chars_alist s cs g cci) (N.to_nat i).
Proof.
  induction cs as [|ch t IH]; intros g cci i; cbn [chars_attribute_at chars_alist].
  - destruct (N.to_nat i); reflexivity.
  - rewrite nth_error_app_N, char_attrs_len. destruct (i <? char_nattrs ch); [reflexivity|apply IH].
Qed.

Lemma chars_alist_len s : forall cs g cci, len (chars_alist s cs g cci) = sumN char_nattrs cs.
Proof.
  induction cs as [|ch t IH]; intros g cci; cbn [chars_alist sumN]; [reflexivity|].
  unfold len in *. rewrite app_length, Nat2N.inj_add. fold (len (char_attrs s ch g cci)). rewrite char_attrs_len, IH. reflexivity.
Qed.

Lemma svc_alist_len s g cci : len (svc_alist s g cci) = svc_nattrs s.
Proof.
  unfold svc_alist, svc_nattrs, svc_nsattrs. pose proof (chars_alist_len s (s_chars s) g cci) as L. unfold len in *.
  cbn [length]. rewrite app_length, map_length. lia.
Qed.

Lemma svc_alist_at s g cci i : i < svc_nattrs s -> svc_attribute_at s g cci i = nth_error (svc_alist s g cci) (N.to_nat i).
Proof.
  intros Hi. unfold svc_attribute_at, svc_alist.
  change (AService s :: map AInclude (s_includes s) ++ chars_alist s (s_chars s) g cci)
    with ((AService s :: map AInclude (s_includes s)) ++ chars_alist s (s_chars s) g cci).
  rewrite nth_error_app_N.
  assert (L : len (AService s :: map AInclude (s_includes s)) = svc_nsattrs s) by (unfold svc_nsattrs, len; cbn [length]; rewrite map_length; lia).
  rewrite L. destruct (i <? svc_nsattrs s) eqn:E; [|apply chars_alist_at].
  destruct (i =? 0) eqn:E0.
  - apply N.eqb_eq in E0. subst. reflexivity.
  - apply N.eqb_neq in E0. replace (N.to_nat i) with (S (N.to_nat (i - 1))) by lia. cbn [nth_error].
    rewrite nth_error_map. destruct (nth_error (s_includes s) (N.to_nat (i - 1))); reflexivity.
Qed.

Lemma svcs_alist_at : forall ss g cci i, svcs_attribute_at ss g cci i = nth_error (svcs_alist ss g cci) (N.to_nat i).
Proof.
  induction ss as [|s t IH]; intros g cci i; cbn [svcs_attribute_at svcs_alist].
  - destruct (N.to_nat i); reflexivity.
  - rewrite nth_error_app_N, svc_alist_len. destruct (i <? svc_nattrs s) eqn:E; [apply svc_alist_at; apply N.ltb_lt; exact E|apply IH].
Qed.

Definition alist (c : cfg) : list attr := svcs_alist (services c) O 0.
Theorem attribute_at_alist c i : attribute_at c i = nth_error (alist c) (N.to_nat i).
Proof. apply svcs_alist_at. Qed.

Lemma svcs_alist_len : forall ss g cci, len (svcs_alist ss g cci) = sumN svc_nattrs ss.
Proof.
  induction ss as [|s t IH]; intros g cci; cbn [svcs_alist sumN]; [reflexivity|].
  unfold len in *. rewrite app_length, Nat2N.inj_add. fold (len (svc_alist s g cci)). rewrite svc_alist_len, IH. reflexivity.
Qed.
Lemma alist_len c : len (alist c) = number_of_attributes c.
Proof. apply svcs_alist_len. Qed.

(* ------------------------------------------------------------------ the global characteristic numbers of the value attributes *)
Definition gci_of (a : attr) : list nat := match a with AValue _ _ g _ => [g] | _ => [] end.

Lemma char_attrs_gcis s ch g cci : flat_map gci_of (char_attrs s ch g cci) = [g].
Proof.
  unfold char_attrs, char_tail_attrs. cbn [flat_map gci_of app]. f_equal.
  rewrite !flat_map_app. destruct (has_cccd ch), (c_name ch); cbn [flat_map gci_of app];
    induction (c_descs ch) as [|d t IH]; cbn [map flat_map gci_of app]; auto.
Qed.

Lemma chars_alist_gcis s : forall cs g cci, flat_map gci_of (chars_alist s cs g cci) = seq g (length cs).
Proof.
  induction cs as [|ch t IH]; intros g cci; cbn [chars_alist length seq]; [reflexivity|].
  rewrite flat_map_app, char_attrs_gcis, IH. reflexivity.
Qed.

Lemma svcs_alist_gcis : forall ss g cci, flat_map gci_of (svcs_alist ss g cci) = seq g (length (flat_map s_chars ss)).
Proof.
  induction ss as [|s t IH]; intros g cci; cbn [svcs_alist flat_map]; [reflexivity|].
  rewrite flat_map_app, app_length, seq_app, IH. f_equal.
  unfold svc_alist. cbn [flat_map gci_of app]. rewrite flat_map_app, chars_alist_gcis.
  assert (E : flat_map gci_of (map AInclude (s_includes s)) = []) by (induction (s_includes s); cbn; auto). rewrite E. reflexivity.
Qed.

Theorem alist_gcis c : flat_map gci_of (alist c) = seq 0 (length (flat_map s_chars (services c))).
Proof. apply svcs_alist_gcis. Qed.

(* ------------------------------------------------------------------ the characteristics of the value attributes *)
Definition vc_of (a : attr) : list (service_decl * char_decl) := match a with AValue s ch _ _ => [(s, ch)] | _ => [] end.

Lemma char_attrs_vcs s ch g cci : flat_map vc_of (char_attrs s ch g cci) = [(s, ch)].
Proof.
  unfold char_attrs, char_tail_attrs. cbn [flat_map vc_of app]. f_equal.
  rewrite !flat_map_app. destruct (has_cccd ch), (c_name ch); cbn [flat_map vc_of app];
    induction (c_descs ch) as [|d t IH]; cbn [map flat_map vc_of app]; auto.
Qed.

Lemma chars_alist_vcs s : forall cs g cci, flat_map vc_of (chars_alist s cs g cci) = map (fun ch => (s, ch)) cs.
Proof.
  induction cs as [|ch t IH]; intros g cci; cbn [chars_alist map]; [reflexivity|].
  rewrite flat_map_app, char_attrs_vcs, IH. reflexivity.
Qed.

Lemma svcs_alist_vcs : forall ss g cci,
  flat_map vc_of (svcs_alist ss g cci) = flat_map (fun s => map (fun ch => (s, ch)) (s_chars s)) ss.
Proof.
  induction ss as [|s t IH]; intros g cci; cbn [svcs_alist flat_map]; [reflexivity|].
  rewrite flat_map_app, IH. f_equal.
  unfold svc_alist. cbn [flat_map vc_of app]. rewrite flat_map_app, chars_alist_vcs.
  assert (E : flat_map vc_of (map AInclude (s_includes s)) = []) by (induction (s_includes s); cbn; auto). rewrite E. reflexivity.
Qed.

Theorem alist_vcs c : flat_map vc_of (alist c) = all_chars c.
Proof. apply svcs_alist_vcs. Qed.
