(* Executable model of the compile-time attribute data base of bluetoe::server<Options...>
   (definitions only, no proofs).

   attribute_handle.hpp   select_attribute_handles, characteristic_index_mapping,
                          interate_characteristic_index_mappings, service_index_mapping,
                          interate_service_index_mappings, handle_index_mapping
   service.hpp            service<>::attribute_at, service_handles (include declarations)
   characteristic.hpp     characteristic<>::attribute_at, count_characteristic_attributes,
                          char_declaration_access (properties byte)
   attribute.hpp          attribute_from_service_list, attribute_at_list
   find_notification_data.hpp, outgoing_priority.hpp   find_notification_data_in_list, priorities
   encryption.hpp         encryption_default, characteristic_requires_encryption

   A template configuration is the record [cfg]; every compile-time computation is a Gallina function
   following the template recursion (one Fixpoint per recursive template). Handles and indices are N
   ([std::uint16_t] handles are truncated with [u16] where the C++ narrows them); the global
   characteristic number (declaration order over all services) is a nat. *)
From BT Require Import Base.ListX.
Local Open Scope N_scope.

(* ------------------------------------------------------------------ option vocabulary *)

(* uuid16<V> / uuid<A,B,C,D,E>; [U128 b]: b = uuid<...>::bytes (16 bytes, little endian) *)
Inductive uuid := U16 (v : N) | U128 (bytes : list N).

Fixpoint bytes_eqb (a b : list N) : bool :=
  match a, b with
  | [], [] => true
  | x :: a', y :: b' => (x =? y) && bytes_eqb a' b'
  | _, _ => false
  end.

Definition uuid_eqb (a b : uuid) : bool :=
  match a, b with
  | U16 x, U16 y => x =? y
  | U128 x, U128 y => bytes_eqb x y
  | _, _ => false
  end.

Definition is_128bit (u : uuid) : bool := match u with U16 _ => false | U128 _ => true end.
Definition uuid_bytes (u : uuid) : list N :=
  match u with U16 v => [v mod 256; (v / 256) mod 256] | U128 b => b end.

(* requires_encryption / no_encryption_required / may_require_encryption present among the options *)
Record enc_opts := mkEnc { e_req : bool; e_noreq : bool; e_may : bool }.
Definition enc_none := mkEnc false false false.

(* attribute_handle<H> / attribute_handles<D,V,CCCD> *)
Inductive handle_opt := HNone | HOne (h : N) | HThree (d v c : N).

Inductive value_kind :=
| VBind (size : N) (is_const : bool)   (* bind_characteristic_value< [const] T, &var >, sizeof(T) = size *)
| VFixed (size : N) (value : N)        (* fixed_value< uintN_t, value > *)
| VString (bytes : list N)             (* cstring_value / fixed_blob_value (both cstring_wrapper) *)
| VHandler (size : N) (rd wr blob : bool).   (* free_read[_blob]_handler / free_[raw_]write[_blob]_handler
                                                over a buffer of [size] bytes (harness/attsrv_harness.cpp) *)

Record char_decl := mkChar {
  c_uuid : uuid;
  c_handle : handle_opt;
  c_value : value_kind;
  c_no_read : bool; c_no_write : bool; c_notify : bool; c_indicate : bool;
  c_wwr : bool;              (* write_without_response *)
  c_owwr : bool;             (* only_write_without_response *)
  c_name : option (list N);  (* characteristic_name<> *)
  c_descs : list (N * list N);   (* descriptor< UUID16, value, size > in declaration order *)
  c_enc : enc_opts }.

Record service_decl := mkSvc {
  s_uuid : uuid;
  s_secondary : bool;            (* is_secondary_service *)
  s_handle : option N;           (* attribute_handle<H> *)
  s_includes : list uuid;        (* include_service< UUID > in declaration order *)
  s_chars : list char_decl;
  s_enc : enc_opts;
  s_prio : list uuid }.          (* higher_outgoing_priority< characteristic uuids... > *)

Record cfg := mkCfg {
  services : list service_decl;
  max_mtu : N;                   (* max_mtu_size<N>, default 23 *)
  wqueue : option N;             (* shared_write_queue<S> *)
  prio : list uuid;              (* higher_outgoing_priority< service uuids... > *)
  enc : enc_opts }.

(* ------------------------------------------------------------------ constants (codes.hpp) *)
Definition uuid_primary_service := 10240.     (* 0x2800 *)
Definition uuid_secondary_service := 10241.
Definition uuid_include := 10242.
Definition uuid_characteristic := 10243.
Definition uuid_user_description := 10497.    (* 0x2901 *)
Definition uuid_cccd := 10498.                (* 0x2902 *)
Definition internal_128bit_uuid := 1.
Definition invalid_handle := 0.
Definition invalid_index := 18446744073709551615.   (* ~std::size_t(0) *)
Definition default_att_mtu := 23.

Definition u16 (x : N) : N := x mod 65536.
Definition b2n (b : bool) : N := if b then 1 else 0.
Definition len {A} (l : list A) : N := N.of_nat (length l).
Definition is_some {A} (o : option A) : bool := match o with Some _ => true | None => false end.
Fixpoint sumN {A} (f : A -> N) (l : list A) : N :=
  match l with [] => 0 | x :: t => f x + sumN f t end.

(* ------------------------------------------------------------------ attribute counts *)
(* count_characteristic_attributes *)
Definition has_cccd (c : char_decl) : bool := c_notify c || c_indicate c.
Definition char_nccc (c : char_decl) : N := b2n (has_cccd c).
Definition char_nattrs (c : char_decl) : N :=
  2 + char_nccc c + b2n (is_some (c_name c)) + len (c_descs c).
(* count_service_attributes: the service declaration + one include declaration per include_service<> *)
Definition svc_nsattrs (s : service_decl) : N := 1 + len (s_includes s).
Definition svc_nattrs (s : service_decl) : N := svc_nsattrs s + sumN char_nattrs (s_chars s).
Definition svc_nccc (s : service_decl) : N := sumN char_nccc (s_chars s).
Definition number_of_attributes (c : cfg) : N := sumN svc_nattrs (services c).
Definition number_of_client_configs (c : cfg) : N := sumN svc_nccc (services c).

(* ------------------------------------------------------------------ handle_index_mapping *)
Record char_handles := mkCH { ch_decl : N; ch_value : N; ch_cccd : N }.

(* select_attribute_handles< Default, attribute_handle<>, attribute_handles<> > *)
Definition select_handles (start : N) (c : char_decl) : char_handles :=
  match c_handle c with
  | HNone => mkCH start (u16 (start + 1)) (u16 (start + 2))
  | HOne h => mkCH h (u16 (h + 1)) (u16 (h + 2))
  | HThree d v cc => mkCH d v (if cc =? 0 then u16 (v + 1) else cc)
  end.

(* characteristic_index_mapping::end_handle *)
Definition char_end_handle (start : N) (c : char_decl) : N :=
  let h := select_handles start c in
  u16 (if char_nattrs c =? 2 then ch_value h + 1 else ch_cccd h + (char_nattrs c - 2)).

(* characteristic_attribute_handle_by_index *)
Definition char_handle_by_index (sh si : N) (c : char_decl) (index : N) : N :=
  let h := select_handles sh c in
  let rel := index - si in
  if rel =? 0 then ch_decl h
  else if rel =? 1 then ch_value h
  else if rel =? 2 then ch_cccd h
  else u16 (rel - 2 + ch_cccd h).

(* characteristic_attribute_index_by_handle *)
Definition char_index_by_handle (sh si : N) (c : char_decl) (handle : N) : N :=
  let h := select_handles sh c in
  if handle <=? ch_decl h then si
  else if handle <=? ch_value h then si + 1
  else if handle <=? ch_cccd h then si + 2
  else si + 2 + handle - ch_cccd h.

(* interate_characteristic_index_mappings *)
Fixpoint chars_handle_by_index (cs : list char_decl) (sh si index : N) : N :=
  match cs with
  | [] => invalid_handle
  | c :: t =>
      if index <? si + char_nattrs c then char_handle_by_index sh si c index
      else chars_handle_by_index t (char_end_handle sh c) (si + char_nattrs c) index
  end.

Fixpoint chars_index_by_handle (cs : list char_decl) (sh si handle : N) : N :=
  match cs with
  | [] => invalid_index
  | c :: t =>
      if handle <? char_end_handle sh c then char_index_by_handle sh si c handle
      else chars_index_by_handle t (char_end_handle sh c) (si + char_nattrs c) handle
  end.

(* last_characteristic_end_handle *)
Fixpoint chars_end_handle (cs : list char_decl) (sh : N) : N :=
  match cs with
  | [] => sh
  | c :: t => chars_end_handle t (char_end_handle sh c)
  end.

(* service_start_handle *)
Definition svc_handle (sh : N) (s : service_decl) : N :=
  match s_handle s with Some h => h | None => sh end.

(* next_char_mapping: the characteristics start at service handle + 1 / StartIndex + 1
   (include declarations are NOT accounted for: DESIGN 7 item 5) *)
Definition svc_end_handle (sh : N) (s : service_decl) : N :=
  chars_end_handle (s_chars s) (u16 (svc_handle sh s + 1)).

(* interate_service_index_mappings *)
Fixpoint svcs_handle_by_index (ss : list service_decl) (sh si index : N) : N :=
  match ss with
  | [] => invalid_handle
  | s :: t =>
      if index <? si + svc_nattrs s then
        (if index =? si then svc_handle sh s
         else chars_handle_by_index (s_chars s) (u16 (svc_handle sh s + 1)) (si + 1) index)
      else svcs_handle_by_index t (svc_end_handle sh s) (si + svc_nattrs s) index
  end.

Fixpoint svcs_first_index_by_handle (ss : list service_decl) (sh si handle : N) : N :=
  match ss with
  | [] => invalid_index
  | s :: t =>
      if handle <? svc_end_handle sh s then
        (if handle <=? svc_handle sh s then si
         else chars_index_by_handle (s_chars s) (u16 (svc_handle sh s + 1)) (si + 1) handle)
      else svcs_first_index_by_handle t (svc_end_handle sh s) (si + svc_nattrs s) handle
  end.

Definition handle_by_index (c : cfg) (index : N) : N := svcs_handle_by_index (services c) 1 0 index.
Definition first_index_by_handle (c : cfg) (handle : N) : N :=
  svcs_first_index_by_handle (services c) 1 0 handle.
Definition index_by_handle (c : cfg) (handle : N) : N :=
  let r := first_index_by_handle c handle in
  if negb (r =? invalid_index) && negb (handle_by_index c r =? handle) then invalid_index else r.

(* ------------------------------------------------------------------ attribute_at *)
Inductive attr :=
| AService (s : service_decl)
| AInclude (u : uuid)
| ACharDecl (s : service_decl) (c : char_decl)
| AValue (s : service_decl) (c : char_decl) (gci : nat) (cci : N)
      (* gci: global characteristic number; cci: ClientCharacteristicIndex (CCCD number in declaration order) *)
| ACccd (s : service_decl) (c : char_decl) (cci : N)
| AUserDesc (name : list N)
| ADesc (u : N) (value : list N).

Definition attr_uuid (a : attr) : N :=
  match a with
  | AService s => if s_secondary s then uuid_secondary_service else uuid_primary_service
  | AInclude _ => uuid_include
  | ACharDecl _ _ => uuid_characteristic
  | AValue _ c _ _ => match c_uuid c with U16 v => v | U128 _ => internal_128bit_uuid end
  | ACccd _ _ _ => uuid_cccd
  | AUserDesc _ => uuid_user_description
  | ADesc u _ => u
  end.

(* the descriptor part of generate_characteristic_attributes: [CCCD], [user description], descriptors *)
Definition char_tail_attrs (s : service_decl) (c : char_decl) (cci : N) : list attr :=
  (if has_cccd c then [ACccd s c cci] else [])
  ++ (match c_name c with Some n => [AUserDesc n] | None => [] end)
  ++ map (fun d => ADesc (fst d) (snd d)) (c_descs c).

Definition char_attrs (s : service_decl) (c : char_decl) (gci : nat) (cci : N) : list attr :=
  ACharDecl s c :: AValue s c gci cci :: char_tail_attrs s c cci.

(* characteristic<>::attribute_at *)
Definition char_attribute_at (s : service_decl) (c : char_decl) (gci : nat) (cci index : N) : option attr :=
  nth_error (char_attrs s c gci cci) (N.to_nat index).

(* attribute_at_list< characteristics, ... > *)
Fixpoint chars_attribute_at (s : service_decl) (cs : list char_decl) (gci : nat) (cci index : N) : option attr :=
  match cs with
  | [] => None                      (* assert( !"index out of bound" ) *)
  | c :: t =>
      if index <? char_nattrs c then char_attribute_at s c gci cci index
      else chars_attribute_at s t (S gci) (cci + char_nccc c) (index - char_nattrs c)
  end.

(* service<>::attribute_at *)
Definition svc_attribute_at (s : service_decl) (gci : nat) (cci index : N) : option attr :=
  if index <? svc_nsattrs s then
    (if index =? 0 then Some (AService s)
     else match nth_error (s_includes s) (N.to_nat (index - 1)) with
          | Some u => Some (AInclude u)
          | None => None
          end)
  else chars_attribute_at s (s_chars s) gci cci (index - svc_nsattrs s).

(* attribute_from_service_list *)
Fixpoint svcs_attribute_at (ss : list service_decl) (gci : nat) (cci index : N) : option attr :=
  match ss with
  | [] => None                      (* assert( !"index out of bound" ) *)
  | s :: t =>
      if index <? svc_nattrs s then svc_attribute_at s gci cci index
      else svcs_attribute_at t (gci + length (s_chars s))%nat (cci + svc_nccc s) (index - svc_nattrs s)
  end.

(* server<>::attribute_at; None = the assertion "index out of bound" *)
Definition attribute_at (c : cfg) (index : N) : option attr := svcs_attribute_at (services c) O 0 index.

(* all characteristics in declaration order *)
Definition all_chars (c : cfg) : list (service_decl * char_decl) :=
  flat_map (fun s => map (fun ch => (s, ch)) (s_chars s)) (services c).

(* ------------------------------------------------------------------ include declarations *)
(* find_service_by_uuid *)
Fixpoint find_service (ss : list service_decl) (u : uuid) : option service_decl :=
  match ss with
  | [] => None
  | s :: t => if uuid_eqb (s_uuid s) u then Some s else find_service t u
  end.

(* service_handles< ServiceList, Service, Handle = 1 >: computed from attribute COUNTS only
   (fixed handles are ignored: DESIGN 7 item 5) *)
Fixpoint service_handles (ss : list service_decl) (u : uuid) (handle : N) : option (N * N) :=
  match ss with
  | [] => None
  | s :: t =>
      if uuid_eqb (s_uuid s) u then Some (u16 handle, u16 (handle + svc_nattrs s - 1))
      else service_handles t u (u16 (handle + svc_nattrs s))
  end.

(* the value of an include declaration *)
Definition include_value (c : cfg) (u : uuid) : list N :=
  match service_handles (services c) u 1 with
  | Some (f, l) =>
      [f mod 256; f / 256; l mod 256; l / 256] ++ (match u with U16 v => [v mod 256; (v / 256) mod 256] | U128 _ => [] end)
  | None => []
  end.

(* ------------------------------------------------------------------ encryption.hpp *)
Definition encryption_default (d : bool) (o : enc_opts) : bool :=
  (e_req o && negb (e_noreq o)) || (negb (e_req o) && negb (e_noreq o) && d).

Definition char_requires_encryption (c : cfg) (s : service_decl) (ch : char_decl) : bool :=
  encryption_default (encryption_default (encryption_default false (enc c)) (s_enc s)) (c_enc ch).

(* ------------------------------------------------------------------ characteristic properties *)
Definition v_has_read (c : char_decl) : bool :=
  match c_value c with
  | VBind _ _ | VFixed _ _ => negb (c_no_read c)
  | VString _ => true
  | VHandler _ rd _ _ => rd && negb (c_no_read c)
  end.
Definition v_has_write (c : char_decl) : bool :=
  match c_value c with
  | VBind _ k => negb k && negb (c_no_write c)
  | VFixed _ _ | VString _ => false
  | VHandler _ _ wr _ => wr
  end.
Definition v_has_wwr (c : char_decl) : bool :=
  match c_value c with
  | VBind _ _ | VHandler _ _ _ _ => c_wwr c
  | VFixed _ _ | VString _ => false
  end.
Definition v_has_notification (c : char_decl) : bool :=
  match c_value c with VString _ => false | _ => c_notify c end.
Definition v_has_indication (c : char_decl) : bool :=
  match c_value c with VString _ => false | _ => c_indicate c end.

(* the properties byte of char_declaration_access *)
Definition char_properties (c : char_decl) : N :=
  (if v_has_read c then 2 else 0)
  + (if v_has_write c && negb (c_owwr c) then 8 else 0)
  + (if c_owwr c || v_has_wwr c then 4 else 0)
  + (if v_has_notification c then 16 else 0)
  + (if v_has_indication c then 32 else 0).

(* ------------------------------------------------------------------ priorities (outgoing_priority.hpp) *)
(* index_of< T, Ts... >: position of the first occurrence, length if absent *)
Fixpoint index_of (u : uuid) (l : list uuid) : N :=
  match l with
  | [] => 0
  | x :: t => if uuid_eqb u x then 0 else 1 + index_of u t
  end.
Definition in_list (u : uuid) (l : list uuid) : bool := negb (index_of u l =? len l).

(* number_of_additional_priorities< Services, ServiceUUID > (0 if the service does not exist: not wf) *)
Definition number_of_additional_priorities (ss : list service_decl) (u : uuid) : N :=
  match find_service ss u with
  | None => 0
  | Some s =>
      let size := len (s_prio s) in
      let swd := if size =? svc_nccc s then size else size + 1 in
      if swd =? 0 then 1 else swd
  end.

(* service_base_priority: NOTE the fold REPLACES the sum by the count of the last service before the
   searched one instead of adding it (as in the code) *)
Definition service_base_priority (c : cfg) (s : service_decl) : N :=
  snd (fold_left (fun (acc : bool * N) (u : uuid) =>
                    let found := fst acc || uuid_eqb u (s_uuid s) in
                    (found, if found then snd acc else number_of_additional_priorities (services c) u))
                 (prio c) (false, 0)).

(* expand_shared_priorities folded over all services *)
Definition shared_priorities (c : cfg) : N :=
  fold_right (fun (s : service_decl) (sum : N) =>
                if in_list (s_uuid s) (prio c) then sum else N.max (len (s_prio s)) sum)
             0 (services c).

(* characteristic_priority< Services, Service, Characteristic > *)
Definition characteristic_priority (c : cfg) (s : service_decl) (ch : char_decl) : N :=
  let pos := index_of (c_uuid ch) (s_prio s) in
  let char_prio := if in_list (s_uuid s) (prio c) then pos else pos + shared_priorities c - len (s_prio s) in
  service_base_priority c s + char_prio.

(* ------------------------------------------------------------------ find_notification_data_in_list *)
Record cinfo := mkCI {
  ci_svc : service_decl; ci_char : char_decl;
  ci_gci : nat;          (* global characteristic number *)
  ci_first : N;          (* first_attribute_index as computed by add_index_to_characteristic *)
  ci_prio : N;
  ci_pos : N }.          (* cccd_position: number among the characteristics with a CCCD, declaration order *)

(* characteristics_from_service + add_index_to_characteristic. Only the FIRST characteristic of a
   service carries the service's own attributes as offset: a service without characteristics
   contributes nothing (as in the code). [lastend] = last::first_attribute_index + last::number_of_attributes *)
Fixpoint chars_infos (c : cfg) (s : service_decl) (cs : list char_decl) (gci : nat) (offset lastend : N) : list cinfo :=
  match cs with
  | [] => []
  | ch :: t =>
      let first := lastend + offset in
      mkCI s ch gci first (characteristic_priority c s ch) 0
      :: chars_infos c s t (S gci) 0 (first + char_nattrs ch)
  end.

Definition infos_end (l : list cinfo) (lastend : N) : N :=
  match rev l with [] => lastend | x :: _ => ci_first x + char_nattrs (ci_char x) end.

Fixpoint svcs_infos (c : cfg) (ss : list service_decl) (gci : nat) (lastend : N) : list cinfo :=
  match ss with
  | [] => []
  | s :: t =>
      let l := chars_infos c s (s_chars s) gci (svc_nsattrs s) lastend in
      l ++ svcs_infos c t (gci + length (s_chars s))%nat (infos_end l lastend)
  end.

(* characteristics_with_attribute_indizes *)
Definition all_infos (c : cfg) : list cinfo := svcs_infos c (services c) O 0.

Fixpoint number_from {A} (f : A -> N -> A) (l : list A) (n : N) : list A :=
  match l with [] => [] | x :: t => f x n :: number_from f t (n + 1) end.

(* characteristics_only_with_cccd + add_cccd_position (declaration order) *)
Definition cccd_infos (c : cfg) : list cinfo :=
  number_from (fun x n => mkCI (ci_svc x) (ci_char x) (ci_gci x) (ci_first x) (ci_prio x) n)
              (filter (fun x => has_cccd (ci_char x)) (all_infos c)) 0.

(* stable_insert< order_by_prio >: T goes before the first element that is not of smaller priority *)
Fixpoint stable_insert (x : cinfo) (l : list cinfo) : list cinfo :=
  match l with
  | [] => [x]
  | f :: t => if ci_prio f <? ci_prio x then f :: stable_insert x t else x :: f :: t
  end.

(* stable_sort *)
Fixpoint stable_sort (l : list cinfo) : list cinfo :=
  match l with [] => [] | x :: t => stable_insert x (stable_sort t) end.

(* characteristics_sorted_by_priority: the order every consumer (CCCD storage, queue, l2cap_output) uses *)
Definition sorted_infos (c : cfg) : list cinfo := stable_sort (cccd_infos c).

(* cccd_indices: for every position of the sorted list the declaration order number *)
Definition cccd_indices (c : cfg) : list N := map ci_pos (sorted_infos c).

(* index_of< integral_constant< ClientCharacteristicIndex >, CCCDIndices >: the position a
   characteristic's CCCD attribute uses in the per connection configuration *)
Fixpoint index_ofN (x : N) (l : list N) : N :=
  match l with [] => 0 | y :: t => if x =? y then 0 else 1 + index_ofN x t end.
Definition cccd_position (c : cfg) (cci : N) : N :=
  let l := cccd_indices c in if len l =? 0 then cci else index_ofN cci l.

(* notification_data: (attribute_table_index, client_characteristic_configuration_index) *)
(* find_notification_data_by_index( i ): i-th element of the SORTED list *)
Definition find_notification_data_by_index (c : cfg) (i : N) : N * N :=
  match nth_error (sorted_infos c) (N.to_nat i) with
  | Some x => (ci_first x + 1, i)
  | None => (1, i)              (* attribute_index stays 0 *)
  end.

Fixpoint index_of_gci (g : nat) (l : list cinfo) : N :=
  match l with [] => 0 | x :: t => if Nat.eqb (ci_gci x) g then 0 else 1 + index_of_gci g t end.

(* find_notification_data( &var ): walks the PRIORITY SORTED list (as every consumer does) and returns
   that position as configuration index (fix of DESIGN 7 item 9; before, the declaration ordered list
   and ci_pos). [gci] identifies the bound variable. None = invalid *)
Definition find_notification_data (c : cfg) (gci : nat) : option (N * N) :=
  match filter (fun x => Nat.eqb (ci_gci x) gci) (sorted_infos c) with
  | x :: _ => match c_value (ci_char x) with
              | VBind _ _ => Some (ci_first x + 1, index_of_gci gci (sorted_infos c))
              | _ => None        (* is_this() is false for every other value kind *)
              end
  | [] => None
  end.

(* find_characteristic_data_by_uuid_in_service_list + find_notification_by_uuid: the first
   characteristic with the uuid; its position in the sorted list *)
Definition find_char_by_uuid (c : cfg) (u : uuid) : option cinfo :=
  match filter (fun x => uuid_eqb (c_uuid (ci_char x)) u) (all_infos c) with
  | x :: _ => Some x
  | [] => None
  end.

Definition find_notification_by_uuid (c : cfg) (u : uuid) : option (N * N) :=
  match find_char_by_uuid c u with
  | Some x => if has_cccd (ci_char x)
              then Some (ci_first x + 1, index_of_gci (ci_gci x) (sorted_infos c))
              else None
  | None => None
  end.

(* numbers< Services >: characteristics with CCCD per priority (add_prio) *)
Fixpoint add_prio (l : list N) (p : nat) : list N :=
  match l, p with
  | [], O => [1]
  | n :: t, O => (n + 1) :: t
  | [], S q => 0 :: add_prio [] q
  | n :: t, S q => n :: add_prio t q
  end.

Definition priority_numbers (c : cfg) : list N :=
  fold_left (fun l x => add_prio l (N.to_nat (ci_prio x))) (cccd_infos c) [].

(* ------------------------------------------------------------------ wf: what the headers accept *)
Definition byte_ok (b : N) : bool := b <? 256.
Definition uuid_ok (u : uuid) : bool :=
  match u with
  | U16 v => v <? 65536
  | U128 b => (length b =? 16)%nat && forallb byte_ok b
  end.

Definition value_ok (c : char_decl) : bool :=
  match c_value c with
  | VBind size _ => 1 <=? size
  | VFixed size v => ((size =? 1) || (size =? 2) || (size =? 4)) && (v <? 2 ^ (8 * size))
  | VString b => forallb byte_ok b
  | VHandler size rd wr _ =>
      (1 <=? size)
      && negb (c_no_write c && (wr || c_wwr c))
      && (negb (c_notify c || c_indicate c) || rd)
      && ((rd && negb (c_no_read c)) || wr || c_notify c || c_indicate c)
  end.

Definition char_static_ok (c : char_decl) : bool :=
  uuid_ok (c_uuid c) && value_ok c
  && (match c_name c with Some n => forallb (fun b => (1 <=? b) && (b <? 128)) n | None => true end)
  (* two descriptor<> options end up in ONE attribute group for which no generate_attribute exists *)
  && (length (c_descs c) <=? 1)%nat
  && forallb (fun d => (fst d <? 65536) && negb (fst d =? internal_128bit_uuid)
                       && (1 <=? length (snd d))%nat && forallb byte_ok (snd d)) (c_descs c)
  && (match c_handle c with
      | HNone => true
      | HOne h => (1 <=? h) && (h <? 65536)
      | HThree d v cc => (1 <=? d) && (d <? v) && ((cc =? 0) || (v <? cc)) && (v <? 65536) && (cc <? 65536)
      end).

(* the static_asserts of characteristic_index_mapping / service_index_mapping along the recursion,
   plus: no 16 bit overflow of the end handles *)
Fixpoint chars_handles_ok (cs : list char_decl) (sh : N) : bool :=
  match cs with
  | [] => true
  | c :: t =>
      let h := select_handles sh c in
      (sh <=? ch_decl h)                              (* static_assert( declaration_handle >= StartHandle ) *)
      && (match c_handle c with                      (* static_asserts of attribute_handles<> *)
          | HThree d v cc => (d <? v) && ((cc =? 0) || (v <? cc))
          | _ => true
          end)
      && (ch_decl h + 2 <? 65536) && (ch_value h + 1 <? 65536)
      && (ch_cccd h + char_nattrs c <? 65536)
      && chars_handles_ok t (char_end_handle sh c)
  end.

Fixpoint svcs_handles_ok (ss : list service_decl) (sh : N) : bool :=
  match ss with
  | [] => true
  | s :: t =>
      (sh <=? svc_handle sh s) && (svc_handle sh s + 1 <? 65536)
      && chars_handles_ok (s_chars s) (svc_handle sh s + 1)
      && svcs_handles_ok t (svc_end_handle sh s)
  end.

Fixpoint uuids_unique (l : list uuid) : bool :=
  match l with [] => true | u :: t => negb (in_list u t) && uuids_unique t end.

Definition svc_static_ok (c : cfg) (s : service_decl) : bool :=
  uuid_ok (s_uuid s)
  && (match s_handle s with Some h => (1 <=? h) && (h <? 65536) | None => true end)
  && forallb (fun u => is_some (find_service (services c) u)) (s_includes s)
  && forallb char_static_ok (s_chars s)
  (* higher_outgoing_priority<> of a service: distinct uuids of characteristics of this service with CCCD *)
  && uuids_unique (s_prio s)
  && forallb (fun u => existsb (fun ch => uuid_eqb (c_uuid ch) u && has_cccd ch) (s_chars s)) (s_prio s).

Definition wf_b (c : cfg) : bool :=
  (1 <=? length (services c))%nat
  && (default_att_mtu <=? max_mtu c) && (max_mtu c <? 65536)
  && (match wqueue c with Some s => s <? 65536 | None => true end)
  && forallb (svc_static_ok c) (services c)
  && uuids_unique (map s_uuid (services c))
  && svcs_handles_ok (services c) 1
  && (number_of_attributes c <? 65535)
  (* higher_outgoing_priority<> of the server: distinct uuids of existing services *)
  && uuids_unique (prio c)
  && forallb (fun u => is_some (find_service (services c) u)) (prio c)
  (* every priority level holds at least one characteristic (a level of size 0 does not compile) *)
  && forallb (fun n => 1 <=? n) (priority_numbers c).

Definition wf (c : cfg) : Prop := wf_b c = true.
