(* Concrete configurations for Examples / witnesses. GENERATED once from props/att_configs.py with
   gen/emit_cpp.py: emit_coq (the same JSON the harness configurations are generated from). *)
From BT Require Import Base.ListX AttDb.AttDbModel.
Local Open Scope N_scope.

Definition cfg_basic3 : cfg :=
  mkCfg
    [mkSvc (U16 6160) false None []
      [mkChar (U16 10752) HNone (VBind 1 false) false false false false false false None [] (mkEnc false false false);
       mkChar (U128 [1; 0; 199; 91; 237; 78; 138; 162; 159; 73; 226; 13; 148; 64; 139; 140]) HNone (VBind 2 false) false false true false false false None [] (mkEnc false false false);
       mkChar (U16 10754) HNone (VBind 4 false) false true false false false false None [] (mkEnc false false false)]
      (mkEnc false false false) [];
     mkSvc (U128 [0; 1; 199; 91; 237; 78; 138; 162; 159; 73; 226; 13; 148; 64; 139; 140]) false None []
      [mkChar (U16 10755) HNone (VFixed 2 4660) false false false false false false None [] (mkEnc false false false);
       mkChar (U128 [2; 0; 199; 91; 237; 78; 138; 162; 159; 73; 226; 13; 148; 64; 139; 140]) HNone (VBind 4 false) false false false true false false (Some [115; 101; 99; 111; 110; 100]) [] (mkEnc false false false)]
      (mkEnc false false false) [];
     mkSvc (U16 6161) false None []
      [mkChar (U16 10756) HNone (VString [104; 101; 108; 108; 111; 32; 119; 111; 114; 108; 100]) false false false false false false None [] (mkEnc false false false);
       mkChar (U16 10757) HNone (VBind 1 false) true false false false true false None [] (mkEnc false false false)]
      (mkEnc false false false) []]
    23 None [] (mkEnc false false false).

Definition cfg_fixed_handles : cfg :=
  mkCfg
    [mkSvc (U16 6160) false (Some 3) []
      [mkChar (U16 10752) (HOne 5) (VBind 2 false) false false false false false false None [] (mkEnc false false false);
       mkChar (U16 10753) (HThree 9 12 15) (VBind 4 false) false false true false false false None [] (mkEnc false false false);
       mkChar (U16 10754) (HThree 20 22 0) (VBind 1 false) false false false false false false (Some [110; 109]) [] (mkEnc false false false)]
      (mkEnc false false false) [];
     mkSvc (U128 [0; 1; 199; 91; 237; 78; 138; 162; 159; 73; 226; 13; 148; 64; 139; 140]) false None []
      [mkChar (U128 [1; 0; 199; 91; 237; 78; 138; 162; 159; 73; 226; 13; 148; 64; 139; 140]) HNone (VBind 20 false) false false true true false false None [(10501, [1; 2; 3])] (mkEnc false false false);
       mkChar (U16 10755) (HThree 64 80 96) (VBind 1 false) false false false false false false None [] (mkEnc false false false)]
      (mkEnc false false false) [];
     mkSvc (U16 6162) false (Some 128) []
      [mkChar (U16 10756) (HOne 256) (VBind 2 false) false false true false false false None [] (mkEnc false false false)]
      (mkEnc false false false) []]
    65 (Some 32) [] (mkEnc false false false).

Definition cfg_includes : cfg :=
  mkCfg
    [mkSvc (U16 6160) false None [U128 [0; 1; 199; 91; 237; 78; 138; 162; 159; 73; 226; 13; 148; 64; 139; 140]; U16 6162]
      [mkChar (U16 10752) HNone (VBind 2 false) false false false false false false None [] (mkEnc false false false);
       mkChar (U16 10753) HNone (VBind 1 false) false false true false false false None [] (mkEnc false false false)]
      (mkEnc false false false) [];
     mkSvc (U128 [0; 1; 199; 91; 237; 78; 138; 162; 159; 73; 226; 13; 148; 64; 139; 140]) true None []
      [mkChar (U16 10754) HNone (VBind 4 false) false false false false false false None [] (mkEnc false false false)]
      (mkEnc false false false) [];
     mkSvc (U16 6162) false None [U16 6160]
      [mkChar (U16 10755) HNone (VBind 1 false) false false false true false false None [] (mkEnc false false false)]
      (mkEnc false false false) [];
     mkSvc (U16 6163) false None []
      []
      (mkEnc false false false) []]
    24 (Some 10) [] (mkEnc false false false).

Definition cfg_includes_fixed : cfg :=
  mkCfg
    [mkSvc (U16 6160) false (Some 16) [U16 6161]
      [mkChar (U16 10752) (HOne 32) (VBind 2 false) false false false false false false None [] (mkEnc false false false)]
      (mkEnc false false false) [];
     mkSvc (U16 6161) true (Some 48) []
      [mkChar (U16 10753) (HThree 64 66 72) (VBind 1 false) false false true false false false None [] (mkEnc false false false)]
      (mkEnc false false false) []]
    23 None [] (mkEnc false false false).

Definition cfg_secondary : cfg :=
  mkCfg
    [mkSvc (U16 6176) true None []
      [mkChar (U16 10768) HNone (VBind 1 false) false false false false false false None [] (mkEnc false false false)]
      (mkEnc false false false) [];
     mkSvc (U16 6177) false None []
      [mkChar (U16 10769) HNone (VBind 2 false) false false false false false false None [] (mkEnc false false false)]
      (mkEnc false false false) [];
     mkSvc (U128 [0; 2; 199; 91; 237; 78; 138; 162; 159; 73; 226; 13; 148; 64; 139; 140]) true None []
      [mkChar (U16 10770) HNone (VBind 1 false) false false false false false false None [] (mkEnc false false false)]
      (mkEnc false false false) [];
     mkSvc (U128 [1; 2; 199; 91; 237; 78; 138; 162; 159; 73; 226; 13; 148; 64; 139; 140]) false None []
      [mkChar (U128 [18; 0; 199; 91; 237; 78; 138; 162; 159; 73; 226; 13; 148; 64; 139; 140]) HNone (VBind 4 false) false false false false false false None [] (mkEnc false false false)]
      (mkEnc false false false) [];
     mkSvc (U16 6178) true None []
      [mkChar (U16 10771) HNone (VBind 1 false) false false false false false false None [] (mkEnc false false false)]
      (mkEnc false false false) []]
    23 None [] (mkEnc false false false).

Definition cfg_priorities : cfg :=
  mkCfg
    [mkSvc (U16 6160) false None []
      [mkChar (U16 10752) HNone (VBind 1 false) false false true false false false None [] (mkEnc false false false);
       mkChar (U16 10753) HNone (VBind 2 false) false false true false false false None [] (mkEnc false false false);
       mkChar (U16 10754) HNone (VBind 1 false) false false false true false false None [] (mkEnc false false false)]
      (mkEnc false false false) [U16 10753];
     mkSvc (U16 6161) false None []
      [mkChar (U16 10768) HNone (VBind 1 false) false false true false false false None [] (mkEnc false false false);
       mkChar (U16 10769) HNone (VBind 1 false) false false true true false false None [] (mkEnc false false false)]
      (mkEnc false false false) [];
     mkSvc (U16 6162) false None []
      [mkChar (U16 10784) HNone (VBind 4 false) false false false true false false None [] (mkEnc false false false);
       mkChar (U16 10785) HNone (VBind 1 false) false false true false false false None [] (mkEnc false false false)]
      (mkEnc false false false) [U16 10785; U16 10784]]
    23 None [U16 6162] (mkEnc false false false).

Definition cfg_priorities2 : cfg :=
  mkCfg
    [mkSvc (U16 6160) false None []
      [mkChar (U16 10752) HNone (VBind 1 false) false false true false false false None [] (mkEnc false false false);
       mkChar (U16 10753) HNone (VBind 2 false) false false true false false false None [] (mkEnc false false false);
       mkChar (U16 10754) HNone (VBind 1 false) false false true false false false None [] (mkEnc false false false)]
      (mkEnc false false false) [U16 10754];
     mkSvc (U16 6161) false None []
      [mkChar (U16 10768) HNone (VBind 1 false) false false true false false false None [] (mkEnc false false false)]
      (mkEnc false false false) [];
     mkSvc (U16 6162) false None []
      [mkChar (U16 10784) HNone (VBind 4 false) false false false true false false None [] (mkEnc false false false)]
      (mkEnc false false false) []]
    23 None [U16 6161; U16 6160] (mkEnc false false false).

Definition cfg_enc_server_requires : cfg :=
  mkCfg
    [mkSvc (U16 6160) false None []
      [mkChar (U16 10752) HNone (VBind 1 false) false false false false false false None [] (mkEnc false false false);
       mkChar (U16 10753) HNone (VBind 1 false) false false false false false false None [] (mkEnc false true false);
       mkChar (U16 10754) HNone (VBind 1 false) false false true false false false None [] (mkEnc false false true);
       mkChar (U16 10755) HNone (VBind 2 false) false false false true false false None [] (mkEnc true false false)]
      (mkEnc false false false) [];
     mkSvc (U16 6161) false None []
      [mkChar (U16 10768) HNone (VBind 1 false) false false true false false false None [] (mkEnc false false false);
       mkChar (U16 10769) HNone (VBind 1 false) false false false false false false None [] (mkEnc true false false);
       mkChar (U16 10770) HNone (VBind 2 false) false false false false false false None [] (mkEnc false false true)]
      (mkEnc false true false) [];
     mkSvc (U16 6162) false None []
      [mkChar (U16 10784) HNone (VBind 1 false) false false false false false false None [] (mkEnc false false false);
       mkChar (U16 10785) HNone (VBind 1 false) false false true false false false None [] (mkEnc false true false)]
      (mkEnc false false true) []]
    23 (Some 32) [] (mkEnc true false false).

Definition cfg_mtu300 : cfg :=
  mkCfg
    [mkSvc (U16 6160) false None []
      [mkChar (U16 10752) HNone (VBind 64 false) false false true false false false None [] (mkEnc false false false);
       mkChar (U16 10752) HNone (VBind 64 false) false false false false false false None [] (mkEnc false false false);
       mkChar (U16 10752) HNone (VBind 64 false) false false false false false false None [] (mkEnc false false false);
       mkChar (U16 10752) HNone (VBind 64 false) false false false false false false None [] (mkEnc false false false);
       mkChar (U16 10752) HNone (VBind 64 false) false false false false false false None [] (mkEnc false false false);
       mkChar (U16 10752) HNone (VBind 64 false) false false false false false false None [] (mkEnc false false false)]
      (mkEnc false false false) [];
     mkSvc (U16 6161) false None []
      [mkChar (U16 10752) HNone (VBind 4 false) false false false false false false None [] (mkEnc false false false);
       mkChar (U16 10752) HNone (VBind 4 false) false false false false false false None [] (mkEnc false false false);
       mkChar (U16 10752) HNone (VBind 4 false) false false false false false false None [] (mkEnc false false false);
       mkChar (U16 10752) HNone (VBind 4 false) false false false false false false None [] (mkEnc false false false);
       mkChar (U16 10752) HNone (VBind 4 false) false false false false false false None [] (mkEnc false false false);
       mkChar (U16 10752) HNone (VBind 4 false) false false false false false false None [] (mkEnc false false false);
       mkChar (U16 10752) HNone (VBind 4 false) false false false false false false None [] (mkEnc false false false);
       mkChar (U16 10752) HNone (VBind 4 false) false false false false false false None [] (mkEnc false false false);
       mkChar (U16 10752) HNone (VBind 4 false) false false false false false false None [] (mkEnc false false false);
       mkChar (U16 10752) HNone (VBind 4 false) false false false false false false None [] (mkEnc false false false)]
      (mkEnc false false false) [];
     mkSvc (U16 6176) false None []
      [mkChar (U16 11008) HNone (VBind 1 false) false false false false false false None [] (mkEnc false false false)]
      (mkEnc false false false) [];
     mkSvc (U16 6177) false None []
      [mkChar (U16 11008) HNone (VBind 1 false) false false false false false false None [] (mkEnc false false false)]
      (mkEnc false false false) [];
     mkSvc (U16 6178) false None []
      [mkChar (U16 11008) HNone (VBind 1 false) false false false false false false None [] (mkEnc false false false)]
      (mkEnc false false false) [];
     mkSvc (U16 6179) false None []
      [mkChar (U16 11008) HNone (VBind 1 false) false false false false false false None [] (mkEnc false false false)]
      (mkEnc false false false) [];
     mkSvc (U16 6180) false None []
      [mkChar (U16 11008) HNone (VBind 1 false) false false false false false false None [] (mkEnc false false false)]
      (mkEnc false false false) [];
     mkSvc (U16 6181) false None []
      [mkChar (U16 11008) HNone (VBind 1 false) false false false false false false None [] (mkEnc false false false)]
      (mkEnc false false false) [];
     mkSvc (U16 6182) false None []
      [mkChar (U16 11008) HNone (VBind 1 false) false false false false false false None [] (mkEnc false false false)]
      (mkEnc false false false) [];
     mkSvc (U16 6183) false None []
      [mkChar (U16 11008) HNone (VBind 1 false) false false false false false false None [] (mkEnc false false false)]
      (mkEnc false false false) [];
     mkSvc (U16 6184) false None []
      [mkChar (U16 11008) HNone (VBind 1 false) false false false false false false None [] (mkEnc false false false)]
      (mkEnc false false false) [];
     mkSvc (U16 6185) false None []
      [mkChar (U16 11008) HNone (VBind 1 false) false false false false false false None [] (mkEnc false false false)]
      (mkEnc false false false) [];
     mkSvc (U16 6186) false None []
      [mkChar (U16 11008) HNone (VBind 1 false) false false false false false false None [] (mkEnc false false false)]
      (mkEnc false false false) [];
     mkSvc (U16 6187) false None []
      [mkChar (U16 11008) HNone (VBind 1 false) false false false false false false None [] (mkEnc false false false)]
      (mkEnc false false false) []]
    300 (Some 142) [] (mkEnc false false false).

Definition cfg_values : cfg :=
  mkCfg
    [mkSvc (U16 6160) false None []
      [mkChar (U16 10752) HNone (VBind 1 false) false false false false false false None [] (mkEnc false false false);
       mkChar (U16 10753) HNone (VBind 2 true) false false false false false false None [] (mkEnc false false false);
       mkChar (U16 10754) HNone (VBind 4 false) false false false false true false None [] (mkEnc false false false);
       mkChar (U16 10755) HNone (VBind 20 false) false false false false false true None [] (mkEnc false false false);
       mkChar (U16 10756) HNone (VBind 23 false) true false false false false false None [] (mkEnc false false false);
       mkChar (U16 10757) HNone (VBind 64 false) false true true false false false None [] (mkEnc false false false)]
      (mkEnc false false false) [];
     mkSvc (U128 [0; 1; 199; 91; 237; 78; 138; 162; 159; 73; 226; 13; 148; 64; 139; 140]) false None []
      [mkChar (U16 10768) HNone (VFixed 1 66) false false false false false false None [] (mkEnc false false false);
       mkChar (U16 10769) HNone (VFixed 2 48879) false false true false false false None [] (mkEnc false false false);
       mkChar (U16 10770) HNone (VFixed 4 287454020) true false false false false false None [] (mkEnc false false false);
       mkChar (U16 10771) HNone (VString [98; 108; 117; 101; 116; 111; 101]) false false false false false false None [] (mkEnc false false false);
       mkChar (U16 10772) HNone (VString [0; 255; 16; 32; 48; 64]) false false false false false false None [] (mkEnc false false false);
       mkChar (U16 10773) HNone (VString []) false false false false false false (Some []) [] (mkEnc false false false)]
      (mkEnc false false false) [];
     mkSvc (U16 6162) false None []
      [mkChar (U16 10784) HNone (VBind 2 false) false false true false false false (Some [97; 32; 110; 97; 109; 101]) [(10506, [170; 187; 204; 221; 238; 255; 0; 17; 34; 51])] (mkEnc false false false)]
      (mkEnc false false false) []]
    23 (Some 0) [] (mkEnc false false false).

Definition cfg_cccd9 : cfg :=
  mkCfg
    [mkSvc (U16 6160) false None []
      [mkChar (U16 10752) HNone (VBind 1 false) false false true false false false None [] (mkEnc false false false);
       mkChar (U16 10753) HNone (VBind 2 false) false false false true false false None [] (mkEnc false false false);
       mkChar (U16 10754) HNone (VBind 3 false) false false true true false false None [] (mkEnc false false false);
       mkChar (U16 10755) HNone (VBind 1 false) false false true false false false None [] (mkEnc false false false);
       mkChar (U16 10756) HNone (VBind 2 false) false false false true false false None [] (mkEnc false false false)]
      (mkEnc false false false) [];
     mkSvc (U16 6161) false None []
      [mkChar (U16 11008) HNone (VBind 2 false) false false false false false false None [] (mkEnc false false false);
       mkChar (U16 11009) HNone (VBind 2 false) false false true false false false None [] (mkEnc false false false);
       mkChar (U16 11010) HNone (VBind 2 false) false false true false false false None [] (mkEnc false false false);
       mkChar (U16 11011) HNone (VBind 2 false) false false true false false false None [] (mkEnc false false false);
       mkChar (U16 11012) HNone (VBind 2 false) false false true false false false None [] (mkEnc false false false)]
      (mkEnc false false false) []]
    23 (Some 32) [] (mkEnc false false false).
Example examples_wf :
  forallb wf_b [cfg_basic3; cfg_fixed_handles; cfg_includes; cfg_includes_fixed; cfg_secondary; cfg_priorities;
                cfg_priorities2; cfg_enc_server_requires; cfg_mtu300; cfg_values; cfg_cccd9] = true.
Proof. vm_compute. reflexivity. Qed.
