(* Monitor-independent theorems about the security manager model (properties C33, C34): statements directly
   over SMModel.step / run / run_state, for every tool box, bond data base, configuration and every
   operation list of any length. No monitor of SMSpec.v occurs in a statement. *)
From BT Require Import Base.ListX SM.SMModel SM.ToyCrypto.
From Coq Require Import Lia ZifyBool.
From BT Require SMSelect.SMSelectModel.
Local Open Scope N_scope.

Section Direct.
Variable K : crypto.
Variable DB : Type.
Variable D : dbops DB.

Notation state := (state DB).
Notation step := (step K D).
Notation run := (run K D).
Notation run_state := (run_state K D).

(* ---- traces and states ---- *)
Lemma run_app c ops1 : forall s ops2, run c s (ops1 ++ ops2) = run c s ops1 ++ run c (run_state c s ops1) ops2.
Proof.
  induction ops1 as [|o t IH]; intros s ops2; cbn [app SMModel.run SMModel.run_state]; auto.
  destruct (step c s o) as [s' r] eqn:E. cbn [fst app]. rewrite IH. reflexivity.
Qed.
Lemma run_state_app c ops1 : forall s ops2, run_state c s (ops1 ++ ops2) = run_state c (run_state c s ops1) ops2.
Proof. induction ops1 as [|o t IH]; intros s ops2; cbn [app SMModel.run_state]; auto. Qed.

(* what the bond data base answers (no bond data base: nothing) *)
Definition bond_answer (c : smcfg) (s : state) (ediv rnd : N) : option (list N) :=
  if c_bond c then db_find D (bonds s) ediv rnd (remote_addr (peer s)) else None.
(* the answer without a completed pairing on the connection (no security manager: nothing) *)
Definition unpaired_answer (c : smcfg) (s : state) (ediv rnd : N) : option (list N) :=
  match c_var c with MNone => None | _ => bond_answer c s ediv rnd end.

(* ---- (1) C33: the answer to find_key in every state ---- *)
Lemma key_answer_all_states c (s : state) ediv rnd :
  dead s = false ->
  exists k, step c s (Key ediv rnd) = (s, OKey k) /\
    ( (k = Some (ltk s) /\ st s = Completed /\ ediv = 0 /\ rnd = 0 /\ c_var c <> MNone)
      \/ (k = unpaired_answer c s ediv rnd /\ (st s <> Completed \/ ediv <> 0 \/ rnd <> 0 \/ c_var c = MNone)) ).
Proof.
  intros Hd. unfold SMModel.step. rewrite Hd. eexists. split; [reflexivity|].
  unfold find_key, unpaired_answer, bond_answer.
  destruct (pstate_eqb (st s) Completed) eqn:Ec.
  - assert (st s = Completed) as Hc by (destruct (st s); try discriminate Ec; reflexivity).
    destruct (ediv =? 0) eqn:E1; [destruct (rnd =? 0) eqn:E2|]; cbn [andb].
    + destruct (c_var c) eqn:Ev.
      * left. repeat split; auto; try lia; discriminate.
      * left. repeat split; auto; try lia; discriminate.
      * left. repeat split; auto; try lia; discriminate.
      * right. split; auto.
    + right. split; [destruct (c_var c); reflexivity|]. right. right. left. lia.
    + right. split; [destruct (c_var c); reflexivity|]. right. left. lia.
  - right. cbn [andb]. split; [destruct (c_var c); reflexivity|]. left. intros H. rewrite H in Ec. discriminate Ec.
Qed.

Theorem key_answer_reachable c db0 ops ediv rnd :
  let s := run_state c (init_state db0) ops in
  dead s = false ->
  exists k,
    run c (init_state db0) (ops ++ [Key ediv rnd]) = run c (init_state db0) ops ++ [(Key ediv rnd, OKey k)] /\
    ( (k = Some (ltk s) /\ st s = Completed /\ ediv = 0 /\ rnd = 0 /\ c_var c <> MNone)
      \/ (k = unpaired_answer c s ediv rnd /\ (st s <> Completed \/ ediv <> 0 \/ rnd <> 0 \/ c_var c = MNone)) ).
Proof.
  intros s Hd. destruct (key_answer_all_states c s ediv rnd Hd) as [k [E H]].
  exists k. split; auto. rewrite run_app. fold s. cbn [SMModel.run]. rewrite E. reflexivity.
Qed.

(* ---- shape of the PDUs the handlers produce ---- *)
Ltac brk := repeat match goal with
  | |- context [match ?x with _ => _ end] => destruct x eqn:?
  | H : context [match ?x with _ => _ end] |- _ => destruct x eqn:?
  end.
Ltac fin := cbn; repeat split; intros; try discriminate; auto; try congruence.

(* the result of an input handler: Pairing Failed leaves the state idle; never a key distribution PDU *)
Definition in_shape (s : state) (x : res DB) : Prop :=
  dead (fst (fst x)) = dead s /\ (hd 0 (snd (fst x)) = 5 -> st (fst (fst x)) = Idle) /\ hd 0 (snd (fst x)) <> 6 /\ hd 0 (snd (fst x)) <> 7.

Ltac UU := unfold in_shape, legacy_start, lesc_start, request_oob, create_tk, with_passkey, with_mconfirm, arm_key_distribution, legacy_completed, lesc_completed, request_yes_no, fail.
Ltac inv_pairs := repeat match goal with H : (_, _) = (_, _) |- _ => inversion H; clear H; subst end.

Lemma fail_shape s code : in_shape s (fail s code).
Proof. unfold in_shape, fail. fin. Qed.
Lemma legacy_start_shape c s pdu io : in_shape s (legacy_start K s pdu (pairing_response c io)).
Proof. unfold in_shape, legacy_start. fin. Qed.
Lemma legacy_request_shape c s pdu : in_shape s (legacy_request K c s pdu).
Proof. unfold legacy_request. brk; auto using fail_shape. UU; fin. Qed.
Lemma create_tk_dead c (s : state) : dead (fst (create_tk K c s)) = dead s.
Proof. unfold create_tk. destruct (lalg s); reflexivity. Qed.
Lemma legacy_confirm_shape c s pdu : in_shape s (legacy_confirm K c s pdu).
Proof.
  unfold legacy_confirm.
  destruct (negb (len pdu =? 17)); [apply fail_shape|].
  destruct (negb (pstate_eqb (st s) LegacyRequested)); [apply fail_shape|].
  pose proof (create_tk_dead c (set_st (with_mconfirm s (sub pdu 1 16)) LegacyConfirmed)) as Hd.
  destruct (create_tk K c _) as [s2 tk]. change (dead s2 = dead s) in Hd.
  unfold in_shape. cbn [fst snd hd]. repeat split; auto; discriminate.
Qed.
Lemma arm_dead c (s : state) : dead (fst (arm_key_distribution D c s)) = dead s.
Proof.
  unfold arm_key_distribution. destruct (c_bond c); [|reflexivity].
  destruct (db_new D (bonds s) (rctr s) (remote_addr (peer s))) as [[k r] e]. reflexivity.
Qed.
Lemma legacy_completed_dead c (s : state) k : dead (legacy_completed c s k) = dead s.
Proof. unfold legacy_completed. destruct (c_var c); reflexivity. Qed.
Lemma lesc_completed_dead c (s : state) k : dead (fst (lesc_completed D c s k)) = dead s.
Proof. unfold lesc_completed. destruct (c_var c); destruct (c_bond c); reflexivity. Qed.
Lemma lesc_completed_st c (s : state) k : st (fst (lesc_completed D c s k)) = Completed.
Proof. unfold lesc_completed. destruct (c_var c); destruct (c_bond c); reflexivity. Qed.
Lemma legacy_random_shape c s pdu : in_shape s (legacy_random K D c s pdu).
Proof.
  unfold legacy_random.
  destruct (negb (len pdu =? 17)); [apply fail_shape|].
  destruct (negb (pstate_eqb (st s) LegacyConfirmed)); [apply fail_shape|].
  destruct (negb _); [apply fail_shape|].
  pose proof (arm_dead c (legacy_completed c s (k_s1 K (stored_tk K c s) (l_srand (leg s)) (sub pdu 1 16)))) as Hd.
  rewrite legacy_completed_dead in Hd.
  destruct (arm_key_distribution D c _) as [s2 ev]. cbn [fst] in Hd.
  unfold in_shape. cbn [fst snd hd]. repeat split; auto; discriminate.
Qed.
Lemma lesc_start_shape c s pdu : in_shape s (lesc_start c s pdu).
Proof. unfold in_shape, lesc_start. fin. Qed.
Lemma lesc_request_shape c s pdu : in_shape s (lesc_request c s pdu).
Proof. unfold lesc_request. brk; auto using fail_shape, lesc_start_shape. Qed.
Lemma both_request_shape c s pdu : in_shape s (both_request K c s pdu).
Proof. unfold both_request. brk; auto using fail_shape; UU; fin. Qed.
Lemma lesc_public_key_shape c s pdu : in_shape s (lesc_public_key K c s pdu).
Proof. unfold lesc_public_key. brk; auto using fail_shape. unfold in_shape. fin. Qed.
Lemma lesc_random_shape c s pdu : in_shape s (lesc_random K c s pdu).
Proof. unfold lesc_random, request_yes_no. brk; auto using fail_shape; UU; brk; inv_pairs; fin. Qed.
Lemma lesc_dhkey_check_shape c s pdu : in_shape s (lesc_dhkey_check K D c s pdu).
Proof. unfold lesc_dhkey_check, lesc_completed. brk; auto using fail_shape; UU; brk; inv_pairs; fin. Qed.

Lemma l2cap_input_shape c s pdu : c_var c <> MNone -> in_shape s (l2cap_input K D c s pdu).
Proof.
  intros Hv. unfold l2cap_input. destruct (c_var c) eqn:Ev; [| | |congruence];
  brk; auto using fail_shape, legacy_request_shape, legacy_confirm_shape, legacy_random_shape, lesc_request_shape,
    both_request_shape, lesc_public_key_shape, lesc_random_shape, lesc_dhkey_check_shape.
Qed.
Lemma l2cap_input_no_dist c s pdu :
  hd 0 (snd (fst (l2cap_input K D c s pdu))) <> 6 /\ hd 0 (snd (fst (l2cap_input K D c s pdu))) <> 7.
Proof.
  destruct (c_var c) eqn:Ev.
  4: { unfold l2cap_input. rewrite Ev. cbn. split; discriminate. }
  all: apply l2cap_input_shape; congruence.
Qed.

(* the result of an output poll *)
Definition out_shape (c : smcfg) (s : state) (x : res DB) : Prop :=
  let s' := fst (fst x) in let h := hd 0 (snd (fst x)) in
  dead s' = dead s /\ (h = 5 -> st s' = Idle)
  /\ (h = 6 -> c_bond c = true /\ encrypted s = true /\ d_enc (dist s) = true /\ d_enc (dist s') = false
              /\ snd (fst x) = 6 :: d_key (dist s))
  /\ (h = 7 -> c_bond c = true /\ encrypted s = true /\ d_enc (dist s) = false /\ d_id (dist s) = true
              /\ d_id (dist s') = false /\ d_enc (dist s') = false
              /\ snd (fst x) = 7 :: le16 (d_ediv (dist s)) ++ le64 (d_rand (dist s))).

Lemma distribute_shape c s : out_shape c s (distribute_keys c s).
Proof.
  unfold distribute_keys, out_shape.
  destruct (c_bond c) eqn:Eb; destruct (encrypted s) eqn:Ee; cbn [andb]; try solve [fin].
  destruct (d_enc (dist s)) eqn:E1; [solve [fin]|]. destruct (d_id (dist s)) eqn:E2; fin.
Qed.
Lemma lesc_output_shape c s : out_shape c s (lesc_output K D c s).
Proof. unfold lesc_output, lesc_completed, fail. brk; unfold out_shape; inv_pairs; brk; fin. Qed.
Lemma l2cap_output_shape c s : out_shape c s (l2cap_output K D c s).
Proof.
  unfold l2cap_output. brk; auto using distribute_shape, lesc_output_shape; unfold out_shape; fin.
Qed.

(* ---- (2) C33: a Pairing Failed response and a new connection leave no completed pairing ---- *)
Ltac ifs H := repeat match type of H with context [if ?b then _ else _] => destruct b end; try discriminate H.

Lemma step_failed_idle c (s s' : state) o r ev :
  step c s o = (s', OResp (5 :: r) ev) -> c_var c <> MNone -> st s' = Idle /\ dead s' = false.
Proof.
  unfold SMModel.step. destruct (dead s) eqn:Hd; [discriminate|]. intros H Hv.
  destruct o; try discriminate H; try solve [ifs H].
  - pose proof (l2cap_input_shape c s pdu Hv) as [P1 [P2 _]].
    destruct (l2cap_input K D c s pdu) as [[s1 r1] e1]. inversion H; subst. cbn [fst snd hd] in *.
    split; [apply P2; reflexivity|congruence].
  - pose proof (l2cap_output_shape c s) as [P1 [P2 _]].
    destruct (l2cap_output K D c s) as [[s1 r1] e1]. inversion H; subst. cbn [fst snd hd] in *.
    split; [apply P2; reflexivity|congruence].
Qed.
Lemma step_failed_alive_none c (s s' : state) o r ev :
  step c s o = (s', OResp (5 :: r) ev) -> c_var c = MNone -> dead s' = false.
Proof.
  unfold SMModel.step. destruct (dead s) eqn:Hd; [discriminate|]. intros H Hv.
  destruct o; try discriminate H; try solve [ifs H].
  - unfold l2cap_input in H. rewrite Hv in H. inversion H; subst; auto.
  - unfold l2cap_output in H. rewrite Hv in H. inversion H.
Qed.

Lemma key_unpaired c (s : state) :
  dead s = false -> (c_var c <> MNone -> st s = Idle) -> step c s (Key 0 0) = (s, OKey (unpaired_answer c s 0 0)).
Proof.
  intros Hd Hi. unfold SMModel.step. rewrite Hd. unfold find_key, unpaired_answer, bond_answer.
  destruct (c_var c) eqn:Ev; try reflexivity; rewrite Hi by discriminate; reflexivity.
Qed.

(* whatever happened before: directly after a step answered with Pairing Failed, find_key( 0, 0 ) yields only
   what the bond data base holds for the peer (nothing without a bond data base) *)
Theorem key_after_failed_pairing c db0 ops o r ev :
  let s := run_state c (init_state db0) ops in
  snd (step c s o) = OResp (5 :: r) ev ->
  run c (init_state db0) (ops ++ [o; Key 0 0]) =
  run c (init_state db0) ops ++
    [(o, OResp (5 :: r) ev); (Key 0 0, OKey (unpaired_answer c (fst (step c s o)) 0 0))].
Proof.
  intros s H. rewrite run_app. fold s. cbn [SMModel.run].
  destruct (step c s o) as [s' x] eqn:E. cbn [fst snd] in *. subst x.
  rewrite key_unpaired; [reflexivity| |].
  - destruct (c_var c) eqn:Ev.
    4: { eapply step_failed_alive_none; eauto. }
    all: eapply step_failed_idle; eauto; congruence.
  - intros Hv. eapply step_failed_idle; eauto.
Qed.

(* the same directly after a new connection *)
Theorem key_after_new_connection c db0 ops a :
  let s := run_state c (init_state db0) ops in
  dead s = false ->
  run c (init_state db0) (ops ++ [Reset a; Key 0 0]) =
  run c (init_state db0) ops ++
    [(Reset a, ODone); (Key 0 0, OKey (unpaired_answer c (new_connection s a) 0 0))].
Proof.
  intros s Hd. rewrite run_app. fold s. cbn [SMModel.run].
  assert (step c s (Reset a) = (new_connection s a, ODone)) as E by (unfold SMModel.step; rewrite Hd; reflexivity).
  rewrite E. rewrite key_unpaired; auto.
Qed.

(* ---- (3), (4) C34: key distribution PDUs ---- *)
(* in EVERY state: a step answers with Encryption Information (6) or Central Identification (7) only on an
   output poll, with a bond data base, while the link is encrypted and the item is pending; afterwards the
   item is no longer pending *)
Theorem dist_pdu_step c (s s' : state) o h r ev :
  step c s o = (s', OResp (h :: r) ev) -> h = 6 \/ h = 7 ->
  o = Out /\ c_bond c = true /\ encrypted s = true
  /\ (h = 6 -> d_enc (dist s) = true /\ d_enc (dist s') = false /\ r = d_key (dist s))
  /\ (h = 7 -> d_enc (dist s) = false /\ d_id (dist s) = true /\ d_id (dist s') = false /\ d_enc (dist s') = false
              /\ r = le16 (d_ediv (dist s)) ++ le64 (d_rand (dist s))).
Proof.
  unfold SMModel.step. destruct (dead s) eqn:Hd; [discriminate|]. intros H Hh.
  destruct o; try discriminate H; try solve [ifs H].
  - pose proof (l2cap_input_no_dist c s pdu) as [P6 P7].
    destruct (l2cap_input K D c s pdu) as [[s1 r1] e1]. inversion H; subst. cbn [fst snd hd] in *.
    destruct Hh; congruence.
  - pose proof (l2cap_output_shape c s) as [_ [_ [P6 P7]]].
    destruct (l2cap_output K D c s) as [[s1 r1] e1]. inversion H; subst. cbn [fst snd hd] in *.
    split; [reflexivity|]. destruct Hh as [Hh|Hh]; subst h.
    + destruct (P6 eq_refl) as [A [B [C [E F]]]]. repeat split; auto; try discriminate. congruence.
    + destruct (P7 eq_refl) as [A [B [C [E [F [G I]]]]]]. repeat split; auto; try discriminate. congruence.
Qed.

(* over traces: the operation that made the model emit the PDU found the link encrypted *)
Theorem dist_pdu_only_encrypted c db0 ops o h r ev :
  let s := run_state c (init_state db0) ops in
  snd (step c s o) = OResp (h :: r) ev -> h = 6 \/ h = 7 ->
  o = Out /\ c_bond c = true /\ encrypted s = true.
Proof.
  intros s H Hh. destruct (step c s o) as [s' x] eqn:E. cbn [snd] in H. subst x.
  destruct (dist_pdu_step c _ _ _ _ _ _ E Hh) as [A [B [C _]]]. auto.
Qed.

(* over traces: once sent, an item is not pending in the state after the step *)
Theorem dist_pdu_not_pending_afterwards c db0 ops o h r ev :
  let s := run_state c (init_state db0) ops in
  let s' := run_state c (init_state db0) (ops ++ [o]) in
  snd (step c s o) = OResp (h :: r) ev ->
  (h = 6 -> d_enc (dist s) = true /\ d_enc (dist s') = false) /\
  (h = 7 -> d_id (dist s) = true /\ d_id (dist s') = false /\ d_enc (dist s') = false).
Proof.
  intros s s' H. unfold s'. rewrite run_state_app. fold s. cbn [SMModel.run_state].
  destruct (step c s o) as [s1 x] eqn:E. cbn [fst snd] in *. subst x.
  split; intros Hh.
  - destruct (dist_pdu_step c _ _ _ _ _ _ E (or_introl Hh)) as [_ [_ [_ [P _]]]]. destruct (P Hh) as [A [B _]]. auto.
  - destruct (dist_pdu_step c _ _ _ _ _ _ E (or_intror Hh)) as [_ [_ [_ [_ P]]]]. destruct (P Hh) as [_ [A [B [C _]]]]. auto.
Qed.

End Direct.

(* ---- the hypotheses are satisfiable: concrete traces on the toy tool box ---- *)
From BT Require SM.SMProofs.
Definition ex_cfg := SMProofs.cfg_keyboard_display.
Definition ex_state (n : nat) := run_state toy toydbops ex_cfg (init_state ([] : toydb)) (firstn n SMProofs.w_legacy_passkey).

(* after the passkey pairing: the connection's key for (0,0), the bond data base's answer (nothing) for (7,7) *)
Example key_answer_witness :
  dead (ex_state 4) = false /\ st (ex_state 4) = Completed
  /\ snd (step toy toydbops ex_cfg (ex_state 4) (Key 0 0)) = OKey (Some (ltk (ex_state 4)))
  /\ snd (step toy toydbops ex_cfg (ex_state 4) (Key 7 7)) = OKey None.
Proof. vm_compute. repeat split; reflexivity. Qed.
(* a stray PDU after the completed pairing is answered with Pairing Failed *)
Example key_after_failed_pairing_witness :
  st (ex_state 4) = Completed /\ snd (step toy toydbops ex_cfg (ex_state 4) (In [11])) = OResp [5; 7] [].
Proof. vm_compute. split; reflexivity. Qed.
Example key_after_new_connection_witness :
  st (ex_state 4) = Completed /\ dead (ex_state 4) = false.
Proof. vm_compute. split; reflexivity. Qed.
(* the two polls on the encrypted link *)
Example dist_pdu_witness :
  (exists k, snd (step toy toydbops ex_cfg (ex_state 9) Out) = OResp (6 :: k) [])
  /\ (exists ci, snd (step toy toydbops ex_cfg (ex_state 10) Out) = OResp (7 :: ci) []).
Proof. split; eexists; vm_compute; reflexivity. Qed.
