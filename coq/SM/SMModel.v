(* Executable model of bluetoe's security managers (properties C32..C35). Definitions only.

   Transcribed code (bluetoe/sm/include/bluetoe/):
     security_manager.hpp           security_manager_base (all legacy_* / lesc_* handlers, create_pairing_response,
                                    legacy_c1_p1/p2, *_local_io_caps, lesc_l2cap_output), legacy_security_manager_impl,
                                    lesc_security_manager_impl, security_manager_impl (l2cap_input / l2cap_output /
                                    handle_pairing_request), no_security_manager, bonding_data_base::bonding_db_data_t
                                    (find_key, arm_key_distribution, store_lesc_key_in_bond_db, distribute_keys),
                                    no_bonding_data_base
     security_connection_data.hpp   security_connection_data_base, legacy_/lesc_/security_connection_data
     io_capabilities.hpp            pairing_no_input / pairing_yes_no / pairing_keyboard (sm_pairing_passkey,
                                    sm_pairing_request_yes_no), pairing_no_output / pairing_numeric_output
                                    (sm_pairing_numeric_output, sm_pairing_numeric_compare_output); the selection
                                    functions are those of SMSelect/SMSelectModel.v (property C36)
     oob_authentication.hpp         oob_authentication_callback / no_oob_authentication
     link_state.hpp, pairing_status.hpp and the use the link layer makes of them
                                    (link_layer.hpp: find_key on LL_ENC_REQ, is_encrypted / pairing_status on
                                    encryption changes, connection_data_ = connection_data_t() on a new connection)

   The SecurityFunctions template argument (c1, s1, f4, f5, f6, g2, p256, is_valid_public_key and the
   random sources create_srand, create_passkey, generate_keys, select_random_nonce) is the record
   [crypto], a Section variable; the bond data base is the record [dbops] over an abstract type DB.
   Random sources are functions of a call counter (rctr) that every call advances.
   All byte strings are [list N]; the tool box is expected to return 16-byte values (64/32 for keys),
   as the C++ std::array types force.

   Not modelled: the unions in the connection data (no handler reads a member of a union after another
   member was written without rewriting it first: every handler tests the state before touching the data
   and each state belongs to one pairing flavour); NDEBUG builds (asserts are on: a yes_no_response()
   outside user_response_wait is the outcome Fault). *)
From BT Require Import Base.ListX.
From BT Require SMSelect.SMSelectModel.

Local Open Scope N_scope.
Set Implicit Arguments.

(* ---- byte helpers ---- *)
Definition len (b : list N) : N := N.of_nat (length b).
Definition sub (b : list N) (off n : nat) : list N := firstn n (skipn off b).
Definition byte (b : list N) (i : nat) : N := nth i b 0.
Fixpoint list_eqb (a b : list N) : bool :=
  match a, b with
  | [], [] => true
  | x :: a', y :: b' => (x =? y) && list_eqb a' b'
  | _, _ => false
  end.
Definition zeros (n : nat) : list N := repeat 0 n.
Definition le16 (n : N) : list N := [n mod 256; (n / 256) mod 256].
Definition le32 (n : N) : list N := [n mod 256; (n / 256) mod 256; (n / 65536) mod 256; (n / 16777216) mod 256].
Definition le64 (n : N) : list N := le32 (n mod 4294967296) ++ le32 (n / 4294967296).
Definition rd32 (b : list N) : N := byte b 0 + 256 * byte b 1 + 65536 * byte b 2 + 16777216 * byte b 3.

(* ---- configuration: the template arguments and the behaviour of the application's handlers ---- *)
Inductive smvariant := MLegacy | MLesc | MBoth | MNone.
Inductive yn_mode := SyncYes | SyncNo | Async.   (* what the application's sm_pairing_yes_no() does *)
Record smcfg := mksmcfg {
  c_var : smvariant;
  c_inp : SMSelectModel.input_cap;
  c_outp : SMSelectModel.output_cap;
  c_oob : bool;         (* oob_authentication_callback<> present; the handler has data for even peers *)
  c_bond : bool;        (* bonding_data_base<> present *)
  c_yn : yn_mode;
  c_legacy_oob : bool   (* combined manager: legacy Pairing Response carries the legacy OOB flag
                           (GenSM.combined_legacy_response_oob_flag) *)
}.
(* configurations that compile: pairing_keyboard<> has no sm_pairing_request_yes_no(), so l2cap_input of the
   LESC-only and the combined manager cannot be instantiated with it *)
Definition wf (c : smcfg) : bool :=
  match c_inp c, c_var c with
  | SMSelectModel.InKeyboard, MLesc | SMSelectModel.InKeyboard, MBoth => false
  | _, _ => true
  end.

(* ---- the SecurityFunctions tool box and the user's OOB data ---- *)
Record crypto := mkcrypto {
  k_c1 : list N -> list N -> list N -> list N -> list N;      (* temp_key, rand, p1, p2 *)
  k_s1 : list N -> list N -> list N -> list N;                (* temp_key, srand, mrand *)
  k_f4 : list N -> list N -> list N -> N -> list N;           (* u (32), v (32), x, z *)
  k_f5 : list N -> list N -> list N -> list N -> list N -> list N * list N;   (* dhkey, n1, n2, a1, a2 -> mackey, ltk *)
  k_f6 : list N -> list N -> list N -> list N -> list N -> list N -> list N -> list N;  (* w, n1, n2, r, iocap, a1, a2 *)
  k_g2 : list N -> list N -> list N -> list N -> N;           (* u (32), v (32), x, y *)
  k_p256 : list N -> list N -> list N;                        (* private key (32), public key (64) *)
  k_valid : list N -> bool;                                   (* is_valid_public_key (64) *)
  k_srand : N -> list N;                                      (* create_srand, n-th call of the tool box *)
  k_nonce : N -> list N;                                      (* select_random_nonce *)
  k_keys : N -> list N * list N;                              (* generate_keys -> public (64), private (32) *)
  k_passkey : N -> list N;                                    (* create_passkey *)
  k_oob : list N;                                             (* what sm_oob_authentication_data() returns *)
  k_dhpub : list N -> list N -> list N                        (* NOT part of the tool box and not used by the model:
                                                                 the Diffie-Hellman function on two PUBLIC keys, which
                                                                 the specification monitors use to say what a correct
                                                                 DHKey check is (hypothesis dh_ok in SMSpec.v) *)
}.

(* ---- the user's bond data base (bonding_data_base< Obj, obj >) ---- *)
Record dbops (DB : Type) := mkdb {
  db_find : DB -> N -> N -> list N -> option (list N);        (* ediv, rand, remote address *)
  db_store : DB -> list N -> list N -> N -> N -> DB;          (* remote address, key, rand, ediv *)
  db_new : DB -> N -> list N -> list N * N * N                (* create_new_bond( radio, mac ) -> key, rand, ediv *)
}.
Arguments db_find {DB}. Arguments db_store {DB}. Arguments db_new {DB}.

(* enum class sm_pairing_state *)
Inductive pstate :=
| Idle | Completed | UserWait | UserFailed | UserSuccess
| LegacyRequested | LegacyConfirmed
| LescRequested | LescKeysExchanged | LescConfirmSend | LescRandomExchanged.
Definition pstate_code (p : pstate) : N :=
  match p with
  | Idle => 0 | Completed => 1 | UserWait => 2 | UserFailed => 3 | UserSuccess => 4
  | LegacyRequested => 5 | LegacyConfirmed => 6
  | LescRequested => 7 | LescKeysExchanged => 8 | LescConfirmSend => 9 | LescRandomExchanged => 10
  end.
Definition pstate_eqb (a b : pstate) : bool := pstate_code a =? pstate_code b.

(* device_pairing_status *)
Definition no_key : N := 0.
Definition unauthenticated_key : N := 1.
Definition authenticated_key : N := 2.

(* callbacks into the application, in call order *)
Inductive event :=
| EDisplay (n : N)                              (* sm_pairing_numeric_output( int ) *)
| EYesNo                                        (* sm_pairing_yes_no( response ) *)
| EStore (key : list N) (rand ediv : N).        (* bond data base: store_bond *)

Inductive op :=
| In (pdu : list N)         (* l2cap_input on the SM channel *)
| Out                       (* the link layer polls l2cap_output *)
| Yes | No                  (* the application answers the stored pairing_yes_no_response *)
| Passkey (n : N)           (* the user types n: what sm_pairing_passkey() will return *)
| Enc (b : bool)            (* link layer: the link became encrypted / unencrypted *)
| Key (ediv rand : N)       (* link layer: find_key( ediv, rand ) for LL_ENC_REQ *)
| Status                    (* local_device_pairing_status() and the link's pairing_status() *)
| Reset (a : N)             (* new connection (fresh connection data) from the peer with address byte a *)
| Bond (a ediv rnd kb : N). (* the application's bond data base already holds (gets) a bond for peer a under
                               (ediv, rnd) with the key kb kb .. kb - e.g. from an earlier life of the device *)

Inductive out :=
| OResp (b : list N) (ev : list event)    (* PDU to send ([] = none) and the callbacks made *)
| OKey (k : option (list N))
| OStatus (loc link : N)
| ODone
| ONoPending                (* Yes / No without a stored response object: nothing is called *)
| OFault                    (* assert *)
| OSkipped.                 (* after a Fault the process is gone *)

Record legacy_data := mkleg { l_p1 : list N; l_p2 : list N; l_srand : list N; l_mconfirm : list N; l_passkey : list N }.
Record lesc_data := mkles { s_sk : list N; s_pk : list N; s_rpk : list N; s_nonce : list N; s_rnonce : list N; s_rio : list N }.
Record dist_data := mkdist { d_enc : bool; d_id : bool; d_key : list N; d_rand : N; d_ediv : N }.
Definition leg0 : legacy_data := mkleg (zeros 16) (zeros 16) (zeros 16) (zeros 16) (zeros 16).
Definition les0 : lesc_data := mkles (zeros 32) (zeros 64) (zeros 64) (zeros 16) (zeros 16) (zeros 3).
Definition dist0 : dist_data := mkdist false false (zeros 16) 0 0.

(* addresses: the peer is a random device address whose first byte is the Reset argument, the local
   device a public address; [type; 6 address bytes] *)
Definition remote_addr (a : N) : list N := [1; a mod 256; 161; 162; 163; 164; 165].
Definition local_addr : list N := [0; 177; 178; 179; 180; 181; 182].

Section SM.
Variable K : crypto.
Variable DB : Type.
Variable D : dbops DB.

Record state := mk {
  dead : bool;
  oob_present : bool;
  rctr : N;
  passkey_in : N;
  resp_pending : bool;
  bonds : DB;
  st : pstate;
  peer : N;
  encrypted : bool;
  link_status : N;
  lalg : SMSelectModel.legacy_alg;
  salg : SMSelectModel.lesc_alg;
  leg : legacy_data;
  les : lesc_data;
  ltk : list N;
  pstatus : N;
  dist : dist_data
}.

Definition set_dead (s : state) (v : bool) : state := mk v (oob_present s) (rctr s) (passkey_in s) (resp_pending s) (bonds s) (st s) (peer s) (encrypted s) (link_status s) (lalg s) (salg s) (leg s) (les s) (ltk s) (pstatus s) (dist s).
Definition set_oob_present (s : state) (v : bool) : state := mk (dead s) v (rctr s) (passkey_in s) (resp_pending s) (bonds s) (st s) (peer s) (encrypted s) (link_status s) (lalg s) (salg s) (leg s) (les s) (ltk s) (pstatus s) (dist s).
Definition set_rctr (s : state) (v : N) : state := mk (dead s) (oob_present s) v (passkey_in s) (resp_pending s) (bonds s) (st s) (peer s) (encrypted s) (link_status s) (lalg s) (salg s) (leg s) (les s) (ltk s) (pstatus s) (dist s).
Definition set_passkey_in (s : state) (v : N) : state := mk (dead s) (oob_present s) (rctr s) v (resp_pending s) (bonds s) (st s) (peer s) (encrypted s) (link_status s) (lalg s) (salg s) (leg s) (les s) (ltk s) (pstatus s) (dist s).
Definition set_resp_pending (s : state) (v : bool) : state := mk (dead s) (oob_present s) (rctr s) (passkey_in s) v (bonds s) (st s) (peer s) (encrypted s) (link_status s) (lalg s) (salg s) (leg s) (les s) (ltk s) (pstatus s) (dist s).
Definition set_bonds (s : state) (v : DB) : state := mk (dead s) (oob_present s) (rctr s) (passkey_in s) (resp_pending s) v (st s) (peer s) (encrypted s) (link_status s) (lalg s) (salg s) (leg s) (les s) (ltk s) (pstatus s) (dist s).
Definition set_st (s : state) (v : pstate) : state := mk (dead s) (oob_present s) (rctr s) (passkey_in s) (resp_pending s) (bonds s) v (peer s) (encrypted s) (link_status s) (lalg s) (salg s) (leg s) (les s) (ltk s) (pstatus s) (dist s).
Definition set_peer (s : state) (v : N) : state := mk (dead s) (oob_present s) (rctr s) (passkey_in s) (resp_pending s) (bonds s) (st s) v (encrypted s) (link_status s) (lalg s) (salg s) (leg s) (les s) (ltk s) (pstatus s) (dist s).
Definition set_encrypted (s : state) (v : bool) : state := mk (dead s) (oob_present s) (rctr s) (passkey_in s) (resp_pending s) (bonds s) (st s) (peer s) v (link_status s) (lalg s) (salg s) (leg s) (les s) (ltk s) (pstatus s) (dist s).
Definition set_link_status (s : state) (v : N) : state := mk (dead s) (oob_present s) (rctr s) (passkey_in s) (resp_pending s) (bonds s) (st s) (peer s) (encrypted s) v (lalg s) (salg s) (leg s) (les s) (ltk s) (pstatus s) (dist s).
Definition set_lalg (s : state) (v : SMSelectModel.legacy_alg) : state := mk (dead s) (oob_present s) (rctr s) (passkey_in s) (resp_pending s) (bonds s) (st s) (peer s) (encrypted s) (link_status s) v (salg s) (leg s) (les s) (ltk s) (pstatus s) (dist s).
Definition set_salg (s : state) (v : SMSelectModel.lesc_alg) : state := mk (dead s) (oob_present s) (rctr s) (passkey_in s) (resp_pending s) (bonds s) (st s) (peer s) (encrypted s) (link_status s) (lalg s) v (leg s) (les s) (ltk s) (pstatus s) (dist s).
Definition set_leg (s : state) (v : legacy_data) : state := mk (dead s) (oob_present s) (rctr s) (passkey_in s) (resp_pending s) (bonds s) (st s) (peer s) (encrypted s) (link_status s) (lalg s) (salg s) v (les s) (ltk s) (pstatus s) (dist s).
Definition set_les (s : state) (v : lesc_data) : state := mk (dead s) (oob_present s) (rctr s) (passkey_in s) (resp_pending s) (bonds s) (st s) (peer s) (encrypted s) (link_status s) (lalg s) (salg s) (leg s) v (ltk s) (pstatus s) (dist s).
Definition set_ltk (s : state) (v : list N) : state := mk (dead s) (oob_present s) (rctr s) (passkey_in s) (resp_pending s) (bonds s) (st s) (peer s) (encrypted s) (link_status s) (lalg s) (salg s) (leg s) (les s) v (pstatus s) (dist s).
Definition set_pstatus (s : state) (v : N) : state := mk (dead s) (oob_present s) (rctr s) (passkey_in s) (resp_pending s) (bonds s) (st s) (peer s) (encrypted s) (link_status s) (lalg s) (salg s) (leg s) (les s) (ltk s) v (dist s).
Definition set_dist (s : state) (v : dist_data) : state := mk (dead s) (oob_present s) (rctr s) (passkey_in s) (resp_pending s) (bonds s) (st s) (peer s) (encrypted s) (link_status s) (lalg s) (salg s) (leg s) (les s) (ltk s) (pstatus s) v.

Definition res := (state * list N * list event)%type.

(* a new connection: link_layer does connection_data_ = connection_data_t() (value-initialisation: zero
   filled, then the constructors) and remote_connection_created( addr ) *)
Definition new_connection (s : state) (a : N) : state :=
  mk (dead s) (oob_present s) (rctr s) (passkey_in s) (resp_pending s) (bonds s)
     Idle (a mod 256) false no_key SMSelectModel.LJustWorks SMSelectModel.SJustWorks leg0 les0 (zeros 16) no_key dist0.

Definition init_state (db0 : DB) : state :=
  mk false false 0 0 false db0 Idle 0 false no_key SMSelectModel.LJustWorks SMSelectModel.SJustWorks leg0 les0 (zeros 16) no_key dist0.

(* security_manager_base::error_response: state.error_reset() + Pairing Failed *)
Definition fail (s : state) (code : N) : res := (set_st s Idle, [5; code], []).

Definition selcfg (c : smcfg) : SMSelectModel.cfg := SMSelectModel.mkcfg SMSelectModel.VLegacy (c_inp c) (c_outp c) false.
Definition local_io (c : smcfg) : N := SMSelectModel.get_io_capabilities (c_outp c) (c_inp c).
(* accumulate_authentication_requirements_flags: bonding_data_base::flags = bonding *)
Definition auth_flags (c : smcfg) : N := if c_bond c then 1 else 0.
(* key_distribution_t::request_key_flags *)
Definition key_flags (c : smcfg) : N := if c_bond c then 1 else 0.
Definition pairing_response (c : smcfg) (io : list N) : list N :=
  [2; byte io 0; byte io 1; byte io 2; 16; 0; key_flags c].
Definition legacy_local_io_caps (c : smcfg) (s : state) : list N :=
  [local_io c; if oob_present s then 1 else 0; auth_flags c].
Definition lesc_local_io_caps (c : smcfg) : list N := [local_io c; 0; N.lor (auth_flags c) 8].

(* request_oob_data_presents_for_remote_device: the user's handler has data for peers with an even address byte *)
Definition request_oob (c : smcfg) (s : state) : state :=
  set_oob_present s (if c_oob c then N.even (peer s) else oob_present s).
(* get_oob_data_for_last_remote_device *)
Definition oob_tk (c : smcfg) : list N := if c_oob c then k_oob K else zeros 16.

Definition invalid_request (pdu : list N) : bool :=
  (4 <? byte pdu 1) || negb (N.land (byte pdu 2) 254 =? 0) || (byte pdu 4 <? 7) || (16 <? byte pdu 4)
  || negb (N.land (byte pdu 5) 240 =? 0) || negb (N.land (byte pdu 6) 240 =? 0).

Definition c1_p1 (pdu resp : list N) : list N := [1; 0] ++ firstn 7 pdu ++ firstn 7 resp.
Definition c1_p2 (a : N) : list N := tl local_addr ++ tl (remote_addr a) ++ [0; 0; 0; 0].

Definition with_passkey (s : state) (k : list N) : state :=
  set_leg s (mkleg (l_p1 (leg s)) (l_p2 (leg s)) (l_srand (leg s)) (l_mconfirm (leg s)) k).
Definition with_mconfirm (s : state) (k : list N) : state :=
  set_leg s (mkleg (l_p1 (leg s)) (l_p2 (leg s)) (l_srand (leg s)) k (l_passkey (leg s))).

(* the common tail of legacy_handle_pairing_request and of the legacy branch of the combined manager:
   create_srand, p1, p2, state.legacy_pairing_request *)
Definition legacy_start (s : state) (pdu resp : list N) : res :=
  let srand := k_srand K (rctr s) in
  let s1 := set_rctr s (rctr s + 1) in
  let s2 := set_leg s1 (mkleg (c1_p1 pdu resp) (c1_p2 (peer s)) srand (l_mconfirm (leg s)) (l_passkey (leg s))) in
  (set_st s2 LegacyRequested, resp, []).

(* security_manager_base::legacy_handle_pairing_request *)
Definition legacy_request (c : smcfg) (s : state) (pdu : list N) : res :=
  if negb (len pdu =? 7) then fail s 10
  else if negb (pstate_eqb (st s) Idle) then fail s 8
  else if invalid_request pdu then fail s 10
  else
    let s1 := request_oob c s in
    let s2 := set_lalg s1 (SMSelectModel.legacy_select (selcfg c) (byte pdu 1) (byte pdu 2) (oob_present s1)) in
    legacy_start s2 pdu (pairing_response c (legacy_local_io_caps c s2)).

(* io_device_t::sm_pairing_passkey() *)
Definition input_passkey (c : smcfg) (s : state) : list N :=
  match c_inp c with
  | SMSelectModel.InKeyboard => le32 (passkey_in s) ++ zeros 12
  | _ => zeros 16
  end.

(* legacy_create_temporary_key *)
Definition create_tk (c : smcfg) (s : state) : state * list N :=
  match lalg s with
  | SMSelectModel.LOob => (s, oob_tk c)
  | SMSelectModel.LPasskeyDisplay =>
      let k := k_passkey K (rctr s) in (with_passkey (set_rctr s (rctr s + 1)) k, k)
  | SMSelectModel.LPasskeyInput => let k := input_passkey c s in (with_passkey s k, k)
  | SMSelectModel.LJustWorks => (s, zeros 16)
  end.
(* legacy_temporary_key *)
Definition stored_tk (c : smcfg) (s : state) : list N :=
  match lalg s with
  | SMSelectModel.LOob => oob_tk c
  | SMSelectModel.LPasskeyDisplay | SMSelectModel.LPasskeyInput => l_passkey (leg s)
  | SMSelectModel.LJustWorks => zeros 16
  end.

(* io_device_t::sm_pairing_numeric_output( temp_key ) *)
Definition display_tk (c : smcfg) (tk : list N) : list event :=
  match c_outp c with SMSelectModel.OutNumeric => [EDisplay (rd32 tk)] | SMSelectModel.OutNone => [] end.

(* security_manager_base::legacy_handle_pairing_confirm *)
Definition legacy_confirm (c : smcfg) (s : state) (pdu : list N) : res :=
  if negb (len pdu =? 17) then fail s 10
  else if negb (pstate_eqb (st s) LegacyRequested) then fail s 8
  else
    let s1 := set_st (with_mconfirm s (sub pdu 1 16)) LegacyConfirmed in
    let '(s2, tk) := create_tk c s1 in
    (s2, 3 :: k_c1 K tk (l_srand (leg s2)) (l_p1 (leg s2)) (l_p2 (leg s2)), display_tk c tk).

(* bonding_db_data_t::arm_key_distribution / no_bonding_data_base *)
Definition arm_key_distribution (c : smcfg) (s : state) : state * list event :=
  if c_bond c then
    let '(key, rnd, ediv) := db_new D (bonds s) (rctr s) (remote_addr (peer s)) in
    let s1 := set_rctr s (rctr s + 1) in
    let s2 := set_dist s1 (mkdist true true key rnd ediv) in
    (set_bonds s2 (db_store D (bonds s) (remote_addr (peer s)) key rnd ediv), [EStore key rnd ediv])
  else (s, []).

(* legacy_pairing_completed of the connection data in use *)
Definition legacy_completed (c : smcfg) (s : state) (stk : list N) : state :=
  let s1 := set_ltk (set_st s Completed) stk in
  match c_var c with
  | MBoth => set_pstatus s1 (match lalg s with SMSelectModel.LJustWorks => unauthenticated_key | _ => authenticated_key end)
  | _ => s1
  end.

(* security_manager_base::legacy_handle_pairing_random *)
Definition legacy_random (c : smcfg) (s : state) (pdu : list N) : res :=
  if negb (len pdu =? 17) then fail s 10
  else if negb (pstate_eqb (st s) LegacyConfirmed) then fail s 8
  else
    let mrand := sub pdu 1 16 in
    let tk := stored_tk c s in
    if negb (list_eqb (k_c1 K tk mrand (l_p1 (leg s)) (l_p2 (leg s))) (l_mconfirm (leg s))) then fail s 4
    else
      let srand := l_srand (leg s) in
      let s1 := legacy_completed c s (k_s1 K tk srand mrand) in
      let '(s2, ev) := arm_key_distribution c s1 in
      (s2, 4 :: srand, ev).

(* ---- LESC ---- *)
Definition lesc_start (c : smcfg) (s : state) (pdu : list N) : res :=
  let s1 := set_salg s (SMSelectModel.lesc_select (selcfg c) (byte pdu 1) (byte pdu 2) (oob_present s)) in
  let s2 := set_les s1 (mkles (s_sk (les s)) (s_pk (les s)) (s_rpk (les s)) (s_nonce (les s)) (s_rnonce (les s))
                              [byte pdu 1; byte pdu 2; byte pdu 3]) in
  (set_st s2 LescRequested, pairing_response c (lesc_local_io_caps c), []).

(* security_manager_base::lesc_handle_pairing_request (the OOB callback is not asked here) *)
Definition lesc_request (c : smcfg) (s : state) (pdu : list N) : res :=
  if negb (len pdu =? 7) then fail s 10
  else if negb (pstate_eqb (st s) Idle) then fail s 8
  else if invalid_request pdu then fail s 10
  else if N.land (byte pdu 3) 8 =? 0 then fail s 5
  else lesc_start c s pdu.

(* security_manager_impl::handle_pairing_request *)
Definition both_request (c : smcfg) (s : state) (pdu : list N) : res :=
  if negb (len pdu =? 7) then fail s 10
  else if negb (pstate_eqb (st s) Idle) then fail s 8
  else if invalid_request pdu then fail s 10
  else
    let s1 := request_oob c s in
    if negb (N.land (byte pdu 3) 8 =? 0) then lesc_start c s1 pdu
    else
      let s2 := set_lalg s1 (SMSelectModel.legacy_select (selcfg c) (byte pdu 1) (byte pdu 2) (oob_present s1)) in
      let io := lesc_local_io_caps c in
      let io' := if c_legacy_oob c then [byte io 0; byte (legacy_local_io_caps c s2) 1; byte io 2] else io in
      legacy_start s2 pdu (pairing_response c io').

(* lesc_handle_pairing_public_key *)
Definition lesc_public_key (c : smcfg) (s : state) (pdu : list N) : res :=
  if negb (len pdu =? 65) then fail s 10
  else if negb (pstate_eqb (st s) LescRequested) then fail s 8
  else if negb (k_valid K (sub pdu 1 64)) then fail s 10
  else
    let '(pk, sk) := k_keys K (rctr s) in
    let nonce := k_nonce K (rctr s + 1) in
    let s1 := set_rctr s (rctr s + 2) in
    let s2 := set_les s1 (mkles sk pk (sub pdu 1 64) nonce (s_rnonce (les s)) (s_rio (les s))) in
    (set_st s2 LescKeysExchanged, 12 :: pk, []).

(* pairing_numeric_output::sm_pairing_numeric_compare_output *)
Definition display_compare (c : smcfg) (s : state) : list event :=
  match c_outp c with
  | SMSelectModel.OutNumeric => [EDisplay (k_g2 K (firstn 32 (s_rpk (les s))) (firstn 32 (s_pk (les s))) (s_rnonce (les s)) (s_nonce (les s)))]
  | SMSelectModel.OutNone => []
  end.

(* io_device_t::sm_pairing_request_yes_no: pairing_no_input does nothing; pairing_yes_no waits and calls the
   application, which answers at once or keeps the response object *)
Definition request_yes_no (c : smcfg) (s : state) : state * list event :=
  match c_inp c with
  | SMSelectModel.InYesNo =>
      match c_yn c with
      | SyncYes => (set_st s UserSuccess, [EYesNo])
      | SyncNo => (set_st s UserFailed, [EYesNo])
      | Async => (set_resp_pending (set_st s UserWait) true, [EYesNo])
      end
  | _ => (s, [])
  end.

(* lesc_handle_pairing_random *)
Definition lesc_random (c : smcfg) (s : state) (pdu : list N) : res :=
  if negb (len pdu =? 17) then fail s 10
  else if negb (pstate_eqb (st s) LescConfirmSend) then fail s 8
  else
    let s1 := set_st (set_les s (mkles (s_sk (les s)) (s_pk (les s)) (s_rpk (les s)) (s_nonce (les s)) (sub pdu 1 16) (s_rio (les s))))
                     LescRandomExchanged in
    let '(s2, ev) := match salg s1 with
                     | SMSelectModel.SNumeric => let '(s', e) := request_yes_no c s1 in (s', display_compare c s1 ++ e)
                     | _ => (s1, [])
                     end in
    if pstate_eqb (st s2) UserFailed then (set_st s2 Idle, [5; 1], ev)
    else (s2, 4 :: s_nonce (les s2), ev).

(* f5 on the DH key of the stored keys *)
Definition lesc_keys (s : state) : list N * list N :=
  k_f5 K (k_p256 K (s_sk (les s)) (s_rpk (les s))) (s_rnonce (les s)) (s_nonce (les s)) (remote_addr (peer s)) local_addr.
Definition lesc_eb (c : smcfg) (s : state) (mackey : list N) : list N :=
  k_f6 K mackey (s_nonce (les s)) (s_rnonce (les s)) (zeros 16) (lesc_local_io_caps c) local_addr (remote_addr (peer s)).

(* lesc_pairing_completed + store_lesc_key_in_bond_db *)
Definition lesc_completed (c : smcfg) (s : state) (key : list N) : state * list event :=
  let s1 := set_ltk (set_st s Completed) key in
  let s2 := match c_var c with
            | MBoth => set_pstatus s1 (match salg s with SMSelectModel.SJustWorks => unauthenticated_key | _ => authenticated_key end)
            | _ => s1
            end in
  if c_bond c then (set_bonds s2 (db_store D (bonds s) (remote_addr (peer s)) key 0 0), [EStore key 0 0])
  else (s2, []).

(* lesc_handle_pairing_dhkey_check *)
Definition lesc_dhkey_check (c : smcfg) (s : state) (pdu : list N) : res :=
  if negb (len pdu =? 17) then fail s 10
  else match st s with
  | UserWait => (s, [], [])
  | UserFailed => fail s 1
  | LescRandomExchanged | UserSuccess =>
      let '(mackey, key) := lesc_keys s in
      let ea := k_f6 K mackey (s_rnonce (les s)) (s_nonce (les s)) (zeros 16) (s_rio (les s)) (remote_addr (peer s)) local_addr in
      if negb (list_eqb (firstn 16 ea) (sub pdu 1 16)) then fail s 11
      else let '(s1, ev) := lesc_completed c s key in (s1, 13 :: lesc_eb c s mackey, ev)
  | _ => fail s 8
  end.

(* lesc_security_manager_output_available / lesc_l2cap_output *)
Definition lesc_output_available (s : state) : bool :=
  match st s with LescKeysExchanged | UserSuccess | UserFailed => true | _ => false end.
Definition lesc_output (c : smcfg) (s : state) : res :=
  match st s with
  | LescKeysExchanged =>
      (set_st s LescConfirmSend,
       3 :: k_f4 K (firstn 32 (s_pk (les s))) (firstn 32 (s_rpk (les s))) (s_nonce (les s)) 0, [])
  | UserSuccess =>
      let '(mackey, key) := lesc_keys s in
      let '(s1, ev) := lesc_completed c s key in (s1, 13 :: lesc_eb c s mackey, ev)
  | _ => fail s 1
  end.

(* bonding_db_data_t::distribute_keys / no_bonding_data_base *)
Definition distribute_keys (c : smcfg) (s : state) : res :=
  if c_bond c && encrypted s then
    if d_enc (dist s) then
      (set_dist s (mkdist false (d_id (dist s)) (zeros 16) (d_rand (dist s)) (d_ediv (dist s))), 6 :: d_key (dist s), [])
    else if d_id (dist s) then
      (set_dist s (mkdist false false (d_key (dist s)) (d_rand (dist s)) (d_ediv (dist s))),
       7 :: le16 (d_ediv (dist s)) ++ le64 (d_rand (dist s)), [])
    else (s, [], [])
  else (s, [], []).

(* l2cap_input of the four managers *)
Definition l2cap_input (c : smcfg) (s : state) (pdu : list N) : res :=
  match c_var c with
  | MNone => (s, [5; 5], [])
  | MLegacy =>
      match pdu with
      | [] => fail s 10
      | o :: _ => if o =? 1 then legacy_request c s pdu
                  else if o =? 3 then legacy_confirm c s pdu
                  else if o =? 4 then legacy_random c s pdu
                  else fail s 7
      end
  | MLesc =>
      match pdu with
      | [] => fail s 10
      | o :: _ => if o =? 1 then lesc_request c s pdu
                  else if o =? 12 then lesc_public_key c s pdu
                  else if o =? 4 then lesc_random c s pdu
                  else if o =? 13 then lesc_dhkey_check c s pdu
                  else fail s 7
      end
  | MBoth =>
      match pdu with
      | [] => fail s 10
      | o :: _ => if o =? 1 then both_request c s pdu
                  else if o =? 3 then legacy_confirm c s pdu
                  else if o =? 4 then
                    (if pstate_eqb (st s) LegacyConfirmed then legacy_random c s pdu else lesc_random c s pdu)
                  else if o =? 12 then lesc_public_key c s pdu
                  else if o =? 13 then lesc_dhkey_check c s pdu
                  else fail s 7
      end
  end.

Definition l2cap_output (c : smcfg) (s : state) : res :=
  match c_var c with
  | MNone => (s, [], [])
  | MLegacy => distribute_keys c s
  | MLesc => if lesc_output_available s then lesc_output c s else (s, [], [])
  | MBoth => if lesc_output_available s then lesc_output c s else distribute_keys c s
  end.

(* local_device_pairing_status of the connection data in use *)
Definition local_status (c : smcfg) (s : state) : N :=
  match st s with
  | Completed =>
      match c_var c with
      | MLegacy => match lalg s with SMSelectModel.LJustWorks => unauthenticated_key | _ => authenticated_key end
      | MLesc => unauthenticated_key
      | MBoth => pstatus s
      | MNone => no_key
      end
  | _ => no_key
  end.

(* find_key: the connection's own key first, then the bond data base *)
Definition find_key (c : smcfg) (s : state) (ediv rnd : N) : option (list N) :=
  match c_var c with
  | MNone => None
  | _ =>
      if pstate_eqb (st s) Completed && (ediv =? 0) && (rnd =? 0) then Some (ltk s)
      else if c_bond c then db_find D (bonds s) ediv rnd (remote_addr (peer s)) else None
  end.

Definition step (c : smcfg) (s : state) (o : op) : state * out :=
  if dead s then (s, OSkipped) else
  match o with
  | In pdu => let '(s1, r, ev) := l2cap_input c s pdu in (s1, OResp r ev)
  | Out => let '(s1, r, ev) := l2cap_output c s in (s1, OResp r ev)
  | Yes | No =>
      if resp_pending s then
        if pstate_eqb (st s) UserWait
        then (set_resp_pending (set_st s (match o with Yes => UserSuccess | _ => UserFailed end)) false, ODone)
        else (set_dead s true, OFault)
      else (s, ONoPending)
  | Passkey n => (set_passkey_in s (n mod 4294967296), ODone)
  | Enc b =>
      (* link_layer: is_encrypted( b ); on a change pairing_status( local_device_pairing_status() ) *)
      if Bool.eqb (encrypted s) b then (s, ODone)
      else (set_link_status (set_encrypted s b) (local_status c s), ODone)
  | Key ediv rnd => (s, OKey (find_key c s ediv rnd))
  | Status => (s, OStatus (local_status c s) (link_status s))
  | Reset a => (new_connection s a, ODone)
  | Bond a ediv rnd kb =>
      (set_bonds s (db_store D (bonds s) (remote_addr a) (repeat (kb mod 256) 16) rnd ediv), ODone)
  end.

Fixpoint run (c : smcfg) (s : state) (ops : list op) : list (op * out) :=
  match ops with
  | [] => []
  | o :: t => let '(s', r) := step c s o in (o, r) :: run c s' t
  end.

Fixpoint run_state (c : smcfg) (s : state) (ops : list op) : state :=
  match ops with
  | [] => s
  | o :: t => run_state c (fst (step c s o)) t
  end.

End SM.

(* the data base type is inferred from the state *)
Arguments dead {DB}.
Arguments oob_present {DB}.
Arguments rctr {DB}.
Arguments passkey_in {DB}.
Arguments resp_pending {DB}.
Arguments bonds {DB}.
Arguments st {DB}.
Arguments peer {DB}.
Arguments encrypted {DB}.
Arguments link_status {DB}.
Arguments lalg {DB}.
Arguments salg {DB}.
Arguments leg {DB}.
Arguments les {DB}.
Arguments ltk {DB}.
Arguments pstatus {DB}.
Arguments dist {DB}.
Arguments set_dead {DB}.
Arguments set_oob_present {DB}.
Arguments set_rctr {DB}.
Arguments set_passkey_in {DB}.
Arguments set_resp_pending {DB}.
Arguments set_bonds {DB}.
Arguments set_st {DB}.
Arguments set_peer {DB}.
Arguments set_encrypted {DB}.
Arguments set_link_status {DB}.
Arguments set_lalg {DB}.
Arguments set_salg {DB}.
Arguments set_leg {DB}.
Arguments set_les {DB}.
Arguments set_ltk {DB}.
Arguments set_pstatus {DB}.
Arguments set_dist {DB}.
Arguments mk {DB}.
