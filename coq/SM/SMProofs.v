(* Proofs for the security manager model (C32..C35): a simulation invariant between the model state
   and the tracker state of the specification monitors, preserved by every operation for every tool
   box, data base and configuration; from it, which monitor clauses can (not) fail on model traces. *)
From BT Require Import Base.ListX SM.SMModel SM.SMSpec.
From Coq Require Import Lia ZifyBool.
From BT Require SMSelect.SMSelectModel.
Local Open Scope N_scope.
Set Implicit Arguments.

Arguments sub : simpl never.
Arguments byte : simpl never.
Arguments len : simpl never.
Arguments zeros : simpl never.
Arguments le16 : simpl never.
Arguments le32 : simpl never.
Arguments le64 : simpl never.
Arguments rd32 : simpl never.
Arguments invalid_request : simpl never.
Arguments remote_addr : simpl never.
Arguments local_addr : simpl never.
Arguments c1_p1 : simpl never.
Arguments c1_p2 : simpl never.
Arguments list_eqb : simpl never.
Arguments SMSelectModel.legacy_select : simpl never.
Arguments SMSelectModel.lesc_select : simpl never.
Arguments N.land : simpl never.
Arguments N.lor : simpl never.
Arguments N.even : simpl never.
Arguments N.modulo : simpl never.
Arguments firstn : simpl never.

Lemma list_eqb_refl l : list_eqb l l = true.
Proof. induction l; unfold list_eqb; fold list_eqb; [reflexivity|]. rewrite N.eqb_refl, IHl. reflexivity. Qed.

Lemma list_eqb_eq a b : list_eqb a b = true -> a = b.
Proof.
  revert b; induction a as [|x a IH]; destruct b as [|y b]; unfold list_eqb; fold list_eqb; try discriminate; auto.
  intros H. apply andb_prop in H. destruct H as [H1 H2]. apply N.eqb_eq in H1. subst. f_equal. auto.
Qed.

Section Proofs.
Variable K : crypto.
Variable DB : Type.
Variable D : dbops DB.
Hypothesis Hdh : dh_ok K.
Hypothesis Hpk : passkey_ok K.

Notation state := (state DB).
Notation mon := (mon DB).
Notation step := (step K D).
Notation track := (track K D).

(* ---- the simulation invariant ---- *)
Definition ph_rel (p : pstate) (ph : phase) (u : uconf) : Prop :=
  match p with
  | Idle => ph = PIdle | Completed => ph = PDone
  | LegacyRequested => ph = PLegReq | LegacyConfirmed => ph = PLegConf
  | LescRequested => ph = PLescReq | LescKeysExchanged => ph = PLescPk | LescConfirmSend => ph = PLescConf
  | LescRandomExchanged => ph = PLescRand /\ u = UNotAsked
  | UserWait => ph = PLescRand /\ u = UWaiting
  | UserSuccess => ph = PLescRand /\ u = UYes
  | UserFailed => ph = PLescRand /\ u = UNo
  end.

Definition var_ok (v : smvariant) (p : pstate) : Prop :=
  match v, p with
  | MNone, Idle => True
  | MNone, _ => False
  | MLegacy, (Idle | Completed | LegacyRequested | LegacyConfirmed) => True
  | MLegacy, _ => False
  | MLesc, (LegacyRequested | LegacyConfirmed) => False
  | _, _ => True
  end.

Definition leg_base (s : state) (m : mon) : Prop :=
  g_alg (m_leg m) = lalg s /\ g_p1 (m_leg m) = l_p1 (leg s) /\ g_p2 (m_leg m) = l_p2 (leg s).
Definition leg_rel (c : smcfg) (s : state) (m : mon) : Prop :=
  match st s with
  | LegacyRequested => leg_base s m
  | LegacyConfirmed =>
      leg_base s m /\ g_mconfirm (m_leg m) = l_mconfirm (leg s) /\ g_tk (m_leg m) = stored_tk K c s
      /\ g_sconfirm (m_leg m) = k_c1 K (stored_tk K c s) (l_srand (leg s)) (l_p1 (leg s)) (l_p2 (leg s))
  | _ => True
  end.

Definition les_a (c : smcfg) (s : state) (m : mon) : Prop :=
  e_rio (m_les m) = s_rio (les s) /\ e_lio (m_les m) = lesc_local_io_caps c.
Definition les_b (s : state) (m : mon) : Prop :=
  e_pka (m_les m) = s_rpk (les s) /\ e_pkb (m_les m) = s_pk (les s)
  /\ exists n, k_keys K n = (s_pk (les s), s_sk (les s)).
Definition les_c (s : state) (m : mon) : Prop :=
  e_cb (m_les m) = k_f4 K (firstn 32 (s_pk (les s))) (firstn 32 (s_rpk (les s))) (s_nonce (les s)) 0.
Definition les_d (s : state) (m : mon) : Prop :=
  e_na (m_les m) = s_rnonce (les s) /\ e_nb (m_les m) = s_nonce (les s).
Definition les_rel (c : smcfg) (s : state) (m : mon) : Prop :=
  match st s with
  | LescRequested => les_a c s m
  | LescKeysExchanged => les_a c s m /\ les_b s m
  | LescConfirmSend => les_a c s m /\ les_b s m /\ les_c s m
  | LescRandomExchanged | UserWait | UserSuccess | UserFailed => les_a c s m /\ les_b s m /\ les_c s m /\ les_d s m
  | _ => True
  end.

Definition dist_rel (c : smcfg) (s : state) (m : mon) : Prop :=
  o_enc (m_dist m) = d_enc (dist s) /\ o_id (m_dist m) = d_id (dist s)
  /\ (d_enc (dist s) = true -> o_key (m_dist m) = d_key (dist s))
  /\ (d_id (dist s) = true -> o_rand (m_dist m) = d_rand (dist s) /\ o_ediv (m_dist m) = d_ediv (dist s))
  /\ (d_enc (dist s) = true \/ d_id (dist s) = true -> o_has (m_dist m) = true).

(* the only configurations in which the user is asked to compare numbers *)
Definition numeric_cfg (c : smcfg) : Prop := c_inp c = SMSelectModel.InYesNo /\ c_outp c = SMSelectModel.OutNumeric.

Definition legacy_auth (a : SMSelectModel.legacy_alg) : bool :=
  match a with SMSelectModel.LJustWorks => false | _ => true end.
(* how a reported status can differ from the specified one: the combined manager may say authenticated
   instead of unauthenticated, the LESC-only manager unauthenticated instead of authenticated *)
Definition lrel (c : smcfg) (got want : N) : Prop :=
  got = want \/ (c_var c = MBoth /\ got = authenticated_key /\ want = unauthenticated_key)
  \/ (c_var c = MLesc /\ got = unauthenticated_key /\ want = authenticated_key).

Lemma lrel_refl c x : lrel c x x.
Proof. left. reflexivity. Qed.
Local Hint Resolve lrel_refl : core.
Arguments lrel : simpl never.

Record Inv (c : smcfg) (s : state) (m : mon) : Prop := {
  i_dead : m_dead m = dead s;
  i_peer : m_peer m = peer s;
  i_pass : m_passkey m = passkey_in s;
  i_enc : m_enc m = encrypted s;
  i_db : m_db m = bonds s;
  i_oob : c_oob c = false -> oob_present s = false;
  i_ph : ph_rel (st s) (m_ph m) (e_user (m_les m));
  i_var : var_ok (c_var c) (st s);
  i_lalg : lalg s = SMSelectModel.LPasskeyDisplay -> c_outp c = SMSelectModel.OutNumeric;
  i_leg : leg_rel c s m;
  i_les : les_rel c s m;
  i_key : st s = Completed -> m_key m = ltk s;
  i_dist : dist_rel c s m;
  i_salg : salg s = SMSelectModel.SNumeric -> c_outp c = SMSelectModel.OutNumeric;
  i_user : match st s with UserWait | UserSuccess | UserFailed => numeric_cfg c | _ => True end;
  i_pend : resp_pending s = true -> numeric_cfg c;
  (* reported status (C35) *)
  i_sleg : c_var c = MLegacy -> st s = Completed -> m_auth m = legacy_auth (lalg s);
  i_sboth : c_var c = MBoth -> st s = Completed ->
            (pstatus s = authenticated_key \/ pstatus s = unauthenticated_key) /\ (m_auth m = true -> pstatus s = authenticated_key);
  i_snum : match st s with UserWait | UserSuccess | UserFailed => salg s = SMSelectModel.SNumeric | _ => True end;
  i_link : lrel c (link_status s) (m_link m)
}.

Lemma inv_init c db0 : Inv c (init_state db0) (minit db0).
Proof.
  constructor; cbn; auto; try discriminate.
  - destruct (c_var c); exact I.
  - repeat split; auto; try discriminate. intros [H|H]; discriminate.
Qed.

(* ---- Pairing Failed: back to idle on both sides ---- *)
Lemma inv_failed c s m : Inv c s m -> Inv c (set_st s Idle) (pairing_failed m).
Proof.
  intros I. destruct I. constructor; cbn; auto; try discriminate.
  destruct (c_var c); exact I.
Qed.

Definition in_ok (c : smcfg) (m : mon) (pdu : list N) (x : res DB) : Prop :=
  let '(s', r, ev) := x in
  Inv c s' (track_in K D c m pdu r ev) /\ check32_in K c m pdu r ev = None /\ check34_pdu m r = None.

Lemma fail_in_ok c s m pdu code :
  Inv c s m -> accept32 K c m pdu = false -> in_ok c m pdu (fail s code).
Proof.
  intros I A. unfold in_ok, fail. split; [|split].
  - unfold track_in. cbn [is_fail]. apply inv_failed; auto.
  - unfold check32_in. cbn [is_fail]. rewrite A. reflexivity.
  - reflexivity.
Qed.

(* what the invariant says about the monitor's phase, by state *)
Lemma ph_of c s m : Inv c s m ->
  match st s with
  | Idle => m_ph m = PIdle | Completed => m_ph m = PDone
  | LegacyRequested => m_ph m = PLegReq | LegacyConfirmed => m_ph m = PLegConf
  | LescRequested => m_ph m = PLescReq | LescKeysExchanged => m_ph m = PLescPk | LescConfirmSend => m_ph m = PLescConf
  | _ => m_ph m = PLescRand
  end.
Proof. intros I. pose proof (i_ph I) as H. unfold ph_rel in H. destruct (st s); intuition. Qed.

Lemma sub13 pdu : len pdu = 7 -> sub pdu 1 3 = [byte pdu 1; byte pdu 2; byte pdu 3].
Proof.
  unfold len, sub, byte. intros H.
  destruct pdu as [|a [|b [|c0 [|d [|e [|f [|g [|x t]]]]]]]]; cbn in H; try lia. reflexivity.
Qed.

Lemma legacy_select_display c io oob p :
  SMSelectModel.legacy_select (selcfg c) io oob p = SMSelectModel.LPasskeyDisplay -> c_outp c = SMSelectModel.OutNumeric.
Proof.
  unfold SMSelectModel.legacy_select, selcfg, SMSelectModel.select_legacy. cbn.
  destruct (negb (oob =? 0) && p); [discriminate|].
  destruct (c_outp c), (c_inp c); auto; try discriminate;
  repeat match goal with |- context [if ?b then _ else _] => destruct b end; discriminate.
Qed.

Lemma lesc_select_numeric c io oob p :
  SMSelectModel.lesc_select (selcfg c) io oob p = SMSelectModel.SNumeric -> c_outp c = SMSelectModel.OutNumeric.
Proof.
  unfold SMSelectModel.lesc_select, selcfg, SMSelectModel.select_lesc. cbn.
  destruct (negb (oob =? 0) || p); [discriminate|].
  destruct (c_outp c), (c_inp c); auto; try discriminate;
  repeat match goal with |- context [if ?b then _ else _] => destruct b end; discriminate.
Qed.

(* ---- legacy pairing request: the common tail ---- *)
Lemma oob_asked c s m : Inv c s m -> oob_present (request_oob c s) = c_oob c && N.even (peer s).
Proof.
  intros I. unfold request_oob. cbn. destruct (c_oob c) eqn:E; cbn; auto. apply (i_oob I); auto.
Qed.

Ltac unf := unfold leg_rel, leg_base, les_rel, les_a, les_b, les_c, les_d, dist_rel, ph_rel in *.
Ltac inv_solve := constructor; unf; cbn in *; auto; try discriminate.

Lemma legacy_start_ok c s m pdu io :
  Inv c s m -> st s = Idle -> (c_var c = MLegacy \/ c_var c = MBoth) -> request_is_lesc c pdu = false ->
  accept32 K c m pdu = true ->
  let s1 := request_oob c s in
  let s2 := set_lalg s1 (SMSelectModel.legacy_select (selcfg c) (byte pdu 1) (byte pdu 2) (oob_present s1)) in
  in_ok c m pdu (legacy_start K s2 pdu (pairing_response c io)).
Proof.
  intros I Est Hv Hl A s1 s2. unfold in_ok, legacy_start.
  pose proof (ph_of I) as Hph. rewrite Est in Hph.
  pose proof (oob_asked I) as Hoob. fold s1 in Hoob.
  split; [|split].
  - unfold track_in. cbn [is_fail pairing_response]. cbn. rewrite Hl.
    subst s2. rewrite Hoob. subst s1. unfold request_oob.
    destruct I. inv_solve.
    + intros E. rewrite E. auto.
    + destruct Hv as [-> | ->]; exact I.
    + apply legacy_select_display.
    + rewrite i_peer0. auto.
  - unfold check32_in. cbn [is_fail pairing_response]. rewrite A. unfold answer32. rewrite Hph. reflexivity.
  - reflexivity.
Qed.

Lemma acc_not_idle_op1 c (m : mon) pdu : byte pdu 0 = 1 -> m_ph m <> PIdle -> accept32 K c m pdu = false.
Proof.
  intros Ho Hp. unfold accept32. rewrite Ho. destruct (c_var c); auto; destruct (m_ph m); auto; congruence.
Qed.

Lemma st_not_idle c s m : Inv c s m -> pstate_eqb (st s) Idle = false -> m_ph m <> PIdle.
Proof.
  intros I H. pose proof (ph_of I) as P. destruct (st s); try discriminate; rewrite P; discriminate.
Qed.

(* security_manager_base::legacy_handle_pairing_request *)
Lemma legacy_request_ok c s m pdu :
  Inv c s m -> c_var c = MLegacy -> byte pdu 0 = 1 -> in_ok c m pdu (legacy_request K c s pdu).
Proof.
  intros I Hv Ho. unfold legacy_request.
  destruct (len pdu =? 7) eqn:El; cbn [negb].
  2:{ apply fail_in_ok; auto. unfold accept32. rewrite Ho, Hv, El. destruct (m_ph m); reflexivity. }
  destruct (pstate_eqb (st s) Idle) eqn:Es; cbn [negb].
  2:{ apply fail_in_ok; auto. apply acc_not_idle_op1; auto. eapply st_not_idle; eauto. }
  assert (st s = Idle) as Est by (destruct (st s); try discriminate; reflexivity).
  pose proof (ph_of I) as Hph. rewrite Est in Hph.
  destruct (invalid_request pdu) eqn:Ei.
  { apply fail_in_ok; auto. unfold accept32. rewrite Ho, Hv, Hph, El, Ei. reflexivity. }
  apply legacy_start_ok; auto.
  - unfold request_is_lesc. rewrite Hv. reflexivity.
  - unfold accept32. rewrite Ho, Hv, Hph, El, Ei. reflexivity.
Qed.

Ltac goals := match goal with |- ?G => idtac "GOAL:" G end.

(* legacy_handle_pairing_confirm *)
Lemma legacy_confirm_ok c s m pdu :
  Inv c s m -> byte pdu 0 = 3 -> in_ok c m pdu (legacy_confirm K c s pdu).
Proof.
  intros I Ho. unfold legacy_confirm.
  destruct (len pdu =? 17) eqn:El; cbn [negb].
  2:{ apply fail_in_ok; auto. unfold accept32. rewrite Ho, El. destruct (c_var c), (m_ph m); reflexivity. }
  pose proof (ph_of I) as Hph.
  destruct (pstate_eqb (st s) LegacyRequested) eqn:Es; cbn [negb].
  2:{ apply fail_in_ok; auto. unfold accept32. rewrite Ho.
      destruct (st s); try discriminate; rewrite Hph; destruct (c_var c); reflexivity. }
  assert (st s = LegacyRequested) as Est by (destruct (st s); try discriminate; reflexivity).
  rewrite Est in Hph.
  assert (accept32 K c m pdu = true) as A.
  { unfold accept32. rewrite Ho, Hph, El. pose proof (i_var I) as V. rewrite Est in V. destruct (c_var c); auto; contradiction. }
  pose proof (i_leg I) as L. unfold leg_rel in L. rewrite Est in L. destruct L as (La & Lp1 & Lp2).
  unfold in_ok, create_tk.
  change (lalg (set_st (with_mconfirm s (sub pdu 1 16)) LegacyConfirmed)) with (lalg s).
  destruct (lalg s) eqn:Ealg; cbv beta iota zeta.
  - (* just works *)
    split; [|split]; [| unfold check32_in; cbn [is_fail]; rewrite A; unfold answer32; rewrite Hph; reflexivity | reflexivity ].
    unfold track_in; cbn [is_fail]; cbn. rewrite La. unfold mon_tk, stored_tk.
    destruct I. inv_solve.
    + rewrite Est in i_var0; destruct (c_var c); auto.
    + unfold stored_tk; cbn; rewrite ?Ealg; repeat split; auto.
  - (* OOB *)
    split; [|split]; [| unfold check32_in; cbn [is_fail]; rewrite A; unfold answer32; rewrite Hph; reflexivity | reflexivity ].
    unfold track_in; cbn [is_fail]; cbn. rewrite La. unfold mon_tk, stored_tk.
    destruct I. inv_solve.
    + rewrite Est in i_var0; destruct (c_var c); auto.
    + unfold stored_tk; cbn; rewrite ?Ealg; repeat split; auto.
  - (* passkey shown on our display *)
    split; [|split]; [| unfold check32_in; cbn [is_fail]; rewrite A; unfold answer32; rewrite Hph; reflexivity | reflexivity ].
    unfold track_in; cbn [is_fail]; cbn. rewrite La. unfold mon_tk, stored_tk, display_tk.
    rewrite (i_lalg I Ealg). cbn. rewrite <- Hpk.
    destruct I. inv_solve.
    + rewrite Est in i_var0; destruct (c_var c); auto.
    + unfold stored_tk; cbn; rewrite ?Ealg; repeat split; auto.
  - (* passkey typed on our keyboard *)
    split; [|split]; [| unfold check32_in; cbn [is_fail]; rewrite A; unfold answer32; rewrite Hph; reflexivity | reflexivity ].
    unfold track_in; cbn [is_fail]; cbn. rewrite La. unfold mon_tk, stored_tk, input_passkey.
    rewrite (i_pass I).
    destruct I. inv_solve.
    + rewrite Est in i_var0; destruct (c_var c); auto.
    + unfold stored_tk; cbn; rewrite ?Ealg; repeat split; auto.
Qed.

(* legacy_handle_pairing_random (reached in state legacy_pairing_confirmed only when the manager is the
   combined one) *)
Lemma legacy_random_ok c s m pdu :
  Inv c s m -> byte pdu 0 = 4 -> (c_var c = MLegacy \/ st s = LegacyConfirmed) ->
  in_ok c m pdu (legacy_random K D c s pdu).
Proof.
  intros I Ho Hv. unfold legacy_random.
  pose proof (ph_of I) as Hph. pose proof (i_var I) as V.
  destruct (len pdu =? 17) eqn:El; cbn [negb].
  2:{ apply fail_in_ok; auto. unfold accept32. rewrite Ho, El. destruct (c_var c), (m_ph m); reflexivity. }
  destruct (pstate_eqb (st s) LegacyConfirmed) eqn:Es; cbn [negb].
  2:{ apply fail_in_ok; auto. destruct Hv as [Hv|Hv]; [|rewrite Hv in Es; discriminate].
      unfold accept32. rewrite Ho, Hv. rewrite Hv in V.
      destruct (st s); try discriminate; try contradiction; rewrite Hph; reflexivity. }
  assert (st s = LegacyConfirmed) as Est by (destruct (st s); try discriminate; reflexivity).
  rewrite Est in Hph, V.
  pose proof (i_leg I) as L. unfold leg_rel in L. rewrite Est in L. destruct L as ((La & Lp1 & Lp2) & Lm & Lt & Ls).
  assert (accept32 K c m pdu = negb (negb (list_eqb (k_c1 K (stored_tk K c s) (sub pdu 1 16) (l_p1 (leg s)) (l_p2 (leg s))) (l_mconfirm (leg s))))) as A.
  { unfold accept32. rewrite Ho, Hph, El, Lt, Lp1, Lp2, Lm, negb_involutive. destruct (c_var c); auto; contradiction. }
  destruct (negb (list_eqb _ _)) eqn:Ec; cbn [negb] in A.
  { apply fail_in_ok; auto. }
  unfold in_ok, arm_key_distribution.
  destruct (c_bond c) eqn:Eb.
  - cbn [peer bonds rctr legacy_completed set_ltk set_st set_pstatus].
    assert (forall x, peer (legacy_completed c s x) = peer s /\ bonds (legacy_completed c s x) = bonds s
                      /\ rctr (legacy_completed c s x) = rctr s) as Hlc.
    { intros x. unfold legacy_completed. destruct (c_var c); cbn; auto. }
    destruct (Hlc (k_s1 K (stored_tk K c s) (l_srand (leg s)) (sub pdu 1 16))) as (Hp & Hb & Hr).
    rewrite Hp, Hb, Hr.
    destruct (db_new D (bonds s) (rctr s) (remote_addr (peer s))) as [[key rnd] ediv] eqn:En.
    split; [|split]; [| | reflexivity ].
    + unfold track_in; cbn [is_fail]. cbn. rewrite Hph. cbn. unfold completed. cbn.
      unfold legacy_completed, maddr. rewrite Lt, (i_peer I), (i_db I).
      destruct I. destruct (c_var c) eqn:Ev; try contradiction; inv_solve; try (rewrite Ev; exact I); try (intuition congruence); try (rewrite ?La; unfold legacy_auth; destruct (lalg s); intros; repeat split; auto; discriminate).
    + unfold check32_in; cbn [is_fail]. rewrite A. unfold answer32. rewrite Hph. cbn.
      rewrite Lt, Lp1, Lp2, Ls, list_eqb_refl. reflexivity.
  - split; [|split]; [| | reflexivity ].
    + unfold track_in; cbn [is_fail]. cbn. rewrite Hph. cbn. unfold completed. cbn.
      unfold legacy_completed. rewrite Lt.
      destruct I. destruct (c_var c) eqn:Ev; try contradiction; inv_solve; try (rewrite Ev; exact I); try (intuition congruence); try (rewrite ?La; unfold legacy_auth; destruct (lalg s); intros; repeat split; auto; discriminate).
    + unfold check32_in; cbn [is_fail]. rewrite A. unfold answer32. rewrite Hph. cbn.
      rewrite Lt, Lp1, Lp2, Ls, list_eqb_refl. reflexivity.
Qed.

(* ---- LESC ---- *)
Lemma inv_request_oob c s m : Inv c s m -> Inv c (request_oob c s) m.
Proof.
  intros I. unfold request_oob. destruct I. inv_solve. intros E. rewrite E. auto.
Qed.

Lemma lesc_start_ok c s m pdu :
  Inv c s m -> st s = Idle -> (c_var c = MLesc \/ c_var c = MBoth) -> request_is_lesc c pdu = true ->
  accept32 K c m pdu = true -> len pdu = 7 ->
  in_ok c m pdu (lesc_start c s pdu).
Proof.
  intros I Est Hv Hl A Hlen. unfold in_ok, lesc_start.
  pose proof (ph_of I) as Hph. rewrite Est in Hph.
  split; [|split].
  - unfold track_in. cbn [is_fail pairing_response]. cbn. rewrite Hl. rewrite (sub13 pdu Hlen).
    destruct I. inv_solve; try apply lesc_select_numeric. destruct Hv as [-> | ->]; exact Logic.I.
  - unfold check32_in. cbn [is_fail pairing_response]. rewrite A. unfold answer32. rewrite Hph. reflexivity.
  - reflexivity.
Qed.

(* lesc_handle_pairing_request *)
Lemma lesc_request_ok c s m pdu :
  Inv c s m -> c_var c = MLesc -> byte pdu 0 = 1 -> in_ok c m pdu (lesc_request c s pdu).
Proof.
  intros I Hv Ho. unfold lesc_request.
  destruct (len pdu =? 7) eqn:El; cbn [negb].
  2:{ apply fail_in_ok; auto. unfold accept32. rewrite Ho, Hv, El. destruct (m_ph m); reflexivity. }
  destruct (pstate_eqb (st s) Idle) eqn:Es; cbn [negb].
  2:{ apply fail_in_ok; auto. apply acc_not_idle_op1; auto. eapply st_not_idle; eauto. }
  assert (st s = Idle) as Est by (destruct (st s); try discriminate; reflexivity).
  pose proof (ph_of I) as Hph. rewrite Est in Hph.
  destruct (invalid_request pdu) eqn:Ei.
  { apply fail_in_ok; auto. unfold accept32. rewrite Ho, Hv, Hph, El, Ei. reflexivity. }
  destruct (N.land (byte pdu 3) 8 =? 0) eqn:Esc.
  { apply fail_in_ok; auto. unfold accept32. rewrite Ho, Hv, Hph, El, Ei, Esc. reflexivity. }
  apply lesc_start_ok; auto.
  - unfold request_is_lesc. rewrite Hv. reflexivity.
  - unfold accept32. rewrite Ho, Hv, Hph, El, Ei, Esc. reflexivity.
  - apply N.eqb_eq; auto.
Qed.

(* security_manager_impl::handle_pairing_request *)
Lemma both_request_ok c s m pdu :
  Inv c s m -> c_var c = MBoth -> byte pdu 0 = 1 -> in_ok c m pdu (both_request K c s pdu).
Proof.
  intros I Hv Ho. unfold both_request.
  destruct (len pdu =? 7) eqn:El; cbn [negb].
  2:{ apply fail_in_ok; auto. unfold accept32. rewrite Ho, Hv, El. destruct (m_ph m); reflexivity. }
  destruct (pstate_eqb (st s) Idle) eqn:Es; cbn [negb].
  2:{ apply fail_in_ok; auto. apply acc_not_idle_op1; auto. eapply st_not_idle; eauto. }
  assert (st s = Idle) as Est by (destruct (st s); try discriminate; reflexivity).
  pose proof (ph_of I) as Hph. rewrite Est in Hph.
  destruct (invalid_request pdu) eqn:Ei.
  { apply fail_in_ok; auto. unfold accept32. rewrite Ho, Hv, Hph, El, Ei. reflexivity. }
  assert (accept32 K c m pdu = true) as A by (unfold accept32; rewrite Ho, Hv, Hph, El, Ei; reflexivity).
  destruct (N.land (byte pdu 3) 8 =? 0) eqn:Esc; cbn [negb].
  - apply legacy_start_ok; auto. unfold request_is_lesc. rewrite Hv, Esc. reflexivity.
  - apply lesc_start_ok; auto.
    + apply inv_request_oob; auto.
    + unfold request_is_lesc. rewrite Hv, Esc. reflexivity.
    + apply N.eqb_eq; auto.
Qed.

(* lesc_handle_pairing_public_key *)
Lemma lesc_public_key_ok c s m pdu :
  Inv c s m -> byte pdu 0 = 12 -> in_ok c m pdu (lesc_public_key K c s pdu).
Proof.
  intros I Ho. unfold lesc_public_key.
  pose proof (ph_of I) as Hph. pose proof (i_var I) as V.
  destruct (len pdu =? 65) eqn:El; cbn [negb].
  2:{ apply fail_in_ok; auto. unfold accept32. rewrite Ho, El. destruct (c_var c), (m_ph m); reflexivity. }
  destruct (pstate_eqb (st s) LescRequested) eqn:Es; cbn [negb].
  2:{ apply fail_in_ok; auto. unfold accept32. rewrite Ho.
      destruct (st s); try discriminate; rewrite Hph; destruct (c_var c); reflexivity. }
  assert (st s = LescRequested) as Est by (destruct (st s); try discriminate; reflexivity).
  rewrite Est in Hph, V.
  destruct (k_valid K (sub pdu 1 64)) eqn:Ek; cbn [negb].
  2:{ apply fail_in_ok; auto. unfold accept32. rewrite Ho, Hph, El, Ek. destruct (c_var c); reflexivity. }
  assert (accept32 K c m pdu = true) as A.
  { unfold accept32. rewrite Ho, Hph, El, Ek. destruct (c_var c); auto; contradiction. }
  pose proof (i_les I) as L. unfold les_rel in L. rewrite Est in L.
  destruct (k_keys K (rctr s)) as [pk sk] eqn:Ekeys.
  unfold in_ok. split; [|split]; [| | reflexivity].
  - unfold track_in; cbn [is_fail]. cbn.
    destruct I. unfold les_a in L. inv_solve.
    repeat split; try tauto. exists (rctr s). auto.
  - unfold check32_in; cbn [is_fail]. rewrite A. unfold answer32. rewrite Hph. reflexivity.
Qed.

Lemma has_yn_app a b : has_yn (a ++ b) = has_yn a || has_yn b.
Proof. unfold has_yn. apply existsb_app. Qed.

(* lesc_handle_pairing_random *)
Lemma lesc_random_ok c s m pdu :
  Inv c s m -> byte pdu 0 = 4 -> (c_var c = MLesc \/ (c_var c = MBoth /\ pstate_eqb (st s) LegacyConfirmed = false)) ->
  in_ok c m pdu (lesc_random K c s pdu).
Proof.
  intros I Ho Hv. unfold lesc_random.
  pose proof (ph_of I) as Hph. pose proof (i_var I) as V.
  destruct (len pdu =? 17) eqn:El; cbn [negb].
  2:{ apply fail_in_ok; auto. unfold accept32. rewrite Ho, El. destruct (c_var c), (m_ph m); reflexivity. }
  destruct (pstate_eqb (st s) LescConfirmSend) eqn:Es; cbn [negb].
  2:{ apply fail_in_ok; auto. unfold accept32. rewrite Ho.
      destruct Hv as [Hv|[Hv Hn]]; rewrite Hv in *;
      destruct (st s); try discriminate; try contradiction; rewrite Hph; reflexivity. }
  assert (st s = LescConfirmSend) as Est by (destruct (st s); try discriminate; reflexivity).
  rewrite Est in Hph, V.
  assert (accept32 K c m pdu = true) as A.
  { unfold accept32. rewrite Ho, Hph, El. destruct (c_var c); auto; contradiction. }
  pose proof (i_les I) as L. unfold les_rel in L. rewrite Est in L. destruct L as (La & Lb & Lc).
  unfold les_a, les_b, les_c in *.
  assert (var_ok (c_var c) LescRandomExchanged /\ var_ok (c_var c) UserWait /\ var_ok (c_var c) UserSuccess /\ var_ok (c_var c) Idle) as (V1 & V2 & V3 & V4)
    by (destruct (c_var c); try contradiction; repeat split).
  unfold in_ok.
  cbn [salg set_st set_les].
  assert (forall (x : state * list event) (P : state -> list event -> Prop),
            P (fst x) (snd x) -> let '(s2, ev) := x in P s2 ev) as Hlet by (intros [a b] P H; exact H).
  destruct Lb as (Lb1 & Lb2 & Lb3).
  assert (forall nb, nb = s_nonce (les s) ->
     (if list_eqb (k_f4 K (firstn 32 (e_pkb (m_les m))) (firstn 32 (e_pka (m_les m))) nb 0) (e_cb (m_les m))
      then None else Some t_nonce_commitment) = None) as Hcommit.
  { intros nb ->. rewrite Lb1, Lb2, Lc, list_eqb_refl. reflexivity. }
  destruct (salg s) eqn:Ealg;
  try (cbv beta iota zeta; cbn [pstate_eqb pstate_code st set_st N.eqb Pos.eqb];
       split; [|split]; [| | reflexivity];
       [ unfold track_in; cbn [is_fail]; cbn; rewrite Hph; cbn; destruct I; inv_solve; intuition
       | unfold check32_in; cbn [is_fail]; rewrite A; unfold answer32; rewrite Hph; cbn; apply Hcommit; reflexivity ]).
  (* numeric comparison *)
  unfold request_yes_no, display_compare.
  destruct (c_inp c) eqn:Ein; [ | destruct (c_yn c) eqn:Eyn | ];
  destruct (c_outp c) eqn:Eout;
  cbv beta iota zeta; cbn [pstate_eqb pstate_code st set_st set_resp_pending N.eqb Pos.eqb app];
  (split; [|split]; [| | reflexivity]).
  all: try (unfold track_in; cbn [is_fail]; cbn; rewrite ?Hph, ?Eyn; cbn; destruct I; inv_solve;
            try (intros; split; [congruence | apply i_salg0; congruence]); try (repeat split; tauto)).
  all: try (unfold check32_in; cbn [is_fail]; rewrite A; unfold answer32; rewrite Hph; cbn; apply Hcommit; reflexivity).
  all: try (unfold check32_in; cbn [is_fail]; rewrite A, Hph, Eyn; reflexivity).
Qed.

(* MacKey / LTK: the monitor's definition (DH function on the public keys) agrees with the model's
   (p256 on the stored private key) *)
Lemma mon_f5_eq c s m : Inv c s m ->
  match st s with LescRandomExchanged | UserWait | UserSuccess | UserFailed => True | _ => False end ->
  mon_f5 K m = lesc_keys K s.
Proof.
  intros I H. pose proof (i_les I) as L. unfold les_rel in L.
  assert (les_a c s m /\ les_b s m /\ les_c s m /\ les_d s m) as (La & Lb & Lc & Ld) by (destruct (st s); tauto).
  unfold les_b, les_d in *. destruct Lb as (B1 & B2 & n & B3). destruct Ld as (D1 & D2).
  unfold mon_f5, lesc_keys, maddr. rewrite B1, B2, D1, D2, (i_peer I).
  pose proof (Hdh n (s_rpk (les s))) as E. rewrite B3 in E. cbn in E. rewrite E. reflexivity.
Qed.

(* lesc_handle_pairing_dhkey_check *)
Lemma lesc_dhkey_ok c s m pdu :
  Inv c s m -> byte pdu 0 = 13 -> in_ok c m pdu (lesc_dhkey_check K D c s pdu).
Proof.
  intros I Ho. unfold lesc_dhkey_check.
  pose proof (ph_of I) as Hph. pose proof (i_var I) as V. pose proof (i_ph I) as R. unfold ph_rel in R.
  destruct (len pdu =? 17) eqn:El; cbn [negb].
  2:{ apply fail_in_ok; auto. unfold accept32. rewrite Ho, El. destruct (c_var c), (m_ph m); reflexivity. }
  destruct (st s) eqn:Est.
  1,2,6,7,8,9,10: apply fail_in_ok; auto; unfold accept32; rewrite Ho, Hph; destruct (c_var c); reflexivity.
  - (* user_response_wait: swallowed *)
    destruct R as [R1 R2]. unfold in_ok. split; [|split]; [| | reflexivity].
    + unfold track_in. cbn [is_fail]. rewrite Hph, Ho, El. cbn.
      pose proof (i_les I) as L. unfold les_rel in L. rewrite Est in L.
      destruct I. inv_solve; rewrite ?Est; auto; try discriminate.
    + unfold check32_in. cbn [is_fail]. rewrite Hph, R2, Ho, El. reflexivity.
  - (* user_response_failed *)
    destruct R as [R1 R2]. apply fail_in_ok; auto. unfold accept32. rewrite Ho, Hph, R2, El.
    destruct (c_var c); auto; rewrite andb_false_r; reflexivity.
  - (* user_response_success *)
    destruct R as [R1 R2].
    assert (mon_f5 K m = lesc_keys K s) as F by (eapply mon_f5_eq; eauto; rewrite Est; exact Logic.I).
    pose proof (i_les I) as L; unfold les_rel in L; rewrite Est in L; destruct L as (La & Lb & Lc & Ld).
    unfold les_a, les_d in *. destruct La as [A1 A2]. destruct Ld as [D1 D2].
    destruct (lesc_keys K s) as [mackey key] eqn:Ek.
    assert (ea_ok K m (sub pdu 1 16) = list_eqb (firstn 16 (k_f6 K mackey (s_rnonce (les s)) (s_nonce (les s)) (zeros 16) (s_rio (les s)) (remote_addr (peer s)) local_addr)) (sub pdu 1 16)) as Hea.
    { unfold ea_ok, mon_ea, maddr. rewrite F, D1, D2, A1, (i_peer I). reflexivity. }
    assert (accept32 K c m pdu = list_eqb (firstn 16 (k_f6 K mackey (s_rnonce (les s)) (s_nonce (les s)) (zeros 16) (s_rio (les s)) (remote_addr (peer s)) local_addr)) (sub pdu 1 16)) as A.
    { unfold accept32. rewrite Ho, Hph, El, Hea, R2. destruct (c_var c); try contradiction; cbn; rewrite andb_true_r; reflexivity. }
    destruct (list_eqb _ _) eqn:Ec; cbn [negb].
    2:{ apply fail_in_ok; auto. }
    assert (mon_eb K m = lesc_eb K c s mackey) as Heb.
    { unfold mon_eb, lesc_eb, maddr. rewrite F, D1, D2, A2, (i_peer I). reflexivity. }
    unfold in_ok, lesc_completed.
    destruct (c_bond c) eqn:Eb; destruct (c_var c) eqn:Ev; try contradiction;
    (split; [|split]; [| | reflexivity];
     [ unfold track_in; cbn [is_fail]; cbn; unfold completed; rewrite F; cbn; unfold maddr; rewrite ?(i_peer I), ?(i_db I);
       pose proof (i_snum I) as Sn; rewrite Est in Sn;
       destruct I; inv_solve; try (rewrite Ev; exact Logic.I); try (intuition congruence);
       try (rewrite ?R2; cbn; intros; destruct (salg s); repeat split; auto; discriminate)
     | unfold check32_in; cbn [is_fail]; rewrite A; unfold answer32; rewrite Hph; cbn; rewrite Heb, list_eqb_refl; reflexivity ]).
  - (* lesc_pairing_random_exchanged *)
    destruct R as [R1 R2].
    assert (mon_f5 K m = lesc_keys K s) as F by (eapply mon_f5_eq; eauto; rewrite Est; exact Logic.I).
    pose proof (i_les I) as L; unfold les_rel in L; rewrite Est in L; destruct L as (La & Lb & Lc & Ld).
    unfold les_a, les_d in *. destruct La as [A1 A2]. destruct Ld as [D1 D2].
    destruct (lesc_keys K s) as [mackey key] eqn:Ek.
    assert (ea_ok K m (sub pdu 1 16) = list_eqb (firstn 16 (k_f6 K mackey (s_rnonce (les s)) (s_nonce (les s)) (zeros 16) (s_rio (les s)) (remote_addr (peer s)) local_addr)) (sub pdu 1 16)) as Hea.
    { unfold ea_ok, mon_ea, maddr. rewrite F, D1, D2, A1, (i_peer I). reflexivity. }
    assert (accept32 K c m pdu = list_eqb (firstn 16 (k_f6 K mackey (s_rnonce (les s)) (s_nonce (les s)) (zeros 16) (s_rio (les s)) (remote_addr (peer s)) local_addr)) (sub pdu 1 16)) as A.
    { unfold accept32. rewrite Ho, Hph, El, Hea, R2. destruct (c_var c); try contradiction; cbn; rewrite andb_true_r; reflexivity. }
    destruct (list_eqb _ _) eqn:Ec; cbn [negb].
    2:{ apply fail_in_ok; auto. }
    assert (mon_eb K m = lesc_eb K c s mackey) as Heb.
    { unfold mon_eb, lesc_eb, maddr. rewrite F, D1, D2, A2, (i_peer I). reflexivity. }
    unfold in_ok, lesc_completed.
    destruct (c_bond c) eqn:Eb; destruct (c_var c) eqn:Ev; try contradiction;
    (split; [|split]; [| | reflexivity];
     [ unfold track_in; cbn [is_fail]; cbn; unfold completed; rewrite F; cbn; unfold maddr; rewrite ?(i_peer I), ?(i_db I);
       pose proof (i_snum I) as Sn; rewrite Est in Sn;
       destruct I; inv_solve; try (rewrite Ev; exact Logic.I); try (intuition congruence);
       try (rewrite ?R2; cbn; intros; destruct (salg s); repeat split; auto; discriminate)
     | unfold check32_in; cbn [is_fail]; rewrite A; unfold answer32; rewrite Hph; cbn; rewrite Heb, list_eqb_refl; reflexivity ]).
Qed.

(* ---- l2cap_input of the four managers ---- *)
Lemma acc_other_op c (m : mon) pdu :
  byte pdu 0 <> 1 -> byte pdu 0 <> 3 -> byte pdu 0 <> 4 -> byte pdu 0 <> 12 -> byte pdu 0 <> 13 ->
  accept32 K c m pdu = false.
Proof.
  intros H1 H3 H4 H12 H13. unfold accept32.
  apply N.eqb_neq in H1, H3, H4, H12, H13. rewrite H1, H3, H4, H12, H13.
  destruct (c_var c), (m_ph m); reflexivity.
Qed.

Lemma acc_legacy_only c s m pdu :
  Inv c s m -> c_var c = MLegacy -> byte pdu 0 <> 1 -> byte pdu 0 <> 3 -> byte pdu 0 <> 4 -> accept32 K c m pdu = false.
Proof.
  intros I Hv H1 H3 H4. pose proof (ph_of I) as Hph. pose proof (i_var I) as V. rewrite Hv in V.
  unfold accept32. rewrite Hv. apply N.eqb_neq in H1, H3, H4.
  destruct (st s); try contradiction; rewrite Hph, ?H1, ?H3, ?H4; reflexivity.
Qed.

Lemma acc_lesc_only c s m pdu :
  Inv c s m -> c_var c = MLesc -> byte pdu 0 <> 1 -> byte pdu 0 <> 12 -> byte pdu 0 <> 4 -> byte pdu 0 <> 13 -> accept32 K c m pdu = false.
Proof.
  intros I Hv H1 H3 H4 H13. pose proof (ph_of I) as Hph. pose proof (i_var I) as V. rewrite Hv in V.
  unfold accept32. rewrite Hv. apply N.eqb_neq in H1, H3, H4, H13.
  destruct (st s); try contradiction; rewrite Hph, ?H1, ?H3, ?H4, ?H13; reflexivity.
Qed.

Lemma l2cap_input_ok c s m pdu : Inv c s m -> in_ok c m pdu (l2cap_input K D c s pdu).
Proof.
  intros I. unfold l2cap_input. destruct (c_var c) eqn:Ev.
  - (* legacy *)
    destruct pdu as [|o rest].
    { apply fail_in_ok; auto. apply acc_other_op; unfold byte; cbn; discriminate. }
    assert (byte (o :: rest) 0 = o) as Hb by reflexivity.
    destruct (o =? 1) eqn:E1. { apply N.eqb_eq in E1. apply legacy_request_ok; auto; try congruence. }
    destruct (o =? 3) eqn:E3. { apply N.eqb_eq in E3. apply legacy_confirm_ok; auto; try congruence. }
    destruct (o =? 4) eqn:E4. { apply N.eqb_eq in E4. apply legacy_random_ok; auto; try congruence. }
    apply N.eqb_neq in E1, E3, E4. apply fail_in_ok; auto. eapply acc_legacy_only; eauto; congruence.
  - (* LESC only *)
    destruct pdu as [|o rest].
    { apply fail_in_ok; auto. apply acc_other_op; unfold byte; cbn; discriminate. }
    assert (byte (o :: rest) 0 = o) as Hb by reflexivity.
    destruct (o =? 1) eqn:E1. { apply N.eqb_eq in E1. apply lesc_request_ok; auto; try congruence. }
    destruct (o =? 12) eqn:E12. { apply N.eqb_eq in E12. apply lesc_public_key_ok; auto; try congruence. }
    destruct (o =? 4) eqn:E4. { apply N.eqb_eq in E4. apply lesc_random_ok; auto; try congruence. }
    destruct (o =? 13) eqn:E13. { apply N.eqb_eq in E13. apply lesc_dhkey_ok; auto; try congruence. }
    apply N.eqb_neq in E1, E12, E4, E13. apply fail_in_ok; auto. eapply acc_lesc_only; eauto; congruence.
  - (* combined *)
    destruct pdu as [|o rest].
    { apply fail_in_ok; auto. apply acc_other_op; unfold byte; cbn; discriminate. }
    assert (byte (o :: rest) 0 = o) as Hb by reflexivity.
    destruct (o =? 1) eqn:E1. { apply N.eqb_eq in E1. apply both_request_ok; auto; try congruence. }
    destruct (o =? 3) eqn:E3. { apply N.eqb_eq in E3. apply legacy_confirm_ok; auto; try congruence. }
    destruct (o =? 4) eqn:E4.
    { apply N.eqb_eq in E4. destruct (pstate_eqb (st s) LegacyConfirmed) eqn:Es.
      - apply legacy_random_ok; auto; try congruence. right. destruct (st s); try discriminate; reflexivity.
      - apply lesc_random_ok; auto; try congruence. }
    destruct (o =? 12) eqn:E12. { apply N.eqb_eq in E12. apply lesc_public_key_ok; auto; try congruence. }
    destruct (o =? 13) eqn:E13. { apply N.eqb_eq in E13. apply lesc_dhkey_ok; auto; try congruence. }
    apply N.eqb_neq in E1, E3, E4, E12, E13. apply fail_in_ok; auto. apply acc_other_op; congruence.
  - (* no security manager *)
    pose proof (i_var I) as V. rewrite Ev in V.
    assert (st s = Idle) as Est by (destruct (st s); try contradiction; reflexivity).
    unfold in_ok. split; [|split]; [| | reflexivity].
    + unfold track_in. cbn [is_fail]. destruct I. inv_solve; rewrite ?Est in *; cbn in *; auto; try discriminate.
    + unfold check32_in. cbn [is_fail]. unfold accept32. rewrite Ev. reflexivity.
Qed.

(* ---- l2cap_output ---- *)
(* the clauses that do fail on the model: the numeric comparison defect (C32) and key distribution that
   survives a failed pairing attempt (C34) *)
Definition good32 (t : option nat) : Prop :=
  t = None \/ t = Some t_eb_before_ea \/ t = Some t_eb_bad_ea \/ t = Some t_fault.
Definition good34 (t : option nat) : Prop := t = None \/ t = Some t_dist_stale.

Definition out_ok (c : smcfg) (m : mon) (x : res DB) : Prop :=
  let '(s', r, ev) := x in
  Inv c s' (track_out K D c m r ev) /\ good32 (check32_out K c m r) /\ good34 (check34_pdu m r)
  /\ (~ numeric_cfg c -> check32_out K c m r = None).

Lemma distribute_ok c s m :
  Inv c s m -> m_ph m <> PLescPk -> (m_ph m = PLescRand -> e_user (m_les m) <> UNo) ->
  out_ok c m (distribute_keys c s).
Proof.
  intros I Hp1 Hp2. unfold out_ok, distribute_keys.
  pose proof (i_dist I) as Dr. unfold dist_rel in Dr. destruct Dr as (D1 & D2 & D3 & D4 & D5).
  assert (check32_out K c m [] = None) as Hnil.
  { unfold check32_out. cbn [is_fail].
    destruct (m_ph m) eqn:Ep; try reflexivity; try congruence.
    cbn. destruct (e_user (m_les m)) eqn:Eu; try reflexivity. exfalso. apply Hp2; auto. }
  assert (Inv c s (track_out K D c m [] []) /\ good32 (check32_out K c m []) /\ good34 (check34_pdu m [])
          /\ (~ numeric_cfg c -> check32_out K c m [] = None)) as Hnone.
  { split; [|split; [|split]]; auto; try (left; auto; fail). }
  destruct (c_bond c && encrypted s) eqn:Eb; [|exact Hnone].
  apply andb_prop in Eb. destruct Eb as [Eb Ee].
  destruct (d_enc (dist s)) eqn:Ed.
  { (* Encryption Information *)
    split; [|split; [|split]].
    - unfold track_out. cbn [is_fail]. cbn. destruct I. inv_solve. repeat split; auto; intuition congruence.
    - left. reflexivity.
    - unfold check34_pdu. cbn. rewrite (i_enc I), Ee, D1. cbn.
      rewrite (D5 (or_introl eq_refl)). cbn.
      destruct (o_cur (m_dist m)); [|right; reflexivity]. cbn.
      rewrite (D3 eq_refl), list_eqb_refl. left; reflexivity.
    - reflexivity. }
  destruct (d_id (dist s)) eqn:Ei; [|exact Hnone].
  (* Central Identification *)
  split; [|split; [|split]].
  - unfold track_out. cbn [is_fail]. cbn. destruct I. inv_solve. repeat split; auto; intuition congruence.
  - left. reflexivity.
  - unfold check34_pdu. cbn. rewrite (i_enc I), Ee, D2. cbn.
    rewrite (D5 (or_intror eq_refl)). cbn.
    destruct (o_cur (m_dist m)); [|right; reflexivity]. cbn.
    destruct (D4 eq_refl) as [-> ->]. rewrite list_eqb_refl. left; reflexivity.
  - reflexivity.
Qed.

(* lesc_l2cap_output *)
Lemma lesc_output_ok c s m :
  Inv c s m -> lesc_output_available s = true -> out_ok c m (lesc_output K D c s).
Proof.
  intros I Ha. unfold lesc_output_available in Ha. unfold out_ok, lesc_output.
  pose proof (ph_of I) as Hph. pose proof (i_var I) as V. pose proof (i_ph I) as R. unfold ph_rel in R.
  pose proof (i_les I) as L. unfold les_rel in L. pose proof (i_user I) as U.
  destruct (st s) eqn:Est; try discriminate.
  - (* user_response_failed: Pairing Failed *)
    destruct R as [R1 R2]. split; [|split; [|split]].
    + unfold track_out. cbn [is_fail]. destruct I. inv_solve; rewrite ?Est in *; cbn in *; auto; try discriminate.
      destruct (c_var c); auto.
    + left. unfold check32_out. cbn [is_fail]. rewrite Hph, R2. reflexivity.
    + left. reflexivity.
    + intros. unfold check32_out. cbn [is_fail]. rewrite Hph, R2. reflexivity.
  - (* user_response_success: Eb without looking at Ea *)
    destruct R as [R1 R2]. destruct L as (La & Lb & Lc & Ld).
    assert (mon_f5 K m = lesc_keys K s) as F by (eapply mon_f5_eq; eauto; rewrite Est; exact Logic.I).
    unfold les_a, les_d in *. destruct La as [A1 A2]. destruct Ld as [D1 D2].
    destruct (lesc_keys K s) as [mackey key] eqn:Ek.
    assert (mon_eb K m = lesc_eb K c s mackey) as Heb.
    { unfold mon_eb, lesc_eb, maddr. rewrite F, D1, D2, A2, (i_peer I). reflexivity. }
    unfold lesc_completed.
    assert (good32 (check32_out K c m (13 :: lesc_eb K c s mackey))) as G.
    { unfold check32_out. cbn [is_fail]. cbn. rewrite Hph, R2. cbn.
      destruct (e_ea (m_les m)) as [ea|]; [|right; left; reflexivity].
      destruct (ea_ok K m ea); cbn; [|right; right; left; reflexivity].
      rewrite Heb, list_eqb_refl. left. reflexivity. }
    destruct (c_bond c) eqn:Eb; destruct (c_var c) eqn:Ev; try contradiction;
    (split; [|split; [|split]]; [ | exact G | left; reflexivity | intros Hn; contradiction ]);
    unfold track_out; cbn [is_fail]; cbn; unfold completed; rewrite F; cbn; unfold maddr; rewrite ?(i_peer I), ?(i_db I);
    pose proof (i_snum I) as Sn; rewrite Est in Sn;
    destruct I; inv_solve; try (rewrite Ev; exact Logic.I); try (intuition congruence);
    try (rewrite ?R2; cbn; intros; destruct (salg s); repeat split; auto; discriminate).
  - (* public keys exchanged: our confirm value *)
    destruct L as (La & Lb). split; [|split; [|split]].
    + unfold track_out. cbn [is_fail]. cbn. destruct I. unfold les_a, les_b in *. inv_solve.
    + left. unfold check32_out. cbn [is_fail]. cbn. rewrite Hph. reflexivity.
    + left. reflexivity.
    + intros. unfold check32_out. cbn [is_fail]. cbn. rewrite Hph. reflexivity.
Qed.

Lemma l2cap_output_ok c s m : Inv c s m -> out_ok c m (l2cap_output K D c s).
Proof.
  intros I. unfold l2cap_output.
  pose proof (ph_of I) as Hph. pose proof (i_var I) as V. pose proof (i_ph I) as R. unfold ph_rel in R.
  assert (lesc_output_available s = false -> m_ph m <> PLescPk /\ (m_ph m = PLescRand -> e_user (m_les m) <> UNo)) as Hna.
  { unfold lesc_output_available. intros H. destruct (st s); try discriminate; rewrite Hph; split; try discriminate;
    intros _; destruct R as [_ ->]; discriminate. }
  assert (check32_out K c m [] = None -> out_ok c m (s, [], [])) as Hnil.
  { intros H. unfold out_ok. split; [|split; [|split]]; auto; try (left; auto; fail). }
  assert (lesc_output_available s = false -> check32_out K c m [] = None) as Hchk.
  { intros H. destruct (Hna H) as [H1 H2]. unfold check32_out. cbn [is_fail].
    destruct (m_ph m) eqn:Ep; try reflexivity; try congruence.
    cbn. destruct (e_user (m_les m)) eqn:Eu; try reflexivity. exfalso. apply H2; auto. }
  destruct (c_var c) eqn:Ev.
  - (* legacy: key distribution only *)
    apply distribute_ok; auto; destruct (st s); try contradiction; rewrite Hph; discriminate.
  - destruct (lesc_output_available s) eqn:Ea; [apply lesc_output_ok; auto|]. apply Hnil. auto.
  - destruct (lesc_output_available s) eqn:Ea; [apply lesc_output_ok; auto|].
    destruct (Hna eq_refl). apply distribute_ok; auto.
  - apply Hnil. unfold check32_out. cbn [is_fail].
    destruct (st s); try contradiction. rewrite Hph. reflexivity.
Qed.

(* the status the model reports differs from the specified one only as lrel allows *)
Lemma local_lrel c s m : Inv c s m -> lrel c (local_status c s) (expected_status c m).
Proof.
  intros I. pose proof (ph_of I) as Hph. pose proof (i_var I) as V.
  pose proof (i_sleg I) as S1. pose proof (i_sboth I) as S2.
  unfold local_status, expected_status, lrel.
  destruct (st s) eqn:Est; rewrite Hph; try (destruct (c_var c); left; reflexivity).
  destruct (c_var c) eqn:Ev.
  - rewrite (S1 eq_refl eq_refl). left. unfold legacy_auth. destruct (lalg s); reflexivity.
  - destruct (m_auth m); [right; right|left]; auto.
  - destruct (S2 eq_refl eq_refl) as [[P|P] Q].
    + destruct (m_auth m); [left|right; left]; auto.
    + destruct (m_auth m); [rewrite (Q eq_refl) in P; discriminate|left; auto].
  - left. reflexivity.
Qed.

(* ---- one operation ---- *)
Definition step_good (c : smcfg) (m : mon) (o : op) (x : state * out) : Prop :=
  let '(s', r) := x in
  Inv c s' (track c m o r) /\ shape_ok o r = true /\ good32 (check32 K c m o r)
  /\ check33 D c m o r = None /\ good34 (check34 c m o r)
  /\ (~ numeric_cfg c -> check32 K c m o r = None).

Lemma step_ok c s m o : Inv c s m -> dead s = false -> step_good c m o (step c s o).
Proof.
  intros I Hd. unfold step_good, SMModel.step. rewrite Hd.
  assert (m_dead m = false) as Hmd by (rewrite (i_dead I); auto).
  unfold SMSpec.track. rewrite Hmd.
  destruct o as [pdu| | | |n|b|ediv rnd| |a|a e r kb].
  - (* In *)
    pose proof (l2cap_input_ok pdu I) as H. unfold in_ok in H.
    destruct (l2cap_input K D c s pdu) as [[s1 r] ev]. destruct H as (H1 & H2 & H3).
    split; [exact H1|]. split; [reflexivity|]. cbn [check32 check33 check34]. rewrite H2, H3.
    split; [left; reflexivity|]. split; [reflexivity|]. split; [left; reflexivity|]. auto.
  - (* Out *)
    pose proof (l2cap_output_ok I) as H. unfold out_ok in H.
    destruct (l2cap_output K D c s) as [[s1 r] ev]. destruct H as (H1 & H2 & H3 & H4).
    split; [exact H1|]. split; [reflexivity|]. cbn [check32 check33 check34]. auto.
  - (* Yes *)
    destruct (resp_pending s) eqn:Ep.
    + pose proof (i_pend I Ep) as Hn. pose proof (i_ph I) as R. unfold ph_rel in R.
      destruct (pstate_eqb (st s) UserWait) eqn:Es.
      * assert (st s = UserWait) as Est by (destruct (st s); try discriminate; reflexivity).
        rewrite Est in R. destruct R as [R1 R2]. rewrite R2. cbn.
        split; [|split; [reflexivity|split; [left; reflexivity|split; [reflexivity|split; [left; reflexivity|auto]]]]].
        pose proof (i_les I) as L. unfold les_rel in L. rewrite Est in L. pose proof (i_var I) as V. rewrite Est in V.
        pose proof (i_snum I) as Sn. rewrite Est in Sn.
        destruct I. inv_solve; try discriminate; auto; try (destruct (c_var c); auto; fail).
      * split; [|split; [reflexivity|split; [right; right; right; reflexivity|split; [reflexivity|split; [left; reflexivity|intros Hc; contradiction]]]]].
        destruct I. inv_solve.
    + split; [exact I|]. repeat split; auto; left; reflexivity.
  - (* No *)
    destruct (resp_pending s) eqn:Ep.
    + pose proof (i_pend I Ep) as Hn. pose proof (i_ph I) as R. unfold ph_rel in R.
      destruct (pstate_eqb (st s) UserWait) eqn:Es.
      * assert (st s = UserWait) as Est by (destruct (st s); try discriminate; reflexivity).
        rewrite Est in R. destruct R as [R1 R2]. rewrite R2. cbn.
        split; [|split; [reflexivity|split; [left; reflexivity|split; [reflexivity|split; [left; reflexivity|auto]]]]].
        pose proof (i_les I) as L. unfold les_rel in L. rewrite Est in L. pose proof (i_var I) as V. rewrite Est in V.
        pose proof (i_snum I) as Sn. rewrite Est in Sn.
        destruct I. inv_solve; try discriminate; auto; try (destruct (c_var c); auto; fail).
      * split; [|split; [reflexivity|split; [right; right; right; reflexivity|split; [reflexivity|split; [left; reflexivity|intros Hc; contradiction]]]]].
        destruct I. inv_solve.
    + split; [exact I|]. repeat split; auto; left; reflexivity.
  - (* Passkey *)
    split; [|repeat split; auto; left; reflexivity]. destruct I. inv_solve.
  - (* Enc *)
    rewrite (i_enc I). destruct (Bool.eqb (encrypted s) b).
    + split; [exact I|]. repeat split; auto; left; reflexivity.
    + split; [|repeat split; auto; left; reflexivity]. pose proof (local_lrel I) as Hl. destruct I. inv_solve.
  - (* Key *)
    split; [exact I|]. split; [reflexivity|]. split; [left; reflexivity|]. split; [|split; [left; reflexivity|auto]].
    unfold check33, expected_key, find_key, maddr.
    pose proof (ph_of I) as Hph. pose proof (i_key I) as Hk.
    rewrite (i_db I), (i_peer I).
    destruct (c_var c); try reflexivity;
    (destruct (st s) eqn:Est; rewrite Hph; cbn;
     try (destruct (c_bond c); [destruct (db_find D (bonds s) ediv rnd (remote_addr (peer s))); try rewrite list_eqb_refl; reflexivity | reflexivity]);
     destruct ((ediv =? 0) && (rnd =? 0));
     try (rewrite (Hk eq_refl), list_eqb_refl; reflexivity);
     (destruct (c_bond c); [destruct (db_find D (bonds s) ediv rnd (remote_addr (peer s))); try rewrite list_eqb_refl; reflexivity | reflexivity])).
  - (* Status *)
    split; [exact I|]. repeat split; auto; left; reflexivity.
  - (* Reset *)
    split; [|repeat split; auto; left; reflexivity].
    pose proof (i_pend I) as Hp. destruct I. unfold new_connection. inv_solve.
    + destruct (c_var c); exact Logic.I.
    + repeat split; auto; try discriminate. intros [H|H]; discriminate.
  - (* Bond: the application adds a bond to its data base *)
    split; [|repeat split; auto; left; reflexivity].
    pose proof (i_db I) as Hdb. destruct I. inv_solve. rewrite Hdb. reflexivity.
Qed.

(* ---- whole traces ---- *)
Lemma dead_run c s ops : dead s = true -> Forall (fun x => snd x = OSkipped) (run K D c s ops) /\ True.
Proof.
  split; auto. revert s H. induction ops as [|o t IH]; intros s H; cbn; [constructor|].
  unfold SMModel.step. rewrite H. constructor; auto.
Qed.

Lemma monitor_dead check c (m : mon) pos tr :
  m_dead m = true -> Forall (fun x => snd x = OSkipped) tr -> monitor_from (mstep_with K D check) c m pos tr = None.
Proof.
  intros Hm H. revert pos. induction H as [|[o r] t Hx Ht IH]; intros pos; cbn; auto.
  cbn in Hx. subst r. unfold mstep_with. rewrite Hm. apply IH.
Qed.

Section Mon.
Variable check : smcfg -> mon -> op -> out -> option nat.
Variable allowed : smcfg -> nat -> Prop.
Hypothesis Hcheck : forall c s m o, Inv c s m -> dead s = false ->
  match check c m o (snd (step c s o)) with None => True | Some t => allowed c t end.

Lemma monitor_allowed ops : forall c s m pos, Inv c s m ->
  match monitor_from (mstep_with K D check) c m pos (run K D c s ops) with
  | None => True
  | Some (_, t) => allowed c t
  end.
Proof.
  induction ops as [|o t IH]; intros c s m pos I; [exact Logic.I|].
  cbn [run]. pose proof (Hcheck o I) as C. pose proof (step_ok o I) as G.
  pose proof (dead_run c s (o :: t)) as F. cbn [run] in F.
  destruct (step c s o) as [s' r] eqn:Es. cbn [monitor_from].
  destruct (dead s) eqn:Hd.
  - (* the process is gone: only SKIPPED follows *)
    destruct (F eq_refl) as [F1 _].
    assert (m_dead m = true) as Hm by (rewrite (i_dead I); auto).
    pose proof (@monitor_dead check c m pos ((o, r) :: run K D c s' t) Hm F1) as E. cbn [monitor_from] in E.
    rewrite E. exact Logic.I.
  - specialize (C eq_refl). specialize (G eq_refl). cbn in C. unfold step_good in G.
    destruct G as (G1 & G2 & _).
    unfold mstep_with. rewrite (i_dead I), Hd, G2. cbn [negb].
    destruct (check c m o r) as [tg|].
    + exact C.
    + apply IH. exact G1.
Qed.
End Mon.

Lemma numeric_cfg_dec c : numeric_cfg c \/ ~ numeric_cfg c.
Proof.
  unfold numeric_cfg. destruct (c_inp c), (c_outp c); auto; right; intros [A B]; discriminate.
Qed.

(* C32: on model traces only the clauses of the numeric comparison defect can fail ... *)
Theorem monitor32_only_known c db0 ops :
  match monitor32 K D c db0 (run K D c (init_state db0) ops) with
  | None => True
  | Some (_, t) => t = t_eb_before_ea \/ t = t_eb_bad_ea \/ t = t_fault
  end.
Proof.
  unfold monitor32, mstep32.
  apply (@monitor_allowed (@check32 K DB) (fun _ t => t = t_eb_before_ea \/ t = t_eb_bad_ea \/ t = t_fault)); [|apply inv_init].
  intros c0 s m o I Hd. pose proof (step_ok o I Hd) as G. destruct (step c0 s o) as [s' r]. cbn.
  destruct G as (_ & _ & G & _). destruct G as [-> | [-> | [-> | ->]]]; auto.
Qed.

(* ... and none at all when the configuration cannot ask the user to compare numbers *)
Theorem monitor32_accepts c db0 ops :
  ~ numeric_cfg c -> monitor32 K D c db0 (run K D c (init_state db0) ops) = None.
Proof.
  intros Hn. unfold monitor32, mstep32.
  assert (forall c0 s m o, Inv c0 s m -> dead s = false ->
            match check32 K c0 m o (snd (step c0 s o)) with None => True | Some t => numeric_cfg c0 end) as Hc.
  { intros c0 s m o I Hd. pose proof (step_ok o I Hd) as G. destruct (step c0 s o) as [s' r]. cbn.
    destruct G as (_ & _ & _ & _ & _ & G).
    destruct (numeric_cfg_dec c0) as [Y|Nn]; [destruct (check32 K c0 m o r); auto|]. rewrite (G Nn). exact Logic.I. }
  pose proof (@monitor_allowed (@check32 K DB) (fun c0 _ => numeric_cfg c0) Hc ops c (init_state db0) (minit db0) O (inv_init c db0)) as H.
  destruct (monitor_from _ _ _ _ _) as [[p t]|]; [contradiction|reflexivity].
Qed.

(* C33: every key request of every trace is answered as specified *)
Theorem monitor33_accepts c db0 ops : monitor33 K D c db0 (run K D c (init_state db0) ops) = None.
Proof.
  unfold monitor33, mstep33.
  assert (forall c0 s m o, Inv c0 s m -> dead s = false ->
            match check33 D c0 m o (snd (step c0 s o)) with None => True | Some t => False end) as Hc.
  { intros c0 s m o I Hd. pose proof (step_ok o I Hd) as G. destruct (step c0 s o) as [s' r]. cbn.
    destruct G as (_ & _ & _ & G & _). rewrite G. exact Logic.I. }
  pose proof (@monitor_allowed (@check33 DB D) (fun _ _ => False) Hc ops c (init_state db0) (minit db0) O (inv_init c db0)) as H.
  destruct (monitor_from _ _ _ _ _) as [[p t]|]; [contradiction|reflexivity].
Qed.

(* C34: the only clause that can fail is dist_stale *)
Theorem monitor34_only_stale c db0 ops :
  match monitor34 K D c db0 (run K D c (init_state db0) ops) with
  | None => True
  | Some (_, t) => t = t_dist_stale
  end.
Proof.
  unfold monitor34, mstep34.
  apply (@monitor_allowed (@check34 DB) (fun _ t => t = t_dist_stale)); [|apply inv_init].
  intros c0 s m o I Hd. pose proof (step_ok o I Hd) as G. destruct (step c0 s o) as [s' r]. cbn.
  destruct G as (_ & _ & _ & _ & G & _). destruct G as [-> | ->]; auto.
Qed.

(* C35: the reported status is the specified one, except that the combined manager may report
   authenticated for an exchange that did not authenticate and the LESC-only manager unauthenticated for
   one that did *)
Definition allowed35 (c : smcfg) (t : nat) : Prop :=
  (c_var c = MBoth /\ (t = t_auth_not_performed \/ t = t_link_auth_not_performed))
  \/ (c_var c = MLesc /\ (t = t_auth_not_reported \/ t = t_link_auth_not_reported)).

Lemma status_tag_lrel c link got want : lrel c got want ->
  match status_tag link got want with None => True | Some t => allowed35 c t end.
Proof.
  unfold lrel, status_tag, allowed35. intros [E | [(Hv & -> & ->) | (Hv & -> & ->)]].
  - subst. rewrite N.eqb_refl. exact Logic.I.
  - cbn. left. destruct link; auto.
  - cbn. right. destruct link; auto.
Qed.

Lemma check35_ok c s m o : Inv c s m -> dead s = false ->
  match check35 c m o (snd (step c s o)) with None => True | Some t => allowed35 c t end.
Proof.
  intros I Hd.
  assert (forall r, o <> Status -> check35 c m o r = None) as Hns by (intros r; destruct o; try reflexivity; congruence).
  destruct o as [pdu| | | |n|b|ediv rnd| |a|a e r kb]; try (rewrite Hns; [exact Logic.I|discriminate]).
  unfold SMModel.step. rewrite Hd. cbn.
  pose proof (status_tag_lrel false (local_lrel I)) as H1. pose proof (status_tag_lrel true (i_link I)) as H2.
  destruct (status_tag false (local_status c s) (expected_status c m)); auto.
Qed.

Theorem monitor35_only_known c db0 ops :
  match monitor35 K D c db0 (run K D c (init_state db0) ops) with
  | None => True
  | Some (_, t) => allowed35 c t
  end.
Proof.
  unfold monitor35, mstep35.
  apply (@monitor_allowed (@check35 DB) allowed35); [|apply inv_init].
  intros. apply check35_ok; auto.
Qed.

(* ... in particular the legacy manager (and the rejecting one) report exactly the specified status *)
Theorem monitor35_legacy_exact c db0 ops :
  c_var c = MLegacy \/ c_var c = MNone -> monitor35 K D c db0 (run K D c (init_state db0) ops) = None.
Proof.
  intros Hv. pose proof (monitor35_only_known c db0 ops) as H.
  destruct (monitor35 K D c db0 _) as [[p t]|]; [|reflexivity].
  exfalso. unfold allowed35 in H. destruct Hv as [Hv|Hv]; rewrite Hv in H; destruct H as [[H _]|[H _]]; discriminate.
Qed.

End Proofs.

(* ---------------------------------------------------------------------------------------------
   The toy tool box satisfies the two hypotheses, and concrete witnesses (toy instance, computed)
   for the clauses that do fail. *)
From BT Require Import SM.ToyCrypto.

Lemma toy_x16_length v : length (toy_x16 v) = 16%nat.
Proof. reflexivity. Qed.

Lemma toy_dh_ok : dh_ok toy.
Proof.
  intros n pk. cbn [k_p256 k_dhpub k_keys toy]. unfold toy_p256, toy_dhpub, toy_keys. cbn [fst snd].
  reflexivity.
Qed.

Lemma rd32_le32 v l : v < 4294967296 -> rd32 (le32 v ++ l) = v.
Proof.
  intros H. unfold rd32, le32, byte. cbn [app nth].
  pose proof (N.div_mod' v 256). pose proof (N.div_mod' (v / 256) 256). pose proof (N.div_mod' (v / 65536) 256).
  assert (v / 65536 = v / 256 / 256) as E1 by (rewrite N.div_div by lia; reflexivity).
  assert (v / 16777216 = v / 65536 / 256) as E2 by (rewrite N.div_div by lia; reflexivity).
  assert (v / 16777216 < 256) by (apply N.div_lt_upper_bound; lia).
  rewrite (N.mod_small (v / 16777216) 256) by lia.
  rewrite E2. rewrite E1 in *. lia.
Qed.

Lemma toy_passkey_ok : passkey_ok toy.
Proof.
  intros n. cbn [k_passkey toy]. unfold toy_passkey.
  rewrite rd32_le32; [reflexivity|].
  pose proof (N.mod_upper_bound (toy_h 16 (ctr_bytes n)) 1000000). lia.
Qed.

(* LESC manager, yes/no buttons and a display: the configurations of the numeric comparison *)
Definition cfg_numeric (v : smvariant) (yn : yn_mode) : smcfg :=
  mksmcfg v SMSelectModel.InYesNo SMSelectModel.OutNumeric false false yn false.
Definition toy_pk : list N := zeros 63 ++ [165].
Definition toy_monitor32 c ops := monitor32 toy toydbops c [] (run toy toydbops c (init_state ([] : toydb)) ops).
Definition toy_monitor33 c ops := monitor33 toy toydbops c [] (run toy toydbops c (init_state ([] : toydb)) ops).
Definition toy_monitor34 c ops := monitor34 toy toydbops c [] (run toy toydbops c (init_state ([] : toydb)) ops).
Definition toy_monitor35 c ops := monitor35 toy toydbops c [] (run toy toydbops c (init_state ([] : toydb)) ops).

(* the user's handler answers yes at once: the first output poll after Pairing Random sends Eb, no Ea seen *)
Definition w_eb_before_ea : list op :=
  [In [1; 1; 0; 8; 16; 0; 1]; In (12 :: toy_pk); Out; In (4 :: zeros 16); Out].
Lemma eb_before_ea_witness :
  toy_monitor32 (cfg_numeric MLesc SyncYes) w_eb_before_ea = Some (4%nat, t_eb_before_ea).
Proof. vm_compute. reflexivity. Qed.

(* asynchronous answer: a wrong Ea is swallowed while waiting, Eb goes out after the user's yes *)
Definition w_eb_bad_ea : list op :=
  [In [1; 4; 0; 8; 16; 0; 1]; In (12 :: toy_pk); Out; In (4 :: zeros 16); In (13 :: zeros 16); Yes; Out; Key 0 0].
Lemma eb_bad_ea_witness :
  toy_monitor32 (cfg_numeric MBoth Async) w_eb_bad_ea = Some (6%nat, t_eb_bad_ea).
Proof. vm_compute. reflexivity. Qed.
(* ... and the key of that exchange is offered for encryption *)
Lemma eb_bad_ea_key_offered :
  exists k, nth 7 (map snd (run toy toydbops (cfg_numeric MBoth Async) (init_state ([] : toydb)) w_eb_bad_ea)) ODone = OKey (Some k).
Proof. eexists. vm_compute. reflexivity. Qed.

(* the pairing is aborted while the application still holds the response object; its answer asserts *)
Definition w_late_answer : list op :=
  [In [1; 4; 0; 8; 16; 0; 1]; In (12 :: toy_pk); Out; In (4 :: zeros 16); In [11]; Yes].
Lemma late_answer_witness :
  toy_monitor32 (cfg_numeric MLesc Async) w_late_answer = Some (5%nat, t_fault).
Proof. vm_compute. reflexivity. Qed.


(* ---- the full statements and their refutations ---- *)
Definition tool_box_ok (K : crypto) : Prop := dh_ok K /\ passkey_ok K.

Definition order_full : Prop :=
  forall (K : crypto) (DB : Type) (D : dbops DB), tool_box_ok K ->
  forall c db0 ops, wf c = true -> monitor32 K D c db0 (run K D c (init_state db0) ops) = None.
Lemma order_refuted : ~ order_full.
Proof.
  intros H. specialize (H toy toydb toydbops (conj toy_dh_ok toy_passkey_ok) (cfg_numeric MLesc SyncYes) [] w_eb_before_ea eq_refl).
  pose proof eb_before_ea_witness as W. unfold toy_monitor32 in W. rewrite H in W. discriminate.
Qed.

(* C34 *)
Definition cfg_bond_legacy : smcfg := mksmcfg MLegacy SMSelectModel.InNone SMSelectModel.OutNone false true Async false.
Definition w34_preq : list N := [1; 3; 0; 0; 16; 0; 1].
Definition w34_pres : list N := [2; 3; 0; 1; 16; 0; 1].
Definition w34_mconfirm : list N := toy_c1 (zeros 16) (zeros 16) (c1_p1 w34_preq w34_pres) (c1_p2 0).
(* a complete Just Works pairing; a stray Security Request gets Pairing Failed (state idle, the STK is no
   longer offered); the link becomes encrypted; the next poll sends the long term key *)
Definition w_dist_stale : list op :=
  [In w34_preq; In (3 :: w34_mconfirm); In (4 :: zeros 16); In [11]; Key 0 0; Enc true; Out].
Lemma dist_stale_witness : toy_monitor34 cfg_bond_legacy w_dist_stale = Some (6%nat, t_dist_stale).
Proof. vm_compute. reflexivity. Qed.
Lemma dist_stale_outputs :
  exists k r, map snd (run toy toydbops cfg_bond_legacy (init_state ([] : toydb)) w_dist_stale)
    = [OResp w34_pres []; OResp (3 :: r) []; OResp (4 :: toy_srand 0) [EStore k (toy_h 22 (ctr_bytes 1)) (toy_h 21 (ctr_bytes 1) mod 65536)];
       OResp [5; 7] []; OKey None; ODone; OResp (6 :: k) []].
Proof. eexists. eexists. vm_compute. reflexivity. Qed.

Definition dist_full : Prop :=
  forall (K : crypto) (DB : Type) (D : dbops DB), tool_box_ok K ->
  forall c db0 ops, wf c = true -> monitor34 K D c db0 (run K D c (init_state db0) ops) = None.
Lemma dist_refuted : ~ dist_full.
Proof.
  intros H. specialize (H toy toydb toydbops (conj toy_dh_ok toy_passkey_ok) cfg_bond_legacy [] w_dist_stale eq_refl).
  pose proof dist_stale_witness as W. unfold toy_monitor34 in W. rewrite H in W. discriminate.
Qed.

(* C35 *)
Definition w35_na : list N := zeros 16.
Definition w35_nb : list N := toy_nonce 1.
Definition w35_pkb : list N := fst (toy_keys 0).
Definition w35_ea (rio : list N) : list N :=
  toy_f6 (fst (toy_f5 (toy_dhpub w35_pkb toy_pk) w35_na w35_nb (remote_addr 0) local_addr))
         w35_na w35_nb (zeros 16) rio (remote_addr 0) local_addr.
(* combined manager without any IO: the central sets its OOB flag, "OOB" is selected, the exchange performed is
   Just Works, the status is authenticated *)
Definition cfg_both_noio : smcfg := mksmcfg MBoth SMSelectModel.InNone SMSelectModel.OutNone false false Async false.
Definition w_auth_not_performed : list op :=
  [In [1; 3; 1; 8; 16; 0; 1]; In (12 :: toy_pk); Out; In (4 :: w35_na); In (13 :: w35_ea [3; 1; 8]); Status].
Lemma auth_not_performed_witness :
  toy_monitor35 cfg_both_noio w_auth_not_performed = Some (5%nat, t_auth_not_performed).
Proof. vm_compute. reflexivity. Qed.
Lemma auth_not_performed_status :
  nth 5 (map snd (run toy toydbops cfg_both_noio (init_state ([] : toydb)) w_auth_not_performed)) ODone
  = OStatus authenticated_key no_key.
Proof. vm_compute. reflexivity. Qed.
(* LESC-only manager: numeric comparison confirmed by the user, Ea verified, status unauthenticated *)
Definition w_auth_not_reported : list op :=
  [In [1; 1; 0; 8; 16; 0; 1]; In (12 :: toy_pk); Out; In (4 :: w35_na); In (13 :: w35_ea [1; 0; 8]); Status].
Lemma auth_not_reported_witness :
  toy_monitor35 (cfg_numeric MLesc SyncYes) w_auth_not_reported = Some (5%nat, t_auth_not_reported).
Proof. vm_compute. reflexivity. Qed.

Definition status_full : Prop :=
  forall (K : crypto) (DB : Type) (D : dbops DB), tool_box_ok K ->
  forall c db0 ops, wf c = true -> monitor35 K D c db0 (run K D c (init_state db0) ops) = None.
Lemma status_refuted : ~ status_full.
Proof.
  intros H. specialize (H toy toydb toydbops (conj toy_dh_ok toy_passkey_ok) cfg_both_noio [] w_auth_not_performed eq_refl).
  pose proof auth_not_performed_witness as W. unfold toy_monitor35 in W. rewrite H in W. discriminate.
Qed.

(* non-vacuity: complete exchanges that the monitors accept *)
Definition cfg_keyboard_display : smcfg := mksmcfg MLegacy SMSelectModel.InKeyboard SMSelectModel.OutNumeric false true Async false.
Definition w_pk_preq : list N := [1; 4; 0; 0; 16; 0; 1].
Definition w_pk_pres : list N := [2; 4; 0; 1; 16; 0; 1].
(* legacy passkey entry (the user types 123456 on our keyboard), bonding, key distribution on the encrypted link *)
Definition w_legacy_passkey : list op :=
  [Passkey 123456; In w_pk_preq;
   In (3 :: toy_c1 (le32 123456 ++ zeros 12) (zeros 16) (c1_p1 w_pk_preq w_pk_pres) (c1_p2 0));
   In (4 :: zeros 16); Status; Key 0 0; Out; Enc true; Status; Out; Out; Out; Key 7 7].
Lemma legacy_passkey_accepted :
  toy_monitor32 cfg_keyboard_display w_legacy_passkey = None /\ toy_monitor33 cfg_keyboard_display w_legacy_passkey = None
  /\ toy_monitor34 cfg_keyboard_display w_legacy_passkey = None /\ toy_monitor35 cfg_keyboard_display w_legacy_passkey = None.
Proof. vm_compute. repeat split; reflexivity. Qed.
Lemma legacy_passkey_outputs :
  exists a b k d e ci, map snd (run toy toydbops cfg_keyboard_display (init_state ([] : toydb)) w_legacy_passkey)
  = [ODone; OResp w_pk_pres []; OResp (3 :: a) [EDisplay 123456]; OResp (4 :: toy_srand 0) [EStore k e d];
     OStatus authenticated_key no_key; OKey (Some b); OResp [] []; ODone; OStatus authenticated_key authenticated_key;
     OResp (6 :: k) []; OResp (7 :: ci) []; OResp [] []; OKey None].
Proof. do 6 eexists. vm_compute. reflexivity. Qed.
(* LESC Just Works on the combined manager with a verified DHKey check *)
Lemma lesc_just_works_accepted :
  let ops := [In [1; 3; 0; 8; 16; 0; 1]; In (12 :: toy_pk); Out; In (4 :: w35_na); In (13 :: w35_ea [3; 0; 8]); Status; Key 0 0] in
  toy_monitor32 cfg_both_noio ops = None /\ toy_monitor33 cfg_both_noio ops = None /\ toy_monitor35 cfg_both_noio ops = None.
Proof. vm_compute. repeat split; reflexivity. Qed.
(* the monitors are not trivially accepting *)
Lemma monitor_rejects_random_before_confirm :
  monitor_from (mstep32 toy toydbops) cfg_bond_legacy (minit ([] : toydb)) O
    [(In w34_preq, OResp w34_pres []); (In (4 :: zeros 16), OResp (4 :: zeros 16) [])] = Some (1%nat, t_order).
Proof. vm_compute. reflexivity. Qed.
Lemma monitor_rejects_unverified_confirm :
  monitor_from (mstep32 toy toydbops) cfg_bond_legacy (minit ([] : toydb)) O
    [(In w34_preq, OResp w34_pres []); (In (3 :: zeros 16), OResp (3 :: zeros 16) []); (In (4 :: zeros 16), OResp (4 :: zeros 16) [])]
  = Some (2%nat, t_order).
Proof. vm_compute. reflexivity. Qed.
Lemma monitor_rejects_key_after_failure :
  monitor_from (mstep33 toy toydbops) cfg_bond_legacy (minit ([] : toydb)) O
    [(In w34_preq, OResp w34_pres []); (In [11], OResp [5; 7] []); (Key 0 0, OKey (Some (zeros 16)))] = Some (2%nat, t_key_without_pairing).
Proof. vm_compute. reflexivity. Qed.
Lemma monitor_rejects_unencrypted_distribution :
  monitor_from (mstep34 toy toydbops) cfg_bond_legacy (minit ([] : toydb)) O
    [(In w34_preq, OResp w34_pres []); (Out, OResp (6 :: zeros 16) [])] = Some (1%nat, t_dist_unencrypted).
Proof. vm_compute. reflexivity. Qed.
Lemma monitor_rejects_authenticated_just_works :
  monitor_from (mstep35 toy toydbops) cfg_bond_legacy (minit ([] : toydb)) O
    [(In w34_preq, OResp w34_pres []); (In (3 :: w34_mconfirm), OResp (3 :: zeros 16) []);
     (In (4 :: zeros 16), OResp (4 :: zeros 16) []); (Status, OStatus authenticated_key no_key)] = Some (3%nat, t_auth_not_performed).
Proof. vm_compute. reflexivity. Qed.
