(* The model and the monitors instantiated with the toy tool box and the small concrete bond data base:
   what is extracted and run against the real classes. Definitions only. *)
From BT Require Import Base.ListX SM.SMModel SM.SMSpec SM.ToyCrypto.
From BT Require gen.GenSM.
Local Open Scope N_scope.

Definition tstate := state toydb.
Definition tmon := mon toydb.
Definition toy_init : tstate := init_state ([] : toydb).
Definition toy_step : smcfg -> tstate -> op -> tstate * out := step toy toydbops.
Definition toy_minit : tmon := minit ([] : toydb).
Definition toy_mstep32 : smcfg -> tmon -> op -> out -> verdict * tmon := mstep32 toy toydbops.
Definition toy_mstep33 : smcfg -> tmon -> op -> out -> verdict * tmon := mstep33 toy toydbops.
Definition toy_mstep34 : smcfg -> tmon -> op -> out -> verdict * tmon := mstep34 toy toydbops.
Definition toy_mstep35 : smcfg -> tmon -> op -> out -> verdict * tmon := mstep35 toy toydbops.
(* source-shape switch read by the translator (gen/consts/sm.py) *)
Definition legacy_oob_switch : bool := GenSM.combined_legacy_response_oob_flag.
