(* The TOY security tool box: cheap deterministic mixing functions with the interface of the security
   manager's SecurityFunctions template argument, defined identically in harness/toy_crypto.hpp (C++)
   and props/sm_common.py (Python peer). They have no cryptographic strength and need none: the
   security managers are parametric in the tool box, the theorems hold for every instantiation, and
   this instance only serves execution (extracted model, tie with the real classes).

     h(tag, bytes)  = fold (fun acc b => (acc * 257 + b + 1) mod 4294967291) bytes tag
     x16(v)[i]      = (((v + 1) * (2654435761 + 81006 i)) / 2^24) mod 256     i = 0..15   (fits 64 bits)
     X(tag, bytes)  = x16(h(tag, bytes))
   Definitions only (plus closed sanity Examples by vm_compute at the end). *)
From BT Require Import Base.ListX SM.SMModel.
Local Open Scope N_scope.

Definition toy_p : N := 4294967291.
Definition toy_h (tag : N) (bytes : list N) : N :=
  fold_left (fun acc b => (acc * 257 + b + 1) mod toy_p) bytes tag.
Definition toy_x16 (v : N) : list N :=
  map (fun i => (((v + 1) * (2654435761 + 81006 * i)) / 16777216) mod 256) [0; 1; 2; 3; 4; 5; 6; 7; 8; 9; 10; 11; 12; 13; 14; 15].
Definition toy_X (tag : N) (bytes : list N) : list N := toy_x16 (toy_h tag bytes).

Definition xor_bytes (a b : list N) : list N := map (fun p => N.lxor (fst p) (snd p)) (combine a b).
Definition ctr_bytes (n : N) : list N := [n mod 256; (n / 256) mod 256].

Definition toy_c1 (k r p1 p2 : list N) : list N := toy_X 1 (k ++ r ++ p1 ++ p2).
Definition toy_s1 (k r1 r2 : list N) : list N := toy_X 2 (k ++ r1 ++ r2).
Definition toy_f4 (u v x : list N) (z : N) : list N := toy_X 3 (u ++ v ++ x ++ [z]).
Definition toy_f5 (w n1 n2 a1 a2 : list N) : list N * list N :=
  (toy_X 4 (w ++ n1 ++ n2 ++ a1 ++ a2), toy_X 5 (w ++ n1 ++ n2 ++ a1 ++ a2)).
Definition toy_f6 (w n1 n2 r io a1 a2 : list N) : list N := toy_X 6 (w ++ n1 ++ n2 ++ r ++ io ++ a1 ++ a2).
Definition toy_g2 (u v x y : list N) : N := toy_h 7 (u ++ v ++ x ++ y).

(* toy Diffie-Hellman: the public x coordinate is the private key xor 0x5a, the shared secret a hash of the
   xor of both public x coordinates (so both sides - and anybody else - can compute it) *)
Definition toy_pubx (sk : list N) : list N := map (fun b => N.lxor b 90) sk.
Definition toy_dh (x1 x2 : list N) : list N := let d := xor_bytes x1 x2 in toy_X 8 d ++ toy_X 9 d.
Definition toy_p256 (sk pk : list N) : list N := toy_dh (toy_pubx sk) (firstn 32 pk).
(* the DH function on two public keys (exists for real ECDH too, only not efficiently) *)
Definition toy_dhpub (pk1 pk2 : list N) : list N := toy_dh (firstn 32 pk1) (firstn 32 pk2).

(* a public key is "on the curve" iff its last byte is the checksum of the other 63 *)
Definition toy_checksum (b63 : list N) : N := N.lxor (fold_left N.add b63 0 mod 256) 165.
Definition toy_valid (pk : list N) : bool := nth 63 pk 0 =? toy_checksum (firstn 63 pk).

Definition toy_srand (n : N) : list N := toy_X 10 (ctr_bytes n).
Definition toy_nonce (n : N) : list N := toy_X 11 (ctr_bytes n).
Definition toy_keys (n : N) : list N * list N :=
  let sk := toy_X 12 (ctr_bytes n) ++ toy_X 13 (ctr_bytes n) in
  let b63 := toy_pubx sk ++ toy_X 14 (ctr_bytes n) ++ firstn 15 (toy_X 15 (ctr_bytes n)) in
  (b63 ++ [toy_checksum b63], sk).
Definition toy_passkey (n : N) : list N := le32 (toy_h 16 (ctr_bytes n) mod 1000000) ++ zeros 12.
Definition toy_oob : list N := toy_X 17 [79; 79; 66].

Definition toy : crypto :=
  mkcrypto toy_c1 toy_s1 toy_f4 toy_f5 toy_f6 toy_g2 toy_p256 toy_valid toy_srand toy_nonce toy_keys toy_passkey toy_oob toy_dhpub.

(* ---- the small concrete bond data base: a list of (address, key, rand, ediv), newest first ---- *)
Definition toydb := list (list N * list N * N * N).
Definition toydb_find (db : toydb) (ediv rnd : N) (addr : list N) : option (list N) :=
  match find (fun e => match e with (a, _, r, d) => list_eqb a addr && (r =? rnd) && (d =? ediv) end) db with
  | Some (_, k, _, _) => Some k
  | None => None
  end.
Definition toydb_store (db : toydb) (addr key : list N) (rnd ediv : N) : toydb := (addr, key, rnd, ediv) :: db.
Definition toydb_new (db : toydb) (n : N) (addr : list N) : list N * N * N :=
  (toy_X 20 (ctr_bytes n ++ addr), toy_h 22 (ctr_bytes n), toy_h 21 (ctr_bytes n) mod 65536).
Definition toydbops : dbops toydb := mkdb toydb_find toydb_store toydb_new.

(* reference values, also checked by harness/toy_crypto.hpp (selftest op) and props/sm_common.py *)
Example toy_h_ref : toy_h 1 [1; 2; 3] = 17107466. Proof. vm_compute. reflexivity. Qed.
Example toy_valid_own_key : toy_valid (fst (toy_keys 5)) = true. Proof. vm_compute. reflexivity. Qed.
Example toy_dh_symmetric :
  toy_p256 (snd (toy_keys 1)) (fst (toy_keys 2)) = toy_p256 (snd (toy_keys 2)) (fst (toy_keys 1)).
Proof. vm_compute. reflexivity. Qed.
