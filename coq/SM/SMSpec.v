(* Specification monitors for the security manager properties C32..C35.

   A monitor sees operations and outputs only (never model state). All four share one TRACKER that
   follows the pairing protocol of the Core specification (Vol 3 Part H, peripheral role) from what
   is observable:
       phase     which pairing step is expected next (legacy: request, confirm, random;
                 LESC: request, public key, [our confirm goes out], random, DHKey check)
       values    the values exchanged so far (preq/pres, confirms, randoms, public keys, nonces,
                 the user's passkey / the displayed passkey, the user's yes/no answer)
       result    the key a completed exchange produced and whether the exchange authenticated the peer
       link      encrypted or not, status snapshot taken when encryption changed
       bonds     the bonds the security manager stored (observed store_bond callbacks), kept in a copy
                 of the user's data base
   and each property adds its CHECK, evaluated on the tracker state before the operation:

   C32  order / rejected_valid / no_answer / shape / srand_commitment / nonce_commitment /
        eb_before_ea / eb_bad_ea / eb_without_user_confirm / eb_value / order_out / confirm_missing /
        user_no_not_failed / fault
   C33  key_without_pairing / key_wrong / key_missing
   C34  dist_unencrypted / dist_without_pairing / dist_twice / dist_stale / dist_content
   C35  auth_not_performed / auth_not_reported / status_wrong / link_auth_not_performed /
        link_auth_not_reported / link_status_wrong
   (all: shape = an output of the wrong kind; fault = assert / sanitizer abort in an operation other than a
   user response).

   The monitors are parametric in the same tool box record as the model. To say what a correct DHKey
   check is they use k_dhpub, the Diffie-Hellman function on two public keys; [dh_ok] states that it
   agrees with the tool box's p256 on the tool box's own key pairs. *)
From BT Require Import Base.ListX SM.SMModel.
Local Open Scope N_scope.
Set Implicit Arguments.

Inductive phase := PIdle | PLegReq | PLegConf | PLescReq | PLescPk | PLescConf | PLescRand | PDone.
Inductive uconf := UNotAsked | UWaiting | UYes | UNo.

Definition phase_code (p : phase) : N :=
  match p with PIdle => 0 | PLegReq => 1 | PLegConf => 2 | PLescReq => 3 | PLescPk => 4 | PLescConf => 5 | PLescRand => 6 | PDone => 7 end.
Definition phase_eqb (a b : phase) : bool := phase_code a =? phase_code b.
Definition uconf_code (u : uconf) : N := match u with UNotAsked => 0 | UWaiting => 1 | UYes => 2 | UNo => 3 end.
Definition uconf_eqb (a b : uconf) : bool := uconf_code a =? uconf_code b.

Record mleg := mkmleg { g_alg : SMSelectModel.legacy_alg; g_p1 : list N; g_p2 : list N; g_tk : list N; g_mconfirm : list N; g_sconfirm : list N }.
Record mles := mkmles { e_lio : list N; e_rio : list N; e_pka : list N; e_pkb : list N; e_cb : list N; e_na : list N; e_nb : list N;
                        e_ea : option (list N); e_user : uconf }.
Record mdist := mkmdist { o_enc : bool; o_id : bool; o_key : list N; o_rand : N; o_ediv : N; o_cur : bool; o_has : bool }.
Definition mleg0 : mleg := mkmleg SMSelectModel.LJustWorks [] [] [] [] [].
Definition mles0 : mles := mkmles [] [] [] [] [] [] [] None UNotAsked.
Definition mdist0 : mdist := mkmdist false false [] 0 0 false false.

Inductive verdict := Ok | Bad (tag : nat).

Definition t_shape := 1%nat.
Definition t_order := 2%nat.
Definition t_rejected_valid := 3%nat.
Definition t_no_answer := 4%nat.
Definition t_srand_commitment := 5%nat.
Definition t_nonce_commitment := 6%nat.
Definition t_eb_before_ea := 7%nat.
Definition t_eb_bad_ea := 8%nat.
Definition t_eb_without_user_confirm := 9%nat.
Definition t_eb_value := 10%nat.
Definition t_order_out := 11%nat.
Definition t_confirm_missing := 12%nat.
Definition t_user_no_not_failed := 13%nat.
Definition t_fault := 14%nat.
Definition t_key_without_pairing := 20%nat.
Definition t_key_wrong := 21%nat.
Definition t_key_missing := 22%nat.
Definition t_dist_unencrypted := 30%nat.
Definition t_dist_without_pairing := 31%nat.
Definition t_dist_twice := 32%nat.
Definition t_dist_stale := 33%nat.
Definition t_dist_content := 34%nat.
Definition t_auth_not_performed := 40%nat.
Definition t_auth_not_reported := 41%nat.
Definition t_status_wrong := 42%nat.
Definition t_link_auth_not_performed := 43%nat.
Definition t_link_auth_not_reported := 44%nat.
Definition t_link_status_wrong := 45%nat.

Section Spec.
Variable K : crypto.
Variable DB : Type.
Variable D : dbops DB.

(* the tool box's p256 agrees with the DH function on public keys, for the tool box's own key pairs *)
Definition dh_ok : Prop :=
  forall n pk, k_p256 K (snd (k_keys K n)) pk = k_dhpub K (fst (k_keys K n)) pk.
(* a generated passkey is a number below 2^32 in 16 little endian bytes (what the display shows is all of it) *)
Definition passkey_ok : Prop := forall n, k_passkey K n = le32 (rd32 (k_passkey K n)) ++ zeros 12.

Record mon := mkm {
  m_dead : bool;
  m_ph : phase;
  m_peer : N;
  m_passkey : N;
  m_leg : mleg;
  m_les : mles;
  m_key : list N;
  m_auth : bool;
  m_enc : bool;
  m_link : N;
  m_dist : mdist;
  m_db : DB
}.

Definition set_m_dead (m : mon) (v : bool) : mon := mkm v (m_ph m) (m_peer m) (m_passkey m) (m_leg m) (m_les m) (m_key m) (m_auth m) (m_enc m) (m_link m) (m_dist m) (m_db m).
Definition set_m_ph (m : mon) (v : phase) : mon := mkm (m_dead m) v (m_peer m) (m_passkey m) (m_leg m) (m_les m) (m_key m) (m_auth m) (m_enc m) (m_link m) (m_dist m) (m_db m).
Definition set_m_peer (m : mon) (v : N) : mon := mkm (m_dead m) (m_ph m) v (m_passkey m) (m_leg m) (m_les m) (m_key m) (m_auth m) (m_enc m) (m_link m) (m_dist m) (m_db m).
Definition set_m_passkey (m : mon) (v : N) : mon := mkm (m_dead m) (m_ph m) (m_peer m) v (m_leg m) (m_les m) (m_key m) (m_auth m) (m_enc m) (m_link m) (m_dist m) (m_db m).
Definition set_m_leg (m : mon) (v : mleg) : mon := mkm (m_dead m) (m_ph m) (m_peer m) (m_passkey m) v (m_les m) (m_key m) (m_auth m) (m_enc m) (m_link m) (m_dist m) (m_db m).
Definition set_m_les (m : mon) (v : mles) : mon := mkm (m_dead m) (m_ph m) (m_peer m) (m_passkey m) (m_leg m) v (m_key m) (m_auth m) (m_enc m) (m_link m) (m_dist m) (m_db m).
Definition set_m_key (m : mon) (v : list N) : mon := mkm (m_dead m) (m_ph m) (m_peer m) (m_passkey m) (m_leg m) (m_les m) v (m_auth m) (m_enc m) (m_link m) (m_dist m) (m_db m).
Definition set_m_auth (m : mon) (v : bool) : mon := mkm (m_dead m) (m_ph m) (m_peer m) (m_passkey m) (m_leg m) (m_les m) (m_key m) v (m_enc m) (m_link m) (m_dist m) (m_db m).
Definition set_m_enc (m : mon) (v : bool) : mon := mkm (m_dead m) (m_ph m) (m_peer m) (m_passkey m) (m_leg m) (m_les m) (m_key m) (m_auth m) v (m_link m) (m_dist m) (m_db m).
Definition set_m_link (m : mon) (v : N) : mon := mkm (m_dead m) (m_ph m) (m_peer m) (m_passkey m) (m_leg m) (m_les m) (m_key m) (m_auth m) (m_enc m) v (m_dist m) (m_db m).
Definition set_m_dist (m : mon) (v : mdist) : mon := mkm (m_dead m) (m_ph m) (m_peer m) (m_passkey m) (m_leg m) (m_les m) (m_key m) (m_auth m) (m_enc m) (m_link m) v (m_db m).
Definition set_m_db (m : mon) (v : DB) : mon := mkm (m_dead m) (m_ph m) (m_peer m) (m_passkey m) (m_leg m) (m_les m) (m_key m) (m_auth m) (m_enc m) (m_link m) (m_dist m) v.

Definition minit (db0 : DB) : mon :=
  mkm false PIdle 0 0 mleg0 mles0 [] false false no_key mdist0 db0.

Definition is_fail (r : list N) : bool := match r with [5; _] => true | _ => false end.
Definition has_yn (ev : list event) : bool := existsb (fun e => match e with EYesNo => true | _ => false end) ev.
Fixpoint stored_bond (ev : list event) : option (list N * N * N) :=
  match ev with
  | [] => None
  | EStore k r d :: _ => Some (k, r, d)
  | _ :: t => stored_bond t
  end.
Fixpoint displayed (ev : list event) : option N :=
  match ev with
  | [] => None
  | EDisplay n :: _ => Some n
  | _ :: t => displayed t
  end.

Definition maddr (m : mon) : list N := remote_addr (m_peer m).

(* legacy or LESC? (the choice the Pairing Request's SC bit and the manager make) *)
Definition request_is_lesc (c : smcfg) (pdu : list N) : bool :=
  match c_var c with
  | MLegacy => false
  | MLesc => true
  | _ => negb (N.land (byte pdu 3) 8 =? 0)
  end.

(* the temporary key of the selected legacy method, from what the users see and type *)
Definition mon_tk (c : smcfg) (m : mon) (alg : SMSelectModel.legacy_alg) (ev : list event) : list N :=
  match alg with
  | SMSelectModel.LOob => oob_tk K c
  | SMSelectModel.LPasskeyDisplay => match displayed ev with Some n => le32 n ++ zeros 12 | None => zeros 16 end
  | SMSelectModel.LPasskeyInput => match c_inp c with SMSelectModel.InKeyboard => le32 (m_passkey m) ++ zeros 12 | _ => zeros 16 end
  | SMSelectModel.LJustWorks => zeros 16
  end.

(* MacKey and LTK of the LESC exchange as the specification defines them *)
Definition mon_f5 (m : mon) : list N * list N :=
  k_f5 K (k_dhpub K (e_pkb (m_les m)) (e_pka (m_les m))) (e_na (m_les m)) (e_nb (m_les m)) (maddr m) local_addr.
Definition mon_ea (m : mon) : list N :=
  k_f6 K (fst (mon_f5 m)) (e_na (m_les m)) (e_nb (m_les m)) (zeros 16) (e_rio (m_les m)) (maddr m) local_addr.
Definition mon_eb (m : mon) : list N :=
  k_f6 K (fst (mon_f5 m)) (e_nb (m_les m)) (e_na (m_les m)) (zeros 16) (e_lio (m_les m)) local_addr (maddr m).
Definition ea_ok (m : mon) (ea : list N) : bool := list_eqb (firstn 16 (mon_ea m)) ea.

(* ---------------------------------------------------------------- the tracker *)
Definition pairing_failed (m : mon) : mon :=
  let m1 := set_m_ph m PIdle in
  let m2 := set_m_les m1 (mkmles (e_lio (m_les m)) (e_rio (m_les m)) (e_pka (m_les m)) (e_pkb (m_les m)) (e_cb (m_les m))
                                 (e_na (m_les m)) (e_nb (m_les m)) None UNotAsked) in
  set_m_dist m2 (mkmdist (o_enc (m_dist m)) (o_id (m_dist m)) (o_key (m_dist m)) (o_rand (m_dist m)) (o_ediv (m_dist m)) false (o_has (m_dist m))).

(* a completed pairing: the stored bond (if any) is owed to the peer and kept in the data base copy *)
Definition completed (m : mon) (key : list N) (auth legacy : bool) (ev : list event) : mon :=
  let m1 := set_m_auth (set_m_key (set_m_ph m PDone) key) auth in
  match stored_bond ev with
  | Some (k, r, d) =>
      let m2 := set_m_db m1 (db_store D (m_db m) (maddr m) k r d) in
      if legacy then set_m_dist m2 (mkmdist true true k r d true true) else m2
  | None => m1
  end.

Definition track_in (c : smcfg) (m : mon) (pdu r : list N) (ev : list event) : mon :=
  if is_fail r then pairing_failed m
  else match r with
  | [] =>
      if phase_eqb (m_ph m) PLescRand && (byte pdu 0 =? 13) && (len pdu =? 17)
      then set_m_les m (mkmles (e_lio (m_les m)) (e_rio (m_les m)) (e_pka (m_les m)) (e_pkb (m_les m)) (e_cb (m_les m))
                               (e_na (m_les m)) (e_nb (m_les m)) (Some (sub pdu 1 16)) (e_user (m_les m)))
      else m
  | o :: body =>
      if o =? 2 then
        if request_is_lesc c pdu
        then set_m_les (set_m_ph m PLescReq) (mkmles (sub r 1 3) (sub pdu 1 3) [] [] [] [] [] None UNotAsked)
        else
          let alg := SMSelectModel.legacy_select (selcfg c) (byte pdu 1) (byte pdu 2) (c_oob c && N.even (m_peer m)) in
          set_m_leg (set_m_ph m PLegReq) (mkmleg alg (c1_p1 pdu r) (c1_p2 (m_peer m)) [] [] [])
      else if o =? 3 then
        let g := m_leg m in
        set_m_leg (set_m_ph m PLegConf) (mkmleg (g_alg g) (g_p1 g) (g_p2 g) (mon_tk c m (g_alg g) ev) (sub pdu 1 16) body)
      else if o =? 4 then
        if phase_eqb (m_ph m) PLegConf then
          let g := m_leg m in
          completed m (k_s1 K (g_tk g) body (sub pdu 1 16))
                    (match g_alg g with SMSelectModel.LJustWorks => false | _ => true end) true ev
        else
          let e := m_les m in
          set_m_les (set_m_ph m PLescRand)
            (mkmles (e_lio e) (e_rio e) (e_pka e) (e_pkb e) (e_cb e) (sub pdu 1 16) body None
                    (if has_yn ev then match c_yn c with SyncYes => UYes | SyncNo => UNo | Async => UWaiting end else UNotAsked))
      else if o =? 12 then
        let e := m_les m in
        set_m_les (set_m_ph m PLescPk) (mkmles (e_lio e) (e_rio e) (sub pdu 1 64) body [] [] [] None UNotAsked)
      else if o =? 13 then
        completed m (snd (mon_f5 m)) (uconf_eqb (e_user (m_les m)) UYes) false ev
      else m
  end.

Definition track_out (c : smcfg) (m : mon) (r : list N) (ev : list event) : mon :=
  if is_fail r then pairing_failed m
  else match r with
  | [] => m
  | o :: body =>
      if o =? 3 then
        let e := m_les m in
        set_m_les (set_m_ph m PLescConf) (mkmles (e_lio e) (e_rio e) (e_pka e) (e_pkb e) body (e_na e) (e_nb e) None UNotAsked)
      else if o =? 13 then
        completed m (snd (mon_f5 m)) (uconf_eqb (e_user (m_les m)) UYes) false ev
      else if o =? 6 then
        let d := m_dist m in set_m_dist m (mkmdist false (o_id d) (o_key d) (o_rand d) (o_ediv d) (o_cur d) (o_has d))
      else if o =? 7 then
        let d := m_dist m in set_m_dist m (mkmdist (o_enc d) false (o_key d) (o_rand d) (o_ediv d) (o_cur d) (o_has d))
      else m
  end.

(* the status a correct security manager reports now *)
Definition expected_status (c : smcfg) (m : mon) : N :=
  match c_var c with
  | MNone => no_key
  | _ => match m_ph m with
         | PDone => if m_auth m then authenticated_key else unauthenticated_key
         | _ => no_key
         end
  end.

Definition track (c : smcfg) (m : mon) (o : op) (r : out) : mon :=
  if m_dead m then m else
  match o, r with
  | _, OFault => set_m_dead m true
  | In pdu, OResp b ev => track_in c m pdu b ev
  | Out, OResp b ev => track_out c m b ev
  | Yes, ODone | No, ODone =>
      if uconf_eqb (e_user (m_les m)) UWaiting then
        let e := m_les m in
        set_m_les m (mkmles (e_lio e) (e_rio e) (e_pka e) (e_pkb e) (e_cb e) (e_na e) (e_nb e) (e_ea e)
                            (match o with Yes => UYes | _ => UNo end))
      else m
  | Passkey n, ODone => set_m_passkey m (n mod 4294967296)
  | Enc b, ODone =>
      if Bool.eqb (m_enc m) b then m else set_m_link (set_m_enc m b) (expected_status c m)
  | Reset a, ODone =>
      mkm false PIdle (a mod 256) (m_passkey m) mleg0 mles0 [] false false no_key mdist0 (m_db m)
  | Bond a ediv rnd kb, ODone =>
      (* the application adds a bond to its data base: the copy follows *)
      set_m_db m (db_store D (m_db m) (remote_addr a) (repeat (kb mod 256) 16) rnd ediv)
  | _, _ => m
  end.

(* output of the right kind for the operation (before the process died) *)
Definition shape_ok (o : op) (r : out) : bool :=
  match o, r with
  | In _, OResp _ _ | Out, OResp _ _ => true
  | Yes, ODone | Yes, ONoPending | Yes, OFault | No, ODone | No, ONoPending | No, OFault => true
  | Passkey _, ODone | Enc _, ODone | Reset _, ODone | Bond _ _ _ _, ODone => true
  | Key _ _, OKey _ => true
  | Status, OStatus _ _ => true
  | _, _ => false
  end.

(* ---------------------------------------------------------------- C32 *)
(* is this PDU the next pairing step, with the right length and valid parameters (for the steps that
   carry a check value: does the check value verify)? *)
Definition accept32 (c : smcfg) (m : mon) (pdu : list N) : bool :=
  let o := byte pdu 0 in
  match c_var c with
  | MNone => false
  | v =>
    match m_ph m with
    | PIdle => (o =? 1) && (len pdu =? 7) && negb (invalid_request pdu)
               && match v with MLesc => negb (N.land (byte pdu 3) 8 =? 0) | _ => true end
    | PLegReq => (o =? 3) && (len pdu =? 17)
    | PLegConf => (o =? 4) && (len pdu =? 17)
                  && list_eqb (k_c1 K (g_tk (m_leg m)) (sub pdu 1 16) (g_p1 (m_leg m)) (g_p2 (m_leg m))) (g_mconfirm (m_leg m))
    | PLescReq => (o =? 12) && (len pdu =? 65) && k_valid K (sub pdu 1 64)
    | PLescPk => false
    | PLescConf => (o =? 4) && (len pdu =? 17)
    | PLescRand => (o =? 13) && (len pdu =? 17) && ea_ok m (sub pdu 1 16)
                   && (uconf_eqb (e_user (m_les m)) UNotAsked || uconf_eqb (e_user (m_les m)) UYes)
    | PDone => false
    end
  end.

(* the answer to an accepted step (the lengths of the answers are fixed by the C++ array types of the tool
   box and are compared by the differential runs, not here) *)
Definition answer32 (c : smcfg) (m : mon) (pdu r : list N) : option nat :=
  match m_ph m, r with
  | PIdle, o :: _ => if o =? 2 then None else Some t_shape
  | PLegReq, o :: _ => if o =? 3 then None else Some t_shape
  | PLegConf, o :: srand =>
      if negb (o =? 4) then Some t_shape
      else if list_eqb (k_c1 K (g_tk (m_leg m)) srand (g_p1 (m_leg m)) (g_p2 (m_leg m))) (g_sconfirm (m_leg m)) then None
      else Some t_srand_commitment
  | PLescReq, o :: _ => if o =? 12 then None else Some t_shape
  | PLescConf, o :: nb =>
      if negb (o =? 4) then Some t_shape
      else if list_eqb (k_f4 K (firstn 32 (e_pkb (m_les m))) (firstn 32 (e_pka (m_les m))) nb 0) (e_cb (m_les m)) then None
      else Some t_nonce_commitment
  | PLescRand, o :: eb =>
      if negb (o =? 13) then Some t_shape
      else if list_eqb (mon_eb m) eb then None else Some t_eb_value
  | _, _ => Some t_shape
  end.

Definition check32_in (c : smcfg) (m : mon) (pdu r : list N) (ev : list event) : option nat :=
  if is_fail r then
    (* rejecting is wrong only for the step that is due and valid (a user who says no during the
       callback of the random step also ends the pairing) *)
    if accept32 c m pdu && negb (phase_eqb (m_ph m) PLescConf && has_yn ev && match c_yn c with SyncNo => true | _ => false end)
    then Some t_rejected_valid else None
  else match r with
  | [] =>
      (* no answer at all: only a DHKey check that has to wait for the user's answer *)
      if phase_eqb (m_ph m) PLescRand && uconf_eqb (e_user (m_les m)) UWaiting && (byte pdu 0 =? 13) && (len pdu =? 17)
      then None else Some t_no_answer
  | _ =>
      if accept32 c m pdu then answer32 c m pdu r
      else if phase_eqb (m_ph m) PLescRand && (byte pdu 0 =? 13) && (len pdu =? 17) && (byte r 0 =? 13) then
        (* a DHKey check went out in answer to a DHKey check that should not have been accepted *)
        if negb (ea_ok m (sub pdu 1 16)) then Some t_eb_bad_ea else Some t_eb_without_user_confirm
      else Some t_order
  end.

Definition check32_out (c : smcfg) (m : mon) (r : list N) : option nat :=
  let user := e_user (m_les m) in
  if is_fail r then
    if phase_eqb (m_ph m) PLescRand && uconf_eqb user UNo then None else Some t_order_out
  else match r with
  | [] =>
      if phase_eqb (m_ph m) PLescPk then Some t_confirm_missing
      else if phase_eqb (m_ph m) PLescRand && uconf_eqb user UNo then Some t_user_no_not_failed
      else None
  | o :: body =>
      if o =? 3 then
        if phase_eqb (m_ph m) PLescPk then None else Some t_order_out
      else if o =? 13 then
        if negb (phase_eqb (m_ph m) PLescRand) then Some t_order_out
        else if negb (uconf_eqb user UYes) then Some t_eb_without_user_confirm
        else match e_ea (m_les m) with
             | None => Some t_eb_before_ea
             | Some ea => if negb (ea_ok m ea) then Some t_eb_bad_ea
                          else if list_eqb (mon_eb m) body then None else Some t_eb_value
             end
      else if (o =? 6) || (o =? 7) then None      (* key distribution: C34 *)
      else Some t_shape
  end.

Definition check32 (c : smcfg) (m : mon) (o : op) (r : out) : option nat :=
  match o, r with
  | _, OFault => Some t_fault
  | In pdu, OResp b ev => check32_in c m pdu b ev
  | Out, OResp b ev => check32_out c m b
  | _, _ => None
  end.

(* ---------------------------------------------------------------- C33 *)
Definition expected_key (c : smcfg) (m : mon) (ediv rnd : N) : option (list N) :=
  match c_var c with
  | MNone => None
  | _ => if phase_eqb (m_ph m) PDone && (ediv =? 0) && (rnd =? 0) then Some (m_key m)
         else if c_bond c then db_find D (m_db m) ediv rnd (maddr m) else None
  end.

Definition check33 (c : smcfg) (m : mon) (o : op) (r : out) : option nat :=
  match o, r with
  | Key ediv rnd, OKey k =>
      match k, expected_key c m ediv rnd with
      | None, None => None
      | Some _, None => Some t_key_without_pairing
      | None, Some _ => Some t_key_missing
      | Some a, Some b => if list_eqb a b then None else Some t_key_wrong
      end
  | _, _ => None
  end.

(* ---------------------------------------------------------------- C34 *)
Definition check34_pdu (m : mon) (r : list N) : option nat :=
  let d := m_dist m in
  match r with
  | o :: body =>
      if (o =? 6) || (o =? 7) then
        if negb (m_enc m) then Some t_dist_unencrypted
        else if negb (o_has d) then Some t_dist_without_pairing
        else if negb (if o =? 6 then o_enc d else o_id d) then Some t_dist_twice
        else if negb (o_cur d) then Some t_dist_stale
        else if (if o =? 6 then list_eqb body (o_key d) else list_eqb body (le16 (o_ediv d) ++ le64 (o_rand d))) then None
        else Some t_dist_content
      else None
  | [] => None
  end.

Definition check34 (c : smcfg) (m : mon) (o : op) (r : out) : option nat :=
  match o, r with
  | In _, OResp b _ | Out, OResp b _ => check34_pdu m b
  | _, _ => None
  end.

(* ---------------------------------------------------------------- C35 *)
Definition status_tag (link : bool) (got want : N) : option nat :=
  if got =? want then None
  else if got =? authenticated_key then Some (if link then t_link_auth_not_performed else t_auth_not_performed)
  else if want =? authenticated_key then Some (if link then t_link_auth_not_reported else t_auth_not_reported)
  else Some (if link then t_link_status_wrong else t_status_wrong).

Definition check35 (c : smcfg) (m : mon) (o : op) (r : out) : option nat :=
  match o, r with
  | Status, OStatus loc link =>
      match status_tag false loc (expected_status c m) with
      | Some t => Some t
      | None => status_tag true link (m_link m)
      end
  | _, _ => None
  end.

(* ---------------------------------------------------------------- the four monitors *)
Definition mstep_with (check : smcfg -> mon -> op -> out -> option nat) (c : smcfg) (m : mon) (o : op) (r : out) : verdict * mon :=
  if m_dead m then (match r with OSkipped => (Ok, m) | _ => (Bad t_shape, m) end)
  else if negb (shape_ok o r) then (Bad (match r with OFault => t_fault | _ => t_shape end), m)
  else match check c m o r with
       | Some t => (Bad t, m)
       | None => (Ok, track c m o r)
       end.

Definition mstep32 := mstep_with check32.
Definition mstep33 := mstep_with check33.
Definition mstep34 := mstep_with check34.
Definition mstep35 := mstep_with check35.

Fixpoint monitor_from (ms : smcfg -> mon -> op -> out -> verdict * mon) (c : smcfg) (m : mon) (pos : nat) (tr : list (op * out)) : option (nat * nat) :=
  match tr with
  | [] => None
  | (o, r) :: t =>
      match ms c m o r with
      | (Ok, m') => monitor_from ms c m' (S pos) t
      | (Bad tag, _) => Some (pos, tag)
      end
  end.

Definition monitor32 (c : smcfg) (db0 : DB) (tr : list (op * out)) := monitor_from mstep32 c (minit db0) O tr.
Definition monitor33 (c : smcfg) (db0 : DB) (tr : list (op * out)) := monitor_from mstep33 c (minit db0) O tr.
Definition monitor34 (c : smcfg) (db0 : DB) (tr : list (op * out)) := monitor_from mstep34 c (minit db0) O tr.
Definition monitor35 (c : smcfg) (db0 : DB) (tr : list (op * out)) := monitor_from mstep35 c (minit db0) O tr.

End Spec.

Arguments m_dead {DB}.
Arguments m_ph {DB}.
Arguments m_peer {DB}.
Arguments m_passkey {DB}.
Arguments m_leg {DB}.
Arguments m_les {DB}.
Arguments m_key {DB}.
Arguments m_auth {DB}.
Arguments m_enc {DB}.
Arguments m_link {DB}.
Arguments m_dist {DB}.
Arguments m_db {DB}.
Arguments set_m_dead {DB}.
Arguments set_m_ph {DB}.
Arguments set_m_peer {DB}.
Arguments set_m_passkey {DB}.
Arguments set_m_leg {DB}.
Arguments set_m_les {DB}.
Arguments set_m_key {DB}.
Arguments set_m_auth {DB}.
Arguments set_m_enc {DB}.
Arguments set_m_link {DB}.
Arguments set_m_dist {DB}.
Arguments set_m_db {DB}.
Arguments mkm {DB}.
