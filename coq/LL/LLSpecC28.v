(* C28  A link is encrypted only with a key supplied for it: specification and monitor.

   Specification (per connection; all of it is stated on what can be OBSERVED at the link layer's boundary):
     request      LL_ENC_REQ was handled: the link layer asked the key store (item findkey); the key store's answer is the
                  environment's (operation key 0|1): known / unknown
     start sent   LL_START_ENC_REQ was committed for that request (item enc:r+: reception is switched to encrypted with
                  the very call that commits the PDU); only allowed for a request with a known key
     encrypted    transmission switched to encrypted + is_encrypted( true ) (item enc:t+, the answer to LL_START_ENC_RSP):
                  only allowed when a request with a known key is pending AND its LL_START_ENC_REQ was sent AND no
                  pause / disconnect / new connection happened since it was sent
     unencrypted  after enc:r- (LL_PAUSE_ENC_REQ), enc:t- (LL_PAUSE_ENC_RSP), disconnect(), the end of the connection;
                  disconnect() and the end of the connection also end a pending request
   On air (items tx:, judged one connection event later than the decision that queued the PDU):
     LL_START_ENC_REQ on air only if one is due; an unknown key is answered with LL_REJECT_(EXT_)IND( pin or key
     missing ) in the next connection event; LL_PAUSE_ENC_RSP only on an unencrypted link; the value of the protected
     characteristic (ATT Read Response of handle 3 of the harness' server) only if the link was encrypted at some
     moment of the connection event that queued it.

   Monitor clauses (tags):
     1 encrypted_without_key            enc:t+ without a pending request, or for a request whose key is unknown
     2 encrypted_without_start_enc_req  enc:t+ for a known key before LL_START_ENC_REQ was sent
     3 unknown_key_not_rejected         LL_START_ENC_REQ for an unknown key, or no reject on air in the next event
     4 pause_keeps_encrypted            still encrypted after disconnect() / at the end of the connection / when
                                        LL_PAUSE_ENC_RSP is on air; protected value readable after a pause
     5 protected_readable_unencrypted   protected value on air although the link was never encrypted in this connection
     6 fault                            assert / sanitizer abort
     8 start_enc_req_unrequested        LL_START_ENC_REQ without any LL_ENC_REQ in this connection
   [air] = false switches the on-air clauses off (the part of the monitor for which acceptance of every model trace is
   proved without reasoning about the transmit queue, LLProofsC28.v; the complete monitor: LLProofsC28Air.v). *)
From Coq Require Import NArith List Bool.
From BT Require Import Base.ListX LL.LLModel LL.LLSpec.
Import ListNotations.
Local Open Scope N_scope.

Record mon28 := mk28 {
  q_key : bool;            (* what the key store answers *)
  q_req : option bool;     (* pending encryption start procedure of this connection: Some known *)
  q_sent : bool;           (* LL_START_ENC_REQ committed for it *)
  q_enc : bool;            (* the link is encrypted (specification state) *)
  q_was : bool;            (* it was encrypted earlier in this connection *)
  q_win : bool;            (* encrypted at some moment of the previous connection event *)
  q_cur : bool;            (* ... of the current one *)
  q_due5 : nat;            (* LL_START_ENC_REQ committed and not yet seen on air *)
  q_unk : bool;            (* this operation handled a request with an unknown key *)
  q_rej : bool;            (* a reject for an unknown key is due on air *)
  q_disc : bool            (* disconnect() was called *)
}.

Definition set_q_key (m : mon28) (v : bool) := mk28 v (q_req m) (q_sent m) (q_enc m) (q_was m) (q_win m) (q_cur m) (q_due5 m) (q_unk m) (q_rej m) (q_disc m).
Definition fresh28 (key : bool) : mon28 := mk28 key None false false false false false 0 false false false.
Definition minit28 (c : cfg) : mon28 := fresh28 false.

(* specification constants (Core Vol 6 Part B 2.4.2; ATT): *)
Definition start_enc_req_pdu : list N := [5].
Definition pause_enc_rsp_pdu : list N := [11].
Definition is_reject_enc (b : list N) : bool := bytes_eqb b [17; 3; 6] || bytes_eqb b [13; 6].   (* ErrorCode 0x06 *)
Definition protected_value_pdu : list N := [2; 0; 4; 0; 11; 23].    (* Read Response( 0x17 ) on the ATT channel *)

(* a pause (or the radio's encryption switched off for another reason): unencrypted, and a LL_START_ENC_REQ sent before
   it does not count any more; a request that is still waiting for its LL_START_ENC_REQ stays pending *)
Definition unenc28 (m : mon28) : mon28 :=
  mk28 (q_key m) (q_req m) false false (q_was m || q_enc m) (q_win m) (q_cur m) (q_due5 m) (q_unk m) (q_rej m) (q_disc m).

Definition item28 (air : bool) (m : mon28) (i : item) : verdict * mon28 :=
  match i with
  | IFindKey _ _ =>
      (Ok, mk28 (q_key m) (Some (q_key m)) false (q_enc m) (q_was m) (q_win m) (q_cur m) (q_due5 m)
                (q_unk m || negb (q_key m)) (q_rej m) (q_disc m))
  | IEncRx true =>
      match q_req m with
      | Some true => (Ok, mk28 (q_key m) (q_req m) true (q_enc m) (q_was m) (q_win m) (q_cur m) (S (q_due5 m)) (q_unk m) (q_rej m) (q_disc m))
      | Some false => (Bad 3, m)
      | None => (Bad 8, m)
      end
  | IEncTx true =>
      match q_req m with
      | Some true =>
          if q_sent m
          then (Ok, mk28 (q_key m) None false true (q_was m) (q_win m) true (q_due5 m) (q_unk m) (q_rej m) (q_disc m))
          else (Bad 2, m)
      | _ => (Bad 1, m)
      end
  | IEncRx false | IEncTx false => (Ok, unenc28 m)
  | ITx llid b =>
      if negb air then (Ok, m)
      else if (llid =? 3) && bytes_eqb b start_enc_req_pdu then
        match q_due5 m with
        | O => (Bad 8, m)
        | S n => (Ok, mk28 (q_key m) (q_req m) (q_sent m) (q_enc m) (q_was m) (q_win m) (q_cur m) n (q_unk m) (q_rej m) (q_disc m))
        end
      else if (llid =? 3) && is_reject_enc b then
        (Ok, mk28 (q_key m) (q_req m) (q_sent m) (q_enc m) (q_was m) (q_win m) (q_cur m) (q_due5 m) (q_unk m) false (q_disc m))
      else if (llid =? 3) && bytes_eqb b pause_enc_rsp_pdu then
        if q_enc m then (Bad 4, m) else (Ok, m)
      else if (llid =? 2) && bytes_eqb b protected_value_pdu then
        if q_win m then (Ok, m) else (Bad (if q_was m then 4 else 5), m)
      else (Ok, m)
  | _ => (Ok, m)
  end.

Fixpoint fold28 (air : bool) (m : mon28) (it : list item) : verdict * mon28 :=
  match it with
  | [] => (Ok, m)
  | i :: t => match item28 air m i with (Ok, m') => fold28 air m' t | bad => bad end
  end.

Definition has_ce28 (it : list item) : bool := existsb (fun i => match i with ICe _ _ _ _ => true | _ => false end) it.
Definition has_adv28 (it : list item) : bool := existsb (fun i => match i with IAdv _ => true | _ => false end) it.

(* start of an operation *)
Definition begin28 (m : mon28) (o : lop) : mon28 :=
  match o with
  | Ev _ _ => mk28 (q_key m) (q_req m) (q_sent m) (q_enc m) (q_was m) (q_win m) (q_enc m) (q_due5 m) false (q_rej m) (q_disc m)
  | _ => mk28 (q_key m) (q_req m) (q_sent m) (q_enc m) (q_was m) (q_win m) (q_cur m) (q_due5 m) false (q_rej m) (q_disc m)
  end.

Definition mstep28g (air : bool) (c : cfg) (m : mon28) (o : lop) (r : lout) : verdict * mon28 :=
  match r with
  | OCrash => (Bad 6, m)
  | OPre | OBadOp => (Ok, m)
  | OItems it =>
      match o with
      | Key b => (Ok, set_q_key m b)
      | _ =>
          match fold28 air (begin28 m o) it with
          | (Bad t, m') => (Bad t, m')
          | (Ok, m1) =>
              match o with
              | Adv _ _ => (Ok, if has_ce28 it then fresh28 (q_key m1) else m1)
              | Disconnect _ =>
                  if q_enc m1 then (Bad 4, m1)
                  else (Ok, mk28 (q_key m1) None false (q_enc m1) (q_was m1) (q_win m1) (q_cur m1) (q_due5 m1) (q_unk m1) false true)
              | Ev _ _ =>
                  if air && q_rej m1 then (Bad 3, m1)
                  else if has_adv28 it then (if q_enc m1 then (Bad 4, m1) else (Ok, fresh28 (q_key m1)))
                  else (Ok, mk28 (q_key m1) (q_req m1) (q_sent m1) (q_enc m1) (q_was m1) (q_cur m1) (q_cur m1) (q_due5 m1) (q_unk m1)
                                 (q_unk m1 && negb (q_disc m1)) (q_disc m1))
              | _ =>
                  if has_adv28 it then (if q_enc m1 then (Bad 4, m1) else (Ok, fresh28 (q_key m1))) else (Ok, m1)
              end
          end
      end
  end.

Definition mstep28 := mstep28g true.

Fixpoint mrun28g (air : bool) (c : cfg) (m : mon28) (tr : list (lop * lout)) : verdict * mon28 :=
  match tr with
  | [] => (Ok, m)
  | (o, r) :: t => match mstep28g air c m o r with (Ok, m') => mrun28g air c m' t | bad => bad end
  end.

Definition accepts28 (c : cfg) (tr : list (lop * lout)) : Prop := fst (mrun28g true c (minit28 c) tr) = Ok.
Definition accepts28_core (c : cfg) (tr : list (lop * lout)) : Prop := fst (mrun28g false c (minit28 c) tr) = Ok.

(* the specification's "the link is encrypted" after an observed trace *)
Definition spec_encrypted (c : cfg) (tr : list (lop * lout)) : bool := q_enc (snd (mrun28g false c (minit28 c) tr)).

Definition no_crash (tr : list (lop * lout)) : Prop := forall o, ~ In (o, OCrash) tr.
