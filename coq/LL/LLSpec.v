(* Shared vocabulary of the property monitors over component LL. A monitor judges an OBSERVED trace: operations
   and result items only, never the model's state. *)
From BT Require Import Base.ListX LL.LLModel.
Local Open Scope N_scope.

Inductive verdict := Ok | Bad (tag : nat).
