(* C22: (1) every valid CONNECT_IND addressed to this device is accepted; (2) the specification monitor (LLSpecC22.mstep22)
   accepts every trace of the model inside the environment [env22]: any connect requests (valid or not), any pattern of
   connection events without PDUs of the central and of missed events, any event flags, every configuration with a sleep
   clock accuracy <= 500 ppm - the quantifier of the property ("all valid and invalid connection parameters x sleep clock
   accuracies x patterns of missed events"). Control and data PDUs inside the events, the API calls and connection updates
   are outside this environment (they are inside C27's / C21's). *)
From Coq Require Import Lia ZifyBool NArith List Bool.
From BT Require Import Base.ListX Base.Bits2 LL.LLModel LL.LLSpec LL.LLSpecC27 LL.LLSpecC22 LL.LLProofs.
From BT Require gen.GenLL ChanMap.ChanMapModel ChanMap.ChanMapSpec ChanMap.ChanMapProofs.
From BT Require LL.LLProofsC27Sim.
From BT Require Import LL.LLSpecC21 LL.LLProofsC21 LL.LLSimC21.
Import ListNotations.
Local Open Scope N_scope.

Ltac nlia := zify; Z.to_euclidean_division_equations; lia.

(* ========================================================================================== C22: a valid CONNECT_IND connects *)
Lemma dt_mul_some usec rhs : 1 < usec -> 1 < rhs -> usec * rhs < 4294967296 -> dt_mul usec rhs = Some (usec * rhs).
Proof.
  intros H1 H2 H3. unfold dt_mul, u32.
  replace ((rhs =? 0) || (usec =? 0)) with false by lia. replace (rhs =? 1) with false by lia. replace (usec =? 1) with false by lia.
  rewrite N.mod_small by exact H3.
  replace ((usec <? usec * rhs) && (rhs <? usec * rhs)) with true by nia. reflexivity.
Qed.

Lemma check_timing_of_valid body :
  connect_timing_valid body = true ->
  snd (parse_connect body) = Some true.
Proof.
  unfold connect_timing_valid, parse_connect. intros H. cbn [snd].
  set (ws := byte body 19) in *. set (wo := rd16 body 20) in *. set (iv := rd16 body 22) in *.
  set (la := rd16 body 24) in *. set (tmo := rd16 body 26) in *.
  assert (F : 6 <= iv /\ iv <= 3200 /\ la <= 499 /\ 10 <= tmo /\ tmo <= 3200 /\ (1 + la) * iv * 2 * 1250 < tmo * 10000
              /\ 1 <= ws /\ ws <= 8 /\ ws <= iv /\ wo <= iv) by lia.
  clear H. destruct F as (F1 & F2 & F3 & F4 & F5 & F6 & F7 & F8 & F9 & F10).
  unfold GenLL.us_per_digits. cbn [interval].
  replace (wo * 1250 <=? iv * 1250) with true by lia.
  unfold check_timing, minimum_connection_interval, maximum_connection_interval, minimum_transmit_window_size,
         GenLL.us_per_digits, GenLL.maximum_transmit_window_offset, GenLL.minimum_connection_timeout, GenLL.maximum_connection_timeout.
  cbn [latency interval tw_size conn_timeout].
  replace ((la <=? 499) && (6 * 1250 <=? iv * 1250) && (iv * 1250 <=? 3200 * 1250) && (1250 <=? ws * 1250) && (ws * 1250 <=? 10000)
           && (ws * 1250 <=? iv * 1250) && (100000 <=? tmo * 10000) && (tmo * 10000 <=? 32000000)) with true by lia.
  rewrite dt_mul_some by nia. cbn [obind]. f_equal. nia.
Qed.

Lemma sca_table_le body : sleep_clock_accuracy body <= 500.
Proof.
  unfold sleep_clock_accuracy. change GenLL.inaccuracy_ppm with [500; 250; 150; 100; 75; 50; 30; 20].
  set (i := N.to_nat _). do 8 (destruct i as [|i]; [cbn; lia|]). destruct i; cbn; lia.
Qed.

Lemma dt_add_some a b : a + b < 4294967296 -> dt_add a b = Some (a + b).
Proof. intros H. unfold dt_add, u32. rewrite N.mod_small by exact H. replace ((a <=? a + b) && (b <=? a + b)) with true by lia. reflexivity. Qed.

Lemma setup_next_connecting s :
  tsle (cs s) = 0 -> tw_size (tm s) <> 0 -> tw_off (tm s) <= 4001250 -> tw_size (tm s) <= 10000 -> sca s <= 1000 ->
  exists ch ws we, setup_next_connection_event s = Some (set_pending_event s true, [ICe ch ws we (interval (tm s))]).
Proof.
  intros Ht Hz Ho Hs Ha. unfold setup_next_connection_event. rewrite Ht.
  replace (negb (tw_size (tm s) =? 0)) with true by lia.
  rewrite (dt_add_some 0 (tw_off (tm s))) by lia. cbn [obind].
  rewrite (dt_add_some (0 + tw_off (tm s)) (tw_size (tm s))) by lia. cbn [obind].
  destruct (ppm_le_small (0 + tw_off (tm s)) (sca s)) as (_ & _ & W0 & B0); [unfold time_bound; lia|exact Ha|].
  destruct (ppm_le_small (0 + tw_off (tm s) + tw_size (tm s)) (sca s)) as (_ & _ & W1 & B1); [unfold time_bound; lia|exact Ha|].
  unfold dt_sub. replace (ppm (0 + tw_off (tm s)) (sca s) <=? 0 + tw_off (tm s)) with true by lia. cbn [obind].
  rewrite dt_add_some by lia. cbn [obind]. do 3 eexists. reflexivity.
Qed.

Theorem valid_request_connects c s hdr0 body ch :
  c_sca c <= 500 ->
  addressed_to_us c hdr0 body = true -> connect_timing_valid body = true ->
  ChanMapModel.reset_impl (chan s) (slice body 28 5) (N.land (byte body 33) 31) = (ch, ChanMapModel.OBool true) ->
  exists s' it, do_adv_received c s hdr0 body = Some (s', it) /\ st s' = Connecting
                /\ exists chn ws we, In (ICe chn ws we (rd16 body 22 * 1250)) it.
Proof.
  intros Hsca Ha Hv Hr. unfold do_adv_received.
  change (valid_connect_request c hdr0 body) with (addressed_to_us c hdr0 body). rewrite Ha, Hr.
  pose proof (check_timing_of_valid body Hv) as Hp. destruct (parse_connect body) as [t ok] eqn:EP. cbn [snd] in Hp. subst ok.
  assert (Et : tw_off t = (rd16 body 20 + 1) * 1250 /\ tw_size t = byte body 19 * 1250 /\ interval t = rd16 body 22 * 1250).
  { unfold parse_connect in EP. inversion EP. unfold GenLL.us_per_digits. cbn [tw_off tw_size interval]. repeat split; lia. }
  destruct Et as (Eo & Es & Ei).
  unfold connect_timing_valid in Hv.
  assert (F : byte body 19 <= 8 /\ 1 <= byte body 19 /\ rd16 body 20 <= 3200) by lia. destruct F as (F1 & F2 & F3).
  match goal with |- context [setup_next_connection_event ?X] => set (s10 := X) end.
  destruct (setup_next_connecting s10) as (chn & ws & we & E).
  - reflexivity.
  - subst s10. cbn. rewrite Es. lia.
  - subst s10. cbn. rewrite Eo. lia.
  - subst s10. cbn. rewrite Es. lia.
  - subst s10. cbn [sca upd_ac set_ac upd_bf set_bf set_proc_timeout set_disc_reason set_pending_event upd_pr set_pr set_used_features set_sca]. pose proof (sca_table_le body). lia.
  - rewrite E. cbn [obind].
    cbn [flush_events]. do 2 eexists. split; [reflexivity|]. split.
    + cbn [st set_ring]. rewrite st_push_event. reflexivity.
    + exists chn, ws, we. replace (interval (tm s10)) with (rd16 body 22 * 1250) by (subst s10; symmetry; exact Ei).
      right. left. reflexivity.
Qed.


(* ========================================================================================== the environment *)
(* a PDU of the central that does not touch the timing: LLID 3, not empty, without instant, not LL_TERMINATE_IND ([nq], below) *)
Definition nq (c : cfg) (p : pdu) : bool :=
  (fst p =? 3) && match classify21 (c_phy c) (3, snd p) with None => true | Some _ => false end && negb (is_terminate (3, snd p)).
Definition pdu_ok22 (c : cfg) (p : pdu) : bool := (fst p =? 3) && negb (N.of_nat (length (snd p)) =? 0) && nq c p.
Definition op_ok22 (c : cfg) (o : lop) : bool :=
  match o with
  | Run | AdvTimeout | Adv _ _ | Timeout | TxAvail _ | St | Key _ => true
  | Ev _ pdus => negb (existsb (fun p => 27 <? N.of_nat (length (snd p))) pdus)
                 && match pdus with [] => true | _ => negb (c_enc c) && forallb (pdu_ok22 c) pdus end
  | _ => false
  end.
Definition cfg_ok22 (c : cfg) : bool := c_sca c <=? 500.
Definition is_crash22 (r : lout) : bool := match r with OCrash => true | _ => false end.
(* nothing is left in the receive queue (a control PDU stays there while no transmit buffer is available) *)
Definition calm22 (s : lstate_t) : bool := match rxq (bf s) with [] => true | _ => false end.
Fixpoint env22 (c : cfg) (s : lstate_t) (ops : list lop) : bool :=
  match ops with
  | [] => true
  | o :: r => op_ok22 c o && negb (is_crash22 (snd (lstep c s o))) && calm22 (fst (lstep c s o)) && env22 c (fst (lstep c s o)) r
  end.

(* ========================================================================================== invariants *)
Definition timing_inv (t : timing) (a : N) : Prop :=
  latency t <= 499 /\ 7500 <= interval t /\ interval t <= 4000000 /\ tw_size t <= 10000 /\ tw_off t <= 4001250
  /\ 100000 <= conn_timeout t /\ conn_timeout t <= 32000000 /\ interval t * ((latency t + 1) * 2) < conn_timeout t /\ a <= 1000.

Definition Glob (s : lstate_t) : Prop :=
  length (ChanMapModel.tbl (chan s)) = 37%nat /\ enc_prog (sc s) = false /\ ap_pending (ac s) = false /\ ring s = [] /\ deferred s = None.

Definition base22 (s : lstate_t) : Prop :=
  rxq (bf s) = [] /\ stopped (bf s) = false /\ proc_timeout s = 0
  /\ cpr_pending (pr s) = false /\ phy_pending (pr s) = false /\ ver_pending (pr s) = false
  /\ timing_inv (tm s) (sca s).

Definition T22 (s : lstate_t) (p : mon22) : Prop :=
  match p_phase p with
  | PIdle => in_connection s = false
  | PConnecting =>
      st s = Connecting /\ base22 s /\ tw_size (tm s) <> 0 /\
      exists k, tsle (cs s) = k * interval (tm s) /\
        p = mk22 PConnecting false (interval (tm s)) (latency (tm s)) (conn_timeout (tm s)) (sca s) (tw_off (tm s)) (tw_size (tm s)) (tsle (cs s)) k []
  | PConnected =>
      st s = Connected /\ base22 s /\ tw_size (tm s) = 0 /\
      exists k, p = mk22 PConnected false (interval (tm s)) (latency (tm s)) (conn_timeout (tm s)) (sca s) 0 0 (tsle (cs s)) k []
  | PBlind => False
  end.

Definition Sim22 (s : lstate_t) (p : mon22) : Prop := Glob s /\ T22 s p.

Lemma tpcp_idle c s :
  cpr_pending (pr s) = false -> phy_pending (pr s) = false -> ver_pending (pr s) = false -> ap_pending (ac s) = false ->
  transmit_pending_control_pdus c s = s.
Proof.
  intros H1 H2 H3 H4. unfold transmit_pending_control_pdus. rewrite H1, H2, H3, H4.
  destruct (c_cpr c); reflexivity.
Qed.

(* ========================================================================================== a connection event without PDUs *)
Lemma prologue_ring c s : ring s = [] ->
  forallb (fun x => match x with EvChanged _ => false | _ => true end) (ring (end_event_prologue c s)) = true.
Proof.
  intros H. unfold end_event_prologue, push_event. destruct s. cbn in H. subst. cbn.
  destruct st; destruct (c_cb c); reflexivity.
Qed.

Lemma setup_next_sym s s' it :
  setup_next_connection_event s = Some (s', it) -> tw_size (tm s) = 0 ->
  exists ch ws we, it = [ICe ch ws we (interval (tm s))] /\ ws + we = 2 * tsle (cs s).
Proof.
  unfold setup_next_connection_event. intros H Z. rewrite Z in H. cbn [N.eqb negb] in H.
  destruct (dt_sub _ _) as [ws|] eqn:E1; cbn [obind] in H; [|discriminate].
  destruct (dt_add _ _) as [we|] eqn:E2; cbn [obind] in H; [|discriminate].
  apply LLProofsC27Sim.dt_sub_exact in E1. apply LLProofsC27Sim.dt_add_exact in E2. inversion H. do 3 eexists. split; [reflexivity|].
  destruct E1 as [E1 E1']. subst ws we. lia.
Qed.

(* ========================================================================================== PDUs that do not touch the timing *)
(* Stepping stones towards events WITH PDUs in the simulation (not yet part of env22 / sim22_step): for a link layer without
   encryption support, a receive queue of control PDUs that carry no instant (not LL_CONNECTION_UPDATE_IND, LL_CHANNEL_MAP_IND,
   LL_PHY_UPDATE_IND) and are not LL_TERMINATE_IND - feature / version / ping / unknown / reject / connection parameter
   request / malformed PDUs - is worked off without touching anything the timing depends on ([hrd_neutral]); and from such a
   state end_event_continue() plans the next event exactly as after an event without PDUs ([tail22]). *)
Definition fr22 (s s' : lstate_t) : Prop :=
  sca s' = sca s /\ ac s' = ac s
  /\ (cpr_pending (pr s) = false -> cpr_pending (pr s') = false)
  /\ (phy_pending (pr s) = false -> phy_pending (pr s') = false)
  /\ (ver_pending (pr s) = false -> ver_pending (pr s') = false)
  /\ (proc_timeout s = 0 -> proc_timeout s' = 0)
  /\ (enc_prog (sc s) = false -> enc_prog (sc s') = false).

Lemma hlc_fr22 c s body : c_enc c = false -> fr22 s (fst (fst (handle_ll_control c s body))).
Proof.
  intros Enc. unfold handle_ll_control.
  set (size := N.of_nat (length body)) in *.
  set (opcode := if 0 <? size then byte body 0 else 255) in *.
  destruct (ctrl_kind c (ver_received (pr s)) opcode size) eqn:K;
    pose proof (ctrl_kind_b_inv _ _ _ _ _ _ K) as KI; cbn beta iota in KI; try congruence; cbn zeta; cbn [fst];
    try (destruct (handle_cpr c s body) as [[r|] it]; cbn [fst]);
    unfold handle_reject, clear_cpr_feature, commit_ctrl, commit, push_event;
    repeat match goal with |- context [if ?b then _ else _] => destruct b end; cbn [fst];
    unfold fr22; cbn; repeat split; auto.
Qed.

Lemma fr22_refl s : fr22 s s. Proof. unfold fr22. repeat split; auto. Qed.
Lemma fr22_trans a b d : fr22 a b -> fr22 b d -> fr22 a d.
Proof. unfold fr22. intros (A1 & A2 & A3 & A4 & A5 & A6 & A7) (B1 & B2 & B3 & B4 & B5 & B6 & B7). repeat split; try congruence; auto. Qed.


Lemma hrd_neutral c (Enc : c_enc c = false) : forall fuel s,
  forallb (nq c) (rxq (bf s)) = true -> deferred s = None ->
  let r := handle_received_data fuel c s in
  snd r = GoAhead /\ quiet_items (snd (fst r)) /\ fr22 s (fst (fst r)) /\ ctlq 0 s (fst (fst r)) /\ deferred (fst (fst r)) = None
  /\ (tx_avail (bf s) = true -> (length (rxq (bf s)) < fuel)%nat -> rxq (bf (fst (fst r))) = []).
Proof.
  induction fuel as [|fuel IH]; intros s Hq Hd; cbn [handle_received_data].
  { cbn [fst snd]. refine (conj eq_refl (conj eq_refl (conj (fr22_refl _) (conj (ctlq_refl _) (conj Hd _))))). intros _ H; inversion H. }
  rewrite Hd. destruct (rxq (bf s)) as [|[llid body] rest] eqn:ERX.
  { cbn [fst snd]. refine (conj eq_refl (conj eq_refl (conj (fr22_refl _) (conj (ctlq_refl _) (conj Hd _))))). intros _ _; exact ERX. }
  cbn [forallb] in Hq. apply andb_prop in Hq. destruct Hq as [Hn Hrest].
  unfold nq in Hn. cbn [fst snd] in Hn. apply andb_prop in Hn. destruct Hn as [Hn NT]. apply andb_prop in Hn. destruct Hn as [L3 CL].
  apply N.eqb_eq in L3. subst llid. change GenLL.ll_control_pdu_code with 3. cbn [N.eqb Pos.eqb].
  destruct (tx_buffer_available s) eqn:TA.
  2:{ cbn [fst snd]. refine (conj eq_refl (conj eq_refl (conj (fr22_refl _) (conj (ctlq_refl _) (conj Hd _))))).
      intros T. unfold tx_buffer_available in TA. congruence. }
  destruct (classify21 (c_phy c) (3, body)) eqn:CL'; [discriminate|]. clear CL.
  pose proof (hlc_other c s body Enc CL') as HO. cbn zeta in HO. apply negb_true_iff in NT. rewrite NT in HO.
  pose proof (hlc_fr22 c s body Enc) as HF.
  destruct (handle_ll_control c s body) as [[s1 it1] r1]. cbn [fst snd] in HO, HF.
  destruct HO as (Q1 & -> & CK).
  set (s2 := upd_bf s1 (fun b => set_rxq b rest)).
  pose proof (ck_keep _ _ _ CK) as (K1 & K2 & K3 & K4 & K5 & K6 & K7).
  assert (Hq2 : forallb (nq c) (rxq (bf s2)) = true) by exact Hrest.
  assert (Hd2 : deferred s2 = None) by (change (deferred s2) with (deferred s1); congruence).
  specialize (IH s2 Hq2 Hd2). cbn zeta in IH.
  destruct (handle_received_data fuel c s2) as [[s3 it3] r3]. cbn [fst snd] in IH |- *.
  destruct IH as (-> & Q3 & F3 & C3 & D3 & E3).
  split; [reflexivity|]. split; [apply quiet_app; assumption|].
  split; [eapply fr22_trans; [exact HF|]; eapply fr22_trans; [|exact F3]; unfold fr22; subst s2; cbn; repeat split; auto|].
  split; [change 0%nat with (0 + (0 + 0))%nat; eapply ctlq_trans; [apply ctlk_ctlq; exact CK|]; eapply ctlq_trans; [apply pop_ctlq|exact C3]|].
  split; [exact D3|].
  intros T L. apply E3.
  - change (tx_avail (bf s2)) with (tx_avail (bf s1)). rewrite (ck_txa _ _ _ CK). exact T.
  - change (rxq (bf s2)) with rest. cbn [length] in L. lia.
Qed.

Lemma tail22 c s3 e s8 it8 :
  tw_size (tm s3) = 0 -> timing_inv (tm s3) (sca s3) -> proc_timeout s3 = 0 -> enc_prog (sc s3) = false -> deferred s3 = None ->
  end_event_continue c s3 e = Some (s8, it8) ->
  exists k kk ch ws we,
    it8 = [ICe ch ws we (interval (tm s3))] /\ s8 = set_pending_event (set_cs s3 kk) true
    /\ 1 <= k /\ k <= latency (tm s3) + 1 /\ tsle kk = k * interval (tm s3) /\ ws + we = 2 * tsle kk
    /\ covers (sca s3) ws we (tsle kk) (tsle kk) = true.
Proof.
  intros TW (I1 & I2 & I3 & I4 & I5 & I6 & I7 & I8 & I9) P3 EP D3 EB.
  unfold end_event_continue, procedure_timed_out in EB. rewrite P3 in EB. cbn [N.eqb negb andb] in EB.
  unfold transmit_pending_security_pdus in EB. rewrite EP, andb_false_r in EB. cbn [andb] in EB.
  match type of EB with context [plan_next_connection_event c s3 ?X] => set (ev' := X) in *; destruct (plan_next_connection_event c s3 ev') as [s7|] eqn:E7 end; cbn [obind] in EB; [|discriminate].
  destruct (anchor_after_event c s3 ev' s7 I1) as (k & K1 & K2 & K3 & _); [clear - I1 I3; nia|exact E7|].
  apply plan_next_frame in E7. destruct E7 as [kk E7]. subst s7. set (s7 := set_cs s3 kk) in *.
  unfold pending_then_setup, handle_pending_ll_control in EB.
  assert (D7 : deferred s7 = None) by exact D3. rewrite D7 in EB. cbn [obind] in EB.
  destruct (setup_next_connection_event s7) as [[s8' it8']|] eqn:E8; cbn [obind] in EB; [|discriminate].
  assert (TW7 : tw_size (tm s7) = 0) by exact TW.
  assert (KT : tsle (cs s7) = k * interval (tm s3)) by exact K3.
  pose proof (setup_next_sym s7 s8' it8' E8 TW7) as (ch & ws & we & Eit & Emid).
  destruct (window_covers s7 s8' it8') as (ch' & ws' & we' & Eit' & Ecov); [| |exact E8|].
  { rewrite KT, TW7. change (tw_off (tm s7)) with (tw_off (tm s3)). unfold time_bound.
    assert (X : k * interval (tm s3) <= (latency (tm s3) + 1) * interval (tm s3)) by (apply N.mul_le_mono_r; exact K2).
    clear - X I8 I7 I5. nia. }
  { exact I9. }
  rewrite Eit in Eit'. inversion Eit'; subst ch' ws' we'. clear Eit'.
  rewrite TW7 in Ecov. cbn [N.eqb] in Ecov. rewrite !N.add_0_r in Ecov.
  apply setup_next_frame in E8. destruct E8 as [E8 _].
  cbn [app] in EB. inversion EB; subst s8 it8; clear EB.
  exists k, kk, ch, ws, we. rewrite Eit. subst s8'.
  split; [reflexivity|]. split; [reflexivity|]. split; [exact K1|]. split; [exact K2|]. split; [exact KT|]. split; [exact Emid|exact Ecov].
Qed.

Definition q22 (i : item) : bool := match i with ICe _ _ _ _ | IAdv _ | ICb (EvChanged _) => false | _ => true end.
Lemma quiet_q22 it : quiet_items it -> forallb q22 it = true.
Proof.
  unfold quiet_items. induction it as [|i t IH]; [reflexivity|]. cbn [forallb]. intros H. apply andb_prop in H. destruct H as [H1 H2].
  rewrite (IH H2), andb_true_r. destruct i as [? ?|?|? ?|? ? ? ?|? ?|?|?|cbv|?| |? ?|? ? ?|? ? ? ? ? ? ? ? ?]; try reflexivity; try discriminate H1. destruct cbv; try reflexivity; discriminate H1.
Qed.
Lemma tx_q22 l : forallb q22 (tx_items l) = true.
Proof. induction l as [|p t IH]; [reflexivity|]. cbn. exact IH. Qed.
Definition nochg (x : cb_event) : bool := match x with EvChanged _ => false | _ => true end.
Lemma benign_nochg l : forallb benign l = true -> forallb nochg l = true.
Proof. induction l as [|x t IH]; [reflexivity|]. cbn [forallb]. intros H. apply andb_prop in H. destruct H as [H1 H2]. rewrite (IH H2), andb_true_r. destruct x; try reflexivity; discriminate H1. Qed.

Lemma unsent_le s : (length (unsent s) <= length (txq (bf s)))%nat.
Proof. unfold unsent, unsent_b. destruct (fl (bf s)); try lia. destruct (txq (bf s)); simpl; lia. Qed.

Lemma neutral_event c s e pdus s' r :
  st s = Connecting \/ st s = Connected -> base22 s -> Glob s ->
  existsb (fun p => 27 <? N.of_nat (length (snd p))) pdus = false ->
  normalise21 pdus = [] \/ (c_enc c = false /\ forallb (nq c) (normalise21 pdus) = true) ->
  lstep c s (Ev e pdus) = (s', r) -> r <> OCrash -> rxq (bf s') = [] ->
  exists k ch ws we pre rr,
    r = OItems (pre ++ ICe ch ws we (interval (tm s)) :: map ICb rr)
    /\ forallb q22 pre = true /\ forallb nochg rr = true
    /\ 1 <= k /\ k <= latency (tm s) + 1 /\ tsle (cs s') = k * interval (tm s) /\ ws + we = 2 * tsle (cs s')
    /\ covers (sca s) ws we (tsle (cs s')) (tsle (cs s')) = true
    /\ st s' = Connected /\ tm s' = set_tw_size (tm s) 0 /\ sca s' = sca s /\ base22 s' /\ Glob s'.
Proof.
  intros Hst (B1 & B3 & B4 & B5 & B6 & B7 & BT) (G1 & G2 & G3 & G4 & G5) HL HP H Hr HX.
  pose proof BT as (I1 & I2 & I3 & I4 & I5 & I6 & I7 & I8 & I9).
  cbn [lstep] in H. rewrite (LLProofsC27Sim.in_conn_of s Hst) in H. rewrite HL in H.
  destruct (radio_event_spec (S (length pdus + length (txq (bf s)))) s pdus) as (b' & R1 & R2 & R3 & R4 & R5 & R6 & R7).
  { apply le_S. apply Nat.add_le_mono_l. apply unsent_le. } { apply le_n_S. apply Nat.le_0_l. }
  destruct (radio_event _ s pdus) as [s1 it1]. cbn [fst snd] in R1, R7. subst s1 it1.
  set (s1 := set_bf s b') in *. rewrite B1 in R4. cbn [app] in R4.
  assert (Hst1 : st s1 = Connecting \/ st s1 = Connected) by exact Hst.
  destruct (do_end_event c s1 e) as [[s2 it2]|] eqn:E2; [|inversion H; subst; congruence].
  inversion H; subst s2 r; clear H.
  destruct (LLProofsC27Sim.prologue_form c s1 Hst1) as (rr & Esp & _).
  assert (RR : forallb nochg rr = true).
  { assert (X : rr = ring (end_event_prologue c s1)) by (rewrite Esp; reflexivity). rewrite X. apply prologue_ring. exact G4. }
  unfold do_end_event in E2. rewrite Esp in E2.
  set (sp := set_ring (upd_tm (set_st (set_pending_event s1 false) Connected) (fun t => set_tw_size t 0)) rr) in *.
  destruct (end_event_body c sp e) as [[s9 it9]|] eqn:EB; cbn [obind] in E2; [|discriminate].
  unfold end_event_body in EB. change (st sp) with Connected in EB. cbn [lstate_eqb andb] in EB.
  assert (HRD : exists s3 it3, handle_received_data (S (length (rxq (bf sp)))) c sp = (s3, it3, GoAhead)
            /\ quiet_items it3 /\ fr22 sp s3 /\ ctlq 0 sp s3 /\ deferred s3 = None).
  { destruct HP as [HP|[Enc HP]].
    - rewrite hrd_empty by (change (rxq (bf sp)) with (rxq b'); rewrite R4; exact HP).
      exists sp, []. split; [reflexivity|]. split; [reflexivity|]. split; [apply fr22_refl|]. split; [apply ctlq_refl|exact G5].
    - assert (Q : forallb (nq c) (rxq (bf sp)) = true) by (change (rxq (bf sp)) with (rxq b'); rewrite R4; exact HP).
      pose proof (hrd_neutral c Enc (S (length (rxq (bf sp)))) sp Q G5) as HN. cbn zeta in HN.
      destruct (handle_received_data _ c sp) as [[s3 it3] r3]. cbn [fst snd] in HN. destruct HN as (-> & Q3 & F3 & C3 & D3 & _).
      exists s3, it3. auto. }
  destruct HRD as (s3 & it3 & EH & Q3 & F3 & C3 & D3). rewrite EH in EB.
  destruct F3 as (F1 & F2 & F4 & F5 & F6 & F7 & F8).
  destruct C3 as [C1 C2 C4 C5 C6 C7 C8 (ltx & C9 & _) (evs & C10 & C11)].
  rewrite (send_control_noop s3) in EB by (rewrite C1; reflexivity).
  destruct (end_event_continue c s3 e) as [[s8 it8]|] eqn:EC; cbn [obind] in EB; [|discriminate].
  inversion EB; subst s9 it9; clear EB.
  assert (T3 : tm s3 = set_tw_size (tm s) 0) by (rewrite C4; reflexivity).
  assert (A3 : sca s3 = sca s) by (rewrite F1; reflexivity).
  destruct (tail22 c s3 e s8 it8) as (k & kk & ch & ws & we & Eit & E8 & K1 & K2 & KT & Emid & Ecov); try exact EC.
  { rewrite T3. reflexivity. }
  { rewrite T3, A3. unfold timing_inv. cbn [latency interval tw_size tw_off conn_timeout set_tw_size]. repeat split; try assumption; clear; lia. }
  { apply F7. exact B4. } { apply F8. exact G2. } { exact D3. }
  rewrite T3 in Eit, K2, KT. rewrite A3 in Ecov. cbn [latency interval set_tw_size] in Eit, K2, KT.
  subst s8 it8. unfold end_event_epilogue in E2. change (st (set_pending_event (set_cs s3 kk) true)) with (st s3) in E2. rewrite C1 in E2.
  change (st sp) with Connected in E2. cbn iota in E2.
  assert (P5 : cpr_pending (pr s3) = false) by (apply F4; exact B5).
  assert (P6 : phy_pending (pr s3) = false) by (apply F5; exact B6).
  assert (P7 : ver_pending (pr s3) = false) by (apply F6; exact B7).
  assert (P8 : ap_pending (ac s3) = false) by (rewrite F2; exact G3).
  rewrite (tpcp_idle c (set_pending_event (set_cs s3 kk) true)) in E2 by (first [exact P5|exact P6|exact P7|exact P8]).
  unfold flush_events in E2. inversion E2; subst s' it2; clear E2.
  change (ring (set_pending_event (set_cs s3 kk) true)) with (ring s3). rewrite C10. change (ring sp) with rr.
  exists k, ch, ws, we, (tx_items (unsent s) ++ it3), (rr ++ evs).
  split; [rewrite <- !app_assoc; reflexivity|].
  split; [rewrite forallb_app, tx_q22, (quiet_q22 _ Q3); reflexivity|].
  split; [rewrite forallb_app, RR, (benign_nochg _ C11); reflexivity|].
  split; [exact K1|]. split; [exact K2|]. split; [exact KT|]. split; [exact Emid|]. split; [exact Ecov|].
  split; [exact C1|]. split; [exact T3|]. split; [exact A3|].
  assert (TI : timing_inv (tm s3) (sca s3)).
  { rewrite T3, A3. unfold timing_inv. cbn [latency interval tw_size tw_off conn_timeout set_tw_size]. repeat split; try assumption; clear; lia. }
  split.
  - unfold base22. split; [exact HX|]. split; [change (stopped (bf s3) = false); rewrite C7; change (stopped b' = false); rewrite R2; exact B3|].
    split; [exact (F7 B4)|]. split; [exact P5|]. split; [exact P6|]. split; [exact P7|exact TI].
  - unfold Glob. split; [change (length (ChanMapModel.tbl (chan s3)) = 37%nat); rewrite C5; exact G1|].
    split; [exact (F8 G2)|]. split; [exact P8|]. split; [reflexivity|exact D3].
Qed.

(* ========================================================================================== a missed event *)
Definition lost22 (s : lstate_t) : bool :=
  (conn_timeout (tm s) <=? tsle (cs s)) || (lstate_eqb (st s) Connecting && (5 * interval (tm s) <=? tsle (cs s))).

Lemma fd_glob c s : Glob s -> ring s = [] ->
  Glob (set_ring (fst (force_disconnect c s)) []) /\ in_connection (set_ring (fst (force_disconnect c s)) []) = false
  /\ has_adv22 (snd (force_disconnect c s)) = true.
Proof.
  intros (G1 & G2 & G3 & G4 & G5) _. unfold force_disconnect, reset_encryption, reset_phy, push_event.
  destruct (c_enc c); destruct (c_phy c); destruct (st s) eqn:S; destruct (c_cb c);
    cbn [fst snd upd_sc set_sc st]; rewrite ?S; try destruct (_ <? _);
    (split; [unfold Glob; cbn; repeat split; assumption|split; reflexivity]).
Qed.

Lemma missed_event c s s' r :
  st s = Connecting \/ st s = Connected -> base22 s -> Glob s -> lstep c s Timeout = (s', r) -> r <> OCrash ->
  if lost22 s
  then exists it, r = OItems it /\ has_adv22 it = true /\ in_connection s' = false /\ Glob s'
  else exists ch ws we,
         r = OItems [ICe ch ws we (interval (tm s))]
         /\ st s' = st s /\ tm s' = tm s /\ sca s' = sca s /\ tsle (cs s') = tsle (cs s) + interval (tm s)
         /\ covers (sca s) ws we (tsle (cs s') + (if tw_size (tm s) =? 0 then 0 else tw_off (tm s)))
                                  (tsle (cs s') + (if tw_size (tm s) =? 0 then 0 else tw_off (tm s) + tw_size (tm s))) = true
         /\ (tw_size (tm s) = 0 -> ws + we = 2 * tsle (cs s'))
         /\ base22 s' /\ Glob s'.
Proof.
  intros Hst (B1 & B3 & B4 & B5 & B6 & B7 & BT) HG H Hr.
  pose proof HG as (G1 & G2 & G3 & G4 & G5).
  destruct BT as (I1 & I2 & I3 & I4 & I5 & I6 & I7 & I8 & I9).
  cbn [lstep] in H. rewrite (LLProofsC27Sim.in_conn_of s Hst) in H.
  destruct (do_timeout c s) as [[s2 it2]|] eqn:E; cbn [ok_items] in H; inversion H; subst; [|congruence]. clear H.
  unfold do_timeout in E.
  change (st (set_pending_event s false)) with (st s) in E.
  assert (ND : lstate_eqb (st s) Disconnecting = false) by (destruct Hst as [-> | ->]; reflexivity).
  rewrite ND in E. cbn [andb] in E.
  change (proc_timeout (set_pending_event s false)) with (proc_timeout s) in E. rewrite B4 in E. cbn [N.eqb negb andb] in E.
  change (interval (tm (set_pending_event s false))) with (interval (tm s)) in E.
  change (GenLL.num_windows_til_timeout - 1) with 5 in E.
  rewrite (dt_mul_some (interval (tm s)) 5) in E by lia. cbn [obind] in E.
  change (tsle (cs (set_pending_event s false))) with (tsle (cs s)) in E.
  change (conn_timeout (tm (set_pending_event s false))) with (conn_timeout (tm s)) in E.
  unfold lost22.
  assert (EL : (tsle (cs s) <? conn_timeout (tm s)) && negb (lstate_eqb (st s) Connecting && (interval (tm s) * 5 <=? tsle (cs s)))
               = negb ((conn_timeout (tm s) <=? tsle (cs s)) || (lstate_eqb (st s) Connecting && (5 * interval (tm s) <=? tsle (cs s)))))
    by (rewrite (N.mul_comm (interval (tm s)) 5); destruct (lstate_eqb (st s) Connecting); lia).
  rewrite EL in E. clear EL.
  destruct ((conn_timeout (tm s) <=? tsle (cs s)) || (lstate_eqb (st s) Connecting && (5 * interval (tm s) <=? tsle (cs s)))) eqn:L; cbn [negb] in E.
  - (* lost *)
    destruct (fd_glob c (set_pending_event s false)) as (F1 & F2 & F3); [exact HG|exact G4|].
    destruct (force_disconnect c (set_pending_event s false)) as [sa ia]. cbn [fst snd] in F1, F2, F3. cbn [flush_events] in E. inversion E; subst.
    eexists. split; [reflexivity|]. split; [|split; assumption].
    unfold has_adv22 in *. rewrite existsb_app, F3. reflexivity.
  - (* the next event *)
    assert (LT : tsle (cs s) < conn_timeout (tm s)) by lia.
    unfold plan_after_timeout in E. change (tsle (cs (set_pending_event s false))) with (tsle (cs s)) in E.
    change (interval (tm (set_pending_event s false))) with (interval (tm s)) in E.
    rewrite dt_add_some in E by lia. cbn [obind] in E.
    set (s1 := upd_cs (set_pending_event s false) (fun c0 => mk_cstate ((ch_idx c0 + 1) mod 37) (u16 (evc c0 + 1)) (tsle (cs s) + interval (tm s)) (last_lat c0))) in E.
    unfold pending_then_setup, handle_pending_ll_control in E.
    change (deferred s1) with (deferred s) in E. rewrite G5 in E. cbn [obind] in E.
    destruct (setup_next_connection_event s1) as [[s8 it8]|] eqn:E8; cbn [obind] in E; [|discriminate].
    destruct (window_covers s1 s8 it8) as (ch & ws & we & Eit & Ecov); [| |exact E8|].
    { subst s1. cbn [tsle cs upd_cs set_cs set_pending_event tm tw_off tw_size]. unfold time_bound. lia. }
    { exact I9. }
    pose proof (setup_next_sym s1 s8 it8 E8) as MID.
    apply setup_next_frame in E8. destruct E8 as [E8 _].
    cbn [app flush_events] in E. inversion E; subst s' it2; clear E.
    assert (R8 : ring s8 = []) by (subst s8 s1; exact G4). rewrite R8, Eit. cbn [map app].
    exists ch, ws, we.
    split; [reflexivity|]. split; [subst s8 s1; reflexivity|]. split; [subst s8 s1; reflexivity|]. split; [subst s8 s1; reflexivity|].
    split; [subst s8 s1; reflexivity|]. split; [subst s8; exact Ecov|].
    split; [intros Z; destruct (MID Z) as (c1 & w1 & w2 & Eq & Em); rewrite Eit in Eq; inversion Eq; subst; exact Em|].
    split; [subst s8 s1; unfold base22, timing_inv; cbn; repeat split; assumption|subst s8 s1; unfold Glob; cbn; repeat split; assumption].
Qed.

(* ========================================================================================== a connect request *)
Definition noce22 (i : item) : bool := match i with ICe _ _ _ _ => false | _ => true end.
Lemma find_ce_pick a ch ws we iv b : forallb noce22 b = true -> find_ce (a ++ ICe ch ws we iv :: b) = Some (ch, ws, we, iv).
Proof.
  intros H. unfold find_ce. rewrite fold_left_app. cbn [fold_left].
  generalize (Some (ch, ws, we, iv)) as o. induction b as [|i b IH]; intros o; [reflexivity|].
  simpl in H. apply andb_prop in H. destruct H as [H1 H2]. destruct i; try discriminate; simpl; apply IH; exact H2.
Qed.
Lemma find_ce_none a : forallb noce22 a = true -> find_ce a = None.
Proof.
  unfold find_ce. generalize (@None (N * N * N * N)) as o. induction a as [|i a IH]; intros o H; [reflexivity|].
  simpl in H. apply andb_prop in H. destruct H as [H1 H2]. destruct i; try discriminate; simpl; apply IH; exact H2.
Qed.
Lemma noce22_cbs l : forallb noce22 (map ICb l) = true.
Proof. induction l; [reflexivity|assumption]. Qed.

Lemma addressed_len c hdr0 body : addressed_to_us c hdr0 body = true -> length body = 34%nat.
Proof. unfold addressed_to_us. intros H. lia. Qed.

Lemma slice_len body a n : (a + n <= length body)%nat -> length (slice body a n) = n.
Proof. intros H. unfold slice. rewrite firstn_length, skipn_length. lia. Qed.

Lemma adv22 c s hdr0 body s' r p :
  cfg_ok22 c = true -> Glob s -> in_connection s = false -> p_phase p = PIdle ->
  lstep c s (Adv hdr0 body) = (s', r) -> r <> OCrash ->
  exists p', mstep22 c p (Adv hdr0 body) r = (Ok, p') /\ Sim22 s' p'.
Proof.
  intros Hc HG NI PI H Hr. pose proof HG as (G1 & G2 & G3 & G4 & G5).
  unfold cfg_ok22 in Hc.
  assert (Same : forall x, T22 x p = (in_connection x = false)) by (intros x; unfold T22; rewrite PI; reflexivity).
  cbn [lstep] in H. destruct (st s) eqn:S; try (inversion H; subst; exists p; split; [reflexivity|split; [exact HG|rewrite Same; exact NI]]).
  destruct (255 <? _); [inversion H; subst; exists p; split; [reflexivity|split; [exact HG|rewrite Same; exact NI]]|].
  destruct (do_adv_received c s hdr0 body) as [[s2 it2]|] eqn:E; cbn [ok_items] in H; inversion H; subst; [|congruence]. clear H.
  unfold do_adv_received in E. change (valid_connect_request c hdr0 body) with (addressed_to_us c hdr0 body) in E.
  unfold mstep22.
  destruct (addressed_to_us c hdr0 body) eqn:EA.
  2:{ (* not for us: advertising goes on *)
      inversion E; subst. cbn [find_ce fold_left]. rewrite PI. cbn [andb].
      exists p. split; [reflexivity|]. split; [unfold Glob in *; cbn; auto|rewrite Same; unfold in_connection; cbn [st set_adv_ch]; rewrite S; reflexivity]. }
  pose proof (addressed_len c hdr0 body EA) as Hlen.
  pose proof (ChanMapProofs.reset_result (chan s) (slice body 28 5) (N.land (byte body 33) 31) (slice_len body 28 5 ltac:(lia)) G1) as RR.
  destruct (ChanMapModel.reset_impl (chan s) (slice body 28 5) (N.land (byte body 33) 31)) as [ch rch].
  destruct RR as (RR1 & _ & RR3 & _).
  assert (CV : connect_hop_valid body && (2 <=? used_channels (slice body 28 5))
               = ChanMapSpec.valid_hop (N.land (byte body 33) 31) && ChanMapSpec.valid_map (slice body 28 5)).
  { unfold connect_hop_valid, used_channels, ChanMapSpec.valid_hop, ChanMapSpec.valid_map. f_equal.
    destruct (Nat.leb_spec 2 (ChanMapSpec.num_used (slice body 28 5))); lia. }
  subst rch. destruct (ChanMapSpec.valid_hop _ && ChanMapSpec.valid_map _) eqn:VM.
  2:{ (* map / hop refused *)
      inversion E; subst. cbn [find_ce fold_left]. rewrite PI. replace (connect_valid body) with (connect_timing_valid body && (connect_hop_valid body && (2 <=? used_channels (slice body 28 5)))) by (unfold connect_valid; rewrite andb_assoc; reflexivity). rewrite CV. rewrite (andb_false_r (connect_timing_valid body)). cbn [andb].
      exists p. split; [reflexivity|]. split; [unfold Glob in *; cbn; auto|rewrite Same; unfold in_connection; cbn [st set_chan]; rewrite S; reflexivity]. }
  destruct (parse_connect body) as [t ok] eqn:EP.
  destruct ok as [[|]|].
  3:{ exfalso. unfold parse_connect in EP. inversion EP as [[Et Eo]]. destruct (_ <=? _) in Eo; [|discriminate]. exact (check_timing_total _ Eo). }
  2:{ (* timing refused *)
      inversion E; subst. cbn [find_ce fold_left]. rewrite PI.
      assert (NV : connect_timing_valid body = false).
      { destruct (connect_timing_valid body) eqn:V; [|reflexivity]. pose proof (check_timing_of_valid body V) as X. rewrite EP in X. discriminate X. }
      unfold connect_valid. rewrite NV. cbn [andb].
      exists p. split; [reflexivity|]. split; [unfold Glob in *; cbn; auto|rewrite Same; unfold in_connection; cbn [st set_tm set_chan]; rewrite S; reflexivity]. }
  (* accepted *)
  assert (PT : tw_off t = (rd16 body 20 + 1) * 1250 /\ tw_size t = byte body 19 * 1250 /\ interval t = rd16 body 22 * 1250
               /\ latency t = rd16 body 24 /\ conn_timeout t = rd16 body 26 * 10000 /\ check_timing t = Some true
               /\ rd16 body 20 * 1250 <= interval t).
  { unfold parse_connect in EP. injection EP as Et Eo. destruct (_ <=? _) eqn:Ew in Eo; [|discriminate]. subst t.
    repeat split; try exact Eo; unfold GenLL.us_per_digits in *; cbn [tw_off tw_size interval latency conn_timeout] in *; lia. }
  destruct PT as (T1 & T2 & T3 & T4 & T5 & T6 & T7).
  pose proof (check_timing_true t T6) as (C1 & (C2 & C2') & (C3 & C3') & C4 & (C5 & C5') & C6).
  match type of E with (do r11 <- setup_next_connection_event ?X; _) = _ => set (s10 := X) in * end.
  destruct (setup_next_connection_event s10) as [[s11 it11]|] eqn:E11; cbn [obind] in E; [|discriminate].
  pose proof (sca_table_le body) as SL.
  destruct (window_covers s10 s11 it11) as (chn & ws & we & Eit & Ecov); [| |exact E11|].
  { subst s10. cbn [tsle cs set_cs upd_ac set_ac upd_bf set_bf set_proc_timeout set_disc_reason set_pending_event upd_pr set_pr set_used_features set_sca set_st tm set_tm tw_off tw_size].
    unfold time_bound. rewrite T1. clear - T7 C2' C3'. lia. }
  { subst s10. cbn [sca upd_ac set_ac upd_bf set_bf set_proc_timeout set_disc_reason set_pending_event upd_pr set_pr set_used_features set_sca]. lia. }
  apply setup_next_frame in E11. destruct E11 as [E11 _].
  destruct (LLProofsC27Sim.push_event_form c (upd_sc s11 (fun x => set_is_enc x false)) (EvRequested (details_of (upd_sc s11 (fun x => set_is_enc x false))))) as [rr Er].
  rewrite Er in E. cbn [flush_events] in E. inversion E; subst s' it2; clear E.
  cbn [ring set_ring]. rewrite Eit.
  change (IAa (rd32 body 12) (rd24 body 16) :: [ICe chn ws we (interval (tm s10))] ++ map ICb rr)
    with ([IAa (rd32 body 12) (rd24 body 16)] ++ ICe chn ws we (interval (tm s10)) :: map ICb rr).
  rewrite (find_ce_pick _ _ _ _ _ _ (noce22_cbs rr)).
  assert (TV : connect_timing_valid body = true).
  { rewrite T4 in C1, C6. rewrite T3 in C2, C2', C4, C6, T7. rewrite T2 in C3, C3', C4. rewrite T5 in C5, C5', C6.
    unfold connect_timing_valid. clear - C1 C2 C2' C3 C3' C4 C5 C5' C6 T7. nia. }
  replace (connect_valid body) with (connect_timing_valid body && (connect_hop_valid body && (2 <=? used_channels (slice body 28 5)))) by (unfold connect_valid; rewrite andb_assoc; reflexivity).
  rewrite TV, CV. cbn [andb negb].
  assert (Ei : interval (tm s10) = rd16 body 22 * 1250) by (subst s10; exact T3). rewrite Ei, N.eqb_refl. cbn [negb].
  assert (Ea : sca_ppm (N.land (N.shiftr (byte body 33) 5) 7) + c_sca c = sca s10) by (subst s10; reflexivity).
  rewrite Ea.
  assert (Eo : (rd16 body 20 + 1) * 1250 = tw_off (tm s10)) by (subst s10; symmetry; exact T1).
  assert (Es : byte body 19 * 1250 = tw_size (tm s10)) by (subst s10; symmetry; exact T2).
  rewrite Eo, Es.
  assert (Z : (tw_size (tm s10) =? 0) = false) by (rewrite <- Es; rewrite T2 in C3; clear - C3; lia).
  rewrite Z in Ecov. replace (tsle (cs s10)) with 0 in Ecov by (subst s10; reflexivity). rewrite !N.add_0_l in Ecov.
  rewrite Ecov. cbn [negb].
  eexists. split; [reflexivity|].
  split.
  - unfold Glob. subst s11 s10. cbn. repeat split; assumption.
  - unfold T22. cbn [p_phase]. subst s11.
    split; [cbn; reflexivity|]. split; [|split].
    + unfold base22, timing_inv. subst s10. LLProofsC27Sim.psimp. repeat split; try reflexivity; try assumption; try (clear - T1 T7 C2'; lia); try (clear - SL Hc; lia).
    + subst s10. LLProofsC27Sim.psimp. rewrite T2. rewrite T2 in C3. clear - C3. lia.
    + exists 0. split; [subst s10; reflexivity|]. subst s10. LLProofsC27Sim.psimp. rewrite T3, T4, T5. reflexivity.
Qed.
(* ========================================================================================== one operation, any number *)
Lemma changed_details_cbs it rr : forallb (fun x => match x with EvChanged _ => false | _ => true end) rr = true ->
  changed_details (it ++ map ICb rr) = changed_details it.
Proof.
  intros H. unfold changed_details. rewrite fold_left_app.
  generalize (fold_left (fun a i => match i with ICb (EvChanged d) => Some d | _ => a end) it None) as o.
  induction rr as [|x rr IH]; intros o; [reflexivity|].
  cbn [forallb] in H. apply andb_prop in H. destruct H as [H1 H2]. cbn [map fold_left].
  destruct x; try discriminate H1; apply IH; exact H2.
Qed.

Lemma has_adv22_cbs rr : has_adv22 (map ICb rr) = false.
Proof. induction rr; [reflexivity|assumption]. Qed.

Lemma norm_ok22 c l : forallb (pdu_ok22 c) l = true -> normalise21 l = l.
Proof.
  induction l as [|[llid b] t IH]; [reflexivity|]. cbn [forallb]. intros H. apply andb_prop in H. destruct H as [H1 H2].
  rewrite normalise21_cons, (IH H2). unfold pdu_ok22 in H1. cbn [fst snd] in H1.
  apply andb_prop in H1. destruct H1 as [H1 _]. apply andb_prop in H1. destruct H1 as [L3 NE]. apply N.eqb_eq in L3. subst llid.
  unfold norm1. cbn [fst snd]. rewrite NE. reflexivity.
Qed.
Lemma pdus_ok22_norm c pdus :
  match pdus with [] => true | _ => negb (c_enc c) && forallb (pdu_ok22 c) pdus end = true ->
  normalise21 pdus = [] \/ (c_enc c = false /\ forallb (nq c) (normalise21 pdus) = true).
Proof.
  destruct pdus as [|p t]; [left; reflexivity|]. intros H. right. apply andb_prop in H. destruct H as [E H].
  split; [apply negb_true_iff; exact E|]. rewrite (norm_ok22 c _ H).
  revert H. generalize (p :: t). induction l as [|x l IH]; [reflexivity|]. cbn [forallb]. intros H. apply andb_prop in H. destruct H as [H1 H2].
  rewrite (IH H2), andb_true_r. unfold pdu_ok22 in H1. apply andb_prop in H1. exact (proj2 H1).
Qed.
Lemma pdus_ok22_updates c pdus :
  match pdus with [] => true | _ => negb (c_enc c) && forallb (pdu_ok22 c) pdus end = true -> updates_of pdus = [].
Proof.
  destruct pdus as [|p t]; [reflexivity|]. intros H. apply andb_prop in H. destruct H as [_ H].
  revert H. generalize (p :: t). induction l as [|[llid b] l IH]; [reflexivity|]. cbn [forallb]. intros H. apply andb_prop in H. destruct H as [H1 H2].
  unfold updates_of in *. cbn [flat_map]. rewrite (IH H2), app_nil_r.
  unfold pdu_ok22, nq in H1. cbn [fst snd] in H1.
  apply andb_prop in H1. destruct H1 as [_ H1]. apply andb_prop in H1. destruct H1 as [H1 _]. apply andb_prop in H1. destruct H1 as [_ H1].
  unfold classify21 in H1. cbn [N.eqb Pos.eqb negb] in H1.
  destruct ((N.of_nat (length b) =? 12) && (byte b 0 =? 0)) eqn:E; [discriminate H1|].
  rewrite <- andb_assoc, E, andb_false_r. reflexivity.
Qed.

Lemma fold_changed_q22 pre : forallb q22 pre = true ->
  fold_left (fun a i => match i with ICb (EvChanged d) => Some d | _ => a end) pre None = None.
Proof.
  induction pre as [|i t IH]; [reflexivity|]. cbn [forallb fold_left]. intros H. apply andb_prop in H. destruct H as [H1 H2].
  destruct i as [? ?|?|? ?|? ? ? ?|? ?|?|?|cbv|?| |? ?|? ? ?|? ? ? ? ? ? ? ? ?]; try (apply IH; exact H2). destruct cbv; try (apply IH; exact H2). discriminate H1.
Qed.
Lemma views22 pre ch ws we iv rr : forallb q22 pre = true -> forallb nochg rr = true ->
  has_adv22 (pre ++ ICe ch ws we iv :: map ICb rr) = false
  /\ find_ce (pre ++ ICe ch ws we iv :: map ICb rr) = Some (ch, ws, we, iv)
  /\ changed_details (pre ++ ICe ch ws we iv :: map ICb rr) = None.
Proof.
  intros Q R. split; [|split].
  - unfold has_adv22. rewrite existsb_app. cbn [existsb orb]. fold (has_adv22 (map ICb rr)). rewrite has_adv22_cbs, orb_false_r.
    induction pre as [|i t IH]; [reflexivity|]. cbn [forallb] in Q. apply andb_prop in Q. destruct Q as [Q1 Q2]. cbn [existsb]. rewrite (IH Q2), orb_false_r.
    destruct i; try reflexivity; discriminate Q1.
  - apply find_ce_pick. apply noce22_cbs.
  - unfold changed_details. rewrite fold_left_app, (fold_changed_q22 pre Q).
    change (ICe ch ws we iv :: map ICb rr) with ([ICe ch ws we iv] ++ map ICb rr).
    fold (changed_details ([ICe ch ws we iv] ++ map ICb rr)). rewrite (changed_details_cbs _ rr R). reflexivity.
Qed.

Theorem sim22_step c s p o s' r :
  cfg_ok22 c = true -> Sim22 s p -> op_ok22 c o = true -> lstep c s o = (s', r) -> r <> OCrash -> calm22 s' = true ->
  exists p', mstep22 c p o r = (Ok, p') /\ Sim22 s' p'.
Proof.
  intros Hc [HG HT] Ho H Hr HX0.
  assert (HX : rxq (bf s') = []) by (unfold calm22 in HX0; destruct (rxq (bf s')); [reflexivity|discriminate]). pose proof HG as (G1 & G2 & G3 & G4 & G5).
  destruct (p_phase p) eqn:PH.
  - (* not connected *)
    assert (NI : in_connection s = false) by (unfold T22 in HT; rewrite PH in HT; exact HT).
    assert (Same : forall x, T22 x p = (in_connection x = false)) by (intros x; unfold T22; rewrite PH; reflexivity).
    destruct o; try discriminate Ho.
    + (* Run *) cbn [lstep] in H. destruct (st s) eqn:S; try (exfalso; unfold in_connection in NI; rewrite S in NI; discriminate NI); inversion H; subst; exists p; (split; [reflexivity|]);
        (split; [unfold Glob; cbn; auto|rewrite Same; unfold in_connection; cbn; rewrite ?S; reflexivity]).
    + (* AdvTimeout *) cbn [lstep] in H. destruct (st s) eqn:S; try (exfalso; unfold in_connection in NI; rewrite S in NI; discriminate NI); inversion H; subst; exists p; (split; [reflexivity|]);
        (split; [unfold Glob; cbn; auto|rewrite Same; unfold in_connection; cbn; rewrite ?S; reflexivity]).
    + (* Adv *) apply (adv22 c s hdr0 body s' r p Hc HG NI PH H Hr).
    + (* Ev *) cbn [lstep] in H. rewrite NI in H. inversion H; subst. exists p. split; [reflexivity|]. split; [exact HG|exact HT].
    + (* Timeout *) cbn [lstep] in H. rewrite NI in H. inversion H; subst. exists p. split; [reflexivity|]. split; [exact HG|exact HT].
    + (* TxAvail *) inversion H; subst. exists p. split; [reflexivity|]. split; [unfold Glob; cbn; auto|rewrite Same; exact NI].
    + (* Key *) inversion H; subst. exists p. split; [reflexivity|]. split; [unfold Glob; cbn; auto|rewrite Same; exact NI].
    + (* St *) inversion H; subst. exists p. split; [reflexivity|]. split; [exact HG|exact HT].
  - (* connecting *)
    unfold T22 in HT. rewrite PH in HT. destruct HT as (Hst & HB & HZ & k & Hk & Ep).
    assert (Hst' : st s = Connecting \/ st s = Connected) by (left; exact Hst).
    pose proof (LLProofsC27Sim.in_conn_of s Hst') as IC.
    pose proof HB as (B1 & B3 & B4 & B5 & B6 & B7 & BT). pose proof BT as (I1 & I2 & I3 & I4 & I5 & I6 & I7 & I8 & I9).
    destruct o; try discriminate Ho.
    + cbn [lstep] in H. rewrite Hst in H. inversion H; subst s' r. exists p. split; [reflexivity|]. split; [exact HG|]. unfold T22. rewrite PH. eauto 10.
    + cbn [lstep] in H. rewrite Hst in H. inversion H; subst s' r. exists p. split; [reflexivity|]. split; [exact HG|]. unfold T22. rewrite PH. eauto 10.
    + cbn [lstep] in H. rewrite Hst in H. inversion H; subst s' r. exists p. split; [reflexivity|]. split; [exact HG|]. unfold T22. rewrite PH. eauto 10.
    + (* Ev *)
      cbn [op_ok22] in Ho. apply andb_prop in Ho. destruct Ho as [HL HPd]. apply negb_true_iff in HL.
      pose proof (pdus_ok22_norm c pdus HPd) as HPn. pose proof (pdus_ok22_updates c pdus HPd) as HU.
      destruct (neutral_event c s evts pdus s' r Hst' HB HG HL HPn H Hr HX) as (kk & ch & ws & we & pre & rr & Er & QP & RR & K1 & K2 & KT & Esum & Ecov & S1 & TM1 & A1 & HB1 & HG1).
      destruct (views22 pre ch ws we (interval (tm s)) rr QP RR) as (VA & VF & VC).
      subst r p. unfold mstep22. cbn [p_phase p_stop p_upd p_interval p_latency p_timeout p_a p_off p_size p_t p_missed].
      rewrite VA, VF, HU, VC. cbn [app]. rewrite andb_false_r.
      rewrite N.eqb_refl. cbn [negb].
      rewrite Esum, KT.
      replace ((2 * (kk * interval (tm s))) mod 2 =? 0) with true by (symmetry; apply N.eqb_eq; rewrite (N.mul_comm 2); apply N.mod_mul; discriminate).
      cbn [negb]. replace (2 * (kk * interval (tm s)) / 2) with (kk * interval (tm s)) by (symmetry; rewrite (N.mul_comm 2); apply N.div_mul; discriminate).
      replace ((kk * interval (tm s)) mod interval (tm s) =? 0) with true by (symmetry; apply N.eqb_eq; apply N.mod_mul; clear - I2; lia).
      cbn [orb negb].
      replace ((interval (tm s) <=? kk * interval (tm s)) && (kk * interval (tm s) <=? (latency (tm s) + 1) * interval (tm s))) with true
        by (symmetry; apply andb_true_intro; split; apply N.leb_le; [clear - K1; nia|apply N.mul_le_mono_r; exact K2]).
      cbn [negb]. rewrite <- KT. rewrite Ecov. cbn [negb].
      eexists. split; [reflexivity|]. split; [exact HG1|].
      unfold T22. cbn [p_phase]. split; [exact S1|]. split; [exact HB1|]. split; [rewrite TM1; reflexivity|].
      exists 0. rewrite TM1, A1. reflexivity.
    + (* Timeout *)
      pose proof (missed_event c s s' r Hst' HB HG H Hr) as ME.
      assert (EL : lost22 s = (conn_timeout (tm s) <=? tsle (cs s)) || (true && (5 <=? k))).
      { unfold lost22. rewrite Hst. cbn [lstate_eqb andb]. f_equal. rewrite Hk. clear - I2.
        destruct (5 <=? k) eqn:E; [apply N.leb_le; apply N.leb_le in E; nia|apply N.leb_gt; apply N.leb_gt in E; nia]. }
      subst p. unfold mstep22. cbn [p_phase p_stop p_upd p_interval p_latency p_timeout p_a p_off p_size p_t p_missed].
      destruct (lost22 s) eqn:L.
      * destruct ME as (it & Er & Ha & NI' & HG'). subst r. rewrite Ha, <- EL. cbn [negb]. rewrite andb_false_r.
        eexists. split; [reflexivity|]. split; [exact HG'|exact NI'].
      * destruct ME as (ch & ws & we & Er & S1 & TM1 & A1 & KT & Ecov & _ & HB1 & HG1). subst r.
        cbn [has_adv22 existsb changed_details fold_left find_ce]. rewrite <- EL. cbn [negb].
        rewrite N.eqb_refl. cbn [negb].
        replace (tw_size (tm s) =? 0) with false in Ecov by (symmetry; apply N.eqb_neq; exact HZ).
        rewrite KT in Ecov.
        replace (tsle (cs s) + interval (tm s) + (tw_off (tm s) + tw_size (tm s))) with (tsle (cs s) + interval (tm s) + tw_off (tm s) + tw_size (tm s)) in Ecov by (clear; lia).
        cbn [orb]. rewrite Ecov. cbn [negb].
        eexists. split; [reflexivity|]. split; [exact HG1|].
        unfold T22. cbn [p_phase]. split; [rewrite S1; exact Hst|]. split; [exact HB1|]. split; [rewrite TM1; exact HZ|].
        exists (k + 1). rewrite TM1, A1, KT. split; [rewrite Hk; clear; lia|reflexivity].
    + inversion H; subst s' r. exists p. split; [reflexivity|]. split; [unfold Glob; cbn; auto|]. unfold T22. rewrite PH.
      split; [exact Hst|]. split; [unfold base22; cbn; auto 10|]. split; [exact HZ|]. exists k. split; [exact Hk|exact Ep].
    + inversion H; subst s' r. exists p. split; [reflexivity|]. split; [unfold Glob; cbn; auto|]. unfold T22. rewrite PH.
      split; [exact Hst|]. split; [unfold base22; cbn; auto 10|]. split; [exact HZ|]. exists k. split; [exact Hk|exact Ep].
    + inversion H; subst s' r. exists p. split; [reflexivity|]. split; [exact HG|]. unfold T22. rewrite PH. eauto 10.
  - (* connected *)
    unfold T22 in HT. rewrite PH in HT. destruct HT as (Hst & HB & HZ & k & Ep).
    assert (Hst' : st s = Connecting \/ st s = Connected) by (right; exact Hst).
    pose proof (LLProofsC27Sim.in_conn_of s Hst') as IC.
    pose proof HB as (B1 & B3 & B4 & B5 & B6 & B7 & BT). pose proof BT as (I1 & I2 & I3 & I4 & I5 & I6 & I7 & I8 & I9).
    destruct o; try discriminate Ho.
    + cbn [lstep] in H. rewrite Hst in H. inversion H; subst s' r. exists p. split; [reflexivity|]. split; [exact HG|]. unfold T22. rewrite PH. eauto 10.
    + cbn [lstep] in H. rewrite Hst in H. inversion H; subst s' r. exists p. split; [reflexivity|]. split; [exact HG|]. unfold T22. rewrite PH. eauto 10.
    + cbn [lstep] in H. rewrite Hst in H. inversion H; subst s' r. exists p. split; [reflexivity|]. split; [exact HG|]. unfold T22. rewrite PH. eauto 10.
    + (* Ev *)
      cbn [op_ok22] in Ho. apply andb_prop in Ho. destruct Ho as [HL HPd]. apply negb_true_iff in HL.
      pose proof (pdus_ok22_norm c pdus HPd) as HPn. pose proof (pdus_ok22_updates c pdus HPd) as HU.
      destruct (neutral_event c s evts pdus s' r Hst' HB HG HL HPn H Hr HX) as (kk & ch & ws & we & pre & rr & Er & QP & RR & K1 & K2 & KT & Esum & Ecov & S1 & TM1 & A1 & HB1 & HG1).
      destruct (views22 pre ch ws we (interval (tm s)) rr QP RR) as (VA & VF & VC).
      subst r p. unfold mstep22. cbn [p_phase p_stop p_upd p_interval p_latency p_timeout p_a p_off p_size p_t p_missed].
      rewrite VA, VF, HU, VC. cbn [app]. rewrite andb_false_r.
      rewrite N.eqb_refl. cbn [negb].
      rewrite Esum, KT.
      replace ((2 * (kk * interval (tm s))) mod 2 =? 0) with true by (symmetry; apply N.eqb_eq; rewrite (N.mul_comm 2); apply N.mod_mul; discriminate).
      cbn [negb]. replace (2 * (kk * interval (tm s)) / 2) with (kk * interval (tm s)) by (symmetry; rewrite (N.mul_comm 2); apply N.div_mul; discriminate).
      replace ((kk * interval (tm s)) mod interval (tm s) =? 0) with true by (symmetry; apply N.eqb_eq; apply N.mod_mul; clear - I2; lia).
      cbn [orb negb].
      replace ((interval (tm s) <=? kk * interval (tm s)) && (kk * interval (tm s) <=? (latency (tm s) + 1) * interval (tm s))) with true
        by (symmetry; apply andb_true_intro; split; apply N.leb_le; [clear - K1; nia|apply N.mul_le_mono_r; exact K2]).
      cbn [negb]. rewrite <- KT. rewrite Ecov. cbn [negb].
      eexists. split; [reflexivity|]. split; [exact HG1|].
      unfold T22. cbn [p_phase]. split; [exact S1|]. split; [exact HB1|]. split; [rewrite TM1; reflexivity|].
      exists 0. rewrite TM1, A1. reflexivity.
    + (* Timeout *)
      pose proof (missed_event c s s' r Hst' HB HG H Hr) as ME.
      assert (EL : lost22 s = (conn_timeout (tm s) <=? tsle (cs s)) || (false && (5 <=? k))).
      { unfold lost22. rewrite Hst. reflexivity. }
      subst p. unfold mstep22. cbn [p_phase p_stop p_upd p_interval p_latency p_timeout p_a p_off p_size p_t p_missed].
      destruct (lost22 s) eqn:L.
      * destruct ME as (it & Er & Ha & NI' & HG'). subst r. rewrite Ha, <- EL. cbn [negb]. rewrite andb_false_r.
        eexists. split; [reflexivity|]. split; [exact HG'|exact NI'].
      * destruct ME as (ch & ws & we & Er & S1 & TM1 & A1 & KT & Ecov & Esum & HB1 & HG1). subst r.
        cbn [has_adv22 existsb changed_details fold_left find_ce]. rewrite <- EL. cbn [negb orb].
        rewrite N.eqb_refl. cbn [negb].
        rewrite HZ in Ecov. cbn [N.eqb] in Ecov. rewrite KT in Ecov. rewrite !N.add_0_r. rewrite !N.add_0_r in Ecov. rewrite Ecov. cbn [negb].
        rewrite (Esum HZ), KT.
        replace (2 * (tsle (cs s) + interval (tm s)) / 2) with (tsle (cs s) + interval (tm s)) by (symmetry; rewrite (N.mul_comm 2); apply N.div_mul; discriminate).
        rewrite N.eqb_refl. cbn [negb].
        eexists. split; [reflexivity|]. split; [exact HG1|].
        unfold T22. cbn [p_phase]. split; [rewrite S1; exact Hst|]. split; [exact HB1|]. split; [rewrite TM1; exact HZ|].
        exists (k + 1). rewrite TM1, A1, KT. reflexivity.
    + inversion H; subst s' r. exists p. split; [reflexivity|]. split; [unfold Glob; cbn; auto|]. unfold T22. rewrite PH.
      split; [exact Hst|]. split; [unfold base22; cbn; auto 10|]. split; [exact HZ|]. exists k. exact Ep.
    + inversion H; subst s' r. exists p. split; [reflexivity|]. split; [unfold Glob; cbn; auto|]. unfold T22. rewrite PH.
      split; [exact Hst|]. split; [unfold base22; cbn; auto 10|]. split; [exact HZ|]. exists k. exact Ep.
    + inversion H; subst s' r. exists p. split; [reflexivity|]. split; [exact HG|]. unfold T22. rewrite PH. eauto 10.
  - unfold T22 in HT. rewrite PH in HT. contradiction.
Qed.

Lemma Sim22_init c : Sim22 (linit c) (minit22 c).
Proof. split; [unfold Glob; cbn; auto|reflexivity]. Qed.

Theorem monitor22_accepts_env c : cfg_ok22 c = true ->
  forall ops s p, Sim22 s p -> env22 c s ops = true -> mrun22 c p (lrun c s ops) = Ok.
Proof.
  intros Hc. induction ops as [|o t IH]; intros s p HS He; [reflexivity|].
  cbn [env22] in He. cbn [lrun]. destruct (lstep c s o) as [s1 r] eqn:E. cbn [fst snd] in He.
  apply andb_prop in He. destruct He as [He Ht]. apply andb_prop in He. destruct He as [He Hx]. apply andb_prop in He. destruct He as [Ho Hn].
  assert (Hr : r <> OCrash) by (intros ->; discriminate Hn).
  destruct (sim22_step c s p o s1 r Hc HS Ho E Hr Hx) as (p1 & M1 & HS1).
  cbn [mrun22]. rewrite M1. apply IH; assumption.
Qed.

Theorem monitor22_accepts_partial c ops :
  cfg_ok22 c = true -> env22 c (linit c) ops = true -> accepts22 c (trace_of c ops).
Proof. intros Hc He. unfold accepts22, trace_of. apply (monitor22_accepts_env c Hc ops _ _ (Sim22_init c) He). Qed.

(* ========================================================================================== the converse, specification level *)
(* every CONNECT_IND that is addressed to this device and valid in the specification's sense (LLSpecC22.connect_valid:
   timing ranges, hop increment 5..16, at least two used channels) is accepted and the first connection event is scheduled
   with the requested interval *)
Theorem valid_request_accepted c s hdr0 body :
  c_sca c <= 500 -> length (ChanMapModel.tbl (chan s)) = 37%nat ->
  addressed_to_us c hdr0 body = true -> connect_valid body = true ->
  exists s' it, do_adv_received c s hdr0 body = Some (s', it) /\ st s' = Connecting /\
                exists chn ws we, In (ICe chn ws we (rd16 body 22 * 1250)) it.
Proof.
  intros Hc Lt Ha Hv. unfold connect_valid in Hv.
  apply andb_prop in Hv. destruct Hv as [Hv Hu]. apply andb_prop in Hv. destruct Hv as [Ht Hh].
  pose proof (addressed_len _ _ _ Ha) as Lb.
  assert (Lm : length (slice body 28 5) = 5%nat) by (apply slice_len; rewrite Lb; repeat constructor).
  pose proof (ChanMapProofs.reset_result (chan s) (slice body 28 5) (N.land (byte body 33) 31) Lm Lt) as R.
  destruct (ChanMapModel.reset_impl (chan s) (slice body 28 5) (N.land (byte body 33) 31)) as [ch r] eqn:E.
  destruct R as (Er & _).
  assert (Hr : r = ChanMapModel.OBool true).
  { rewrite Er. f_equal. apply andb_true_intro. split.
    - exact Hh.
    - unfold ChanMapSpec.valid_map. unfold used_channels in Hu. apply Nat.leb_le. apply N.leb_le in Hu. clear - Hu. lia. }
  clear Er. subst r. exact (valid_request_connects c s hdr0 body ch Hc Ha Ht E).
Qed.

(* ========================================================================================== two updates that look alike *)
(* Two connection updates with the same interval / latency / timeout and DIFFERENT transmit windows (offset 3 then 1):
   connection_changed reports the same three values twice.  The monitor judges the second instant against the second
   update's window (applied_update consumes what was applied); a trace in which the second instant's window sits at the
   FIRST update's offset is rejected.  (Regression of the false alarm at the thorough tier, docs/C22.md.) *)
Definition upd_pdu (wsz woff iv lat tmo inst : N) : pdu :=
  (3, [0; wsz; woff mod 256; woff / 256; iv mod 256; iv / 256; lat mod 256; lat / 256; tmo mod 256; tmo / 256; inst mod 256; inst / 256]).
Definition session22_like_updates : list lop :=
  [Run; connect_with 3 11 24 0 72; Ev 0 []; Ev 0 [upd_pdu 2 3 80 0 200 3]; Ev 0 []; Ev 0 []; Ev 0 [upd_pdu 2 1 80 0 200 8];
   Ev 0 []; Ev 0 []; Ev 0 []; Ev 0 []; Ev 0 []].
Definition shift_ce (d : N) (r : lout) : lout :=
  match r with
  | OItems it => OItems (map (fun i => match i with ICe ch s e iv => ICe ch (s + d) (e + d) iv | _ => i end) it)
  | _ => r
  end.
Fixpoint tamper (n : nat) (d : N) (tr : list (lop * lout)) : list (lop * lout) :=
  match tr, n with
  | [], _ => []
  | (o, r) :: t, O => (o, shift_ce d r) :: t
  | x :: t, S n' => x :: tamper n' d t
  end.
Lemma like_updates_both_applied :
  exists it1 it2 d,
    nth_error (trace_of cfg_base session22_like_updates) 4 = Some (Ev 0 [], OItems it1) /\ In (ICb (EvChanged d)) it1 /\
    nth_error (trace_of cfg_base session22_like_updates) 9 = Some (Ev 0 [], OItems it2) /\ In (ICb (EvChanged d)) it2.
Proof. vm_compute. do 3 eexists. split; [reflexivity|]. split; [simpl; tauto|]. split; [reflexivity|]. simpl; tauto. Qed.
Lemma like_updates_accepted : mrun22 cfg_base (minit22 cfg_base) (trace_of cfg_base session22_like_updates) = Ok.
Proof. vm_compute. reflexivity. Qed.
Lemma like_updates_wrong_window_rejected :
  mrun22 cfg_base (minit22 cfg_base) (tamper 9 2500 (trace_of cfg_base session22_like_updates)) = Bad 2.
Proof. vm_compute. reflexivity. Qed.

(* the extended environment is inhabited by a session with control PDUs: ping, version, feature request, an unknown opcode,
   LL_REJECT_IND, a connection parameter request, a malformed (short) connection update; the responses are on the air in
   the following events *)
Definition session22_pdus : list lop :=
  [Run; connect_with 3 11 24 0 72; Ev 0 []; Ev 0 [(3, [18])]; Ev 0 [(3, [12; 9; 1; 2; 3; 4])]; Ev 0 [(3, [8; 0; 0; 0; 0; 0; 0; 0; 0])];
   Timeout; Ev 0 [(3, [200]); (3, [13; 59])]; Ev 2 [(3, [0; 1; 2; 3])];
   Ev 0 [(3, [15; 24; 0; 24; 0; 0; 0; 72; 0; 0; 0; 0; 0; 0; 0; 0; 0; 0; 0; 0; 0; 0; 0; 0])]; Ev 0 []; Timeout; Ev 0 []].
Lemma session22_pdus_env : c_enc cfg_base = false /\ env22 cfg_base (linit cfg_base) session22_pdus = true.
Proof. vm_compute. split; reflexivity. Qed.
